// Unit `xrefread` (C02 primary, C01, C14): pdf/src/parser/parse_xref.rs
//   parse_xref_table_and_trailer    classic cross-reference table text -> sections + trailer   (ISO 32000-1 7.5.4, 7.5.5)
//   parse_xref_stream_and_trailer   cross-reference stream object -> sections + trailer        (ISO 32000-1 7.5.8)
//   read_xref_and_trailer_at        dispatcher: keyword `xref` => table reader, else stream reader
//   XRefSection::{new, add_free_entry, add_inuse_entry} (xref.rs), the two `Deref` impls of object/stream.rs
// Abstract callees (env stubs, contracts proved in other units are restated and named at the stub):
//   Lexer::{next, peek, next_expect, back, get_pos} (units/lexer), parse_xref_section_from_stream (units/xrefstm),
//   XRefInfo::from_dict (units/expansions); parse_indirect_stream, parse_with_lexer, Stream::data (decode) stay abstract.
use vstd::prelude::*;
use std::ops::Deref;
//@@ INCLUDE _common/error_macros.rs

// Leaves of /repo that only the external_body helper `hoist_substr_eq` calls (not under Verus).
impl<'a> Substr<'a> {
//@@ fn Substr::equals
}
impl<'a> PartialEq<&str> for Substr<'a> {
//@@ fn Substr::eq_str
}

verus! {
global size_of usize == 8;

//@@ PDFERROR

pub type ObjNr = u64;
pub type GenNr = u64;

//@@ enum XRef
//@@ struct XRefSection
//@@ struct XRefInfo
//@@ struct ParseOptions
//@@ struct PlainRef
//@@ struct Lexer
//@@ struct Substr
//@@ struct PdfStream
//@@ struct StreamInfo
//@@ struct Stream

//@@ DEVIATIONS

// =====================================================================================================================
// ISO 32000-1 7.2 token function -- the specification of units/lexer (its seven deviations are all repaired in /repo,
// so the plain ISO text is restated; `next_is_iso_token` etc. are proved against exactly these functions there)
// =====================================================================================================================
pub open spec fn is_ws(b: u8) -> bool { b == 0 || b == 9 || b == 10 || b == 12 || b == 13 || b == 32 }
pub open spec fn is_delim(b: u8) -> bool { b == 40 || b == 41 || b == 60 || b == 62 || b == 91 || b == 93 || b == 123 || b == 125 || b == 47 || b == 37 }
pub open spec fn is_reg(b: u8) -> bool { !is_ws(b) && !is_delim(b) }
pub open spec fn is_eol(b: u8) -> bool { b == 10 || b == 13 }
pub open spec fn ws_end(buf: Seq<u8>, p: int) -> int decreases buf.len() - p {
    if 0 <= p < buf.len() && is_ws(buf[p]) { ws_end(buf, p + 1) } else { p }
}
pub open spec fn reg_end(buf: Seq<u8>, p: int) -> int decreases buf.len() - p {
    if 0 <= p < buf.len() && is_reg(buf[p]) { reg_end(buf, p + 1) } else { p }
}
pub open spec fn eol_after(buf: Seq<u8>, p: int) -> Option<int> decreases buf.len() - p {
    if p < 0 || p >= buf.len() { None } else if is_eol(buf[p]) { Some(p + 1) } else { eol_after(buf, p + 1) }
}
#[verifier::opaque]
pub open spec fn token_start(buf: Seq<u8>, p: int) -> Option<int> decreases buf.len() - p {
    let q = ws_end(buf, p);
    if p < 0 || q < p || q >= buf.len() { None }
    else if buf[q] == 37 {
        match eol_after(buf, q + 1) {
            Some(e) => if p < e <= buf.len() { token_start(buf, e) } else { None },
            None => None,
        }
    } else { Some(q) }
}
#[verifier::opaque]
pub open spec fn token_end(buf: Seq<u8>, s: int) -> int {
    if is_delim(buf[s]) {
        if buf[s] == 47 { reg_end(buf, s + 1) }
        else if s + 1 < buf.len() && ((buf[s] == 60 && buf[s+1] == 60) || (buf[s] == 62 && buf[s+1] == 62)) { s + 2 }
        else { s + 1 }
    } else { reg_end(buf, s) }
}
// the next token at or after p: its bytes and the position just behind it
pub open spec fn tok_at(buf: Seq<u8>, p: int) -> Option<(Seq<u8>, int)> {
    match token_start(buf, p) { Some(s) => Some((buf.subrange(s, token_end(buf, s)), token_end(buf, s))), None => None }
}

// ---- facts about the token function (proved here, from the definitions) ------------------------------------------
pub proof fn lemma_ws_end(buf: Seq<u8>, p: int)
    requires 0 <= p <= buf.len()
    ensures p <= ws_end(buf, p) <= buf.len(),
        forall|i: int| p <= i < ws_end(buf, p) ==> is_ws(buf[i]),
        ws_end(buf, p) < buf.len() ==> !is_ws(buf[ws_end(buf, p)]),
    decreases buf.len() - p
{ if p < buf.len() && is_ws(buf[p]) { lemma_ws_end(buf, p + 1); } }
pub proof fn lemma_reg_end(buf: Seq<u8>, p: int)
    requires 0 <= p <= buf.len()
    ensures p <= reg_end(buf, p) <= buf.len(), forall|i: int| p <= i < reg_end(buf, p) ==> is_reg(buf[i]),
    decreases buf.len() - p
{ if p < buf.len() && is_reg(buf[p]) { lemma_reg_end(buf, p + 1); } }
pub proof fn lemma_eol_bound(buf: Seq<u8>, p: int)
    requires 0 <= p
    ensures eol_after(buf, p) matches Some(e) ==> p < e <= buf.len() && is_eol(buf[e - 1])
    decreases buf.len() - p
{ if p < buf.len() && !is_eol(buf[p]) { lemma_eol_bound(buf, p + 1); } }
// a token starts at or after p, on a byte that is neither white-space nor `%`, and is either p itself or preceded by white-space
pub proof fn lemma_token_start(buf: Seq<u8>, p: int)
    requires 0 <= p <= buf.len()
    ensures token_start(buf, p) matches Some(s) ==> p <= s < buf.len() && !is_ws(buf[s]) && buf[s] != 37 && (s == p || is_ws(buf[s - 1]))
    decreases buf.len() - p
{
    reveal(token_start);
    lemma_ws_end(buf, p);
    let q = ws_end(buf, p);
    if q < buf.len() && buf[q] == 37 {
        lemma_eol_bound(buf, q + 1);
        match eol_after(buf, q + 1) {
            Some(e) => { if p < e <= buf.len() { lemma_token_start(buf, e); } }
            None => {}
        }
    }
}
pub proof fn lemma_token_start_self(buf: Seq<u8>, s: int)
    requires 0 <= s < buf.len(), !is_ws(buf[s]), buf[s] != 37
    ensures token_start(buf, s) == Some(s)
{ reveal(token_start); }
// a token is not empty, lies inside the buffer and contains no white-space
pub proof fn lemma_token_end(buf: Seq<u8>, s: int)
    requires 0 <= s < buf.len(), !is_ws(buf[s]), buf[s] != 37
    ensures s < token_end(buf, s) <= buf.len(), forall|i: int| s <= i < token_end(buf, s) ==> !is_ws(buf[i])
{
    reveal(token_end);
    lemma_reg_end(buf, s + 1);
    lemma_reg_end(buf, s);
}
// both at once: what a successful Lexer::next has consumed
pub proof fn lemma_tok(buf: Seq<u8>, p: int)
    requires 0 <= p <= buf.len()
    ensures tok_at(buf, p) matches Some((t, e)) ==> p < e <= buf.len() && t.len() > 0
{
    lemma_token_start(buf, p);
    match token_start(buf, p) { Some(s) => { lemma_token_end(buf, s); } None => {} }
}

// =====================================================================================================================
// keywords and numbers
// =====================================================================================================================
// bytes of an ASCII string literal (UTF-8 of an ASCII character is the character)
pub open spec fn ascii(s: Seq<char>) -> bool { forall|i: int| 0 <= i < s.len() ==> (#[trigger] s[i] as u32) < 128 }
pub open spec fn str_bytes(s: &str) -> Seq<u8> { Seq::new(s@.len(), |i: int| s@[i] as u8) }
pub open spec fn kw_xref() -> Seq<u8> { seq![0x78u8, 0x72, 0x65, 0x66] }
pub open spec fn kw_trailer() -> Seq<u8> { seq![0x74u8, 0x72, 0x61, 0x69, 0x6c, 0x65, 0x72] }
pub open spec fn kw_n() -> Seq<u8> { seq![0x6eu8] }
pub open spec fn kw_f() -> Seq<u8> { seq![0x66u8] }
pub proof fn lemma_keywords()
    ensures str_bytes("xref") == kw_xref(), str_bytes("trailer") == kw_trailer(), str_bytes("n") == kw_n(), str_bytes("f") == kw_f(),
        ascii("xref"@), ascii("trailer"@), ascii("n"@), ascii("f"@), kw_n() != kw_f(),
{
    reveal_strlit("xref"); reveal_strlit("trailer"); reveal_strlit("n"); reveal_strlit("f");
    assert("xref"@.len() == 4); assert("trailer"@.len() == 7); assert("n"@.len() == 1); assert("f"@.len() == 1);
    assert(str_bytes("xref") =~= kw_xref());
    assert(str_bytes("trailer") =~= kw_trailer());
    assert(str_bytes("n") =~= kw_n());
    assert(str_bytes("f") =~= kw_f());
    assert(kw_n()[0] != kw_f()[0]);
}

// 7.3.3 / 7.5.4: the numbers of a cross-reference table are unsigned decimal integers ("10-digit byte offset",
// "5-digit generation number", subsection header "two numbers"): a non-empty run of digits.
pub open spec fn digit(b: u8) -> bool { 48 <= b <= 57 }
pub open spec fn all_digits(s: Seq<u8>) -> bool { forall|i: int| 0 <= i < s.len() ==> digit(#[trigger] s[i]) }
pub open spec fn dec_val(s: Seq<u8>) -> nat decreases s.len() {
    if s.len() == 0 { 0 } else { dec_val(s.drop_last()) * 10 + (s.last() - 48) as nat }
}
#[verifier::opaque]
pub open spec fn num_tok(t: Seq<u8>) -> Option<nat> {
    let k: int = if TOL_PLUS_SIGN_ON_TABLE_NUMBERS() && t.len() > 0 && t[0] == 43 { 1 } else { 0 };
    let d = t.subrange(k, t.len() as int);
    if d.len() > 0 && all_digits(d) { Some(dec_val(d)) } else { None }
}
// a number that does not fit the field it is stored in is an error (implementation limit)
pub open spec fn u32_tok(t: Seq<u8>) -> Option<u32> { match num_tok(t) { Some(n) => if n <= u32::MAX { Some(n as u32) } else { None }, None => None } }
pub open spec fn u64_tok(t: Seq<u8>) -> Option<u64> { match num_tok(t) { Some(n) => if n <= u64::MAX { Some(n as u64) } else { None }, None => None } }
pub open spec fn usize_tok(t: Seq<u8>) -> Option<usize> { match num_tok(t) { Some(n) => if n <= usize::MAX { Some(n as usize) } else { None }, None => None } }
// std `FromStr` for the three integer types used here (Substr::to::<T> = from_utf8 + str::parse)
pub trait FromToken: Sized { spec fn denoted(tok: Seq<u8>) -> Option<Self>; }
impl FromToken for u32 { open spec fn denoted(tok: Seq<u8>) -> Option<u32> { u32_tok(tok) } }
impl FromToken for u64 { open spec fn denoted(tok: Seq<u8>) -> Option<u64> { u64_tok(tok) } }
impl FromToken for usize { open spec fn denoted(tok: Seq<u8>) -> Option<usize> { usize_tok(tok) } }
// the keyword `trailer` is not a number (the reader's early exit "declares n entries, but only i follow")
pub proof fn lemma_trailer_not_number()
    ensures num_tok(kw_trailer()) is None
{
    reveal(num_tok);
    let d = kw_trailer().subrange(0, 7);
    assert(d[0] == 0x74u8);
    assert(!digit(d[0]));
}

// =====================================================================================================================
// environment: Lexer / Substr (contracts proved in units/lexer), primitives, parser, stream decoding
// =====================================================================================================================
impl<'a> Substr<'a> {
    pub open spec fn swf(&self) -> bool { self.file_offset + self.slice@.len() <= usize::MAX }
    pub open spec fn cut_from(&self, buf: Seq<u8>, base: int, lo: int, hi: int) -> bool {
        0 <= lo <= hi <= buf.len() && self.slice@ == buf.subrange(lo, hi) && self.file_offset == base + lo
    }
    // lexer/mod.rs Substr::to (abstract callee; trusted model of std `str::parse::<uN>`: optional `+`, then one or more
    // ASCII digits, value must fit; anything else -- empty, `-`, other bytes, invalid UTF-8 -- is an error)
    #[verifier::external_body]
    pub fn to<T: FromToken>(&self) -> (r: Result<T>)
        ensures match T::denoted(self.slice@) { Some(v) => r matches Ok(x) && x == v, None => r is Err }
    { unimplemented!() }
}
// `Substr == &str` (impl PartialEq<&str> for Substr -> Substr::equals -> slice == str::as_bytes), R7
#[verifier::external_body]
fn hoist_substr_eq(a: &Substr, b: &'static str) -> (r: bool)
    ensures ascii(b@) ==> r == (a.slice@ == str_bytes(b))
{ *a == b }

impl<'a> Lexer<'a> {
    // units/lexer: the position invariant + slice length bound + file offsets of the buffer fit
    pub open spec fn wf(&self) -> bool {
        self.pos <= self.buf@.len() && self.buf@.len() <= isize::MAX && self.file_offset + self.buf@.len() <= usize::MAX
    }
    pub open spec fn same_data(&self, o: &Lexer<'a>) -> bool { self.buf@ == o.buf@ && self.file_offset == o.file_offset }

    // proved in units/lexer: Lexer::next/next_wf, next_eof_keeps_pos, next_is_iso_token
    #[verifier::external_body]
    pub fn next(&mut self) -> (r: Result<Substr<'a>>)
        requires old(self).wf()
        ensures final(self).wf() && final(self).same_data(old(self)),
            token_start(old(self).buf@, old(self).pos as int) is None ==> final(self).pos == old(self).pos && r matches Err(PdfError::EOF),
            token_start(old(self).buf@, old(self).pos as int) matches Some(s) ==> (r matches Ok(sub) && final(self).pos == token_end(old(self).buf@, s)
                && sub.cut_from(old(self).buf@, old(self).file_offset as int, s, final(self).pos as int) && sub.swf()),
    { unimplemented!() }
    // proved in units/lexer: Lexer::peek/peek_eof_is_empty, peek_is_iso_token
    #[verifier::external_body]
    pub fn peek(&self) -> (r: Result<Substr<'a>>)
        requires self.wf()
        ensures
            token_start(self.buf@, self.pos as int) is None ==> (r matches Ok(sub) && sub.cut_from(self.buf@, self.file_offset as int, self.pos as int, self.pos as int)),
            token_start(self.buf@, self.pos as int) matches Some(s) ==> (r matches Ok(sub) && sub.cut_from(self.buf@, self.file_offset as int, s, token_end(self.buf@, s)) && sub.swf()),
    { unimplemented!() }
    // proved in units/lexer: Lexer::next_expect/expect_wf, expect_eof, expect_compares_iso_token
    // (there `str_bytes` is the opaque `str::as_bytes`; here it is spelled out for ASCII literals)
    #[verifier::external_body]
    pub fn next_expect(&mut self, expected: &'static str) -> (r: Result<()>)
        requires old(self).wf(), ascii(expected@)
        ensures final(self).wf() && final(self).same_data(old(self)),
            token_start(old(self).buf@, old(self).pos as int) is None ==> final(self).pos == old(self).pos && r matches Err(PdfError::EOF),
            token_start(old(self).buf@, old(self).pos as int) matches Some(s) ==> final(self).pos == token_end(old(self).buf@, s)
                && (r is Ok <==> old(self).buf@.subrange(s, token_end(old(self).buf@, s)) == str_bytes(expected)),
    { unimplemented!() }
    // proved in units/lexer: Lexer::back/back_wf, back_previous_word, back_skipped_is_ws, back_word_is_not_ws
    #[verifier::external_body]
    pub fn back(&mut self) -> (r: Result<Substr<'a>>)
        requires old(self).wf()
        ensures final(self).wf() && final(self).same_data(old(self)),
            r matches Ok(sub) && final(self).pos + sub.slice@.len() <= old(self).pos
                && sub.cut_from(old(self).buf@, old(self).file_offset as int, final(self).pos as int, final(self).pos + sub.slice@.len()),
            r matches Ok(sub) && forall|i: int| final(self).pos + sub.slice@.len() <= i < old(self).pos ==> is_ws(old(self).buf@[i]),
            r matches Ok(sub) && (forall|i: int| final(self).pos <= i < final(self).pos + sub.slice@.len() ==> !is_ws(old(self).buf@[i]))
                && (final(self).pos > 0 ==> is_ws(old(self).buf@[final(self).pos - 1])),
    { unimplemented!() }
    // proved in units/lexer: Lexer::get_pos/get_pos_is_pos
    #[verifier::external_body]
    pub fn get_pos(&self) -> (r: usize) ensures r == self.pos { unimplemented!() }
    // lexer/mod.rs: `self.next().and_then(|word| word.to::<T>())` -- the composition of the two contracts above
    // (std Result::and_then; not under proof in units/lexer)
    #[verifier::external_body]
    pub fn next_as<T: FromToken>(&mut self) -> (r: Result<T>)
        requires old(self).wf()
        ensures final(self).wf() && final(self).same_data(old(self)),
            token_start(old(self).buf@, old(self).pos as int) is None ==> final(self).pos == old(self).pos && r is Err,
            token_start(old(self).buf@, old(self).pos as int) matches Some(s) ==> final(self).pos == token_end(old(self).buf@, s)
                && match T::denoted(old(self).buf@.subrange(s, token_end(old(self).buf@, s))) { Some(v) => r matches Ok(x) && x == v, None => r is Err },
    { unimplemented!() }
}

// ---- primitives (primitive.rs): only the two variants these readers construct / take apart -------------------------
#[verifier::external_body]
pub struct Dictionary { _p: () }
impl Clone for Dictionary {
    #[verifier::external_body]
    fn clone(&self) -> (r: Dictionary) ensures r == *self { unimplemented!() }
}
#[verifier::external_body]
pub struct StreamInner { _p: () }
#[verifier::external_body]
pub struct OtherPrimitive { _p: () }
pub enum Primitive { Dictionary(Dictionary), Stream(PdfStream), Other(OtherPrimitive) }
impl Primitive {
    // primitive.rs Primitive::into_dictionary (abstract callee; two-arm match)
    #[verifier::external_body]
    pub fn into_dictionary(self) -> (r: Result<Dictionary>)
        ensures match self { Primitive::Dictionary(d) => r matches Ok(x) && x == d, _ => r is Err }
    { unimplemented!() }
}
pub struct ParseFlags { pub bits: u16 }
pub open spec fn flags_dict() -> ParseFlags { ParseFlags { bits: 4 } }
#[verifier::external_body]
pub struct Decoder { _p: () }
#[verifier::external_body]
pub struct StreamFilter { _p: () }
#[verifier::external_body]
pub struct FileSpec { _p: () }
#[verifier::external_body]
pub struct StreamData { _p: () }
pub trait Object {}
impl Object for XRefInfo {}

// what a `Resolve` lets a parser see: its options, and (abstractly) the objects behind references
#[verifier::external_body]
pub struct Store { _p: () }
pub trait Resolve {
    spec fn store(&self) -> Store;
    spec fn opts(&self) -> ParseOptions;
}

// ---- abstract parsers: deterministic functions of the lexer state and the resolver ------------------------------------
// the direct object (parse_with_lexer, parser/mod.rs) at a position, and where it ends
pub uninterp spec fn object_at(buf: Seq<u8>, off: int, pos: int, flags: ParseFlags, st: Store) -> Option<(Primitive, int)>;
// the indirect stream object `n g obj << .. >> stream .. endstream endobj` (parse_indirect_stream, parser/parse_object.rs)
pub uninterp spec fn indirect_stream_at(buf: Seq<u8>, off: int, pos: int, st: Store) -> Option<(PlainRef, PdfStream, int)>;
// filters and typed dictionary of a stream (Stream::<XRefInfo>::from_primitive, object/stream.rs)
pub uninterp spec fn typed_stream(s: PdfStream, st: Store) -> Option<Stream<XRefInfo>>;
// the decoded data (Stream::data -> enc::decode / Resolve::get_data_or_decode)
pub uninterp spec fn decoded(s: Stream<XRefInfo>, st: Store) -> Option<Seq<u8>>;
// entries of a cross-reference stream dictionary, ISO 32000-1 Table 17 (read by the derived XRefInfo::from_dict)
pub uninterp spec fn entry_size(d: Dictionary) -> Option<u32>;
pub uninterp spec fn entry_index(d: Dictionary) -> Option<Seq<u32>>;
pub uninterp spec fn entry_w(d: Dictionary) -> Option<Seq<usize>>;

#[verifier::external_body]
pub fn parse_with_lexer(lexer: &mut Lexer, r: &impl Resolve, flags: ParseFlags) -> (res: Result<Primitive>)
    requires old(lexer).wf()
    ensures final(lexer).wf() && final(lexer).same_data(old(lexer)),
        match object_at(old(lexer).buf@, old(lexer).file_offset as int, old(lexer).pos as int, flags, r.store()) {
            Some((p, e)) => res matches Ok(x) && x == p && final(lexer).pos == e && old(lexer).pos <= e,
            None => res is Err },
{ unimplemented!() }
#[verifier::external_body]
pub fn parse_indirect_stream(lexer: &mut Lexer, r: &impl Resolve, decoder: Option<&Decoder>) -> (res: Result<(PlainRef, PdfStream)>)
    requires old(lexer).wf()
    ensures final(lexer).wf() && final(lexer).same_data(old(lexer)),
        match indirect_stream_at(old(lexer).buf@, old(lexer).file_offset as int, old(lexer).pos as int, r.store()) {
            Some((id, s, e)) => res matches Ok(x) && x.0 == id && x.1 == s && final(lexer).pos == e && old(lexer).pos <= e,
            None => res is Err },
{ unimplemented!() }
// R7: bitflags constant `ParseFlags::DICT` (= 1 << 2)
#[verifier::external_body]
fn hoist_flags_dict() -> (r: ParseFlags) ensures r == flags_dict() { unimplemented!() }

impl Stream<XRefInfo> {
    // object/stream.rs `impl<I: Object> Object for Stream<I>` at I = XRefInfo (abstract callee). The three dictionary entries:
    // proved in units/expansions: XRefInfo::from_dict/rd_model (`/Index` absent => `vec![0, size]`; `/Size`, `/W` required)
    #[verifier::external_body]
    pub fn from_primitive(p: Primitive, resolve: &impl Resolve) -> (r: Result<Stream<XRefInfo>>)
        ensures match p {
            Primitive::Stream(s) => match typed_stream(s, resolve.store()) {
                Some(t) => r matches Ok(x) && x == t
                    && entry_size(s.info) == Some(t.info.info.size)
                    && entry_w(s.info) == Some(t.info.info.w@)
                    && t.info.info.index@ == (match entry_index(s.info) { Some(v) => v, None => seq![0u32, t.info.info.size] }),
                None => r is Err },
            _ => r is Err }
    { unimplemented!() }
    // object/stream.rs Stream::data (abstract callee: filter pipeline of units a85enc/hexcodec/flate/rld, or the cache)
    #[verifier::external_body]
    pub fn data(&self, resolve: &impl Resolve) -> (r: Result<Vec<u8>>)
        ensures match decoded(*self, resolve.store()) { Some(d) => r matches Ok(v) && v@ == d, None => r is Err }
    { unimplemented!() }
}

// =====================================================================================================================
// ISO 32000-1 7.5.8.3: one run of cross-reference stream entries -- the specification of units/xrefstm, restated
// =====================================================================================================================
pub open spec fn pow256(k: nat) -> nat decreases k { if k == 0 { 1 } else { 256 * pow256((k - 1) as nat) } }
pub open spec fn be_val(s: Seq<u8>) -> nat decreases s.len() { if s.len() == 0 { 0 } else { be_val(s.drop_last()) * 256 + s.last() as nat } }
pub open spec fn field_at(d: Seq<u8>, off: int, w: int) -> nat { be_val(d.subrange(off, off + w)) }
#[verifier::opaque]
pub open spec fn eoff(k: int, e: int) -> int { k * e }
pub open spec fn entry_type(d: Seq<u8>, k: int, w0: int, w1: int, w2: int) -> nat {
    if w0 == 0 { 1 } else { field_at(d, eoff(k, w0 + w1 + w2), w0) }
}
pub open spec fn entry_f1(d: Seq<u8>, k: int, w0: int, w1: int, w2: int) -> nat { field_at(d, eoff(k, w0 + w1 + w2) + w0, w1) }
pub open spec fn entry_f2(d: Seq<u8>, k: int, w0: int, w1: int, w2: int) -> nat { field_at(d, eoff(k, w0 + w1 + w2) + w0 + w1, w2) }
pub open spec fn xref_of(t: nat, f1: nat, f2: nat) -> XRef {
    if t == 0 { XRef::Free { next_obj_nr: f1 as u64, gen_nr: f2 as u64 } }
    else if t == 1 { XRef::Raw { pos: f1 as usize, gen_nr: f2 as u64 } }
    else if t == 2 { XRef::Stream { stream_id: f1 as u64, index: f2 as usize } }
    else { XRef::Invalid }
}
pub open spec fn entry_at(d: Seq<u8>, k: int, w0: int, w1: int, w2: int) -> XRef {
    xref_of(entry_type(d, k, w0, w1, w2), entry_f1(d, k, w0, w1, w2), entry_f2(d, k, w0, w1, w2))
}
#[verifier::opaque]
pub open spec fn sec_fits(n: int, e: int, len: int) -> bool { n * e <= len }
#[verifier::opaque]
pub open spec fn eff_count(n: int, e: int, len: int) -> int { if n * e > len { len / e } else { n } }
pub open spec fn sec_e(w: Seq<usize>) -> int { w[0] + w[1] + w[2] }
pub open spec fn sec_n(w: Seq<usize>, n: int, len: int) -> int { eff_count(n, sec_e(w), len) }
pub open spec fn types_ok(d: Seq<u8>, n: int, w0: int, w1: int, w2: int) -> bool {
    forall|k: int| 0 <= k < n ==> entry_type(d, k, w0, w1, w2) <= 2
}
pub open spec fn section_entries(d: Seq<u8>, n: int, w0: int, w1: int, w2: int) -> Seq<XRef> {
    Seq::new(n as nat, |k: int| entry_at(d, k, w0, w1, w2))
}
// proved in units/xrefstm: parse_xref_section_from_stream/sec_len3, sec_short_strict, sec_bad_width, sec_bad_type, sec_ok,
// sec_first_id, sec_entries, sec_consumed, sec_proportional (+ panic_free, terminates for ALL widths and counts)
#[verifier::external_body]
fn parse_xref_section_from_stream(first_id: u32, num_entries_0: usize, width: &[usize], data: &mut &[u8], resolve: &impl Resolve) -> (r: Result<XRefSection>)
    ensures
        width@.len() != 3 ==> r is Err,
        width@.len() == 3 && !sec_fits(num_entries_0 as int, sec_e(width@), old(data)@.len() as int) && !resolve.opts().allow_xref_error ==> r is Err,
        width@.len() == 3 && sec_n(width@, num_entries_0 as int, old(data)@.len() as int) > 0 && (width@[0] > 8 || width@[1] > 8 || width@[2] > 8) ==> r is Err,
        r matches Ok(s) ==> types_ok(old(data)@, s.entries@.len() as int, width@[0] as int, width@[1] as int, width@[2] as int),
        width@.len() == 3 && width@[0] <= 8 && width@[1] <= 8 && width@[2] <= 8 && sec_e(width@) > 0
            && (sec_fits(num_entries_0 as int, sec_e(width@), old(data)@.len() as int) || resolve.opts().allow_xref_error)
            && types_ok(old(data)@, sec_n(width@, num_entries_0 as int, old(data)@.len() as int), width@[0] as int, width@[1] as int, width@[2] as int) ==> r is Ok,
        r matches Ok(s) ==> s.first_id == first_id,
        r matches Ok(s) ==> s.entries@ =~= section_entries(old(data)@, sec_n(width@, num_entries_0 as int, old(data)@.len() as int), width@[0] as int, width@[1] as int, width@[2] as int),
        r matches Ok(s) ==> final(data)@ == old(data)@.subrange(eoff(sec_n(width@, num_entries_0 as int, old(data)@.len() as int), sec_e(width@)), old(data)@.len() as int),
        r matches Ok(s) ==> s.entries@.len() <= old(data)@.len(),
{ unimplemented!() }

// =====================================================================================================================
// SPECIFICATION of the two section formats (written from ISO 32000-1 7.5.4 and 7.5.8, not from the code)
// =====================================================================================================================
// a cross-reference (sub)section: first object number and the entries of objects first, first+1, ...
pub struct SecV { pub first: u32, pub entries: Seq<XRef> }
pub open spec fn secv(s: XRefSection) -> SecV { SecV { first: s.first_id, entries: s.entries@ } }
pub open spec fn secvs(s: Seq<XRefSection>) -> Seq<SecV> { Seq::new(s.len(), |k: int| secv(s[k])) }
pub open spec fn total_entries(s: Seq<SecV>) -> nat decreases s.len() {
    if s.len() == 0 { 0 } else { total_entries(s.drop_last()) + s.last().entries.len() }
}

// ---- 7.5.4 classic table ----------------------------------------------------------------------------------------------
// "Each entry shall be exactly 20 bytes long: nnnnnnnnnn ggggg n eol" -- as three tokens: byte offset, generation number and the
// keyword `n` (in use) or `f` (free: "the object number of the next free object", "a generation number").
pub open spec fn entry_spec(buf: Seq<u8>, p: int) -> Option<(XRef, int)> {
    match tok_at(buf, p) { None => None, Some((t1, p1)) =>
    match tok_at(buf, p1) { None => None, Some((t2, p2)) =>
    match tok_at(buf, p2) { None => None, Some((t3, p3)) =>
        if t3 == kw_n() {
            match (usize_tok(t1), u64_tok(t2)) { (Some(o), Some(g)) => Some((XRef::Raw { pos: o, gen_nr: g }, p3)), _ => None }
        } else if t3 == kw_f() {
            match (u64_tok(t1), u64_tok(t2)) { (Some(nx), Some(g)) => Some((XRef::Free { next_obj_nr: nx, gen_nr: g }, p3)), _ => None }
        } else { None }
    }}}
}
// the first n entry lines from p on, in order (None: one of them is malformed or missing)
pub open spec fn entries_spec(buf: Seq<u8>, p: int, n: nat) -> Option<(Seq<XRef>, int)> decreases n {
    if n == 0 { Some((Seq::empty(), p)) } else {
        match entries_spec(buf, p, (n - 1) as nat) { None => None, Some((es, q)) =>
        match entry_spec(buf, q) { None => None, Some((e, q2)) => Some((es.push(e), q2)) } }
    }
}
pub open spec fn prepend(acc: Seq<SecV>, r: Option<(Seq<SecV>, int)>) -> Option<(Seq<SecV>, int)> {
    match r { None => None, Some((rest, q)) => Some((acc + rest, q)) }
}
// "The table shall contain one or more cross-reference subsections ... Each subsection shall begin with a line containing two
// numbers ... the object number of the first object in this subsection and the number of entries"; the table ends at the
// keyword `trailer` (7.5.5). Result: the subsections in file order and the position just behind `trailer`.
// (`p3 > p` always holds -- lemma_entries_progress -- it is spelled out for the termination check of this definition.)
pub open spec fn subsecs_spec(buf: Seq<u8>, p: int) -> Option<(Seq<SecV>, int)> decreases buf.len() - p {
    match tok_at(buf, p) { None => None, Some((t, p1)) =>
        if t == kw_trailer() { Some((Seq::empty(), p1)) } else {
        match u32_tok(t) { None => None, Some(first) =>
        match tok_at(buf, p1) { None => None, Some((t2, p2)) =>
        match u32_tok(t2) { None => None, Some(count) =>
        match entries_spec(buf, p2, count as nat) { None => None, Some((es, p3)) =>
            if p < p3 <= buf.len() { prepend(seq![SecV { first: first, entries: es }], subsecs_spec(buf, p3)) } else { None }
        }}}}}
    }
}
// 7.5.5: "The trailer ... consisting of the keyword trailer followed by a series of key-value pairs enclosed in double angle brackets"
pub open spec fn table_spec(buf: Seq<u8>, off: int, p: int, st: Store) -> Option<(Seq<SecV>, Dictionary, int)> {
    match subsecs_spec(buf, p) { None => None, Some((secs, q)) =>
    match object_at(buf, off, q, flags_dict(), st) { None => None, Some((prim, e)) =>
    match prim { Primitive::Dictionary(d) => Some((secs, d, e)), _ => None } } }
}

// ---- 7.5.8 cross-reference stream -------------------------------------------------------------------------------------------
// Table 17: "Index: An array containing a pair of integers for each subsection in this section. The first integer shall be the first
// object number in the subsection; the second integer shall be the number of entries in the subsection ... Default value: [0 Size]."
pub open spec fn xref_index(d: Dictionary) -> Option<Seq<u32>> {
    match entry_index(d) { Some(v) => Some(v), None => match entry_size(d) { Some(size) => Some(seq![0u32, size]), None => None } }
}
// 7.5.8.2/7.5.8.3: the stream data holds the entries of the first subsection, then those of the second, ...; subsection k is
// /Index pair k and the next run of the data (tolerant mode: a run may be cut short by the end of the data, units/xrefstm)
pub open spec fn run_n(d: Seq<u8>, idx: Seq<u32>, k: int, w: Seq<usize>) -> int { sec_n(w, idx[2 * k + 1] as int, d.len() as int) }
pub open spec fn run_rest(d: Seq<u8>, idx: Seq<u32>, k: int, w: Seq<usize>) -> Seq<u8> { d.subrange(eoff(run_n(d, idx, k, w), sec_e(w)), d.len() as int) }
pub open spec fn stm_secs(d: Seq<u8>, idx: Seq<u32>, k: int, w: Seq<usize>) -> Seq<SecV> decreases idx.len() - 2 * k {
    if k < 0 || 2 * k + 1 >= idx.len() { Seq::empty() } else {
        seq![SecV { first: idx[2 * k], entries: section_entries(d, run_n(d, idx, k, w), w[0] as int, w[1] as int, w[2] as int) }]
            + stm_secs(run_rest(d, idx, k, w), idx, k + 1, w)
    }
}
// a run that must be accepted / must be refused (the contract of units/xrefstm leaves open: no entry read and a width > 8; /W [0 0 0])
pub open spec fn run_good(d: Seq<u8>, n: int, w: Seq<usize>, allow: bool) -> bool {
    w.len() == 3 && w[0] <= 8 && w[1] <= 8 && w[2] <= 8 && sec_e(w) > 0 && (sec_fits(n, sec_e(w), d.len() as int) || allow)
        && types_ok(d, sec_n(w, n, d.len() as int), w[0] as int, w[1] as int, w[2] as int)
}
pub open spec fn run_bad(d: Seq<u8>, n: int, w: Seq<usize>, allow: bool) -> bool {
    w.len() != 3 || (!sec_fits(n, sec_e(w), d.len() as int) && !allow)
        || (sec_n(w, n, d.len() as int) > 0 && (w[0] > 8 || w[1] > 8 || w[2] > 8))
        || !types_ok(d, sec_n(w, n, d.len() as int), w[0] as int, w[1] as int, w[2] as int)
}
pub open spec fn stm_all_good(d: Seq<u8>, idx: Seq<u32>, k: int, w: Seq<usize>, allow: bool) -> bool decreases idx.len() - 2 * k {
    k < 0 || 2 * k + 1 >= idx.len() || (run_good(d, idx[2 * k + 1] as int, w, allow) && stm_all_good(run_rest(d, idx, k, w), idx, k + 1, w, allow))
}
pub open spec fn stm_some_bad(d: Seq<u8>, idx: Seq<u32>, k: int, w: Seq<usize>, allow: bool) -> bool decreases idx.len() - 2 * k {
    0 <= k && 2 * k + 1 < idx.len() && (run_bad(d, idx[2 * k + 1] as int, w, allow) || stm_some_bad(run_rest(d, idx, k, w), idx, k + 1, w, allow))
}
// every subsection of the result is no longer than the decoded data (C14)
pub open spec fn each_bounded(s: Seq<SecV>, bound: int) -> bool { forall|k: int| 0 <= k < s.len() ==> (#[trigger] s[k]).entries.len() <= bound }

// what the stream reader works on: the stream object at p, the trailer that goes with it, its decoded data and /Index, /W
pub struct StmIn { pub trailer: Dictionary, pub end: int, pub data: Seq<u8>, pub idx: Seq<u32>, pub w: Seq<usize> }
// 7.5.8.1: "the trailer dictionary entries are stored in the stream dictionary" -- the trailer IS the stream dictionary.
// (TOL: the code wants one more token behind `endobj` -- in a file it is `startxref` or the next object -- and, if that token is the
//  keyword `trailer`, which ISO forbids behind a cross-reference stream, takes the dictionary following it instead.)
pub open spec fn stm_trailer(buf: Seq<u8>, off: int, q: int, sd: Dictionary, st: Store) -> Option<(Dictionary, int)> {
    match tok_at(buf, q) {
        None => if TOL_XREF_STREAM_NEEDS_FOLLOWING_TOKEN() { None } else { Some((sd, q)) },
        Some((t, q1)) =>
            if t == kw_trailer() && TOL_TRAILER_KEYWORD_AFTER_XREF_STREAM() {
                match object_at(buf, off, q1, flags_dict(), st) { Some((Primitive::Dictionary(d), e)) => Some((d, e)), _ => None }
            } else { Some((sd, q1)) },
    }
}
pub open spec fn stm_input(buf: Seq<u8>, off: int, p: int, st: Store) -> Option<StmIn> {
    match indirect_stream_at(buf, off, p, st) { None => None, Some((id, ps, q)) =>
    match stm_trailer(buf, off, q, ps.info, st) { None => None, Some((tr, e)) =>
    match typed_stream(ps, st) { None => None, Some(ts) =>
    match decoded(ts, st) { None => None, Some(d) =>
    match (xref_index(ps.info), entry_w(ps.info)) {
        (Some(idx), Some(w)) => if idx.len() % 2 == 0 { Some(StmIn { trailer: tr, end: e, data: d, idx: idx, w: w }) } else { None },
        _ => None } } } } }
}

// ---- 7.5.5 / 7.5.8.1: what `startxref` points at -- "the xref keyword" or "the cross-reference stream" object ------------------
pub enum Kind { Table, Stream }
pub open spec fn section_kind(buf: Seq<u8>, p: int) -> Option<(Kind, int)> {
    match token_start(buf, p) { None => None, Some(s) =>
        if buf.subrange(s, token_end(buf, s)) == kw_xref() { Some((Kind::Table, token_end(buf, s))) } else { Some((Kind::Stream, s)) } }
}

// the section at p: its subsections in order, its trailer dictionary, and where the reader stops
pub open spec fn read_spec(buf: Seq<u8>, off: int, p: int, st: Store) -> Option<(Seq<SecV>, Dictionary, int)> {
    match section_kind(buf, p) {
        None => None,
        Some((Kind::Table, q)) => table_spec(buf, off, q, st),
        Some((Kind::Stream, s)) => match stm_input(buf, off, s, st) { None => None, Some(i) => Some((stm_secs(i.data, i.idx, 0, i.w), i.trailer, i.end)) },
    }
}

// =====================================================================================================================
// lemmas
// =====================================================================================================================
pub proof fn lemma_total_push(s: Seq<SecV>, x: SecV)
    ensures total_entries(s.push(x)) == total_entries(s) + x.entries.len()
{ assert(s.push(x).drop_last() =~= s); }
pub proof fn lemma_secvs_push(s: Seq<XRefSection>, x: XRefSection)
    ensures secvs(s.push(x)) == secvs(s).push(secv(x))
{ assert(secvs(s.push(x)) =~= secvs(s).push(secv(x))); }
pub proof fn lemma_entry_progress(buf: Seq<u8>, p: int)
    requires 0 <= p <= buf.len()
    ensures entry_spec(buf, p) matches Some((e, q)) ==> p + 3 <= q <= buf.len()
{
    lemma_tok(buf, p);
    match tok_at(buf, p) { None => {}, Some((t1, p1)) => {
        lemma_tok(buf, p1);
        match tok_at(buf, p1) { None => {}, Some((t2, p2)) => { lemma_tok(buf, p2); } }
    } }
}
pub proof fn lemma_entries_progress(buf: Seq<u8>, p: int, n: nat)
    requires 0 <= p <= buf.len()
    ensures entries_spec(buf, p, n) matches Some((es, q)) ==> p + 3 * n <= q <= buf.len() && es.len() == n
    decreases n
{
    if n > 0 {
        lemma_entries_progress(buf, p, (n - 1) as nat);
        match entries_spec(buf, p, (n - 1) as nat) { None => {}, Some((es, q)) => { lemma_entry_progress(buf, q); } }
    }
}
// a malformed line spoils every longer run
pub proof fn lemma_entries_none(buf: Seq<u8>, p: int, i: nat, n: nat)
    requires i <= n, entries_spec(buf, p, i) is None
    ensures entries_spec(buf, p, n) is None
    decreases n
{ if i < n { lemma_entries_none(buf, p, i, (n - 1) as nat); } }
pub proof fn lemma_prepend_assoc(acc: Seq<SecV>, x: SecV, r: Option<(Seq<SecV>, int)>)
    ensures prepend(acc, prepend(seq![x], r)) == prepend(acc.push(x), r)
{
    match r { None => {}, Some((rest, q)) => { assert(acc + (seq![x] + rest) =~= acc.push(x) + rest); } }
}
pub proof fn lemma_prepend_nil(r: Option<(Seq<SecV>, int)>)
    ensures prepend(Seq::<SecV>::empty(), r) == r
{ match r { None => {}, Some((rest, q)) => { assert(Seq::<SecV>::empty() + rest =~= rest); } } }
pub proof fn lemma_prepend_empty(acc: Seq<SecV>, q: int)
    ensures prepend(acc, Some((Seq::<SecV>::empty(), q))) == Some((acc, q)), prepend(Seq::<SecV>::empty(), Some((acc, q))) == Some((acc, q))
{ assert(acc + Seq::<SecV>::empty() =~= acc); assert(Seq::<SecV>::empty() + acc =~= acc); }
// one subsection read: unfolding of subsecs_spec at a position whose token is not `trailer`
pub proof fn lemma_subsec_step(buf: Seq<u8>, p: int)
    requires 0 <= p <= buf.len()
    ensures
        match tok_at(buf, p) { None => true, Some((t, p1)) => t != kw_trailer() ==>
        match u32_tok(t) { None => true, Some(first) =>
        match tok_at(buf, p1) { None => true, Some((t2, p2)) =>
        match u32_tok(t2) { None => true, Some(count) =>
        match entries_spec(buf, p2, count as nat) { None => true, Some((es, p3)) =>
            p < p3 <= buf.len() && subsecs_spec(buf, p) == prepend(seq![SecV { first: first, entries: es }], subsecs_spec(buf, p3)) } } } } },
{
    lemma_tok(buf, p);
    match tok_at(buf, p) { None => {}, Some((t, p1)) => {
        lemma_tok(buf, p1);
        match tok_at(buf, p1) { None => {}, Some((t2, p2)) => {
            match u32_tok(t2) { None => {}, Some(count) => { lemma_entries_progress(buf, p2, count as nat); } }
        } }
    } }
}
// the dispatcher: Lexer::back() after Lexer::next() returns to the start of the token just read, provided the reading
// started at the beginning of the buffer or behind white-space
pub proof fn lemma_back_to_token(buf: Seq<u8>, p: int, s: int, fp: int, len: int)
    requires 0 <= p <= buf.len(), p == 0 || is_ws(buf[p - 1]), token_start(buf, p) == Some(s),
        0 <= fp, 0 <= len, fp + len <= token_end(buf, s),
        forall|i: int| fp + len <= i < token_end(buf, s) ==> is_ws(buf[i]),
        forall|i: int| fp <= i < fp + len ==> !is_ws(buf[i]),
        fp > 0 ==> is_ws(buf[fp - 1]),
    ensures fp == s
{
    lemma_token_start(buf, p);
    lemma_token_end(buf, s);
    let e = token_end(buf, s);
    assert(!is_ws(buf[e - 1]));
    assert(fp + len == e);
    if fp < s { assert(!is_ws(buf[s - 1])); }
    if fp > s { assert(!is_ws(buf[fp - 1])); }
}
// arithmetic of one run (units/xrefstm: lemma_section_size, lemma_sec_defs): the effective count is a count, and the run lies inside the data
pub proof fn lemma_eff_count(n: int, e: int, len: int)
    requires 0 <= n, 0 <= e, 0 <= len
    ensures 0 <= eff_count(n, e, len), 0 <= eoff(eff_count(n, e, len), e) <= len
{
    reveal(eff_count); reveal(eoff);
    if e == 0 { assert(n * e == 0) by (nonlinear_arith) requires e == 0; }
    else if n * e > len {
        assert(len == e * (len / e) + len % e && 0 <= len % e < e) by (nonlinear_arith) requires e > 0, len >= 0;
        assert((len / e) * e == e * (len / e)) by (nonlinear_arith);
        assert(0 <= len / e) by (nonlinear_arith) requires e > 0, len >= 0, len == e * (len / e) + len % e, 0 <= len % e < e;
        assert(0 <= (len / e) * e) by (nonlinear_arith) requires 0 <= len / e, e > 0;
    } else {
        assert(0 <= n * e) by (nonlinear_arith) requires 0 <= n, 0 <= e;
    }
}
// unfolding of the stream-section functions by one /Index pair
pub proof fn lemma_stm_step(d: Seq<u8>, idx: Seq<u32>, k: int, w: Seq<usize>, allow: bool, acc: Seq<SecV>, x: SecV)
    ensures 0 <= k && 2 * k + 1 < idx.len()
        && x == (SecV { first: idx[2 * k], entries: section_entries(d, run_n(d, idx, k, w), w[0] as int, w[1] as int, w[2] as int) })
        ==> acc + stm_secs(d, idx, k, w) == acc.push(x) + stm_secs(run_rest(d, idx, k, w), idx, k + 1, w)
{
    if 0 <= k && 2 * k + 1 < idx.len() {
        assert(acc + (seq![x] + stm_secs(run_rest(d, idx, k, w), idx, k + 1, w)) =~= acc.push(x) + stm_secs(run_rest(d, idx, k, w), idx, k + 1, w));
    }
}
pub proof fn lemma_stm_done(d: Seq<u8>, idx: Seq<u32>, k: int, w: Seq<usize>, allow: bool, acc: Seq<SecV>)
    ensures 2 * k + 1 >= idx.len() ==> acc + stm_secs(d, idx, k, w) == acc && !stm_some_bad(d, idx, k, w, allow) && stm_all_good(d, idx, k, w, allow)
{ assert(acc + Seq::<SecV>::empty() =~= acc); }

// =====================================================================================================================
// L0 helpers (R6/R7): bodies are the hoisted source text
// =====================================================================================================================
// std: <[T]>::chunks_exact(2) yields the consecutive, non-overlapping 2-element windows in order (a last odd element is left out)
#[verifier::external_body]
fn hoist_chunks_exact2<'b>(index: &'b Vec<u32>) -> (r: Vec<&'b [u32]>)
    ensures r@.len() == index@.len() / 2,
        forall|k: int| 0 <= k < r@.len() ==> (#[trigger] r@[k])@.len() == 2 && r@[k]@[0] == index@[2 * k] && r@[k]@[1] == index@[2 * k + 1],
{ index.chunks_exact(2).collect() }

// =====================================================================================================================
// extracted code
// =====================================================================================================================
impl XRefSection {
//@@ XRefSection::new
//@@ XRefSection::add_free_entry
//@@ XRefSection::add_inuse_entry
}
impl<I> Deref for StreamInfo<I> {
    type Target = I;
//@@ StreamInfo::deref
}
impl<I: Object> Deref for Stream<I> {
    type Target = StreamInfo<I>;
//@@ Stream::deref
}

//@@ parse_xref_table_and_trailer

//@@ parse_xref_stream_and_trailer

//@@ read_xref_and_trailer_at

}
fn main(){}
