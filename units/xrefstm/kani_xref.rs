// Kani harnesses appended to pdf/src/xref.rs (#[cfg(kani)] module): loop-free / 8-step leaves on their full domain.
// Second opinion for `byte_len` (also proved in Verus on top of vstd's leading_zeros axioms, here on the compiled
// function incl. minimality) and the check of the L0 contract assumed for the hoisted `a.to_be_bytes()[8 - w ..]`.

fn pow256(k: usize) -> u128 { 1u128 << (8 * k) }

#[kani::proof]
fn byte_len_minimal_width() {
    let n: u64 = kani::any();
    let r = byte_len(n);
    kani::cover!(r == 8);
    kani::cover!(n == 0);
    assert!(1 <= r && r <= 8);
    assert!((n as u128) < pow256(r));                  // n fits r bytes
    assert!(r == 1 || (n as u128) >= pow256(r - 1));   // and no fewer
}

// L0 of hoist_be_tail: the last w bytes of to_be_bytes() are w bytes whose big-endian value is n whenever n < 256^w
#[kani::proof]
#[kani::unwind(9)]
fn to_be_bytes_tail_value() {
    let n: u64 = kani::any();
    let w: usize = kani::any();
    kani::assume(w <= 8);
    let bytes = n.to_be_bytes();
    let tail = &bytes[8 - w ..];
    assert!(tail.len() == w);
    kani::cover!(w == 8 && n > u32::MAX as u64);
    if (n as u128) < pow256(w) {
        let mut v: u64 = 0;
        for &b in tail { v = v * 256 + b as u64; }
        assert!(v == n);
    }
}
