P = 'pdf/src/parser/parse_xref.rs'
X = 'pdf/src/xref.rs'
O = 'pdf/src/object/mod.rs'

# ghost prelude of one iteration of the section reader's entry loop (R1): where entry k lies in the original data,
# and that reading through the shrinking slice is reading the original data at that place
ENTRY_PRELUDE = '''
        let ghost k = it.index@ as int;
        let ghost e = w0 + w1 + w2;
        proof {
            lemma_entry_pos(k, num_entries as int, e, d0.len() as int);
            lemma_sub_sub(d0, eoff(k, e), w0 as int);
            lemma_sub_sub(d0, eoff(k, e) + w0, w1 as int);
            lemma_sub_sub(d0, eoff(k, e) + w0 + w1, w2 as int);
            assert(data@.len() == d0.len() - eoff(k, e));
        }
'''

# `V.extend_from_slice(&VALUE.to_be_bytes()[8 - WIDTH ..]);` -- V is given (a group or a back-reference); VALUE and WIDTH are the next two groups
def be_col(v):
    return (v + r'\s*\.\s*extend_from_slice\(\s*&\s*([^;]*?)\s*\.\s*to_be_bytes\(\)\s*\[\s*\(?\s*8(?:usize)?\s*-\s*((?:[^\];()]|\([^()]*\))+?)\s*\)?\s*\.\.\s*\]\s*\)\s*;')

UNIT = {
 'name': 'xrefstm',
 'doc': 'Cross-reference stream section reader (big-endian fields, entry types) and writer (write_stream), and the writer->reader codec',
 'timeout': 900, 'rlimit': 40,
 'items': {
  # ---------------------------------------------------------------- types (R2: derives dropped, fields pub)
  'enum XRef': {'kind': 'decl', 'file': X, 'header': r'^pub enum XRef$', 'attrs': ['#[derive(Copy, Clone)]']},
  'struct XRefTable': {'kind': 'decl', 'file': X, 'header': r'^pub struct XRefTable$',
     'rewrites': [{'rule': 'R2', 'find': 'entries:', 'replace': 'pub entries:'}]},
  'struct XRefSection': {'kind': 'decl', 'file': X, 'header': r'^pub struct XRefSection$'},
  'struct XRefInfo': {'kind': 'decl', 'file': X, 'header': r'^pub struct XRefInfo$',
     # the framework's attribute stripper stops at the first `]` of `#[pdf(key = "Index", default = "vec![0, size]")]`;
     # the left-over tail of that attribute is removed here
     'rewrites': [{'rule': 'R2', 'find': 'prev:', 'replace': 'pub prev:'}]},
  'struct ParseOptions': {'kind': 'decl', 'file': O, 'header': r'^pub struct ParseOptions$'},

  # ---------------------------------------------------------------- reader
  'read_u64_from_stream': {'kind': 'fn', 'file': P, 'container': None, 'name': 'read_u64_from_stream',
     'props': ['C02', 'C14', 'C01'],
     'ensures': [
        ('u64_ok_iff', 'r is Ok <==> (width <= 8 && width <= old(data)@.len())'),
        ('u64_value', 'r matches Ok(v) ==> v as nat == be_val(old(data)@.subrange(0, width as int))'),
        ('u64_consumed', 'r is Ok ==> final(data)@ == old(data)@.subrange(width as int, old(data)@.len() as int)'),
        ('u64_err_frame', 'r is Err ==> final(data)@ == old(data)@'),
     ],
     'loops': {1: {'for_ghost': 'iter',
        'invariant': [
           ('u64_width_le_8', 'width <= 8'), 'width <= d0.len()', 'iter.index@ <= width',
           ('u64_cursor', 'data@ == d0.subrange(iter.index@ as int, d0.len() as int)'),
           ('u64_partial', 'result as nat == be_val(d0.subrange(0, iter.index@ as int)) * pow256((width - iter.index@) as nat)'),
        ],
        'ensures': ['iter.index@ == width']}},
     'rewrites': [
        {'rule': 'R3', 'regex': r'PdfError::Other\s*\{\s*msg:\s*format!\([^;]*\)\s*\}', 'replace': 'PdfError::Other', 'count': '*'},
        {'rule': 'R1', 'find': 'let mut result = 0;',
         'replace': 'let mut result = 0; let ghost d0 = data@; '
                    'proof { lemma_pow256_vals(); assert(d0.subrange(0, 0) =~= Seq::<u8>::empty()); assert(be_val(d0.subrange(0, 0)) == 0); '
                    'assert(0 * pow256(width as nat) == 0) by (nonlinear_arith); }'},
        {'rule': 'R1', 'find': 'let base = 8 * i;',
         'replace': 'let ghost j = iter.index@ as int; proof { assert(i == width - 1 - j); } let base = 8 * i;'},
        {'rule': 'R1', 'find': 'result += u64::from(c) << base;',
         'replace': 'proof { assert(c == d0[j]); lemma_read_step(d0, j, i as int, width as int, c); '
                    'assert(d0.subrange(j, d0.len() as int).subrange(1, d0.len() - j) =~= d0.subrange(j + 1, d0.len() as int)); } '
                    'result += u64::from(c) << base;'},
        {'rule': 'R1', 'find': 'Ok(result)',
         'replace': 'proof { lemma_pow256_vals(); assert(d0.subrange(0, width as int) == old(data)@.subrange(0, width as int)); '
                    'assert(result as nat == be_val(d0.subrange(0, width as int)) * 1); } Ok(result)'},
     ]},

  'parse_xref_section_from_stream': {'kind': 'fn', 'file': P, 'container': None, 'name': 'parse_xref_section_from_stream',
     'props': ['C02', 'C14', 'C01', 'C10'],
     'ensures': [
        ('sec_len3', 'width@.len() != 3 ==> r is Err'),
        ('sec_short_strict', 'width@.len() == 3 && !sec_fits(num_entries_0 as int, sec_e(width@), old(data)@.len() as int) && !resolve.opts().allow_xref_error ==> r is Err'),
        ('sec_bad_width', 'width@.len() == 3 && sec_n(width@, num_entries_0 as int, old(data)@.len() as int) > 0 && (width@[0] > 8 || width@[1] > 8 || width@[2] > 8) ==> r is Err'),
        ('sec_bad_type', 'r matches Ok(s) ==> types_ok(old(data)@, s.entries@.len() as int, width@[0] as int, width@[1] as int, width@[2] as int)'),
        ('sec_ok', 'width@.len() == 3 && width@[0] <= 8 && width@[1] <= 8 && width@[2] <= 8 && sec_e(width@) > 0 '
                   '&& (sec_fits(num_entries_0 as int, sec_e(width@), old(data)@.len() as int) || resolve.opts().allow_xref_error) '
                   '&& types_ok(old(data)@, sec_n(width@, num_entries_0 as int, old(data)@.len() as int), width@[0] as int, width@[1] as int, width@[2] as int) ==> r is Ok'),
        ('sec_first_id', 'r matches Ok(s) ==> s.first_id == first_id'),
        ('sec_entries', 'r matches Ok(s) ==> s.entries@ =~= section_entries(old(data)@, sec_n(width@, num_entries_0 as int, old(data)@.len() as int), width@[0] as int, width@[1] as int, width@[2] as int)'),
        ('sec_consumed', 'r matches Ok(s) ==> final(data)@ == old(data)@.subrange(eoff(sec_n(width@, num_entries_0 as int, old(data)@.len() as int), sec_e(width@)), old(data)@.len() as int)'),
        ('sec_proportional', 'r matches Ok(s) ==> s.entries@.len() <= old(data)@.len()'),
     ],
     'loops': {1: {'for_ghost': 'it',
        'invariant': [
           'd0 == old(data)@', 'width@.len() == 3', 'width@[0] == w0', 'width@[1] == w1', 'width@[2] == w2',
           'allow == resolve.opts().allow_xref_error',
           'sec_fits(n0 as int, w0 + w1 + w2, d0.len() as int) || allow',
           'n0 == num_entries_0', 'num_entries == sec_n(width@, n0 as int, d0.len() as int)',
           'eoff(num_entries as int, w0 + w1 + w2) <= d0.len()',
           'w0 + w1 + w2 > 0 ==> num_entries <= d0.len()',
           ('sec_cursor', 'data@ == d0.subrange(eoff(it.index@ as int, w0 + w1 + w2), d0.len() as int)'),
           ('sec_sofar', 'entries@.len() == it.index@ && forall|j: int| 0 <= j < it.index@ ==> '
                         '#[trigger] entries@[j] == entry_at(d0, j, w0 as int, w1 as int, w2 as int)'),
           ('sec_types_sofar', 'forall|j: int| 0 <= j < it.index@ ==> #[trigger] entry_type(d0, j, w0 as int, w1 as int, w2 as int) <= 2'),
           'it.index@ > 0 ==> w0 <= 8 && w1 <= 8 && w2 <= 8',
        ]}},
     'rewrites': [
        # R2 (shape): a `mut` by-value parameter is an immutable parameter plus a mutable local (what rustc does with it);
        # spelled out so that contract and loop invariant can name the initial value
        {'where': 'sig', 'rule': 'R2', 'find': 'mut num_entries: usize', 'replace': 'num_entries_0: usize'},
        {'rule': 'R2', 'regex': r'\A\{', 'replace': '{ let mut num_entries = num_entries_0;'},
        {'rule': 'R10', 'find': 'let [w0, w1, w2]: [usize; 3] = width.try_into().map_err(|_| other!("invalid xref length array"))?;',
         'replace': 'let __a: [usize; 3] = hoist_try3(width)?; let w0 = __a[0]; let w1 = __a[1]; let w2 = __a[2]; '
                    'let ghost d0 = data@; let ghost n0 = num_entries; let ghost allow = resolve.opts().allow_xref_error; '
                    'proof { lemma_section_size(num_entries as int, w0 + w1 + w2, data@.len() as int); lemma_sec_defs(num_entries as int, w0 + w1 + w2, data@.len() as int); }'},
        {'rule': 'R2', 'find': 'for _ in 0..num_entries {',
         'replace': 'proof { lemma_section_size(num_entries as int, w0 + w1 + w2, d0.len() as int); lemma_sec_defs(n0 as int, w0 + w1 + w2, d0.len() as int); '
                    'lemma_eoff(0, w0 + w1 + w2); lemma_eoff(num_entries as int, w0 + w1 + w2); assert(d0.subrange(0, d0.len() as int) =~= d0); } '
                    'for _i in 0..num_entries {' + ENTRY_PRELUDE},
        {'rule': 'R1', 'find': 'let entry = match _type {',
         'replace': 'proof { assert(_type as nat == entry_type(d0, k, w0 as int, w1 as int, w2 as int)); '
                    '} let entry = match _type {'},
        {'rule': 'R1', 'find': 'Ok(XRefSection {', 'replace': 'Ok(XRefSection {', 'count': 1},
        {'rule': 'R1', 'find': 'entries.push(entry);',
         'replace': 'entries.push(entry); proof { lemma_entry_pos(k, num_entries as int, e, d0.len() as int); }'},
     ]},

  # ---------------------------------------------------------------- writer
  'byte_len': {'kind': 'fn', 'file': X, 'container': None, 'name': 'byte_len', 'props': ['C10', 'C02', 'C09'],
     'ensures': [('bl_range', '1 <= r <= 8'), ('bl_holds', '(n as nat) < pow256(r as nat)')],
     'rewrites': [{'rule': 'R1', 'regex': r'\A\{', 'replace': '{ proof { lemma_byte_len(n); }'}]},

  'XRefTable::max_field_widths': {'kind': 'fn', 'file': X, 'container': r'^impl XRefTable$', 'name': 'max_field_widths',
     'props': ['C10', 'C02', 'C09'],
     'ensures': [
        ('mfw_bounds', 'forall|i: int| 0 <= i < self.entries@.len() && usable(self.entries@[i]) ==> '
                       'fields(#[trigger] self.entries@[i]).1 <= r.0 && fields(self.entries@[i]).2 <= r.1'),
        ('mfw_attained_a', 'r.0 == 0 || exists|i: int| 0 <= i < self.entries@.len() && usable(self.entries@[i]) && fields(#[trigger] self.entries@[i]).1 == r.0'),
        ('mfw_attained_b', 'r.1 == 0 || exists|i: int| 0 <= i < self.entries@.len() && usable(self.entries@[i]) && fields(#[trigger] self.entries@[i]).2 == r.1'),
     ],
     'loops': {1: {
        'invariant': [
           '__i <= self.entries@.len()',
           ('mfw_sofar', 'forall|i: int| 0 <= i < __i && usable(self.entries@[i]) ==> fields(#[trigger] self.entries@[i]).1 <= max_a && fields(self.entries@[i]).2 <= max_b'),
           'max_a == 0 || exists|i: int| 0 <= i < __i && usable(self.entries@[i]) && fields(#[trigger] self.entries@[i]).1 == max_a',
           'max_b == 0 || exists|i: int| 0 <= i < __i && usable(self.entries@[i]) && fields(#[trigger] self.entries@[i]).2 == max_b',
        ],
        'decreases': 'self.entries@.len() - __i'}},
     'rewrites': [
        # R5 + R10: `for &e in &vec` whose body has `continue` -> index `while` with the increment in front of the body
        {'rule': 'R10', 'find': 'for &e in &self.entries {',
         'replace': 'let mut __i = 0; while __i < self.entries.len() { let e = self.entries[__i]; __i += 1;'},
     ]},

  'XRefTable::write_stream': {'kind': 'fn', 'file': X, 'container': r'^impl XRefTable$', 'name': 'write_stream',
     'props': ['C10', 'C02', 'C09'],
     'requires': ['size <= self.entries@.len()'],
     'ensures': [
        ('ws_ok_iff', 'r is Ok <==> forall|i: int| 0 <= i < size ==> usable(#[trigger] self.entries@[i])'),
        ('ws_w', 'r matches Ok(s) ==> s.info.w@.len() == 3 && s.info.w@[0] == 1 && 1 <= s.info.w@[1] <= 8 && 1 <= s.info.w@[2] <= 8'),
        ('ws_index_size', 'r matches Ok(s) ==> s.info.prev is None && s.info.index@.len() == 2 && s.info.index@[0] == 0 '
                          '&& (size <= u32::MAX ==> s.info.index@[1] == size && s.info.size == size)'),
        ('ws_len', 'r matches Ok(s) ==> s.data@.len() == size * (1 + s.info.w@[1] + s.info.w@[2])'),
        ('ws_fields_fit', 'r matches Ok(s) ==> forall|i: int| 0 <= i < size ==> fields(#[trigger] self.entries@[i]).1 < pow256(s.info.w@[1] as nat) '
                          '&& fields(self.entries@[i]).2 < pow256(s.info.w@[2] as nat)'),
        ('ws_types', 'r matches Ok(s) ==> types_ok(s.data@, size as int, 1, s.info.w@[1] as int, s.info.w@[2] as int)'),
        ('ws_codec', 'r matches Ok(s) ==> section_entries(s.data@, size as int, 1, s.info.w@[1] as int, s.info.w@[2] as int) =~= written(self.entries@.take(size as int))'),
     ],
     'loops': {1: {'for_ghost': 'it',
        'invariant': [
           'size <= self.entries@.len()', '__v@ == self.entries@.take(size as int)', '1 <= a_w <= 8', '1 <= b_w <= 8',
           ('ws_widths_hold', 'forall|i: int| 0 <= i < self.entries@.len() && usable(self.entries@[i]) ==> '
              'fields(#[trigger] self.entries@[i]).1 < pow256(a_w as nat) && fields(self.entries@[i]).2 < pow256(b_w as nat)'),
           ('ws_len_sofar', 'data@.len() == eoff(it.index@ as int, 1 + a_w + b_w)'),
           'forall|j: int| 0 <= j < it.index@ ==> usable(#[trigger] self.entries@[j])',
           ('ws_sofar', 'forall|j: int| 0 <= j < it.index@ ==> #[trigger] entry_at(data@, j, 1, a_w as int, b_w as int) == written_as(self.entries@[j])'),
           'forall|j: int| 0 <= j < it.index@ ==> #[trigger] entry_type(data@, j, 1, a_w as int, b_w as int) <= 2',
        ]}},
     'rewrites': [
        {'rule': 'R1', 'find': 'let mut data = Vec::with_capacity((1 + a_w + b_w) * size);',
         'replace': 'proof { axiom_xref_vec_len(&self.entries); assert((1 + a_w + b_w) * size <= 17 * size) by (nonlinear_arith) requires 1 <= a_w <= 8, 1 <= b_w <= 8, size >= 0; } '
                    'let mut data = Vec::with_capacity((1 + a_w + b_w) * size);'},
        # R6: iterator loop -> index loop over the collected iterator
        {'rule': 'R6', 'find': 'for &x in self.entries.iter().take(size) {',
         'replace': 'let __v = hoist_take(&self.entries, size); proof { lemma_eoff(0, 1 + a_w + b_w); } for __k in 0..__v.len() { let x = __v[__k]; '
                    'let ghost k = it.index@ as int; let ghost d0 = data@; proof { assert(x == self.entries@[k]); }'},
        {'rule': 'R1', 'find': 'data.push(t);', 'replace': 'data.push(t); let ghost d1 = data@;'},
        # R7 by shape: the two field columns `V.extend_from_slice(&<value>.to_be_bytes()[8 - <width> ..]);` (consecutive statements, same
        # Vec) -> `hoist_be_tail(&mut V, <value>, <width>)`: value and WIDTH expressions are the code's own, verbatim; the ghost text talks
        # about the specification's widths (`a_w`, `b_w` of the invariants), so a column written with another width fails `ws_len_sofar`/`ws_sofar`
        {'rule': 'R7', 'regex': be_col(r'(\w+)') + r'\s*' + be_col(r'\1'),
         'replace': r'hoist_be_tail(&mut \1, \2, \3); let ghost d2 = \1@; hoist_be_tail(&mut \1, \4, \5); '
                    # the hint is an `if` over what the two columns must have appended (never an assert / a lemma precondition of it):
                    # a column of another width or value leaves the labelled invariants to fail
                    'proof { let d3 = data@; if d2.len() == d1.len() + a_w && d3.len() == d2.len() + b_w '
                    '&& be_val(d2.subrange(d1.len() as int, d2.len() as int)) == a as nat && be_val(d3.subrange(d2.len() as int, d3.len() as int)) == b as nat { '
                    'lemma_new_entry(d0, d1, d2, d3, k, t, a as nat, b as nat, a_w as int, b_w as int); '
                    'assert(entry_at(d3, k, 1, a_w as int, b_w as int) == written_as(x)); '
                    'assert(entry_type(d3, k, 1, a_w as int, b_w as int) == t); '
                    'assert forall|j: int| 0 <= j < k implies #[trigger] entry_at(d3, j, 1, a_w as int, b_w as int) == entry_at(d0, j, 1, a_w as int, b_w as int) by { '
                    'lemma_prefix_entry(d0, d3, j, k, a_w as int, b_w as int); } '
                    'assert forall|j: int| 0 <= j < k implies #[trigger] entry_type(d3, j, 1, a_w as int, b_w as int) == entry_type(d0, j, 1, a_w as int, b_w as int) by { '
                    'lemma_entry_pos(j, k, 1 + a_w + b_w, d0.len() as int); lemma_prefix_field(d0, d3, eoff(j, 1 + a_w + b_w), 1); } } }'},
        {'rule': 'R1', 'find': 'let info = XRefInfo {',
         'replace': 'proof { assert(__v@.len() == size); lemma_eoff(size as int, 1 + a_w + b_w); } let info = XRefInfo {'},
     ]},
 },
 'kani': {
   'modules': [{'file': X, 'code': 'kani_xref.rs'}],
   'harnesses': [
     {'name': 'byte_len_minimal_width', 'fn': 'byte_len', 'file': X, 'props': ['C10', 'C09'], 'kind': 'complete', 'covers': True,
      'contract': 'forall n: u64. 1 <= byte_len(n) <= 8, n < 256^byte_len(n), byte_len(n) == 1 or n >= 256^(byte_len(n)-1); never panics'},
     {'name': 'to_be_bytes_tail_value', 'fn': 'XRefTable::write_stream', 'file': X, 'props': ['C10'], 'kind': 'complete', 'covers': True,
      'bound': 'w <= 8 (all), unwind 9',
      'contract': 'L0 of hoist_be_tail: forall n: u64, w <= 8. n.to_be_bytes()[8-w..] has w bytes and, if n < 256^w, big-endian value n'},
   ],
   'jobs': 2, 'timeout': 600 },
}
