// Unit `xrefstm` (C02, C10, C14, C01; C09 for the writer):
//   pdf/src/parser/parse_xref.rs  read_u64_from_stream, parse_xref_section_from_stream   (xref-stream section reader)
//   pdf/src/xref.rs               byte_len, XRefTable::max_field_widths, XRefTable::write_stream  (xref-stream writer)
// and the codec lemma writer -> reader (`lemma_codec`, `codec_roundtrip`).
// Spec source: ISO 32000-1 7.5.8.2 (/W, /Index, /Size) and 7.5.8.3 (entry types 0/1/2, big-endian fields,
// default type 1 when the first width is 0).
use vstd::prelude::*;
use vstd::std_specs::bits::*;
//@@ INCLUDE _common/error_macros.rs
verus! {
global size_of usize == 8;

//@@ PDFERROR


// std semantics of the free functions core::cmp::max / min (TRUSTED, core::cmp docs; `OrdSpec` is vstd's model of `Ord`, defined for the
// primitive integers). The method forms `a.max(b)` / `a.min(b)` are read natively by this Verus.
pub assume_specification<T: core::cmp::Ord> [core::cmp::max::<T>] (a: T, b: T) -> (r: T)
    ensures <T as vstd::std_specs::cmp::OrdSpec>::obeys_cmp_spec() ==> r == (if vstd::std_specs::cmp::OrdSpec::cmp_spec(&a, &b) is Greater { a } else { b });
pub assume_specification<T: core::cmp::Ord> [core::cmp::min::<T>] (a: T, b: T) -> (r: T)
    ensures <T as vstd::std_specs::cmp::OrdSpec>::obeys_cmp_spec() ==> r == (if vstd::std_specs::cmp::OrdSpec::cmp_spec(&a, &b) is Greater { b } else { a });

pub type ObjNr = u64;
pub type GenNr = u64;

//@@ enum XRef
//@@ struct XRefTable
//@@ struct XRefSection
//@@ struct XRefInfo
//@@ struct ParseOptions

// ---- env (not under proof) -------------------------------------------------------------------------------------
// `Resolve` is used by the reader only for `options()`.
pub trait Resolve {
    spec fn opts(&self) -> ParseOptions;
    fn options(&self) -> (r: &ParseOptions)
        ensures *r == self.opts();
}
// Model of pdf::object::Stream<I> as produced by `Stream::new(info, data)`: no filters, generated data.
pub struct Stream<I> { pub info: I, pub data: Vec<u8> }
impl<I> Stream<I> {
    pub fn new(i: I, data: Vec<u8>) -> (r: Stream<I>)
        ensures r.info == i, r.data@ == data@
    { Stream { info: i, data } }
}

// ---- spec: numbers ---------------------------------------------------------------------------------------------
pub open spec fn pow256(k: nat) -> nat decreases k { if k == 0 { 1 } else { 256 * pow256((k - 1) as nat) } }
// big-endian value of a byte string (most significant byte first)
pub open spec fn be_val(s: Seq<u8>) -> nat decreases s.len() { if s.len() == 0 { 0 } else { be_val(s.drop_last()) * 256 + s.last() as nat } }
pub open spec fn field_at(d: Seq<u8>, off: int, w: int) -> nat { be_val(d.subrange(off, off + w)) }

// ---- spec: one cross-reference stream section (ISO 32000-1 7.5.8.3) ----------------------------------------------
// entry k occupies bytes k*(w0+w1+w2) .. (k+1)*(w0+w1+w2); its three fields follow each other
// (the product is kept behind an opaque name so that the loop bodies are checked with linear arithmetic only)
#[verifier::opaque]
pub open spec fn eoff(k: int, e: int) -> int { k * e }
pub open spec fn entry_type(d: Seq<u8>, k: int, w0: int, w1: int, w2: int) -> nat {
    if w0 == 0 { 1 } else { field_at(d, eoff(k, w0 + w1 + w2), w0) }
}
pub open spec fn entry_f1(d: Seq<u8>, k: int, w0: int, w1: int, w2: int) -> nat { field_at(d, eoff(k, w0 + w1 + w2) + w0, w1) }
pub open spec fn entry_f2(d: Seq<u8>, k: int, w0: int, w1: int, w2: int) -> nat { field_at(d, eoff(k, w0 + w1 + w2) + w0 + w1, w2) }
pub open spec fn xref_of(t: nat, f1: nat, f2: nat) -> XRef {
    if t == 0 { XRef::Free { next_obj_nr: f1 as u64, gen_nr: f2 as u64 } }
    else if t == 1 { XRef::Raw { pos: f1 as usize, gen_nr: f2 as u64 } }
    else if t == 2 { XRef::Stream { stream_id: f1 as u64, index: f2 as usize } }
    else { XRef::Invalid }
}
pub open spec fn entry_at(d: Seq<u8>, k: int, w0: int, w1: int, w2: int) -> XRef {
    xref_of(entry_type(d, k, w0, w1, w2), entry_f1(d, k, w0, w1, w2), entry_f2(d, k, w0, w1, w2))
}
// number of entries actually read: all announced ones, or (tolerant mode) as many whole entries as the data holds
// (both are opaque to the solver, see `eoff`; `lemma_sec_defs` gives their definitions back)
#[verifier::opaque]
pub open spec fn sec_fits(n: int, e: int, len: int) -> bool { n * e <= len }
#[verifier::opaque]
pub open spec fn eff_count(n: int, e: int, len: int) -> int { if n * e > len { len / e } else { n } }
pub open spec fn sec_e(w: Seq<usize>) -> int { w[0] + w[1] + w[2] }
pub open spec fn sec_n(w: Seq<usize>, n: int, len: int) -> int { eff_count(n, sec_e(w), len) }
pub open spec fn types_ok(d: Seq<u8>, n: int, w0: int, w1: int, w2: int) -> bool {
    forall|k: int| 0 <= k < n ==> entry_type(d, k, w0, w1, w2) <= 2
}
// the whole decoded section
pub open spec fn section_entries(d: Seq<u8>, n: int, w0: int, w1: int, w2: int) -> Seq<XRef> {
    Seq::new(n as nat, |k: int| entry_at(d, k, w0, w1, w2))
}

// ---- spec: writer side -------------------------------------------------------------------------------------------
// what a cross-reference stream can say about a number: free, in use, compressed -- and a number that NO section of the file defines
// (`Invalid`, a gap of the table): ISO 32000-1 7.5.4 / 7.5.8 know no "undefined" entry, such a number is written as a free entry
// (type 0, next free object 0, generation 0; fix save_fails_on_undefined_entries). Only an open promise cannot be written.
pub open spec fn usable(e: XRef) -> bool { e is Free || e is Raw || e is Stream || e is Invalid }
pub open spec fn fields(e: XRef) -> (nat, nat, nat) { match e {
    XRef::Free { next_obj_nr, gen_nr } => (0nat, next_obj_nr as nat, gen_nr as nat),
    XRef::Raw { pos, gen_nr } => (1nat, pos as nat, gen_nr as nat),
    XRef::Stream { stream_id, index } => (2nat, stream_id as nat, index as nat),
    XRef::Invalid => (0nat, 0nat, 0nat),
    _ => (3nat, 0nat, 0nat) } }
// the entry a reader finds where `e` was written: `e` itself, a free entry for an undefined number
pub open spec fn written_as(e: XRef) -> XRef { if e is Invalid { XRef::Free { next_obj_nr: 0, gen_nr: 0 } } else { e } }
pub open spec fn written(es: Seq<XRef>) -> Seq<XRef> { Seq::new(es.len(), |k: int| written_as(es[k])) }

// ---- lemmas ------------------------------------------------------------------------------------------------------
proof fn lemma_pow256_vals()
    ensures pow256(0) == 1, pow256(1) == 0x100, pow256(2) == 0x1_0000, pow256(3) == 0x100_0000, pow256(4) == 0x1_0000_0000,
        pow256(5) == 0x100_0000_0000, pow256(6) == 0x1_0000_0000_0000, pow256(7) == 0x100_0000_0000_0000, pow256(8) == 0x1_0000_0000_0000_0000,
{ reveal_with_fuel(pow256, 10); }
proof fn lemma_pow256_mono(a: nat, b: nat) requires a <= b ensures pow256(a) <= pow256(b) decreases b
{ if a < b { lemma_pow256_mono(a, (b - 1) as nat); } }
proof fn lemma_shl(c: u64, i: u64)
    requires c < 256, i < 8
    ensures (c << (8 * i)) as nat == c as nat * pow256(i as nat)
{
    lemma_pow256_vals();
    if i == 0 { assert(c << 0u64 == c) by (bit_vector); }
    else if i == 1 { assert(c < 256 ==> c << 8u64 == c * 0x100) by (bit_vector); }
    else if i == 2 { assert(c < 256 ==> c << 16u64 == c * 0x1_0000) by (bit_vector); }
    else if i == 3 { assert(c < 256 ==> c << 24u64 == c * 0x100_0000) by (bit_vector); }
    else if i == 4 { assert(c < 256 ==> c << 32u64 == c * 0x1_0000_0000) by (bit_vector); }
    else if i == 5 { assert(c < 256 ==> c << 40u64 == c * 0x100_0000_0000) by (bit_vector); }
    else if i == 6 { assert(c < 256 ==> c << 48u64 == c * 0x1_0000_0000_0000) by (bit_vector); }
    else { assert(c < 256 ==> c << 56u64 == c * 0x100_0000_0000_0000) by (bit_vector); }
}
proof fn lemma_be_push(s: Seq<u8>, j: int)
    requires 0 <= j < s.len()
    ensures be_val(s.subrange(0, j + 1)) == be_val(s.subrange(0, j)) * 256 + s[j] as nat
{ assert(s.subrange(0, j + 1).drop_last() =~= s.subrange(0, j)); }
proof fn lemma_be_bound(s: Seq<u8>)
    ensures be_val(s) < pow256(s.len())
    decreases s.len()
{ if s.len() > 0 { lemma_be_bound(s.drop_last()); } }
proof fn lemma_pow_mul(a: nat, b: nat)
    ensures pow256(a) * pow256(b) == pow256(a + b)
    decreases a
{
    if a == 0 { assert(pow256(0) == 1); assert(1 * pow256(b) == pow256(b)) by (nonlinear_arith); assert(0 + b == b); } else {
        lemma_pow_mul((a - 1) as nat, b);
        assert(pow256(a) * pow256(b) == 256 * (pow256((a - 1) as nat) * pow256(b))) by (nonlinear_arith) requires pow256(a) == 256 * pow256((a - 1) as nat);
        assert(((a - 1) as nat + b) == (a + b - 1) as nat);
        assert(pow256(a + b) == 256 * pow256((a + b - 1) as nat));
        assert(256 * (pow256((a - 1) as nat) * pow256(b)) == 256 * pow256((a + b - 1) as nat));
    }
}
// one step of read_u64_from_stream's loop: (v*256 + c) * 256^i == v*256^(i+1) + c*256^i and it stays below 2^64
proof fn lemma_read_step(d0: Seq<u8>, j: int, i: int, width: int, c: u8)
    requires 0 <= j < width <= 8, width <= d0.len(), i == width - 1 - j, c == d0[j]
    ensures
        be_val(d0.subrange(0, j + 1)) * pow256(i as nat) == be_val(d0.subrange(0, j)) * pow256((i + 1) as nat) + c as nat * pow256(i as nat),
        be_val(d0.subrange(0, j + 1)) * pow256(i as nat) < 0x1_0000_0000_0000_0000,
        ((c as u64) << ((8 * i) as u64)) as nat == c as nat * pow256(i as nat),
{
    lemma_shl(c as u64, i as u64);
    lemma_be_push(d0, j);
    lemma_pow256_vals();
    assert(pow256((i + 1) as nat) == 256 * pow256(i as nat));
    assert(be_val(d0.subrange(0, j + 1)) * pow256(i as nat) == be_val(d0.subrange(0, j)) * pow256((i + 1) as nat) + c as nat * pow256(i as nat)) by (nonlinear_arith)
        requires be_val(d0.subrange(0, j + 1)) == be_val(d0.subrange(0, j)) * 256 + c as nat, pow256((i + 1) as nat) == 256 * pow256(i as nat);
    lemma_be_bound(d0.subrange(0, j + 1));
    assert(be_val(d0.subrange(0, j + 1)) * pow256(i as nat) < pow256((j + 1) as nat) * pow256(i as nat)) by (nonlinear_arith)
        requires be_val(d0.subrange(0, j + 1)) < pow256((j + 1) as nat), pow256(i as nat) > 0;
    lemma_pow_mul((j + 1) as nat, i as nat);
    assert((j + 1) as nat + i as nat == width as nat);
    lemma_pow256_mono(width as nat, 8);
}
// a field of at most 8 bytes fits u64
proof fn lemma_field_fits(d: Seq<u8>, off: int, w: int)
    requires 0 <= off, 0 <= w <= 8, off + w <= d.len()
    ensures field_at(d, off, w) < 0x1_0000_0000_0000_0000
{
    lemma_be_bound(d.subrange(off, off + w));
    lemma_pow256_mono(w as nat, 8);
    lemma_pow256_vals();
}
// arithmetic of the section size test
proof fn lemma_section_size(n: int, e: int, len: int)
    requires 0 <= n, 0 <= e, 0 <= len
    ensures
        e == 0 ==> n * e == 0,
        e > 0 ==> (n * e > len <==> n > len / e),
        e > 0 ==> (len / e) * e <= len && 0 <= len / e <= len,
        e > 0 && n * e <= len ==> n <= len,
{
    if e == 0 { assert(n * e == 0) by (nonlinear_arith) requires e == 0; }
    else {
        assert(len == e * (len / e) + len % e && 0 <= len % e < e) by (nonlinear_arith) requires e > 0, len >= 0;
        assert((len / e) * e == e * (len / e)) by (nonlinear_arith);
        assert(0 <= len / e <= len) by (nonlinear_arith) requires e > 0, len >= 0, len == e * (len / e) + len % e, 0 <= len % e < e;
        if n > len / e {
            assert(n * e >= (len / e + 1) * e) by (nonlinear_arith) requires n >= len / e + 1, e > 0;
            assert((len / e + 1) * e == (len / e) * e + e) by (nonlinear_arith);
        } else {
            assert(n * e <= (len / e) * e) by (nonlinear_arith) requires n <= len / e, e > 0;
        }
        if n * e <= len { assert(n <= n * e) by (nonlinear_arith) requires e >= 1, n >= 0; }
    }
}
// position of entry k inside a section of m entries
proof fn lemma_sec_defs(n: int, e: int, len: int)
    ensures sec_fits(n, e, len) == (n * e <= len), eff_count(n, e, len) == (if n * e > len { len / e } else { n })
{ reveal(sec_fits); reveal(eff_count); }
proof fn lemma_eoff(k: int, e: int) ensures eoff(k, e) == k * e, eoff(0, e) == 0 { reveal(eoff); }
proof fn lemma_entry_pos(k: int, m: int, e: int, len: int)
    requires 0 <= k < m, 0 <= e, eoff(m, e) <= len
    ensures 0 <= eoff(k, e), eoff(k, e) + e <= len, eoff(k + 1, e) == eoff(k, e) + e
{
    reveal(eoff);
    assert(k * e >= 0) by (nonlinear_arith) requires k >= 0, e >= 0;
    assert((k + 1) * e == k * e + e) by (nonlinear_arith);
    assert((k + 1) * e <= m * e) by (nonlinear_arith) requires k + 1 <= m, e >= 0;
}
// reading a field through the shrinking slice == reading it in the original data
proof fn lemma_sub_sub(d0: Seq<u8>, a: int, w: int)
    requires 0 <= a, 0 <= w, a + w <= d0.len()
    ensures d0.subrange(a, d0.len() as int).subrange(0, w) == d0.subrange(a, a + w),
        d0.subrange(a, d0.len() as int).subrange(w, d0.len() - a) == d0.subrange(a + w, d0.len() as int)
{
    assert(d0.subrange(a, d0.len() as int).subrange(0, w) =~= d0.subrange(a, a + w));
    assert(d0.subrange(a, d0.len() as int).subrange(w, d0.len() - a) =~= d0.subrange(a + w, d0.len() as int));
}

// ---- L0 helpers (R7) ---------------------------------------------------------------------------------------------
// std: <[usize; 3]>::try_from(&[usize]) succeeds iff the slice has exactly 3 elements and copies them
#[verifier::external_body]
fn hoist_try3(width: &[usize]) -> (r: Result<[usize; 3]>)
    ensures width@.len() == 3 ==> (r matches Ok(a) && a@ == width@), width@.len() != 3 ==> r is Err
{
    use std::convert::TryInto;
    width.try_into().map_err(|_| other!("invalid xref length array"))
}

//@@ read_u64_from_stream
//@@ parse_xref_section_from_stream

// ---- writer: lemmas ------------------------------------------------------------------------------------------------
pub open spec fn byte_len_spec(n: u64) -> int { (64 + 8 - 1 - u64_leading_zeros(n)) / 8 + if n == 0 { 1int } else { 0int } }
// (64 - leading_zeros + 7) / 8 bytes hold n  (leading_zeros: vstd's axioms for u64::leading_zeros)
proof fn lemma_byte_len(n: u64)
    ensures 1 <= byte_len_spec(n) <= 8, (n as nat) < pow256(byte_len_spec(n) as nat), u64_leading_zeros(n) <= 64,
{
    broadcast use axiom_u64_leading_zeros;
    lemma_pow256_vals();
    let lz = u64_leading_zeros(n);
    let s: u64 = (64 - lz) as u64;
    if n != 0 {
        assert(1 <= s <= 64);
        assert(n >> s == 0 || s == 64);
        assert(forall|n: u64, s: u64| 1 <= s <= 8 && #[trigger] (n >> s) == 0 ==> n < 0x100) by (bit_vector);
        assert(forall|n: u64, s: u64| 9 <= s <= 16 && #[trigger] (n >> s) == 0 ==> n < 0x1_0000) by (bit_vector);
        assert(forall|n: u64, s: u64| 17 <= s <= 24 && #[trigger] (n >> s) == 0 ==> n < 0x100_0000) by (bit_vector);
        assert(forall|n: u64, s: u64| 25 <= s <= 32 && #[trigger] (n >> s) == 0 ==> n < 0x1_0000_0000) by (bit_vector);
        assert(forall|n: u64, s: u64| 33 <= s <= 40 && #[trigger] (n >> s) == 0 ==> n < 0x100_0000_0000) by (bit_vector);
        assert(forall|n: u64, s: u64| 41 <= s <= 48 && #[trigger] (n >> s) == 0 ==> n < 0x1_0000_0000_0000) by (bit_vector);
        assert(forall|n: u64, s: u64| 49 <= s <= 56 && #[trigger] (n >> s) == 0 ==> n < 0x100_0000_0000_0000) by (bit_vector);
    }
}
proof fn lemma_be_single(t: u8) ensures be_val(seq![t]) == t as nat
{
    reveal_with_fuel(be_val, 3);
    assert(seq![t].drop_last() =~= Seq::<u8>::empty());
}
// bytes below the old length are not touched by an append
proof fn lemma_prefix_field(d: Seq<u8>, d2: Seq<u8>, off: int, w: int)
    requires d.len() <= d2.len(), d2.subrange(0, d.len() as int) == d, 0 <= off, 0 <= w, off + w <= d.len()
    ensures field_at(d2, off, w) == field_at(d, off, w)
{
    assert(d2.subrange(off, off + w) =~= d2.subrange(0, d.len() as int).subrange(off, off + w));
}
proof fn lemma_prefix_entry(d: Seq<u8>, d2: Seq<u8>, j: int, m: int, w1: int, w2: int)
    requires d.len() <= d2.len(), d2.subrange(0, d.len() as int) == d, 0 <= j < m, 0 <= w1, 0 <= w2, eoff(m, 1 + w1 + w2) <= d.len()
    ensures entry_at(d2, j, 1, w1, w2) == entry_at(d, j, 1, w1, w2)
{
    let e = 1 + w1 + w2;
    lemma_entry_pos(j, m, e, d.len() as int);
    lemma_prefix_field(d, d2, eoff(j, e), 1);
    lemma_prefix_field(d, d2, eoff(j, e) + 1, w1);
    lemma_prefix_field(d, d2, eoff(j, e) + 1 + w1, w2);
}
// the entry just appended: d3 = d0 ++ [t] ++ A ++ B with be_val(A) == a, be_val(B) == b
proof fn lemma_new_entry(d0: Seq<u8>, d1: Seq<u8>, d2: Seq<u8>, d3: Seq<u8>, k: int, t: u8, a: nat, b: nat, w1: int, w2: int)
    requires 0 <= k, 1 <= w1, 1 <= w2, d0.len() == eoff(k, 1 + w1 + w2),
        d1 == d0.push(t),
        d2.len() == d1.len() + w1, d2.subrange(0, d1.len() as int) == d1, be_val(d2.subrange(d1.len() as int, d2.len() as int)) == a,
        d3.len() == d2.len() + w2, d3.subrange(0, d2.len() as int) == d2, be_val(d3.subrange(d2.len() as int, d3.len() as int)) == b,
    ensures entry_type(d3, k, 1, w1, w2) == t as nat, entry_f1(d3, k, 1, w1, w2) == a, entry_f2(d3, k, 1, w1, w2) == b,
        d3.len() == eoff(k + 1, 1 + w1 + w2), d3.subrange(0, d0.len() as int) == d0,
{
    let e = 1 + w1 + w2;
    let o = eoff(k, e);
    assert(eoff(k + 1, e) == eoff(k, e) + e) by { reveal(eoff); assert((k + 1) * e == k * e + e) by (nonlinear_arith); }
    assert forall|x: int| 0 <= x < d2.len() implies #[trigger] d3[x] == d2[x] by { assert(d3.subrange(0, d2.len() as int)[x] == d3[x]); }
    assert forall|x: int| 0 <= x < d1.len() implies #[trigger] d2[x] == d1[x] by { assert(d2.subrange(0, d1.len() as int)[x] == d2[x]); }
    assert(d3.subrange(0, d0.len() as int) =~= d0);
    assert(d3.subrange(o, o + 1) =~= seq![t]);
    lemma_be_single(t);
    assert(d3.subrange(o + 1, o + 1 + w1) =~= d2.subrange(d1.len() as int, d2.len() as int));
    assert(d3.subrange(o + 1 + w1, o + 1 + w1 + w2) =~= d3.subrange(d2.len() as int, d3.len() as int));
}

// ---- writer: L0 helpers (R7 / R6) ------------------------------------------------------------------------------------
// std: u64::to_be_bytes is the 8-byte big-endian representation; its last w bytes carry n exactly when n < 256^w
#[verifier::external_body]
fn hoist_be_tail(data: &mut Vec<u8>, n: u64, w: usize)
    requires w <= 8
    ensures final(data)@.len() == old(data)@.len() + w,
        final(data)@.subrange(0, old(data)@.len() as int) == old(data)@,
        (n as nat) < pow256(w as nat) ==> be_val(final(data)@.subrange(old(data)@.len() as int, final(data)@.len() as int)) == n as nat,
{
    data.extend_from_slice(&n.to_be_bytes()[8 - w ..]);
}
// std: slice::iter().take(n) yields the first min(n, len) elements in order (R6: collected)
#[verifier::external_body]
fn hoist_take(entries: &Vec<XRef>, size: usize) -> (r: Vec<XRef>)
    ensures r@ == entries@.take(if size <= entries@.len() { size as int } else { entries@.len() as int })
{
    entries.iter().take(size).copied().collect()
}
// Rust allocation limit: a Vec never holds more than isize::MAX bytes; size_of::<XRef>() == 24
#[verifier::external_body]
proof fn axiom_xref_vec_len(v: &Vec<XRef>)
    ensures v@.len() * 24 <= isize::MAX
{}

//@@ byte_len

impl XRefTable {
//@@ XRefTable::max_field_widths
//@@ XRefTable::write_stream
}

// ---- the codec: what write_stream emits, parse_xref_section_from_stream reads back (contracts only) -----------------
fn codec_roundtrip(table: &XRefTable, size: usize, resolve: &impl Resolve)
    requires size <= table.entries@.len()
{
    match table.write_stream(size) {
        Ok(s) => {
            let mut d: &[u8] = s.data.as_slice();
            let ghost d0 = d@;
            let w: &[usize] = s.info.w.as_slice();
            proof {
                assert(sec_e(w@) == 1 + w@[1] + w@[2]);
                lemma_section_size(size as int, sec_e(w@), d0.len() as int);
                lemma_eoff(size as int, sec_e(w@));
                lemma_sec_defs(size as int, sec_e(w@), d0.len() as int);
                assert(sec_n(w@, size as int, d0.len() as int) == size);
            }
            let r = parse_xref_section_from_stream(0, size, w, &mut d, resolve);
            assert(r is Ok);
            assert(r->Ok_0.first_id == 0);
            assert(r->Ok_0.entries@ =~= written(table.entries@.take(size as int)));   // the same entries (undefined numbers as free entries), all of them, in order
            assert(d@.len() == 0);                                            // and every byte is consumed
        }
        Err(_) => {
            assert(exists|i: int| 0 <= i < size && !usable(#[trigger] table.entries@[i]));
        }
    }
}

}
fn main(){}
