// Repro for findings/xref_section_widths.md.
// Append this file to pdf/src/parser/parse_xref.rs of a scratch copy of /repo (the functions are private) and run
//   CARGO_TARGET_DIR=/tmp/xrefstm_target cargo test --offline -p pdf --lib verif_xref_section_widths
// On the pinned tree: 3 tests fail (2 panics "attempt to add/multiply with overflow", 1 disproportionate result).
// With findings/xref_section_widths_fix.diff applied: all pass.
#[cfg(test)]
mod verif_xref_section_widths {
    use super::*;
    use crate::object::NoResolve;
    use crate::enc::StreamFilter;
    use std::ops::Range;
    use std::sync::Arc;
    use datasize::DataSize;

    // what `Storage` does for an unfiltered stream: hand out the bytes of the file in the given range
    struct FileBytes<'a>(&'a [u8]);
    impl<'a> Resolve for FileBytes<'a> {
        fn resolve_flags(&self, _: PlainRef, _: ParseFlags, _: usize) -> Result<Primitive> { Err(PdfError::Reference) }
        fn get<T: Object + DataSize>(&self, _: Ref<T>) -> Result<RcRef<T>> { Err(PdfError::Reference) }
        fn options(&self) -> &ParseOptions { NoResolve.options() }
        fn stream_data(&self, _: PlainRef, range: Range<usize>) -> Result<Arc<[u8]>> { Ok(self.0[range].into()) }
        fn get_data_or_decode(&self, _: PlainRef, range: Range<usize>, _: &[StreamFilter]) -> Result<Arc<[u8]>> { Ok(self.0[range].into()) }
    }

    // obligation xrefstm/parse_xref_section_from_stream/panic_free, expression `w0 + w1 + w2`
    #[test]
    fn width_sum_overflow_is_an_error_not_a_panic() {
        let bytes = [0u8; 4];
        let mut data: &[u8] = &bytes;
        let r = parse_xref_section_from_stream(0, 1, &[usize::MAX, 1, 0], &mut data, &NoResolve);
        assert!(r.is_err());
    }

    // obligation xrefstm/parse_xref_section_from_stream/panic_free, expression `num_entries * (w0 + w1 + w2)`
    #[test]
    fn entry_count_times_width_overflow_is_an_error_not_a_panic() {
        let bytes = [1u8, 0, 1, 0];
        let mut data: &[u8] = &bytes;
        let r = parse_xref_section_from_stream(0, usize::MAX / 2 + 1, &[1, 1, 0], &mut data, &NoResolve);
        assert!(r.is_err()); // 2^63 entries of 2 bytes do not fit into 4 bytes of data (strict mode)
    }

    // obligation xrefstm/parse_xref_section_from_stream/sec_proportional, through the section reader of the load path:
    // a 130-byte cross-reference stream object with /W [0 0 0] and an empty body yields as many entries as /Index asks for.
    #[test]
    fn zero_widths_do_not_manufacture_entries() {
        let n = 3_000_000u32; // 72 MB of entries; /Index accepts up to 2^31-1 (48 GiB)
        let text = format!("1 0 obj\n<< /Type /XRef /Size 1 /W [0 0 0] /Index [0 {}] /Length 0 >>\nstream\n\nendstream\nendobj\nstartxref\n0\n%%EOF\n", n);
        let mut lexer = Lexer::new(text.as_bytes());
        match parse_xref_stream_and_trailer(&mut lexer, &FileBytes(text.as_bytes())) {
            Err(_) => {}
            Ok((sections, _)) => {
                let entries: usize = sections.iter().map(|s| s.entries.len()).sum();
                assert!(entries <= text.len(), "{} entries decoded from a {}-byte object with 0 bytes of stream data", entries, text.len());
            }
        }
    }

    // the repaired function still reads ordinary sections (ISO 32000-1 7.5.8.3 example shape)
    #[test]
    fn ordinary_section_still_decodes() {
        let bytes = [0u8, 0, 0, 0xff, 1, 0x01, 0x02, 0, 2, 0, 5, 7];
        let mut data: &[u8] = &bytes;
        let s = parse_xref_section_from_stream(3, 3, &[1, 2, 1], &mut data, &NoResolve).unwrap();
        assert_eq!(s.first_id, 3);
        assert!(matches!(s.entries[0], XRef::Free { next_obj_nr: 0, gen_nr: 0xff }));
        assert!(matches!(s.entries[1], XRef::Raw { pos: 0x0102, gen_nr: 0 }));
        assert!(matches!(s.entries[2], XRef::Stream { stream_id: 5, index: 7 }));
        assert!(data.is_empty());
        // first width 0: every entry is of type 1
        let bytes = [0x12u8, 0x34, 9];
        let mut data: &[u8] = &bytes;
        let s = parse_xref_section_from_stream(0, 1, &[0, 2, 1], &mut data, &NoResolve).unwrap();
        assert!(matches!(s.entries[0], XRef::Raw { pos: 0x1234, gen_nr: 9 }));
    }
}
