// Kani harnesses on the real leaf functions of pdf/src/enc.rs (appended as a #[cfg(kani)] module).
// All are loop-free over a full input domain: complete proofs, not bounded stand-ins.

// spec: ISO 32000-1 7.4.2 — hexadecimal digit value
fn hexval(c: u8) -> Option<u8> {
    if c >= b'0' && c <= b'9' { Some(c - b'0') }
    else if c >= b'a' && c <= b'f' { Some(c - b'a' + 10) }
    else if c >= b'A' && c <= b'F' { Some(c - b'A' + 10) }
    else { None }
}

#[kani::proof]
fn decode_nibble_hexval() {
    let c: u8 = kani::any();
    let r = decode_nibble(c);
    kani::cover!(hexval(c).is_some());
    // nothing is demanded for non-digits: the property is about conforming encoders
    if let Some(v) = hexval(c) { assert!(r == Some(v)); }
}

#[kani::proof]
fn encode_nibble_inverse() {
    let n: u8 = kani::any();
    kani::assume(n < 16);
    let c = encode_nibble(n);
    kani::cover!(n == 15);
    assert!(hexval(c) == Some(n));            // emits a standard hex digit
    assert!(decode_nibble(c) == Some(n));     // inverted by the decoder
}

// spec: ISO 32000-1 7.4.3 — a group c1..c5 in '!'..'u' denotes sum (ci-33)*85^(5-i), big-endian 4 bytes
#[kani::proof]
fn word_85_iso() {
    let w: [u8; 5] = kani::any();
    let valid = w[0] >= 0x21 && w[0] <= 0x75 && w[1] >= 0x21 && w[1] <= 0x75 && w[2] >= 0x21 && w[2] <= 0x75
        && w[3] >= 0x21 && w[3] <= 0x75 && w[4] >= 0x21 && w[4] <= 0x75;
    let r = word_85(w);
    kani::cover!(valid);
    if valid {
        let q: u64 = ((((w[0]-33) as u64 * 85 + (w[1]-33) as u64) * 85 + (w[2]-33) as u64) * 85 + (w[3]-33) as u64) * 85 + (w[4]-33) as u64;
        if q <= u32::MAX as u64 {
            let v = q as u32;
            assert!(r == Some([(v >> 24) as u8, (v >> 16) as u8, (v >> 8) as u8, v as u8]));
        } else {
            assert!(r.is_none());
        }
    } else {
        assert!(r.is_none());
    }
}

#[kani::proof]
fn sym_85_range() {
    let b: u8 = kani::any();
    let r = sym_85(b);
    if b >= 0x21 && b <= 0x75 { assert!(r == Some(b - 0x21)); } else { assert!(r.is_none()); }
}

// spec: PNG (ISO/IEC 15948) 9.4 — Paeth predictor
fn paeth_spec(a: u8, b: u8, c: u8) -> u8 {
    let p = a as i32 + b as i32 - c as i32;
    let pa = (p - a as i32).abs();
    let pb = (p - b as i32).abs();
    let pc = (p - c as i32).abs();
    if pa <= pb && pa <= pc { a } else if pb <= pc { b } else { c }
}

#[kani::proof]
fn filter_paeth_png() {
    let a: u8 = kani::any();
    let b: u8 = kani::any();
    let c: u8 = kani::any();
    assert!(filter_paeth(a, b, c) == paeth_spec(a, b, c));
}

// spec: PNG filter type byte 0..4 (None, Sub, Up, Average, Paeth); anything else is an error
#[kani::proof]
fn predictor_from_u8() {
    let n: u8 = kani::any();
    let r = PredictorType::from_u8(n);
    match r {
        Ok(p) => {
            assert!(n <= 4);
            assert!(p as u8 == n);
            std::mem::forget(p);
        }
        Err(e) => { assert!(n > 4); std::mem::forget(e); }
    }
}
