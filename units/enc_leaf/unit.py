E = 'pdf/src/enc.rs'
UNIT = {
 'name': 'enc_leaf',
 'doc': 'Loop-free leaves of enc.rs on their full input domain (Kani, complete)',
 'template': None,
 'items': {},
 'kani': {
   'modules': [{'file': E, 'code': 'kani_enc.rs'}],
   'harnesses': [
     {'name': 'decode_nibble_hexval', 'fn': 'decode_nibble', 'file': E, 'props': ['C05', 'C16', 'C01'], 'kind': 'complete', 'covers': True,
      'contract': 'forall c: u8. hexval(c) == Some(v) ==> decode_nibble(c) == Some(v); never panics'},
     {'name': 'encode_nibble_inverse', 'fn': 'encode_nibble', 'file': E, 'props': ['C16'], 'kind': 'complete', 'covers': True,
      'contract': 'forall n < 16. hexval(encode_nibble(n)) == Some(n) && decode_nibble(encode_nibble(n)) == Some(n)'},
     {'name': 'word_85_iso', 'fn': 'word_85', 'file': E, 'props': ['C05', 'C16', 'C01'], 'kind': 'complete', 'covers': True,
      'contract': 'forall w: [u8;5] (2^40). word_85(w) == Some(be_bytes(sum (w_i-33)*85^(4-i))) iff all w_i in 0x21..=0x75 and the sum < 2^32, else None'},
     {'name': 'sym_85_range', 'fn': 'sym_85', 'file': E, 'props': ['C05', 'C01'], 'kind': 'complete',
      'contract': 'forall b: u8. sym_85(b) == Some(b-0x21) iff 0x21 <= b <= 0x75'},
     {'name': 'filter_paeth_png', 'fn': 'filter_paeth', 'file': E, 'props': ['C05', 'C01'], 'kind': 'complete',
      'contract': 'forall a,b,c: u8 (2^24). filter_paeth(a,b,c) == PNG PaethPredictor(a,b,c)'},
     {'name': 'predictor_from_u8', 'fn': 'PredictorType::from_u8', 'file': E, 'props': ['C05', 'C01', 'C14'], 'kind': 'complete',
      'contract': 'forall n: u8. Ok(p) iff n <= 4 and p as u8 == n'},
   ],
 },
}
