// Unit `guard` (C14, C01): the recursion guard on typed loads -- `StorageResolver::get` of pdf/src/file.rs -- and the
// untyped `StorageResolver::resolve_flags` / `Resolve::resolve` it is built on.
//
// What the code does, in order (this order is part of the contract):
//   1. key := the FULL reference (object number and generation)
//   2. guard: key ANYWHERE in the chain of loads in progress  => Err("Recursive reference"), nothing else happens
//   3. push key; from here on a drop guard (`Defer`) pops it again on EVERY exit
//   4. cache lookup (`get_or_compute`), only on a miss: untyped resolve of key, then T::from_primitive on the SAME
//      resolver (re-entrant: nested `get`s see the longer chain)
//   5. downcast of the cached value; on a type mismatch resolve + from_primitive again, uncached, still under the guard
//   6. pop (the drop guard)
//
// MODEL (R2/R8), say exactly what is dropped:
//   * `chain: Mutex<Vec<PlainRef>>` behind `&self` is a plain `Vec<PlainRef>` behind `&mut self`; `.lock().unwrap()` is
//     dropped. Dropped with it: lock poisoning (unwrap panics only after another panic while the lock was held -- there
//     is none, by the panic-freedom proved here), blocking (the guard of the first critical section is released at the end
//     of its block, before any nested call; the drop guard locks only while it pops), and CONCURRENCY: two threads that
//     share one resolver interleave their pushes and pops and the `assert_eq!` of the drop guard can fail. The contracts
//     below are about the sequential path (one thread per StorageResolver), which is how every call site in /repo uses it
//     (`File::resolver()` / `Storage::resolver()` hand out a fresh resolver).
//   * `let _defer = Defer(|| D); REST` is read as `let out = self.get__guarded(key) /* = REST */; D; out`  (Drop runs D on
//     every exit of REST: `?`, `bail!`, fall-through; unwinding does not occur, by panic-freedom of REST).
//   * `cache.get_or_compute(key, || C)` is read as `match cache_lookup(key) { Some(v) => v, None => C }`: the trait contract
//     of `Cache` (NoCache: always a miss; SyncCache: a finished entry is returned, otherwise C runs once). Dropped: that
//     the result of C is stored, and that SyncCache WAITS for an in-flight computation of the same key -- which, on one
//     thread, can only be a re-entry with the same key, and step 2 excludes exactly that (guard before cache).
//   * a ghost log `loads` of the untyped object loads, each with the chain it ran under, is added to the resolver (R1).
use vstd::prelude::*;
use std::sync::Arc;
use core::marker::PhantomData;
//@@ INCLUDE _common/error_macros.rs
verus! {
global size_of usize == 8;

//@@ PDFERROR

// ---- env types (not under proof) ------------------------------------------------------------------------------------
pub type ObjNr = u64;
pub type GenNr = u64;
pub type Shared<T> = Arc<T>;
#[verifier::external_body] pub struct PdfString { _p: () }
#[verifier::external_body] pub struct PdfStream { _p: () }
#[verifier::external_body] pub struct Dictionary { _p: () }
#[verifier::external_body] pub struct SmallString { _p: () }
#[derive(Clone, Copy)]
pub struct ParseFlags { pub bits: u16 }
impl ParseFlags { pub const ANY: ParseFlags = ParseFlags { bits: 1023 }; }   // parser/mod.rs: (1 << 10) - 1

//@@ struct PlainRef
//@@ enum Primitive
//@@ struct Ref
//@@ struct RcRef

impl<T> Clone for Ref<T> { fn clone(&self) -> (r: Ref<T>) ensures r == *self { *self } }
impl<T> Copy for Ref<T> {}
impl<T> Ref<T> {
//@@ Ref::get_inner
}
impl<T> RcRef<T> {
//@@ RcRef::new
}

// pdf/src/any.rs (abstract): a type-erased shared value
#[verifier::external_body] pub struct AnySync { _p: () }
impl AnySync {
    pub uninterp spec fn holds<T>(&self) -> Option<Shared<T>>;
    #[verifier::external_body]
    pub fn new<T>(arc: Arc<T>) -> (r: AnySync) ensures r.holds::<T>() == Some(arc) { unimplemented!() }
    #[verifier::external_body]
    pub fn downcast<T>(self) -> (r: Result<Arc<T>>)
        ensures match self.holds::<T>() { Some(v) => r == Ok::<Arc<T>, PdfError>(v), None => r is Err }
    { unimplemented!() }
}
// pdf/src/file.rs: trait Log (both methods are no-ops by default)
pub trait Log {
    fn load_object(&self, r: PlainRef);
    fn log_get(&self, r: PlainRef);
}
pub type CacheVal = Result<AnySync, Arc<PdfError>>;
// pdf/src/file.rs: trait Cache<T>. `cached(key)`: the finished entry for `key` at the time of the lookup, if any.
pub trait Cache {
    spec fn cached(&self, key: PlainRef) -> Option<CacheVal>;
    // R8 model of `get_or_compute(key, compute)`: Some(v) = served without running `compute`, None = `compute` runs
    fn lookup(&self, key: PlainRef) -> (r: Option<CacheVal>)
        ensures r == self.cached(key);
}
// pdf/src/file.rs: struct Storage -- only the two fields `get` / `resolve_flags` touch; everything else lives behind
// the abstract `resolve_ref`
pub struct Storage<B, OC, SC, L> { pub cache: OC, pub log: L, pub rest: PhantomData<(B, SC)> }

// one untyped object load: which object, and the chain of typed loads in progress at that moment
pub struct LoadEvent { pub key: PlainRef, pub chain: Seq<PlainRef> }

//@@ struct StorageResolver

pub open spec fn is_prefix(a: Seq<PlainRef>, b: Seq<PlainRef>) -> bool {
    a.len() <= b.len() && b.subrange(0, a.len() as int) == a
}
/// `new_log` continues `old_log`, and everything that was added ran under a chain that extends `chain`
pub open spec fn extends_under(old_log: Seq<LoadEvent>, new_log: Seq<LoadEvent>, chain: Seq<PlainRef>) -> bool {
    &&& old_log.len() <= new_log.len()
    &&& forall|i: int| 0 <= i < old_log.len() ==> (#[trigger] new_log[i]) == old_log[i]
    &&& forall|i: int| old_log.len() <= i < new_log.len() ==> is_prefix(chain, (#[trigger] new_log[i]).chain)
}
/// what a callee that re-enters the resolver may do to it: the chain is as before when it returns, loads were only added,
/// and every added load ran under (an extension of) the chain the callee was entered with
pub open spec fn reentrant_frame<B, OC, SC, L>(pre: StorageResolver<B, OC, SC, L>, post: StorageResolver<B, OC, SC, L>) -> bool {
    &&& post.chain@ == pre.chain@
    &&& post.storage == pre.storage
    &&& extends_under(pre.loads@, post.loads@, pre.chain@)
}

/// what the untyped load of `r` yields under a given chain of typed loads in progress (the chain matters: an object in
/// an object stream is fetched through a nested typed load of the stream, which the guard may refuse)
pub uninterp spec fn obj_under<B, OC, SC, L>(st: &Storage<B, OC, SC, L>, r: PlainRef, flags: ParseFlags, chain: Seq<PlainRef>) -> Result<Primitive>;

impl<B, OC: Cache, SC, L: Log> Storage<B, OC, SC, L> {
    // pdf/src/file.rs: Storage::resolve_ref (its value is under contract in units/resolve). Here: abstract and RE-ENTRANT --
    // parsing the object may call back into `resolve` (indirect /Length -> resolve_flags; compressed object ->
    // get::<ObjectStream>). Hypothesis = the frame every such call-back is proved to keep (get/chain_restored,
    // get/nested_loads_run_under_longer_chain, resolve_flags/frame below); it records the load in the ghost log.
    #[verifier::external_body]
    pub fn resolve_ref(&self, r: PlainRef, flags: ParseFlags, resolve: &mut StorageResolver<B, OC, SC, L>) -> (res: Result<Primitive>)
        requires old(resolve).wf()
        ensures
            res == obj_under(self, r, flags, old(resolve).chain@),
            final(resolve).chain@ == old(resolve).chain@,
            final(resolve).storage == old(resolve).storage,
            final(resolve).loads@.len() > old(resolve).loads@.len(),
            final(resolve).loads@[old(resolve).loads@.len() as int] == (LoadEvent { key: r, chain: old(resolve).chain@ }),
            extends_under(old(resolve).loads@, final(resolve).loads@, old(resolve).chain@),
    { unimplemented!() }
}

// the typed reader of an arbitrary `T`: abstract and RE-ENTRANT on the same resolver (it may call `get` / `resolve` any
// number of times). Hypothesis = the same frame.
pub trait Object: Sized {
    fn from_primitive<B, OC: Cache, SC, L: Log>(p: Primitive, resolve: &mut StorageResolver<B, OC, SC, L>) -> (r: Result<Self>)
        requires old(resolve).wf()
        ensures reentrant_frame(*old(resolve), *final(resolve));
}

// ---- R7 helpers (trusted, L0) ---------------------------------------------------------------------------------------
// `chain.contains(&key)`  (PlainRef: #[derive(PartialEq)] on two integers)
#[verifier::external_body]
fn hoist_contains(v: &Vec<PlainRef>, key: &PlainRef) -> (r: bool) ensures r == v@.contains(*key)
{ /* hoisted text: `v.contains(key)` (the env twin of PlainRef derives only Clone, Copy) */ unimplemented!() }
// `assert_eq!(a, b)`: panics unless a == b
#[verifier::external_body]
fn hoist_assert_eq(a: Option<PlainRef>, b: Option<PlainRef>) requires a == b
{ /* hoisted text: `assert_eq!(a, b)` */ unimplemented!() }
// `Shared::new(x)` / `x.into()` (From<T> for Arc<T>)
#[verifier::external_body]
fn hoist_shared_new<T>(x: T) -> (r: Shared<T>) ensures *r == x { Shared::new(x) }
#[verifier::external_body]
fn hoist_into_shared<T>(x: T) -> (r: Shared<T>) ensures *r == x { x.into() }
// `Arc::new(e)` for the cached error
#[verifier::external_body]
fn hoist_arc_new<T>(e: T) -> (r: Arc<T>) ensures *r == e { Arc::new(e) }
// R3: `PdfError::Shared { source: <Arc<PdfError>> }` -- the twin keeps the source in a Box; the argument is the source expression
// of the construction site, verbatim (`e.clone()` / `Arc::clone(&e)` are read by vstd's Arc model: the same value)
#[verifier::external_body]
fn hoist_shared_box(e: Arc<PdfError>) -> (r: Box<PdfError>) ensures *r == *e { unimplemented!() }
// `Arc::try_unwrap(a)` (std: `Ok(inner value)` if `a` is the only strong reference, else `Err(a)`; which of the two is not
// modelled -- both outcomes are possible for the verifier)
#[verifier::external_body]
fn hoist_arc_try_unwrap<T>(a: Arc<T>) -> (r: core::result::Result<T, Arc<T>>)
    ensures match r { Ok(v) => v == *a, Err(b) => b == a }
{ /* hoisted text: `Arc::try_unwrap(a)` (T need not be Debug/Clone here) */ unimplemented!() }

pub open spec fn root(e: PdfError) -> PdfError
    decreases e
{
    match e {
        PdfError::Try { source } => root(*source),
        PdfError::FromPrimitive { typ, field, source } => root(*source),
        PdfError::Shared { source } => root(*source),
        x => x,
    }
}

impl<'a, B, OC: Cache, SC, L: Log> StorageResolver<'a, B, OC, SC, L> {
    /// invariant of the chain of typed loads in progress: no key twice
    pub open spec fn wf(&self) -> bool { self.chain@.no_duplicates() }

//@@ StorageResolver::new
//@@ StorageResolver::resolve_flags
//@@ StorageResolver::resolve
//@@ StorageResolver::get__guarded
//@@ StorageResolver::get
}

// ---- the termination argument of C14 "reference cycles ... end in an error" -----------------------------------------
/// A duplicate-free chain over a finite set of keys is no longer than the set: the nesting depth of typed loads
/// (= chain length: get/nested_loads_run_under_longer_chain, every frame holds exactly one entry) is bounded by the number
/// of distinct references (object number, generation) that can be asked for -- finitely many in a finite file.
pub proof fn lemma_depth_bounded_by_distinct_keys(chain: Seq<PlainRef>, keys: Set<PlainRef>)
    requires
        chain.no_duplicates(),
        keys.finite(),
        forall|i: int| 0 <= i < chain.len() ==> keys.contains(#[trigger] chain[i]),
    ensures
        chain.len() <= keys.len(),
{
    chain.unique_seq_to_set();
    assert(chain.to_set().subset_of(keys)) by {
        assert forall|k: PlainRef| chain.to_set().contains(k) implies keys.contains(k) by {
            let i = choose|i: int| 0 <= i < chain.len() && chain[i] == k;
            assert(keys.contains(chain[i]));
        }
    }
    vstd::set_lib::lemma_len_subset(chain.to_set(), keys);
}
/// once every key is in the chain, the guard refuses whatever is asked for: the recursion cannot go deeper
pub proof fn lemma_full_chain_refuses_everything(chain: Seq<PlainRef>, keys: Set<PlainRef>, key: PlainRef)
    requires
        chain.no_duplicates(),
        keys.finite(),
        forall|i: int| 0 <= i < chain.len() ==> keys.contains(#[trigger] chain[i]),
        chain.len() >= keys.len(),
        keys.contains(key),
    ensures
        chain.contains(key),
{
    chain.unique_seq_to_set();
    assert(chain.to_set().subset_of(keys)) by {
        assert forall|k: PlainRef| chain.to_set().contains(k) implies keys.contains(k) by {
            let i = choose|i: int| 0 <= i < chain.len() && chain[i] == k;
            assert(keys.contains(chain[i]));
        }
    }
    vstd::set_lib::lemma_len_subset(chain.to_set(), keys);
    vstd::set_lib::lemma_subset_equality(chain.to_set(), keys);
    assert(chain.to_set().contains(key));
}
}
fn main(){}
