import os
import re
from vlib import assemble as _asm

FILE = 'pdf/src/file.rs'
M = 'pdf/src/object/mod.rs'
P = 'pdf/src/primitive.rs'
PR = ['C14', 'C01']
IMPL_RES = r"^impl<'a, B, OC, SC, L> Resolve for StorageResolver<'a, B, OC, SC, L> where"
IMPL_NEW = r"^impl<'a, B, OC, SC, L> StorageResolver<'a, B, OC, SC, L>$"

DEFER = r'let _defer = Defer\(\|\| \{(.*?)\}\);'


def _has_defer():
    """The drop guard `let _defer = Defer(|| ..);` splits `get` into guard prefix + guarded rest (two items from one fn).
    A tree that pops by hand instead (e.g. a mutant) has no such statement: then `get` is ONE item, verified as a whole,
    and the marker of the second item is filled with a comment (same device as units/option)."""
    try:
        src = open(os.path.join(_asm.REPO, FILE), encoding='utf-8').read()
    except OSError:
        return True
    return re.search(r'let _defer = Defer\(', src) is not None


def sig(find, replace, rule='R2'):
    return {'where': 'sig', 'rule': rule, 'find': find, 'replace': replace}


PUB = lambda *fs: [{'rule': 'R2', 'find': f + ':', 'replace': 'pub ' + f + ':'} for f in fs]
ANY = lambda d: dict(d, count='*')

# body rewrites shared by both halves of `get` (count '*': each half / each tree shape contains a subset)
GET_BODY = [ANY(x) for x in [
    # R8: the Mutex guard alias is inlined: `let mut chain = self.chain.lock().unwrap(); chain.f(..)` -> `self.chain.f(..)`
    {'rule': 'R8', 'regex': r'let mut chain = self\.chain\.lock\(\)\.unwrap\(\);', 'replace': ''},
    {'rule': 'R8', 'regex': r'(?<![.\w])chain\b', 'replace': 'self.chain'},
    # R8: the same guard used without an alias: `self.chain.lock().unwrap().f(..)` -> `self.chain.f(..)`
    {'rule': 'R8', 'regex': r'self\.chain\.lock\(\)\.unwrap\(\)', 'replace': 'self.chain'},
    {'rule': 'R7', 'regex': r'self\.chain\.contains\(&key\)', 'replace': 'hoist_contains(&self.chain, &key)'},
    {'rule': 'R4', 'regex': r'assert_eq!\(self\.chain\.pop\(\), Some\(key\)\);', 'replace': 'let popped__ = self.chain.pop(); hoist_assert_eq(popped__, Some(key));'},
    # R8: `cache.get_or_compute(key, || C)` -> lookup, C evaluated in place on a miss (see the header of unit.rs)
    {'rule': 'R8', 'regex': r'let res = self\.storage\.cache\.get_or_compute\(key, \|\| \{(.*?)\}\);(\s*)((?:let \w+ = )?match res \{)',
     'replace': r'let res = match self.storage.cache.lookup(key) { Some(v__) => v__, None => {\1} };\2\3'},
    # R8: forwarding closure of Result::and_then inlined
    {'rule': 'R8', 'regex': r'self\.resolve\(key\)\.and_then\(\|p\| (T::from_primitive\(p, self\))\)',
     'replace': r'(match self.resolve(key) { Ok(p) => \1, Err(e__) => Err(e__) })'},
    {'rule': 'R7', 'regex': r'Shared::new\(', 'replace': 'hoist_shared_new('},
    {'rule': 'R7', 'regex': r'(?<![\w:])Arc::new\(', 'replace': 'hoist_arc_new('},
    {'rule': 'R7', 'regex': r'RcRef::new\(key, ((?:[^()]|\([^()]*\))*?)\.into\(\)\)', 'replace': r'RcRef::new(key, hoist_into_shared(\1))'},
    # R3, by shape: the twin keeps the source of `Shared` in a Box; the source EXPRESSION (`e.clone()`, `Arc::clone(&e)`, `e`) stays verbatim
    {'rule': 'R3', 'regex': r'PdfError::Shared\s*\{\s*source:\s*([^{}]*?)\s*\}', 'replace': r'PdfError::Shared { source: hoist_shared_box(\1) }'},
    # R3: `Other { msg }` has its String payload dropped in the twin (construction sites outside the `other!`/`bail!` macros)
    {'rule': 'R3', 'regex': r'PdfError::Other\s*\{\s*msg:\s*[^{}]*\}', 'replace': 'PdfError::Other'},
    # R7: `Arc::try_unwrap(x)` (std: the value if this is the only owner, else the Arc back)
    {'rule': 'R7', 'regex': r'(?<![\w:])Arc::try_unwrap\(', 'replace': 'hoist_arc_try_unwrap('},
    # R8: forwarding closure of Result::unwrap_or_else inlined: `CALL(..).unwrap_or_else(|v| E)` -> `match CALL(..) { Ok(t) => t, Err(v) => E }`
    {'rule': 'R8', 'regex': r'(?<![\w.:])(\w+(?:::\w+)*\((?:[^()]|\([^()]*\))*\))\s*\.\s*unwrap_or_else\(\s*\|\s*(\w+)\s*\|\s*((?:[^()]|\((?:[^()]|\([^()]*\))*\))*?)\s*\)',
     'replace': r'(match \1 { Ok(t__) => t__, Err(\2) => \3 })'},
]]

KEY = 'r.inner'
MISS = '!old(self).chain@.contains(%s) && old(self).chain@.len() < 32 && old(self).storage.cache.cached(%s) is None'
UNDER = 'obj_under(old(self).storage, %s, ParseFlags::ANY, %s)'

GET_ENS = [
    # C14: "the chain after a call equals the chain before", on every exit path
    ('chain_restored', 'final(self).chain@ == old(self).chain@ && final(self).storage == old(self).storage'),
    # a key ANYWHERE in the chain is an error and is not loaded again (no cache lookup, no resolve, no reader)
    ('repeated_key_is_refused_and_not_loaded',
     'old(self).chain@.contains(%s) ==> (out matches Err(PdfError::Other)) && final(self).loads@ == old(self).loads@' % KEY),
    # C14 (finding deep_parent_chain): at most 32 typed loads are ever in progress inside one another: the 33rd is refused and loads nothing
    ('nesting_beyond_32_is_refused_and_not_loaded',
     'old(self).chain@.len() >= 32 ==> (out matches Err(PdfError::Other)) && final(self).loads@ == old(self).loads@'),
    # every load made on behalf of this call runs under the chain extended by this key (depth + 1)
    ('nested_loads_run_under_longer_chain',
     'extends_under(old(self).loads@, final(self).loads@, old(self).chain@.push(%s))' % KEY),
    # the object is handed out under the FULL reference it was asked for
    ('get_keeps_full_reference', 'out matches Ok(rc) ==> rc.inner == %s' % KEY),
    # C18: on a cache miss a failing lookup of the object surfaces as Shared { that error }: same root cause
    ('load_error_has_resolve_root',
     (MISS % (KEY, KEY)) + ' ==> (' + (UNDER % (KEY, 'old(self).chain@.push(%s)' % KEY)) +
     ' matches Err(e) ==> (out matches Err(e2) && e2 matches PdfError::Shared { source } && *source == e && root(e2) == root(e)))'),
    # (`cached_error_is_shared` removed: a cached error is re-decided for the requested type since /repo a2f701f; see units/cachetransp)
]
K2 = 'key'
GUARDED_ENS = [
    ('chain_restored', 'final(self).chain@ == old(self).chain@ && final(self).storage == old(self).storage'),
    ('nested_loads_run_under_longer_chain', 'extends_under(old(self).loads@, final(self).loads@, old(self).chain@)'),
    ('get_keeps_full_reference', 'out matches Ok(rc) ==> rc.inner == key'),
    ('load_error_has_resolve_root',
     'old(self).storage.cache.cached(key) is None ==> (' + (UNDER % ('key', 'old(self).chain@')) +
     ' matches Err(e) ==> (out matches Err(e2) && e2 matches PdfError::Shared { source } && *source == e))'),
]

SIG_GET = [sig('fn get<T: Object+DataSize>(&self,', 'fn get<T: Object>(&mut self,')]

if _has_defer():
    _GET = {'kind': 'fn', 'file': FILE, 'container': IMPL_RES, 'name': 'get', 'props': PR + ['C18', 'C12'], 'ret': 'out',
            'requires': ['old(self).wf()'], 'ensures': GET_ENS,
            'rewrites': SIG_GET + [
                # the drop guard: `let _defer = Defer(|| D); REST }` -> `let out = <REST as its own fn>; D; out }`
                {'rule': 'R8', 'regex': DEFER + r'(.*)\}\s*\Z', 'replace': r'let out__ = self.get__guarded::<T>(key);\1 out__\n    }'},
            ] + GET_BODY}
    _GUARDED = {'kind': 'fn', 'file': FILE, 'container': IMPL_RES, 'name': 'get', 'rename': 'get__guarded', 'verus_name': 'StorageResolver::get__guarded',
                'props': PR + ['C18', 'C12'], 'ret': 'out',
                'requires': ['old(self).wf()', 'old(self).chain@.len() > 0', 'old(self).chain@.last() == key'],
                'ensures': GUARDED_ENS,
                'rewrites': [sig('fn get<T: Object+DataSize>(&self, r: Ref<T>)', 'fn get<T: Object>(&mut self, key: PlainRef)'),
                    # REST = the text after the drop-guard statement
                    {'rule': 'R8', 'regex': r'\A\{.*?' + DEFER.replace('(.*?)', '.*?'), 'replace': '{'},
                ] + GET_BODY}
else:
    _GET = {'kind': 'fn', 'file': FILE, 'container': IMPL_RES, 'name': 'get', 'props': PR + ['C18', 'C12'], 'ret': 'out',
            'requires': ['old(self).wf()'], 'ensures': GET_ENS, 'rewrites': SIG_GET + GET_BODY}
    # (dummy item for the template marker: any declaration that is in every tree; `struct Defer` itself may be gone with the guard)
    _GUARDED = {'kind': 'decl', 'file': FILE, 'header': r"^struct StorageResolver<'a, B, OC, SC, L>$",
                'rewrites': [{'rule': 'R2', 'regex': r'\A.*\Z', 'replace': '// StorageResolver::get has no drop guard in this tree: verified as one function'}]}

UNIT = {
 'name': 'guard',
 'doc': 'StorageResolver::get: recursion guard on typed loads (push / contains / pop around every load), resolve_flags depth budget',
 'timeout': 600,
 # BOUNDED native stand-in (vlib/native.py) for C14 / C01: hostile but well-formed files walked through the public read interface, every family
 # in a child process (a stack overflow cannot be caught). Registered tests = filter `c14_`. Never counted as proved.
 'native': {'tests': [
    {'name': 'hostile_structures_end_in_a_value_or_an_error', 'code': 'native_hostile_structures.rs', 'place': 'pdf/tests/verif_c14_hostile.rs',
     'filter': 'c14_', 'fn': 'StorageResolver::get', 'props': ['C14', 'C01'], 'tier': 'quick', 'timeout': 900,
     'bound': '162 hand-generated files / texts in 9 families: page tree (self-kid, kid -> ancestor, /Count 2^31-1 / 2^32-1 / negative / 0 / real, '
              '/Parent loops, 12 .. 3000 nested nodes) | /Prev (itself, 2-loop, beyond EOF, 0, negative, 2^63; classic and stream sections) | object '
              'streams (member of itself, two containing each other, /Extends cycles, container not a stream, index beyond /N, /N /First 2^31) | stream '
              '/Length (the stream itself, another stream, reference loop, negative, 2^31-1, 2^64-1) | reference chains (1000 long; cycles of length '
              '1, 2, 3, 41 behind every followed field) | name / number trees and outlines (self, 2-cycle, fan-out 8, 40 and 1000 levels) | functions, '
              'colour spaces, fonts naming themselves (type 3 self / 2-cycle / 1000 levels, type 0 /Size 2^31, type 4 nesting 2000) | xref numbers '
              '(/W huge / zero / negative, /Index count 2^31, /Size 2^31 and 50 000 000 with tiny data, classic subsection count 2^31) | nesting '
              '([[..]] and <<..>> 200 and 10 000 deep, bare and inside a file; literal strings with 1 000 000 open / escaped parentheses); each opened '
              'with {strict, tolerant} x {uncached, cached} and walked (pages, boxes, resources, fonts, contents, trees, every object number through '
              '12 typed readers, stream data, recovery scan); 8 MiB stack, 5 s watchdog, 512 MiB heap limit per case',
     'contract': 'every walk returns (values or errors) within the watchdog; no panic, no stack overflow / abort, peak heap below the limit'},
 ]},
 'items': {
  'struct PlainRef': {'kind': 'decl', 'file': M, 'header': r'^pub struct PlainRef$', 'attrs': ['#[derive(Clone, Copy, PartialEq, Eq, Structural)]']},
  'enum Primitive': {'kind': 'decl', 'file': P, 'header': r'^pub enum Primitive$'},
  'struct Ref': {'kind': 'decl', 'file': M, 'header': r'^pub struct Ref<T>$', 'rewrites': PUB('inner', '_marker')},
  'struct RcRef': {'kind': 'decl', 'file': M, 'header': r'^pub struct RcRef<T>$', 'rewrites': PUB('inner', 'data')},
  'Ref::get_inner': {'kind': 'fn', 'file': M, 'container': r'^impl<T> Ref<T>$', 'name': 'get_inner', 'props': PR,
      'ensures': [('get_inner_is_reference', 'r == self.inner')]},
  'RcRef::new': {'kind': 'fn', 'file': M, 'container': r'^impl<T> RcRef<T>$', 'name': 'new', 'props': PR,
      'ensures': [('new_keeps_full_reference', 'r.inner == inner && r.data == data')]},

  # R2/R8: `chain: Mutex<Vec<PlainRef>>` -> plain Vec (the resolver is `&mut self` in the model); R1: ghost log of loads
  'struct StorageResolver': {'kind': 'decl', 'file': FILE, 'header': r"^struct StorageResolver<'a, B, OC, SC, L>$",
      'rewrites': [{'rule': 'R2', 'find': 'struct StorageResolver', 'replace': 'pub struct StorageResolver'},
                   {'rule': 'R2', 'find': 'storage:', 'replace': 'pub storage:'},
                   {'rule': 'R8', 'find': 'chain: Mutex<Vec<PlainRef>>,', 'replace': 'pub chain: Vec<PlainRef>, pub loads: Ghost<Seq<LoadEvent>>,'}]},
  'StorageResolver::new': {'kind': 'fn', 'file': FILE, 'container': IMPL_NEW, 'name': 'new', 'props': PR,
      'ensures': [('new_chain_is_empty', 'r.chain@.len() == 0 && r.wf() && r.storage == storage')],
      'rewrites': [{'rule': 'R8', 'find': 'chain: Mutex::new(vec![])', 'replace': 'chain: Vec::new(), loads: Ghost(Seq::empty())'}]},

  'StorageResolver::resolve_flags': {'kind': 'fn', 'file': FILE, 'container': IMPL_RES, 'name': 'resolve_flags', 'props': PR, 'ret': 'res',
      'requires': ['old(self).wf()'],
      'ensures': [('frame', 'reentrant_frame(*old(self), *final(self))'),
                  ('loads_the_object_first', 'final(self).loads@.len() > old(self).loads@.len() && final(self).loads@[old(self).loads@.len() as int] == (LoadEvent { key: r, chain: old(self).chain@ })'),
                  # C14: an object whose value is a reference is followed within the depth budget, never handed out --
                  # so that readers which follow a Reference by resolving it terminate (units/readers: vec_from_primitive/terminates)
                  ('never_a_reference', '!(res matches Ok(Primitive::Reference(_)))'),
                  ('error_is_the_lookup_error', 'obj_under(old(self).storage, r, flags, old(self).chain@) matches Err(e) ==> res == Err::<Primitive, PdfError>(e)')],
      'decreases': 'depth',
      'rewrites': [sig('(&self,', '(&mut self,'), {'where': 'sig', 'rule': 'R2', 'regex': r'\b_depth\b', 'replace': 'depth', 'count': '*'}]},
  'StorageResolver::resolve': {'kind': 'fn', 'file': M, 'container': r'^pub trait Resolve:$', 'name': 'resolve', 'props': PR, 'ret': 'res',
      'requires': ['old(self).wf()'],
      'ensures': [('frame', 'reentrant_frame(*old(self), *final(self))'),
                  ('never_a_reference', '!(res matches Ok(Primitive::Reference(_)))'),
                  ('error_is_the_lookup_error', 'obj_under(old(self).storage, r, ParseFlags::ANY, old(self).chain@) matches Err(e) ==> res == Err::<Primitive, PdfError>(e)')],
      'rewrites': [sig('(&self,', '(&mut self,')]},
  'StorageResolver::get__guarded': _GUARDED,
  'StorageResolver::get': _GET,
 },
}
