// Repro for finding deep_parent_chain (C14 / C01): a page tree nested N levels deep (every node a well-formed /Pages with /Parent,
// one kid, /Count 1; one page at the bottom). Reading the leaf loads its /Parent (`Page::parent: PagesRc`, `PageTree::parent:
// Option<PagesRc>`) eagerly, the parent loads ITS parent, ..: one nested typed load per level, no depth budget on that path
// (PageTree::page_limited has one for the way DOWN, 16 levels). The stack overflows (SIGABRT), which no caller can catch.
// Drop into a scratch copy of /repo as pdf/tests/deep_parent_chain.rs and run ONE test per process:
//   cargo test --offline -p pdf --test deep_parent_chain deep_3000 -- --exact
// DEPTH can be overridden with the environment variable DEPTH.
use pdf::file::FileOptions;
use pdf::object::{PlainRef, Resolve, Ref, PagesNode};

fn build(depth: u64) -> Vec<u8> {
    let mut out = b"%PDF-1.7\n".to_vec();
    let mut pos = Vec::new();
    let mut objs: Vec<(u64, String)> = vec![(1, "<< /Type /Catalog /Pages 2 0 R >>".to_string())];
    for i in 0..depth {
        let parent = if i > 0 { format!("/Parent {} 0 R ", 1 + i) } else { String::new() };
        objs.push((2 + i, format!("<< /Type /Pages {}/Kids [{} 0 R] /Count 1 >>", parent, 3 + i)));
    }
    objs.push((2 + depth, format!("<< /Type /Page /Parent {} 0 R /MediaBox [0 0 10 10] >>", 1 + depth)));
    for (id, body) in &objs {
        pos.push(out.len());
        out.extend_from_slice(format!("{} 0 obj\n{}\nendobj\n", id, body).as_bytes());
    }
    let xref = out.len();
    out.extend_from_slice(format!("xref\n0 {}\n0000000000 65535 f \n", objs.len() + 1).as_bytes());
    for p in &pos { out.extend_from_slice(format!("{:010} 00000 n \n", p).as_bytes()); }
    out.extend_from_slice(format!("trailer\n<< /Size {} /Root 1 0 R >>\nstartxref\n{}\n%%EOF\n", objs.len() + 1, xref).as_bytes());
    out
}

fn read_leaf(depth: u64) {
    let depth = std::env::var("DEPTH").ok().and_then(|d| d.parse().ok()).unwrap_or(depth);
    let data = build(depth);
    println!("{} levels, {} bytes", depth, data.len());
    let file = FileOptions::cached().load(data).expect("the document loads (the root node is read, its kids are references)");
    // (a) the typed read of the bottom page: Err or Ok are both fine, an abort is not
    let leaf: Ref<PagesNode> = Ref::new(PlainRef { id: 2 + depth, gen: 0 });
    let r = file.resolver().get(leaf);
    println!("get(leaf) is_ok = {}", r.is_ok());
    // (b) the page iterator / get_page
    let r = file.get_page(0);
    println!("get_page(0) is_ok = {}", r.is_ok());
}

/// control: 10 levels are read
#[test]
fn deep_10() { read_leaf(10); }
/// 3000 levels: must be a value or an error; on /repo 6c18973 the process aborts with "has overflowed its stack"
#[test]
fn deep_3000() { read_leaf(3000); }
