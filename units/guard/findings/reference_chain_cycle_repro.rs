// Repro for finding reference_chain_cycle (unit readers, obligations readers/vec_from_primitive/terminates,
// readers/hashmap_from_primitive/terminates).
// Drop into a scratch copy of /repo as pdf/tests/reference_chain_cycle.rs and run
//   cargo test --offline -p pdf --test reference_chain_cycle
//
// An indirect object whose VALUE is itself an indirect reference (`5 0 obj 5 0 R endobj`, or a 2-cycle 5 -> 6 -> 5)
// is syntactically valid. `Vec<T>::from_primitive` and `HashMap<Name, V>::from_primitive` follow a Reference with
// `Self::from_primitive(r.resolve(id)?, r)` -- untyped `resolve`, which does not go through the recursion guard of
// `StorageResolver::get` and ignores its `depth` argument -- so the reader recurses until the stack overflows
// (SIGABRT, not catchable). C14: "reference cycles through any field that is followed ... every read call returns a
// value or an error". Each case runs in a child process so that the abort is observable.
use pdf::file::FileOptions;
use pdf::object::{Object, Resolve};
use pdf::primitive::{Primitive, Name};
use pdf::object::PlainRef;
use std::collections::HashMap;

/// classic xref table, /Size 7: 1 catalog, 2 pages, 3 free, 4 = `[1 2]`, 5 and 6 as given
fn build(kids: &str, obj5: &str, obj6: &str) -> Vec<u8> {
    let mut out: Vec<u8> = Vec::new();
    out.extend_from_slice(b"%PDF-1.4\n");
    let p1 = out.len();
    out.extend_from_slice(b"1 0 obj\n<< /Type /Catalog /Pages 2 0 R >>\nendobj\n");
    let p2 = out.len();
    out.extend_from_slice(format!("2 0 obj\n<< /Type /Pages /Kids {} /Count 0 >>\nendobj\n", kids).as_bytes());
    let p4 = out.len();
    out.extend_from_slice(b"4 0 obj\n[1 2]\nendobj\n");
    let p5 = out.len();
    out.extend_from_slice(format!("5 0 obj\n{}\nendobj\n", obj5).as_bytes());
    let p6 = out.len();
    out.extend_from_slice(format!("6 0 obj\n{}\nendobj\n", obj6).as_bytes());
    let px = out.len();
    out.extend_from_slice(b"xref\n0 7\n");
    out.extend_from_slice(b"0000000003 65535 f \n");
    out.extend_from_slice(format!("{:010} 00000 n \n", p1).as_bytes());
    out.extend_from_slice(format!("{:010} 00000 n \n", p2).as_bytes());
    out.extend_from_slice(b"0000000000 00001 f \n");
    out.extend_from_slice(format!("{:010} 00000 n \n", p4).as_bytes());
    out.extend_from_slice(format!("{:010} 00000 n \n", p5).as_bytes());
    out.extend_from_slice(format!("{:010} 00000 n \n", p6).as_bytes());
    out.extend_from_slice(format!("trailer\n<< /Size 7 /Root 1 0 R >>\nstartxref\n{}\n%%EOF\n", px).as_bytes());
    out
}

fn r(id: u64) -> Primitive { Primitive::Reference(PlainRef { id, gen: 0 }) }

/// runs in the child process
fn case(name: &str) {
    match name {
        "vec_self" => {
            let file = FileOptions::uncached().load(build("[]", "5 0 R", "null")).expect("load");
            let res = Vec::<i32>::from_primitive(r(5), &file.resolver());
            assert!(res.is_err(), "{:?}", res);
        }
        "vec_two_cycle" => {
            let file = FileOptions::uncached().load(build("[]", "6 0 R", "5 0 R")).expect("load");
            let res = Vec::<i32>::from_primitive(r(5), &file.resolver());
            assert!(res.is_err(), "{:?}", res);
        }
        "map_self" => {
            let file = FileOptions::uncached().load(build("[]", "5 0 R", "null")).expect("load");
            let res = HashMap::<Name, i32>::from_primitive(r(5), &file.resolver());
            assert!(res.is_err());
        }
        "kids_on_load" => {
            // reached from the public entry point: /Kids 5 0 R is read as Vec<Ref<PagesNode>> while the catalog loads
            let res = FileOptions::uncached().load(build("5 0 R", "5 0 R", "null"));
            assert!(res.is_err());
        }
        "control_chain" => {
            // a finite chain 5 -> 6 -> 4 = [1 2] is followed to its end
            let file = FileOptions::uncached().load(build("[]", "6 0 R", "4 0 R")).expect("load");
            let res = Vec::<i32>::from_primitive(r(5), &file.resolver()).expect("chain of references to an array");
            assert_eq!(res, vec![1, 2]);
        }
        _ => panic!("unknown case"),
    }
}

fn run_child(name: &str) {
    let exe = std::env::current_exe().unwrap();
    let out = std::process::Command::new(exe)
        .args(["--exact", "child", "--nocapture", "--test-threads", "1"])
        .env("REPRO_CASE", name)
        .output().unwrap();
    assert!(out.status.success(), "case {}: child ended with {:?}\n{}", name, out.status,
        String::from_utf8_lossy(&out.stderr).lines().rev().take(6).collect::<Vec<_>>().join("\n"));
}

#[test]
fn child() {
    if let Ok(name) = std::env::var("REPRO_CASE") { case(&name); }
}
#[test] fn control_finite_reference_chain_is_followed() { run_child("control_chain"); }
#[test] fn vec_reader_on_self_referencing_object_returns() { run_child("vec_self"); }
#[test] fn vec_reader_on_two_cycle_returns() { run_child("vec_two_cycle"); }
#[test] fn hashmap_reader_on_self_referencing_object_returns() { run_child("map_self"); }
#[test] fn load_with_kids_pointing_at_self_referencing_object_returns() { run_child("kids_on_load"); }
