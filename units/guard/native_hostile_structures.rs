// BOUNDED native stand-in for C14 / C01 on the REAL public API (placed at pdf/tests/verif_c14_hostile.rs by vlib/native.py).
// A test, not a proof. It decides changes that move a followed field out of the guarded paths proved in units guard / treewalk /
// pagetree / xrefchain / objstm / xrefstm / strlex / parser_obj (a NEW helper without contract leaves those UNDECIDED).
//
// Statement (C14, C01): every syntactically valid file whose objects form an adversarial structure is answered by every read call
// with a value or an error: no panic, no stack exhaustion, no abort, time and memory in proportion to the file.
//
// Universe (the BOUND): the hand-written FAMILIES below (`family(..)`), each a list of small generated files (classic table unless the
// case is about cross-reference streams). Each file is opened with {strict, tolerant} x {uncached, cached} and WALKED (`walk!`):
//   num_pages, pages() (first 64), get_page(0, 1, 2, 1000, u32::MAX), per page media_box / crop_box / resources (fonts loaded, widths,
//   to_unicode) / content operations; catalog name trees and page labels walked; every object number 0..=max resolved, streams decoded
//   (raw_data, data), and read through the typed readers PagesNode, Function (+apply), ColorSpace, Font (+widths), NameTree, NumberTree,
//   ObjectStream, Resources, Content; the recovery scan (first 10 000 items). `parse`-level cases run pdf::parser::parse.
// PASS of a case = the whole walk returns (any mix of values and errors) inside the WATCHDOG (5 s), without a panic (catch_unwind),
//   with a peak heap below 512 MiB (counting allocator of this test binary; a single request above 2 GiB is refused = abort), and the
//   process survives (stack overflow / abort cannot be caught: every family runs in a CHILD PROCESS of this test binary on a thread
//   with the default main-thread stack of 8 MiB; the parent turns a dead child into a failure naming the case that was running).
// Families (registered tests `c14_*`): page_tree (kid -> ancestor, self-kid, /Count huge / negative / 0, /Parent loops, 12, 60, 300 and 3000
//   nested nodes: the last two were the finding deep_parent_chain, fixed in /repo aebe012) | prev_chain (/Prev to itself, 2-loop, beyond EOF, 0, negative, 2^63; classic and stream sections) | object_streams (member of
//   itself, two containing each other, /Extends cycles, container not a stream, index beyond /N) | stream_length (/Length referring to the
//   stream itself, to another stream, to a reference loop, negative, 2^31-1) | ref_chains (n 0 obj n+1 0 R of length 1000 ending in a
//   value / in a cycle; cycles of length 1, 2, 3 reached through /Kids /Contents /Resources /Length /Pages) | trees (name / number tree
//   /Kids self, 2-cycle, 40 and 1000 levels; outline /First /Next loops) | functions (type 3 stitching containing itself, 2-cycle, 40 and
//   1000 levels; type 0 /Size 2^31; type 4 nesting; colour spaces and descendant fonts naming themselves) | xref_numbers (/W huge, zero,
//   negative; /Index count 2^31, start 2^31-1; /Size 2^31 and 50 000 000 with tiny data; classic subsection count 2^31) | nesting ([[[..]]] and <<..>>
//   200 and 10 000 deep, bare and as an object of a file; literal string with 1 000 000 open parentheses, balanced and unbalanced).
use pdf::content::Content;
use pdf::file::FileOptions;
use pdf::font::Font;
use pdf::object::*;
use pdf::parser::{parse, ParseFlags};
use pdf::primitive::Primitive;
use std::alloc::{GlobalAlloc, Layout, System};
use std::io::Write;
use std::panic::{catch_unwind, AssertUnwindSafe};
use std::sync::atomic::{AtomicUsize, Ordering};
use std::time::{Duration, Instant};

// ------------------------------------------------------------------------------------------------ counting allocator
struct Counting;
static LIVE: AtomicUsize = AtomicUsize::new(0);
static PEAK: AtomicUsize = AtomicUsize::new(0);
const REFUSE_ABOVE: usize = 2 << 30;
const PEAK_LIMIT: usize = 512 << 20;
unsafe impl GlobalAlloc for Counting {
    unsafe fn alloc(&self, l: Layout) -> *mut u8 {
        if l.size() > REFUSE_ABOVE { return std::ptr::null_mut(); }
        let p = System.alloc(l);
        if !p.is_null() { let live = LIVE.fetch_add(l.size(), Ordering::Relaxed) + l.size(); PEAK.fetch_max(live, Ordering::Relaxed); }
        p
    }
    unsafe fn dealloc(&self, p: *mut u8, l: Layout) { System.dealloc(p, l); LIVE.fetch_sub(l.size(), Ordering::Relaxed); }
    unsafe fn realloc(&self, p: *mut u8, l: Layout, new: usize) -> *mut u8 {
        if new > REFUSE_ABOVE { return std::ptr::null_mut(); }
        let q = System.realloc(p, l, new);
        if !q.is_null() {
            if new >= l.size() { let live = LIVE.fetch_add(new - l.size(), Ordering::Relaxed) + new - l.size(); PEAK.fetch_max(live, Ordering::Relaxed); }
            else { LIVE.fetch_sub(l.size() - new, Ordering::Relaxed); }
        }
        q
    }
}
#[global_allocator]
static ALLOC: Counting = Counting;

// ------------------------------------------------------------------------------------------------ file builder
/// classic file: objects (number, body) in the given order, one subsection per object, trailer `<< /Size s /Root 1 0 R extra >>`
fn build(objs: &[(u64, String)], extra: &str) -> Vec<u8> {
    let mut out = b"%PDF-1.7\n".to_vec();
    let mut pos = Vec::new();
    for (id, body) in objs {
        pos.push((*id, out.len()));
        out.extend_from_slice(format!("{} 0 obj\n{}\nendobj\n", id, body).as_bytes());
    }
    let xref = out.len();
    out.extend_from_slice(b"xref\n0 1\n0000000000 65535 f \n");
    for (id, p) in &pos { out.extend_from_slice(format!("{} 1\n{:010} 00000 n \n", id, p).as_bytes()); }
    let size = objs.iter().map(|o| o.0).max().unwrap_or(0) + 1;
    out.extend_from_slice(format!("trailer\n<< /Size {} /Root 1 0 R {} >>\nstartxref\n{}\n%%EOF\n", size, extra.replace("@XREF", &xref.to_string()), xref).as_bytes());
    out
}
fn o(id: u64, body: &str) -> (u64, String) { (id, body.to_string()) }
const CAT: &str = "<< /Type /Catalog /Pages 2 0 R >>";
const EMPTY_PAGES: &str = "<< /Type /Pages /Kids [] /Count 0 >>";
fn std_doc(mut rest: Vec<(u64, String)>) -> Vec<u8> {
    let mut objs = vec![o(1, CAT), o(2, EMPTY_PAGES)];
    objs.append(&mut rest);
    build(&objs, "")
}
fn stream(dict: &str, data: &str) -> String { format!("<< {} >>\nstream\n{}\nendstream", dict, data) }

/// a file whose only section is a cross-reference STREAM (object `xid`) with the given dictionary text (`@LEN` = data length) and data;
/// objects 1, 2 (+ `rest`) precede it. `@P1`, `@P2`, `@PX`: offsets of 1, 2 and of the xref stream as 2-byte big-endian are up to the caller
fn xref_stream_doc(rest: &[(u64, String)], xid: u64, dict: &dyn Fn(&[(u64, usize)], usize) -> (String, Vec<u8>)) -> Vec<u8> {
    let mut out = b"%PDF-1.7\n".to_vec();
    let mut pos = Vec::new();
    let mut objs = vec![o(1, CAT), o(2, EMPTY_PAGES)];
    objs.extend_from_slice(rest);
    for (id, body) in &objs {
        pos.push((*id, out.len()));
        out.extend_from_slice(format!("{} 0 obj\n{}\nendobj\n", id, body).as_bytes());
    }
    let px = out.len();
    let (d, data) = dict(&pos, px);
    out.extend_from_slice(format!("{} 0 obj\n<< /Type /XRef /Root 1 0 R {} /Length {} >>\nstream\n", xid, d, data.len()).as_bytes());
    out.extend_from_slice(&data);
    out.extend_from_slice(format!("\nendstream\nendobj\nstartxref\n{}\n%%EOF\n", px).as_bytes());
    out
}
/// /W [1 2 1] rows: 0 free, then for every number up to max: type 1 at its offset, `special` overrides (number -> row)
fn rows_121(pos: &[(u64, usize)], px: usize, xid: u64, special: &[(u64, [u8; 4])]) -> Vec<u8> {
    let mut x = Vec::new();
    for id in 0..=xid {
        if let Some(s) = special.iter().find(|s| s.0 == id) { x.extend_from_slice(&s.1); continue; }
        let p = if id == xid { Some(px) } else { pos.iter().find(|p| p.0 == id).map(|p| p.1) };
        match p { Some(p) if id > 0 => x.extend_from_slice(&[1, (p >> 8) as u8, p as u8, 0]), _ => x.extend_from_slice(&[0, 0, 0, 0]) }
    }
    x
}

// ------------------------------------------------------------------------------------------------ cases
enum Kind { Walk, Parse }
struct Case { name: String, data: Vec<u8>, kind: Kind, max_id: u64 }
fn walk_case(name: &str, data: Vec<u8>, max_id: u64) -> Case { Case { name: name.to_string(), data, kind: Kind::Walk, max_id } }

fn chain_objs(first: u64, len: u64, last_body: &str) -> Vec<(u64, String)> {
    let mut v: Vec<(u64, String)> = (0..len).map(|i| (first + i, format!("{} 0 R", first + i + 1))).collect();
    v.push((first + len, last_body.to_string()));
    v
}

fn family(name: &str) -> Vec<Case> {
    let mut c: Vec<Case> = Vec::new();
    let page = |parent: u64, more: &str| format!("<< /Type /Page /Parent {} 0 R {} >>", parent, more);
    match name {
        "page_tree" => {
            c.push(walk_case("self-kid", build(&[o(1, CAT), o(2, "<< /Type /Pages /Kids [2 0 R] /Count 1 >>")], ""), 3));
            c.push(walk_case("self-kid twice + page", build(&[o(1, CAT), o(2, "<< /Type /Pages /Kids [2 0 R 3 0 R 2 0 R] /Count 3 >>"), o(3, &page(2, "/MediaBox [0 0 1 1]"))], ""), 4));
            c.push(walk_case("kid -> parent", build(&[o(1, CAT), o(2, "<< /Type /Pages /Kids [3 0 R] /Count 1 >>"), o(3, "<< /Type /Pages /Parent 2 0 R /Kids [2 0 R] /Count 1 >>")], ""), 4));
            c.push(walk_case("kid -> grand parent", build(&[o(1, CAT), o(2, "<< /Type /Pages /Kids [3 0 R] /Count 2 >>"), o(3, "<< /Type /Pages /Parent 2 0 R /Kids [4 0 R] /Count 2 >>"),
                o(4, "<< /Type /Pages /Parent 3 0 R /Kids [5 0 R 2 0 R] /Count 2 >>"), o(5, &page(4, ""))], ""), 6));
            for count in ["2147483647", "4294967295", "-1", "0", "-2147483648", "1.5", "99999999999"] {
                c.push(walk_case(&format!("/Count {} with one page", count), build(&[o(1, CAT), o(2, &format!("<< /Type /Pages /Kids [3 0 R] /Count {} >>", count)), o(3, &page(2, "/MediaBox [0 0 1 1]"))], ""), 4));
                c.push(walk_case(&format!("/Count {} in three intermediate nodes", count), build(&[o(1, CAT), o(2, &format!("<< /Type /Pages /Kids [3 0 R 4 0 R 5 0 R] /Count {} >>", count)),
                    o(3, &format!("<< /Type /Pages /Parent 2 0 R /Kids [6 0 R] /Count {} >>", count)), o(4, &format!("<< /Type /Pages /Parent 2 0 R /Kids [] /Count {} >>", count)),
                    o(5, &format!("<< /Type /Pages /Parent 2 0 R /Kids [] /Count {} >>", count)), o(6, &page(3, ""))], ""), 7));
            }
            c.push(walk_case("page /Parent itself, no boxes", build(&[o(1, CAT), o(2, "<< /Type /Pages /Kids [3 0 R] /Count 1 >>"), o(3, &page(3, ""))], ""), 4));
            c.push(walk_case("/Parent 2-loop below the root", build(&[o(1, CAT), o(2, "<< /Type /Pages /Kids [3 0 R] /Count 1 >>"), o(3, "<< /Type /Pages /Parent 4 0 R /Kids [5 0 R] /Count 1 >>"),
                o(4, "<< /Type /Pages /Parent 3 0 R /Kids [3 0 R] /Count 1 >>"), o(5, &page(3, ""))], ""), 6));
            c.push(walk_case("root /Parent itself", build(&[o(1, CAT), o(2, "<< /Type /Pages /Parent 2 0 R /Kids [3 0 R] /Count 1 >>"), o(3, &page(2, ""))], ""), 4));
            c.push(walk_case("page is its own /Parent's kid and a /Pages", build(&[o(1, CAT), o(2, "<< /Type /Pages /Kids [3 0 R] /Count 1 >>"), o(3, "<< /Type /Page /Parent 3 0 R /Kids [3 0 R] /Count 1 >>")], ""), 4));
            // (300 / 3000 levels overflowed the stack before /repo aebe012: findings/deep_parent_chain.md)
            for depth in [12u64, 60, 300, 3000] {
                let mut objs = vec![o(1, CAT)];
                for i in 0..depth { objs.push((2 + i, format!("<< /Type /Pages {} /Kids [{} 0 R] /Count 1 >>", if i > 0 { format!("/Parent {} 0 R", 1 + i) } else { String::new() }, 3 + i))); }
                objs.push((2 + depth, page(1 + depth, "")));
                c.push(walk_case(&format!("{} nested page tree nodes", depth), build(&objs, ""), 4));
            }
        }
        "prev_chain" => {
            for (label, prev) in [("itself", "@XREF"), ("0", "0"), ("beyond EOF", "999999"), ("negative", "-5"), ("2^63", "9223372036854775808"), ("2^64-1", "18446744073709551615"), ("the header", "1"), ("a real", "12.5")] {
                c.push(walk_case(&format!("classic /Prev {}", label), build(&[o(1, CAT), o(2, EMPTY_PAGES)], &format!("/Prev {}", prev)), 4));
            }
            // two classic sections naming each other
            {
                let mut out = b"%PDF-1.7\n".to_vec();
                let p1 = out.len(); out.extend_from_slice(format!("1 0 obj\n{}\nendobj\n", CAT).as_bytes());
                let p2 = out.len(); out.extend_from_slice(format!("2 0 obj\n{}\nendobj\n", EMPTY_PAGES).as_bytes());
                let xa = out.len();
                let sec_a = format!("xref\n0 2\n0000000000 65535 f \n{:010} 00000 n \ntrailer\n<< /Size 3 /Root 1 0 R /Prev @B >>\nstartxref\n0\n%%EOF\n", p1);
                let xb = xa + sec_a.len() - 2 + 3;   // "@B" replaced by a 3-digit number
                assert!(xb >= 100 && xb < 1000);
                out.extend_from_slice(sec_a.replace("@B", &xb.to_string()).as_bytes());
                assert_eq!(out.len(), xb);
                out.extend_from_slice(format!("xref\n2 1\n{:010} 00000 n \ntrailer\n<< /Size 3 /Root 1 0 R /Prev {} >>\nstartxref\n{}\n%%EOF\n", p2, xa, xb).as_bytes());
                c.push(walk_case("two classic sections, /Prev of each is the other", out, 4));
            }
            for (label, prev) in [("itself", None), ("beyond EOF", Some("999999".to_string())), ("0", Some("0".to_string())), ("2^63", Some("9223372036854775808".to_string()))] {
                c.push(walk_case(&format!("xref stream /Prev {}", label), xref_stream_doc(&[], 3, &|pos, px| {
                    (format!("/Size 4 /W [1 2 1] /Prev {}", prev.clone().unwrap_or(px.to_string())), rows_121(pos, px, 3, &[]))
                }), 4));
            }
        }
        "object_streams" => {
            let objstm = |extra: &str, n: u64, header: &str, body: &str| stream(&format!("/Type /ObjStm /N {} /First {} {} /Length {}", n, header.len(), extra, header.len() + body.len()), &format!("{}{}", header, body));
            c.push(walk_case("object stream 3 is a member of itself", xref_stream_doc(&[o(3, &objstm("", 1, "3 0 ", "<< /A 1 >>"))], 4, &|pos, px| {
                ("/Size 5 /W [1 2 1]".to_string(), rows_121(pos, px, 4, &[(3, [2, 0, 3, 0])]))
            }), 5));
            c.push(walk_case("object streams 3 and 4 contain each other", xref_stream_doc(&[o(3, &objstm("", 1, "4 0 ", "<< /A 1 >>")), o(4, &objstm("", 1, "3 0 ", "<< /A 1 >>"))], 5, &|pos, px| {
                ("/Size 6 /W [1 2 1]".to_string(), rows_121(pos, px, 5, &[(3, [2, 0, 4, 0]), (4, [2, 0, 3, 0])]))
            }), 6));
            c.push(walk_case("member 5 in a stream that is a member of itself", xref_stream_doc(&[o(3, &objstm("", 2, "3 0 5 11 ", "<< /A 1 >> (five)"))], 6, &|pos, px| {
                ("/Size 7 /W [1 2 1]".to_string(), rows_121(pos, px, 6, &[(3, [2, 0, 3, 0]), (5, [2, 0, 3, 1])]))
            }), 7));
            for (label, ext) in [("itself", "/Extends 3 0 R"), ("a 2-cycle", "/Extends 4 0 R")] {
                c.push(walk_case(&format!("/Extends {}", label), xref_stream_doc(&[o(3, &objstm(ext, 1, "5 0 ", "(five)")), o(4, &objstm("/Extends 3 0 R", 1, "6 0 ", "(six)"))], 7, &|pos, px| {
                    ("/Size 8 /W [1 2 1]".to_string(), rows_121(pos, px, 7, &[(5, [2, 0, 3, 0]), (6, [2, 0, 4, 0])]))
                }), 8));
            }
            c.push(walk_case("container is the catalog, the xref stream, a missing object; index beyond /N", xref_stream_doc(&[o(3, &objstm("", 1, "5 0 ", "(five)"))], 9, &|pos, px| {
                ("/Size 10 /W [1 2 1]".to_string(), rows_121(pos, px, 9, &[(4, [2, 0, 1, 0]), (5, [2, 0, 3, 7]), (6, [2, 0, 9, 0]), (7, [2, 0, 8, 0]), (8, [2, 0, 3, 255])]))
            }), 10));
            c.push(walk_case("/N 2^31, /First 2^31, /N -1", xref_stream_doc(&[o(3, &stream("/Type /ObjStm /N 2147483648 /First 4 /Length 9", "5 0 (five)")), o(4, &stream("/Type /ObjStm /N 1 /First 2147483648 /Length 9", "6 0 (six) ")),
                                                                      o(5, &stream("/Type /ObjStm /N -1 /First 4 /Length 9", "9 0 (five)"))], 10, &|pos, px| {
                ("/Size 11 /W [1 2 1]".to_string(), rows_121(pos, px, 10, &[(6, [2, 0, 3, 0]), (7, [2, 0, 4, 0]), (8, [2, 0, 5, 0])]))
            }), 11));
        }
        "stream_length" => {
            c.push(walk_case("/Length is the stream itself", std_doc(vec![o(3, &stream("/Length 3 0 R", "HELLO"))]), 4));
            c.push(walk_case("two streams, each /Length the other", std_doc(vec![o(3, &stream("/Length 4 0 R", "HELLO")), o(4, &stream("/Length 3 0 R", "WORLD"))]), 5));
            c.push(walk_case("/Length -> reference loop", std_doc(vec![o(3, &stream("/Length 4 0 R", "HELLO")), o(4, "5 0 R"), o(5, "4 0 R")]), 6));
            c.push(walk_case("/Length -> self reference", std_doc(vec![o(3, &stream("/Length 4 0 R", "HELLO")), o(4, "4 0 R")]), 5));
            c.push(walk_case("/Length -> missing, -> free object 0, -> name", std_doc(vec![o(3, &stream("/Length 9 0 R", "HELLO")), o(4, &stream("/Length 0 0 R", "HELLO")), o(5, &stream("/Length 6 0 R", "HELLO")), o(6, "/Five")]), 7));
            for l in ["-1", "-2147483648", "2147483647", "4294967296", "18446744073709551615", "5.0", "0"] {
                c.push(walk_case(&format!("/Length {}", l), std_doc(vec![o(3, &stream(&format!("/Length {}", l), "HELLO")), o(4, &stream(&format!("/Length 5 0 R /Filter /ASCIIHexDecode"), "4142>")), o(5, l)]), 6));
            }
            c.push(walk_case("page /Contents with /Length to itself", build(&[o(1, CAT), o(2, "<< /Type /Pages /Kids [3 0 R] /Count 1 >>"), o(3, "<< /Type /Page /Parent 2 0 R /MediaBox [0 0 1 1] /Contents 4 0 R >>"),
                o(4, &stream("/Length 4 0 R", "q Q"))], ""), 5));
        }
        "ref_chains" => {
            for (label, last) in [("an integer", "42".to_string()), ("its own start", "10 0 R".to_string()), ("itself", "1010 0 R".to_string()), ("a page tree", EMPTY_PAGES.to_string())] {
                let mut objs = vec![o(1, CAT), o(2, EMPTY_PAGES), o(3, &stream("/Length 10 0 R", "HELLO"))];
                objs.extend(chain_objs(10, 1000, &last));
                c.push(walk_case(&format!("chain of 1000 references ending in {}", label), build(&objs, ""), 12));
            }
            for len in [0u64, 1, 2, 40] {
                // cycle 10 -> 11 -> .. -> 10+len -> 10, reached through every followed field
                let mut objs = vec![o(1, "<< /Type /Catalog /Pages 2 0 R /Names 10 0 R /PageLabels 10 0 R /Outlines 10 0 R /Dests 10 0 R >>"),
                    o(2, "<< /Type /Pages /Kids [3 0 R 10 0 R] /Count 2 /Resources 10 0 R /MediaBox 10 0 R >>"),
                    o(3, "<< /Type /Page /Parent 2 0 R /Contents 10 0 R /Resources << /Font << /F1 10 0 R >> /XObject << /X 10 0 R >> /ColorSpace << /C 10 0 R >> /ExtGState << /G 10 0 R >> >> >>"),
                    o(4, "<< /Type /Page /Parent 2 0 R /Contents [10 0 R] /Resources 10 0 R /CropBox 10 0 R /Rotate 10 0 R >>"),
                    o(5, &stream("/Length 10 0 R /Filter 10 0 R /DecodeParms 10 0 R", "HELLO")),
                    o(6, "<< /FunctionType 3 /Domain 10 0 R /Functions 10 0 R /Bounds 10 0 R /Encode 10 0 R >>"),
                    o(7, "[/ICCBased 10 0 R]"), o(8, "[/Indexed 10 0 R 10 0 R 10 0 R]")];
                objs.extend(chain_objs(10, len, "10 0 R"));
                c.push(walk_case(&format!("reference cycle of length {} behind every followed field", len + 1), build(&objs, ""), 12));
            }
            c.push(walk_case("catalog /Pages is a reference cycle", build(&[o(1, "<< /Type /Catalog /Pages 2 0 R >>"), o(2, "3 0 R"), o(3, "2 0 R")], ""), 4));
            c.push(walk_case("/Root is a reference cycle", build(&[o(1, "2 0 R"), o(2, "1 0 R")], ""), 3));
            c.push(walk_case("/Root is a chain of 1000 to the catalog", {
                let mut objs = chain_objs(1, 1000, CAT); objs[1] = o(2, "3 0 R"); objs.push(o(2000, EMPTY_PAGES));
                let mut objs: Vec<(u64, String)> = objs.into_iter().map(|(i, b)| (i, b.replace("/Pages 2 0 R", "/Pages 2000 0 R"))).collect();
                objs.sort_by_key(|x| x.0); build(&objs, "")
            }, 4));
        }
        "trees" => {
            let cat = |e: &str| format!("<< /Type /Catalog /Pages 2 0 R {} >>", e);
            c.push(walk_case("number tree /Kids itself", build(&[o(1, &cat("/PageLabels 3 0 R")), o(2, EMPTY_PAGES), o(3, "<< /Kids [3 0 R] >>")], ""), 4));
            c.push(walk_case("number tree 2-cycle + leaf", build(&[o(1, &cat("/PageLabels 3 0 R")), o(2, EMPTY_PAGES), o(3, "<< /Kids [4 0 R 5 0 R] >>"), o(4, "<< /Kids [3 0 R] >>"), o(5, "<< /Nums [0 << /S /D >>] >>")], ""), 6));
            c.push(walk_case("name tree /Dests itself", build(&[o(1, &cat("/Names << /Dests 3 0 R /EmbeddedFiles 3 0 R /JavaScript 3 0 R /Pages 3 0 R >>")), o(2, EMPTY_PAGES), o(3, "<< /Kids [3 0 R 3 0 R] >>")], ""), 4));
            c.push(walk_case("name tree 2-cycle", build(&[o(1, &cat("/Names 6 0 R")), o(2, EMPTY_PAGES), o(3, "<< /Kids [4 0 R] >>"), o(4, "<< /Kids [3 0 R 5 0 R] >>"), o(5, "<< /Names [(a) [2 0 R /Fit]] >>"), o(6, "<< /Dests 3 0 R >>")], ""), 7));
            c.push(walk_case("name tree: every kid is the root, fan-out 8", build(&[o(1, &cat("/Names << /Dests 3 0 R >>")), o(2, EMPTY_PAGES), o(3, "<< /Kids [3 0 R 3 0 R 3 0 R 3 0 R 3 0 R 3 0 R 3 0 R 3 0 R] >>")], ""), 4));
            for depth in [40u64, 1000] {
                let mut objs = vec![o(1, &cat("/Names << /Dests 10 0 R >> /PageLabels 10 0 R")), o(2, EMPTY_PAGES)];
                for i in 0..depth { objs.push((10 + i, format!("<< /Kids [{} 0 R] >>", 11 + i))); }
                objs.push((10 + depth, "<< /Names [(a) [2 0 R /Fit]] /Nums [0 << /S /D >>] >>".to_string()));
                c.push(walk_case(&format!("name / number tree {} levels deep", depth), build(&objs, ""), 12));
            }
            c.push(walk_case("outlines /First /Next /Parent loops", build(&[o(1, &cat("/Outlines 3 0 R")), o(2, EMPTY_PAGES), o(3, "<< /Type /Outlines /First 4 0 R /Last 4 0 R /Count 1 >>"),
                o(4, "<< /Title (t) /Parent 4 0 R /Next 4 0 R /Prev 4 0 R /First 4 0 R /Last 3 0 R /Count -1 >>")], ""), 5));
            c.push(walk_case("outlines are their own /First", build(&[o(1, &cat("/Outlines 3 0 R")), o(2, EMPTY_PAGES), o(3, "<< /Type /Outlines /First 3 0 R /Last 3 0 R /Count 2147483647 >>")], ""), 4));
        }
        "functions" => {
            c.push(walk_case("type 3 function containing itself", std_doc(vec![o(3, "<< /FunctionType 3 /Domain [0 1] /Functions [3 0 R] /Bounds [] /Encode [0 1] >>")]), 4));
            c.push(walk_case("type 3 functions 2-cycle, fan-out 4", std_doc(vec![o(3, "<< /FunctionType 3 /Domain [0 1] /Functions [4 0 R 4 0 R 4 0 R 4 0 R] /Bounds [.2 .4 .6] /Encode [0 1 0 1 0 1 0 1] >>"),
                o(4, "<< /FunctionType 3 /Domain [0 1] /Functions [3 0 R 3 0 R 3 0 R 3 0 R] /Bounds [.2 .4 .6] /Encode [0 1 0 1 0 1 0 1] >>")]), 5));
            for depth in [40u64, 1000] {
                let mut objs = vec![];
                for i in 0..depth { objs.push((3 + i, format!("<< /FunctionType 3 /Domain [0 1] /Functions [{} 0 R] /Bounds [] /Encode [0 1] >>", 4 + i))); }
                objs.push((3 + depth, "<< /FunctionType 2 /Domain [0 1] /N 1 >>".to_string()));
                c.push(walk_case(&format!("type 3 functions nested {} deep", depth), std_doc(objs), 5));
            }
            c.push(walk_case("type 0 /Size 2^31, /BitsPerSample 32, tiny data", std_doc(vec![o(3, &stream("/FunctionType 0 /Domain [0 1] /Range [0 1] /Size [2147483647] /BitsPerSample 32 /Length 4", "ABCD")),
                o(4, &stream("/FunctionType 0 /Domain [0 1 0 1 0 1 0 1] /Range [0 1] /Size [65536 65536 65536 65536] /BitsPerSample 8 /Length 4", "ABCD")),
                o(5, &stream("/FunctionType 0 /Domain [0 1] /Range [0 1] /Size [-1] /BitsPerSample 0 /Length 4", "ABCD"))]), 6));
            c.push(walk_case("type 4 nesting 2000 deep and unbalanced", std_doc(vec![o(3, &stream("/FunctionType 4 /Domain [0 1] /Range [0 1] /Length 4001", &format!("{}{}", "{".repeat(2000), "}".repeat(2000)))),
                o(4, &stream("/FunctionType 4 /Domain [0 1] /Range [0 1] /Length 2000", &"{".repeat(2000))), o(5, &stream("/FunctionType 4 /Domain [0 1] /Range [0 1] /Length 14", "{ 1 0 div pop }"))]), 6));
            c.push(walk_case("colour spaces naming themselves", std_doc(vec![o(3, "[/Indexed 3 0 R 1 <000000ffffff>]"), o(4, "[/Separation /A 4 0 R 6 0 R]"), o(5, "[/DeviceN [/A] 5 0 R 6 0 R]"),
                o(6, "<< /FunctionType 2 /Domain [0 1] /N 1 >>"), o(7, "[/ICCBased 8 0 R]"), o(8, &stream("/N 3 /Alternate 7 0 R /Length 3", "abc")), o(9, "[/Pattern 9 0 R]")]), 10));
            c.push(walk_case("fonts naming themselves", std_doc(vec![o(3, "<< /Type /Font /Subtype /Type0 /BaseFont /X /Encoding /Identity-H /DescendantFonts [3 0 R] /ToUnicode 3 0 R >>"),
                o(4, "<< /Type /Font /Subtype /Type0 /BaseFont /X /Encoding 4 0 R /DescendantFonts [5 0 R] >>"),
                o(5, "<< /Type /Font /Subtype /CIDFontType2 /BaseFont /X /CIDSystemInfo << /Registry (Adobe) /Ordering (Identity) /Supplement 0 >> /FontDescriptor 5 0 R /DW 1000 /W [0 2147483647 5 -7 [1] 2147483647 [1 2]] >>"),
                o(6, "<< /Type /Font /Subtype /Type1 /BaseFont /X /FirstChar -2147483648 /LastChar 2147483647 /Widths [1] /Encoding << /Type /Encoding /Differences [2147483647 /a /b -1 /c] >> >>")]), 7));
        }
        "xref_numbers" => {
            for (label, d) in [("/W [8 8 8]", "/Size 4 /W [8 8 8]"), ("/W [0 0 0]", "/Size 4 /W [0 0 0]"), ("/W [2147483647 1 1]", "/Size 4 /W [2147483647 1 1]"),
                               ("/W [1 18446744073709551615 1]", "/Size 4 /W [1 18446744073709551615 1]"), ("/W [9223372036854775807 9223372036854775807 2]", "/Size 4 /W [9223372036854775807 9223372036854775807 2]"),
                               ("/W [-1 2 1]", "/Size 4 /W [-1 2 1]"), ("/W [1 2]", "/Size 4 /W [1 2]"), ("/W [1 2 1 9]", "/Size 4 /W [1 2 1 9]"), ("/W [16 16 16]", "/Size 4 /W [16 16 16]"),
                               ("/Index [0 2147483648]", "/Size 4 /W [1 2 1] /Index [0 2147483648]"), ("/Index [2147483647 2]", "/Size 4 /W [1 2 1] /Index [2147483647 2]"),
                               ("/Index [0 -1]", "/Size 4 /W [1 2 1] /Index [0 -1]"), ("/Index [-1 4]", "/Size 4 /W [1 2 1] /Index [-1 4]"), ("/Index [0]", "/Size 4 /W [1 2 1] /Index [0]"),
                               ("/Index [4294967295 4294967295]", "/Size 4 /W [1 2 1] /Index [4294967295 4294967295]"), ("/Index [0 4 0 4 0 4]", "/Size 4 /W [1 2 1] /Index [0 4 0 4 0 4]"),
                               ("/Size 2147483648", "/Size 2147483648 /W [1 2 1]"), ("/Size 18446744073709551615", "/Size 18446744073709551615 /W [1 2 1]"), ("/Size -1", "/Size -1 /W [1 2 1]"), ("/Size 0", "/Size 0 /W [1 2 1]"),
                               ("/Size 50000000", "/Size 50000000 /W [1 2 1]"), ("/Size 2^31 /W [0 0 0]", "/Size 2147483648 /W [0 0 0]"), ("/Size 2^31 /W [0 1 0]", "/Size 2147483648 /W [0 1 0]")] {
                c.push(walk_case(&format!("xref stream {}", label), xref_stream_doc(&[], 3, &|pos, px| (d.to_string(), rows_121(pos, px, 3, &[]))), 4));
            }
            c.push(walk_case("xref stream rows: type 1 offset of itself, type 2 in itself, type 255, generation 255", xref_stream_doc(&[], 7, &|pos, px| {
                ("/Size 8 /W [1 2 1]".to_string(), rows_121(pos, px, 7, &[(3, [1, (px >> 8) as u8, px as u8, 0]), (4, [2, 0, 7, 0]), (5, [255, 255, 255, 255]), (6, [1, 255, 255, 255])]))
            }), 8));
            for (label, sub) in [("count 2^31", "0 2147483648"), ("count 2^64-1", "0 18446744073709551615"), ("first 2^31-1", "2147483647 3"), ("first 2^64-1", "18446744073709551615 3"), ("count 0", "0 0")] {
                let mut d = build(&[o(1, CAT), o(2, EMPTY_PAGES)], "");
                let s = String::from_utf8(d.clone()).unwrap();
                let at = s.find("xref\n0 1\n").unwrap();
                d.splice(at + 5..at + 8, sub.bytes());
                // (startxref still points at `xref`: only bytes behind it moved)
                c.push(walk_case(&format!("classic table subsection {}", label), d, 4));
            }
            for size in ["2147483648", "50000000", "18446744073709551615", "-1", "0", "1"] {
                let d = build(&[o(1, CAT), o(2, EMPTY_PAGES)], "");
                let s = String::from_utf8(d).unwrap().replace("/Size 3", &format!("/Size {}", size));
                c.push(walk_case(&format!("classic trailer /Size {}", size), s.into_bytes(), 4));
            }
            c.push(walk_case("entry offsets: itself, EOF, 2^63 (10 digits cap), startxref beyond EOF", {
                let d = build(&[o(1, CAT), o(2, EMPTY_PAGES)], "");
                let mut s = String::from_utf8(d).unwrap();
                s = s.replace("trailer", "3 3\n9999999999 00000 n \n0000000000 00000 n \n0000000009 65535 n \ntrailer").replace("/Size 3", "/Size 6");
                s.into_bytes()
            }, 6));
        }
        "nesting" => {
            for depth in [200usize, 10_000] {
                let a = format!("{}{}", "[".repeat(depth), "]".repeat(depth));
                let d = format!("{}1{}", "<</A".repeat(depth), ">>".repeat(depth));
                let m = format!("{}1{}", "[<</A".repeat(depth / 2), ">>]".repeat(depth / 2));
                let open_only = "[".repeat(depth);
                let open_dict = "<</A".repeat(depth);
                for (label, text) in [("[[..]]", &a), ("<</A<</A..>>>>", &d), ("[<</A[<</A..>>]>>]", &m), ("[[[[ unclosed", &open_only), ("<</A<</A unclosed", &open_dict)] {
                    c.push(Case { name: format!("parse {} {} deep", label, depth), data: text.clone().into_bytes(), kind: Kind::Parse, max_id: 0 });
                    c.push(walk_case(&format!("object 3 = {} {} deep (+ the same as /Resources, /Kids, page entry)", label, depth),
                        build(&[o(1, CAT), o(2, "<< /Type /Pages /Kids [4 0 R] /Count 1 >>"), o(3, text),
                                o(4, "<< /Type /Page /Parent 2 0 R /Resources 3 0 R /Contents 5 0 R >>"), // (the content stream repeats the text at 200 levels, and for one 10 000-level text: its parse is O(length x depth budget) and is run ~16 times per case)
                                o(5, &if depth <= 200 || label == "[[..]]" { stream(&format!("/Length {}", text.len() + 3), &format!("{} BT", text)) } else { stream("/Length 3", "q Q") })], ""), 6));
                    c.push(walk_case(&format!("catalog entry /X {} {} deep", label, depth), build(&[o(1, &format!("<< /Type /Catalog /Pages 2 0 R /X {} >>", text)), o(2, EMPTY_PAGES)], ""), 3));
                }
            }
            let million = 1_000_000usize;
            let unbalanced = format!("({}", "(".repeat(million));
            let balanced = format!("({}{})", "(".repeat(million), ")".repeat(million));
            let escapes = format!("({})", "\\(".repeat(million));
            for (label, text) in [("1 000 000 open parentheses, never closed", &unbalanced), ("1 000 000 open parentheses, balanced", &balanced), ("1 000 000 escaped parentheses", &escapes)] {
                c.push(Case { name: format!("parse literal string with {}", label), data: text.clone().into_bytes(), kind: Kind::Parse, max_id: 0 });
                c.push(walk_case(&format!("object 3 = literal string with {}", label), std_doc(vec![o(3, text)]), 4));
            }
            let hex = format!("<{}", "4".repeat(million));
            c.push(Case { name: "parse hex string with 1 000 000 digits, never closed".to_string(), data: hex.into_bytes(), kind: Kind::Parse, max_id: 0 });
            let name = format!("/{}", "#41".repeat(million));
            c.push(Case { name: "parse name with 1 000 000 escapes".to_string(), data: name.into_bytes(), kind: Kind::Parse, max_id: 0 });
            let comments = format!("{}42", "%c\n".repeat(million));
            c.push(Case { name: "parse 1 000 000 comments in front of a value".to_string(), data: comments.into_bytes(), kind: Kind::Parse, max_id: 0 });
        }
        other => panic!("unknown family {}", other),
    }
    c
}

// ------------------------------------------------------------------------------------------------ the walk
macro_rules! walk {
    ($file:expr, $max_id:expr, $log:expr) => {{
        let file = $file;
        let r = file.resolver();
        let log: &mut Vec<String> = $log;
        let n = file.num_pages();
        log.push(format!("num_pages={}", n));
        let (mut okp, mut errp) = (0, 0);
        for p in file.pages().take(64) {
            match p {
                Ok(page) => { okp += 1; touch_page(&page, &r); }
                Err(_) => errp += 1,
            }
        }
        log.push(format!("pages ok={} err={}", okp, errp));
        for i in [0u32, 1, 2, 1000, u32::MAX] {
            if let Ok(page) = file.get_page(i) { touch_page(&page, &r); }
        }
        let root = file.get_root();
        if let Some(ref t) = root.page_labels { let mut k = 0usize; let w = t.walk(&r, &mut |_, _| k += 1); log.push(format!("page_labels walk ok={} leaves={}", w.is_ok(), k)); }
        if let Some(ref names) = root.names {
            if let Some(ref t) = names.dests { let mut k = 0usize; let w = t.walk(&r, &mut |_, _| k += 1); log.push(format!("dests walk ok={} leaves={}", w.is_ok(), k)); }
            if let Some(ref t) = names.pages { let mut k = 0usize; let _ = t.walk(&r, &mut |_, _| k += 1); }
            if let Some(ref t) = names.javascript { let mut k = 0usize; let _ = t.walk(&r, &mut |_, _| k += 1); }
            if let Some(ref t) = names.embedded_files { let mut k = 0usize; let _ = t.walk(&r, &mut |_, _| k += 1); }
        }
        let (mut oko, mut erro) = (0, 0);
        let mut ids: Vec<u64> = (0..=$max_id).collect();
        ids.extend_from_slice(&[1000, 1010, 2000, u32::MAX as u64, u64::MAX]);
        for id in ids {
            for gen in [0u64, 1] {
                match r.resolve(PlainRef { id, gen }) {
                    Ok(p) => { oko += 1; touch_primitive(p, &r); }
                    Err(_) => erro += 1,
                }
            }
        }
        log.push(format!("objects ok={} err={}", oko, erro));
        let mut k = 0usize;
        let t_scan = Instant::now();
        for item in file.scan().take(10_000) { if item.is_ok() { k += 1; } }
        log.push(format!("scan items ok={} ({:.2}s)", k, t_scan.elapsed().as_secs_f32()));
    }};
}

fn touch_page(page: &PageRc, r: &impl Resolve) {
    let _ = page.media_box();
    let _ = page.crop_box();
    if let Ok(res) = page.resources() { touch_resources(res, r); }
    if let Some(ref c) = page.contents { let _ = c.operations(r); }
}
fn touch_resources(res: &Resources, r: &impl Resolve) {
    for (_, f) in res.fonts.iter() {
        if let Ok(font) = f.load(r) { let _ = font.widths(r); let _ = font.to_unicode(r); }
    }
    for (_, x) in res.xobjects.iter() { let _ = r.get(*x); }
    for (_, p) in res.pattern.iter() { let _ = r.get(*p); }
}
fn touch_primitive(p: Primitive, r: &impl Resolve) {
    if let Primitive::Stream(ref s) = p {
        let _ = s.raw_data(r);
        if let Ok(st) = Stream::<()>::from_stream(s.clone(), r) { let _ = st.data(r); }
        let _ = ObjectStream::from_primitive(p.clone(), r).map(|o| { for i in 0..o.n_objects().min(8) { let _ = o.get_object_slice(i, r); } });
        let _ = Content::from_primitive(p.clone(), r).map(|c| { let _ = c.operations(r); });
    }
    match PagesNode::from_primitive(p.clone(), r) {
        Ok(PagesNode::Tree(tree)) => {
            for i in [0u32, 1, 2, 3, 1000, u32::MAX] { if let Ok(pg) = tree.page(r, i) { let _ = pg.media_box(); let _ = pg.crop_box(); let _ = pg.resources(); } }
        }
        Ok(PagesNode::Leaf(page)) => { let _ = page.media_box(); let _ = page.crop_box(); let _ = page.resources(); }
        Err(_) => {}
    }
    if let Ok(f) = Function::from_primitive(p.clone(), r) {
        let mut out = vec![0.0f32; f.output_dim().min(64)];
        let x = vec![0.5f32; f.input_dim().min(64)];
        let _ = f.apply(&x, &mut out);
    }
    let _ = ColorSpace::from_primitive(p.clone(), r);
    if let Ok(font) = Font::from_primitive(p.clone(), r) { let _ = font.widths(r); let _ = font.to_unicode(r); }
    if let Ok(t) = NameTree::<Primitive>::from_primitive(p.clone(), r) { let mut k = 0usize; let _ = t.walk(r, &mut |_, _| k += 1); }
    if let Ok(t) = NumberTree::<Primitive>::from_primitive(p.clone(), r) { let mut k = 0usize; let _ = t.walk(r, &mut |_, _| k += 1); }
    if let Ok(res) = Resources::from_primitive(p.clone(), r) { touch_resources(&res, r); }
    let _ = Catalog::from_primitive(p.clone(), r);
    let _ = Outlines::from_primitive(p.clone(), r);
    let _ = OutlineItem::from_primitive(p, r);
}

fn run_walk(data: &[u8], max_id: u64) -> String {
    let mut log = Vec::new();
    for mode in ["strict", "tolerant"] {
        let opts = || if mode == "strict" { ParseOptions::strict() } else { ParseOptions::tolerant() };
        match FileOptions::uncached().parse_options(opts()).load(data.to_vec()) {
            Ok(file) => { log.push(format!("{} uncached: loaded", mode)); walk!(&file, max_id, &mut log); }
            Err(e) => log.push(format!("{} uncached: load Err({})", mode, short(&format!("{:?}", e)))),
        }
        match FileOptions::cached().parse_options(opts()).load(data.to_vec()) {
            Ok(file) => { log.push(format!("{} cached: loaded", mode)); walk!(&file, max_id, &mut log); }
            Err(e) => log.push(format!("{} cached: load Err({})", mode, short(&format!("{:?}", e)))),
        }
    }
    log.join("; ")
}
fn run_parse(data: &[u8]) -> String {
    match parse(data, &NoResolve, ParseFlags::ANY) { Ok(p) => format!("parse Ok({})", p.get_debug_name()), Err(e) => format!("parse Err({})", short(&format!("{:?}", e))) }
}
fn short(s: &str) -> String { let mut t: String = s.chars().take(100).collect(); if s.len() > 100 { t.push_str(".."); } t }
fn show(b: &[u8]) -> String {
    let s: String = b.iter().take(700).map(|&c| std::ascii::escape_default(c).to_string()).collect();
    if b.len() > 700 { format!("{} .. ({} bytes)", s, b.len()) } else { s }
}

// ------------------------------------------------------------------------------------------------ child / parent
const WATCHDOG: Duration = Duration::from_secs(5);

/// child mode: runs every case of the family named by C14_FAMILY, one line BEGIN / END per case on stdout
#[test]
fn child_entry() {
    let fam = match std::env::var("C14_FAMILY") { Ok(f) => f, Err(_) => return };
    std::panic::set_hook(Box::new(|_| {}));
    for case in family(&fam) {
        println!("BEGIN {}", case.name);
        std::io::stdout().flush().unwrap();
        PEAK.store(LIVE.load(Ordering::Relaxed), Ordering::Relaxed);
        let base = LIVE.load(Ordering::Relaxed);
        let (tx, rx) = std::sync::mpsc::channel();
        let t0 = Instant::now();
        std::thread::Builder::new().stack_size(8 << 20).spawn(move || {
            let r = catch_unwind(AssertUnwindSafe(|| match case.kind { Kind::Walk => run_walk(&case.data, case.max_id), Kind::Parse => run_parse(&case.data) }));
            let _ = tx.send(r.map_err(|p| p.downcast_ref::<String>().cloned().or_else(|| p.downcast_ref::<&str>().map(|s| s.to_string())).unwrap_or_default()));
        }).unwrap();
        match rx.recv_timeout(WATCHDOG) {
            Err(_) => { println!("END FAIL did not return within {:?}", WATCHDOG); std::io::stdout().flush().unwrap(); std::process::exit(3); }
            Ok(Err(m)) => println!("END FAIL PANICKED: {}", short(&m)),
            Ok(Ok(summary)) => {
                let peak = PEAK.load(Ordering::Relaxed).saturating_sub(base);
                if peak > PEAK_LIMIT { println!("END FAIL peak heap {} MiB (limit {} MiB); {}", peak >> 20, PEAK_LIMIT >> 20, short(&summary)); }
                else { println!("END ok {:.2}s peak {} KiB; {}", t0.elapsed().as_secs_f32(), peak >> 10, summary); }
            }
        }
        std::io::stdout().flush().unwrap();
    }
}

fn run_family(fam: &str) {
    let cases = family(fam);
    let exe = std::env::current_exe().unwrap();
    let mut child = std::process::Command::new(exe).args(["child_entry", "--exact", "--nocapture", "--test-threads=1"]).env("C14_FAMILY", fam)
        .stdout(std::process::Stdio::piped()).stderr(std::process::Stdio::piped()).spawn().unwrap();
    // read both pipes on threads; the child bounds every case by the watchdog, so its total time is bounded by cases x watchdog
    let mut so = child.stdout.take().unwrap();
    let mut se = child.stderr.take().unwrap();
    let t1 = std::thread::spawn(move || { let mut s = Vec::new(); let _ = std::io::Read::read_to_end(&mut so, &mut s); String::from_utf8_lossy(&s).to_string() });
    let t2 = std::thread::spawn(move || { let mut s = Vec::new(); let _ = std::io::Read::read_to_end(&mut se, &mut s); String::from_utf8_lossy(&s).to_string() });
    let status = child.wait().unwrap();
    let (out, err) = (t1.join().unwrap(), t2.join().unwrap());
    let mut fails = Vec::new();
    let mut current: Option<String> = None;
    let mut done = 0;
    for line in out.lines() {
        if let Some(n) = line.strip_prefix("BEGIN ") { current = Some(n.to_string()); }
        else if let Some(v) = line.strip_prefix("END ") {
            let name = current.take().unwrap_or_default();
            done += 1;
            if !v.starts_with("ok") {
                let data = cases.iter().find(|c| c.name == name).map(|c| show(&c.data)).unwrap_or_default();
                fails.push(format!("[{}] {}: {}  INPUT b\"{}\"", fam, name, v, data));
            }
        }
    }
    if let Some(name) = current {
        let data = cases.iter().find(|c| c.name == name).map(|c| show(&c.data)).unwrap_or_default();
        let tail: String = err.lines().rev().take(4).collect::<Vec<_>>().into_iter().rev().collect::<Vec<_>>().join(" | ");
        fails.push(format!("[{}] {}: the process DIED ({}) while this case ran: {}  INPUT b\"{}\"", fam, name, status, tail, data));
    } else if !status.success() {
        fails.push(format!("[{}] child process ended with {} : {}", fam, status, short(&err)));
    }
    if fails.is_empty() && done != cases.len() { fails.push(format!("[{}] only {} of {} cases ran", fam, done, cases.len())); }
    if !fails.is_empty() {
        panic!("C14 bounded hostile structures: {} failing inputs (first 4):\n  {}", fails.len(), fails.iter().take(4).cloned().collect::<Vec<_>>().join("\n  "));
    }
    println!("{}: {} cases, every walk returned", fam, done);
}

#[test] fn c14_page_tree() { run_family("page_tree") }
#[test] fn c14_prev_chain() { run_family("prev_chain") }
#[test] fn c14_object_streams() { run_family("object_streams") }
#[test] fn c14_stream_length() { run_family("stream_length") }
#[test] fn c14_ref_chains() { run_family("ref_chains") }
#[test] fn c14_trees() { run_family("trees") }
#[test] fn c14_functions() { run_family("functions") }
#[test] fn c14_xref_numbers() { run_family("xref_numbers") }
#[test] fn c14_nesting() { run_family("nesting") }
// (a test named `candidate_*` would hold inputs that fail on /repo HEAD: the registered entry runs the filter `c14_` only. None at present:
//  `candidate_deep_parent_chain` was folded back into c14_page_tree after /repo aebe012.)
