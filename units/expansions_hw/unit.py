F = 'pdf/src/object/mod.rs'
P = 'pdf/src/primitive.rs'
T = 'pdf/src/object/types.rs'
RT = ['C15']
RD = ['C18', 'C15']


def sig(find, replace, rule='R2'):
    return {'where': 'sig', 'rule': rule, 'find': find, 'replace': replace}


# R2: a trait-impl method is emitted as a free fn: `Self` spelled out, `&impl Resolve` / `&mut impl Updater` as named
# generics (Verus mistypes `impl Trait` arguments in trait-related specs), `_` parameters named
def reader(container, new, ty, ensures, generics='', extra=(), props=RD, file=F):
    rw = [{'where': 'sig', 'rule': 'R2', 'regex': r'\bfn from_primitive\(', 'replace': 'fn from_primitive<%sR__: Resolve>(' % generics},
          {'where': 'sig', 'rule': 'R2', 'regex': r'&impl Resolve', 'replace': '&R__'},
          {'where': 'sig', 'rule': 'R2', 'regex': r'Result<Self>', 'replace': 'Result<%s>' % ty}]
    return {'kind': 'fn', 'file': file, 'container': container, 'name': 'from_primitive', 'rename': new, 'verus_name': new,
            'props': props, 'ensures': ensures, 'rewrites': rw + list(extra)}


def writer(container, new, ensures, generics='', extra=(), props=RT, file=F):
    rw = [{'where': 'sig', 'rule': 'R2', 'regex': r'\bfn to_primitive\(&self', 'replace': 'fn to_primitive<%sU__: Updater>(this: &SELF__' % generics},
          {'where': 'sig', 'rule': 'R2', 'regex': r'&mut impl Updater', 'replace': '&mut U__'}]
    return {'kind': 'fn', 'file': file, 'container': container, 'name': 'to_primitive', 'rename': new, 'verus_name': new,
            'props': props, 'ensures': ensures, 'rewrites': rw + list(extra)}


def selfty(ty):
    return {'where': 'sig', 'rule': 'R2', 'find': 'SELF__', 'replace': ty}


def acc(name, ensures, extra=(), ret='r'):
    return {'kind': 'fn', 'file': P, 'container': r'^impl Primitive$', 'name': name, 'props': RD, 'ensures': ensures,
            'rewrites': list(extra)}


UNUSED_R = sig('_: &R__', 'unused_r: &R__')
UNUSED_U = sig('_: &mut U__', 'unused_u: &mut U__')
SELF = lambda n=1: {'rule': 'R2', 'regex': r'\bself\b', 'replace': 'this', 'count': n}   # `&self` of the trait method is the free fn's `this`

UNIT = {
 'name': 'expansions_hw',
 'doc': 'hand-written scalar/container codec pairs of object/mod.rs and Rectangle: reads(writes(x)) == Ok(x)',
 'timeout': 600,
 'items': {
  'struct PlainRef': {'kind': 'decl', 'file': F, 'header': r'^pub struct PlainRef$', 'attrs': ['#[derive(Clone, Copy)]']},
  'struct Name': {'kind': 'decl', 'file': P, 'header': r'^pub struct Name\('},
  'struct Rectangle': {'kind': 'decl', 'file': T, 'header': r'^pub struct Rectangle$', 'attrs': ['#[derive(Clone, Copy)]']},
  # ---- Primitive accessors (primitive.rs)
  'Primitive::get_debug_name': acc('get_debug_name', [('spec', 'r == debug_name(*self)')]),
  'Primitive::resolve': acc('resolve', [('spec', 'r == deref1(self, r_.store())')], ret='r',
      extra=[sig('r: &impl Resolve', 'r_: &impl Resolve'), {'rule': 'R2', 'find': 'r.resolve(id)', 'replace': 'r_.resolve(id)'}]),
  'Primitive::as_integer': acc('as_integer', [('spec', 'r == int_of(*self)')]),
  'Primitive::as_u32': acc('as_u32', [('spec', 'r == then(nat_of(*self), |n: int| Ok::<u32, PdfError>(n as u32))')]),
  'Primitive::as_usize': acc('as_usize', [('spec', 'r == then(nat_of(*self), |n: int| Ok::<usize, PdfError>(n as usize))')]),
  'Primitive::as_number': acc('as_number', [('spec', 'r == number_of(*self)')],
      extra=[{'rule': 'R7', 'find': 'Ok(n as f32)', 'replace': 'Ok(hoist_i32_as_f32(n))'}]),
  'Primitive::as_bool': acc('as_bool', [('spec', 'r == bool_of(*self)')]),
  'Primitive::into_reference': acc('into_reference', [('spec', 'r == plainref_reads(self)')]),
  'Primitive::into_array': acc('into_array', [('spec', 'r == (match self { Primitive::Array(v) => Ok::<Vec<Primitive>, PdfError>(v), _ => unexpected("Array", self) })')]),
  'Primitive::into_name': acc('into_name', [('spec', 'r == (match self { Primitive::Name(s) => Ok::<Name, PdfError>(Name(s)), _ => unexpected("Name", self) })')]),
  # ---- i32
  'i32_from_primitive': reader(r'^impl Object for i32$', 'i32_from_primitive', 'i32',
      [('rd_spec', 'r == i32_reads(p, r_.store())')], extra=[sig('r: &R__', 'r_: &R__'), {'rule': 'R2', 'regex': r'\br\.resolve\(', 'replace': 'r_.resolve('}]),
  'i32_to_primitive': writer(r'^impl ObjectWrite for i32$', 'i32_to_primitive',
      [('wr_value', 'r == Ok::<Primitive, PdfError>(Primitive::Integer(*this))')], extra=[selfty('i32'), UNUSED_U, SELF()]),
  # ---- u32
  'u32_from_primitive': reader(r'^impl Object for u32$', 'u32_from_primitive', 'u32',
      [('rd_spec', 'r == u32_reads(p, r_.store())')], extra=[sig('r: &R__', 'r_: &R__'), {'rule': 'R2', 'regex': r'\br\.resolve\(', 'replace': 'r_.resolve('}]),
  'u32_to_primitive': writer(r'^impl ObjectWrite for u32$', 'u32_to_primitive',
      [('wr_value', 'writes_nat(*this as int, r)')], extra=[selfty('u32'), UNUSED_U, SELF('*')]),
  # ---- usize
  'usize_from_primitive': reader(r'^impl Object for usize$', 'usize_from_primitive', 'usize',
      [('rd_spec', 'r == usize_reads(p, r_.store())')], extra=[sig('r: &R__', 'r_: &R__'), {'rule': 'R2', 'count': 1, 'regex': r'\br\.resolve\(', 'replace': 'r_.resolve('}]),
  'usize_to_primitive': writer(r'^impl ObjectWrite for usize$', 'usize_to_primitive',
      [('wr_value', 'writes_nat(*this as int, r)')], extra=[selfty('usize'), UNUSED_U, SELF('*')]),
  # ---- bool
  'bool_from_primitive': reader(r'^impl Object for bool$', 'bool_from_primitive', 'bool',
      [('rd_spec', 'r == bool_reads(p, r_.store())')], extra=[sig('r: &R__', 'r_: &R__'), {'rule': 'R2', 'regex': r'\br\.resolve\(', 'replace': 'r_.resolve('}]),
  'bool_to_primitive': writer(r'^impl ObjectWrite for bool$', 'bool_to_primitive',
      [('wr_value', 'r == Ok::<Primitive, PdfError>(Primitive::Boolean(*this))')], extra=[selfty('bool'), UNUSED_U, SELF()]),
  # ---- Name
  'name_from_primitive': reader(r'^impl Object for Name$', 'name_from_primitive', 'Name',
      [('rd_spec', 'r == name_reads(p, resolve.store())')]),
  'name_to_primitive': writer(r'^impl ObjectWrite for Name$', 'name_to_primitive',
      [('wr_value', 'r == Ok::<Primitive, PdfError>(Primitive::Name(this.0))')], extra=[selfty('Name'), UNUSED_U, SELF()]),
  # ---- PlainRef
  'plainref_from_primitive': reader(r'^impl Object for PlainRef$', 'plainref_from_primitive', 'PlainRef',
      [('rd_spec', 'r == plainref_reads(p)')], extra=[UNUSED_R]),
  'plainref_to_primitive': writer(r'^impl ObjectWrite for PlainRef$', 'plainref_to_primitive',
      [('wr_value', 'r == Ok::<Primitive, PdfError>(Primitive::Reference(*this))')], extra=[selfty('PlainRef'), UNUSED_U, SELF()]),
  # ---- ()
  'unit_from_primitive': reader(r'^impl Object for \(\)$', 'unit_from_primitive', '()',
      [('rd_spec', 'r == Ok::<(), PdfError>(())')], extra=[sig('_p:', 'p_:'), sig('_resolve:', 'resolve_:')]),
  'unit_to_primitive': writer(r'^impl ObjectWrite for \(\)$', 'unit_to_primitive',
      [('wr_value', 'r == Ok::<Primitive, PdfError>(Primitive::Null)')], extra=[selfty('()'), UNUSED_U]),
  # ---- Option<T> writer
  'option_to_primitive': writer(r'^impl<T: ObjectWrite> ObjectWrite for Option<T>$', 'option_to_primitive',
      [('wr_none_is_null', '*this is None ==> r == Ok::<Primitive, PdfError>(Primitive::Null)'),
       ('wr_some_is_inner', '*this matches Some(t) ==> (r matches Ok(p) ==> p == t.writes()) && (r is Err ==> t.wfail())')],
      generics='T: ObjectWrite, ', extra=[selfty('Option<T>'), SELF()]),
  # ---- (T, U)
  'pair_from_primitive': reader(r'^impl<T, U> Object for \(T, U\) where T: Object, U: Object$', 'pair_from_primitive', '(T, U)',
      [('rd_spec', 'r == pair_reads::<T, U>(p, resolve.store())')], generics='T: Object, U: Object, ',
      extra=[{'rule': 'R7', 'find': 'let [a, b]: [Primitive; 2] = arr.try_into().unwrap();', 'replace': 'let (a, b) = hoist_take2(arr);'}]),
  'pair_to_primitive': writer(r'^impl<T, U> ObjectWrite for \(T, U\) where T: ObjectWrite, U: ObjectWrite$', 'pair_to_primitive',
      [('wr_value', 'r matches Ok(p) ==> p matches Primitive::Array(v) && v@ == seq![this.0.writes(), this.1.writes()]'),
       ('wr_err', 'r is Err ==> this.0.wfail() || this.1.wfail()')],
      generics='T: ObjectWrite, U: ObjectWrite, ',
      extra=[selfty('(T, U)'), SELF(2),
             {'rule': 'R7', 'regex': r'vec!\[(.*?\?),\s*(.*?\?)\]', 'replace': r'{ let e0__ = \1; let e1__ = \2; hoist_vec2(e0__, e1__) }'}]),
  # ---- Box<T>
  'box_from_primitive': reader(r'^impl<T: Object> Object for Box<T>$', 'box_from_primitive', 'Box<T>',
      [('rd_spec', 'r == (match T::reads(p, resolve.store()) { Ok(v) => Ok::<Box<T>, PdfError>(Box::new(v)), Err(e) => Err::<Box<T>, PdfError>(e) })')],
      generics='T: Object, ',
      extra=[{'rule': 'R7', 'regex': r'(T::from_primitive\(p, resolve\))\.map\(Box::new\)', 'replace': r'hoist_map_box(\1)'}]),
  'box_to_primitive': writer(r'^impl<T: ObjectWrite> ObjectWrite for Box<T>$', 'box_to_primitive',
      [('wr_value', '(r matches Ok(p) ==> p == (**this).writes()) && (r is Err ==> (**this).wfail())')],
      generics='T: ObjectWrite, ', extra=[selfty('Box<T>'), SELF()]),
  # ---- Rectangle
  'rect_from_primitive': reader(r'^impl Object for Rectangle$', 'rect_from_primitive', 'Rectangle',
      [('rd_spec', 'r == rect_reads(p, r_.store())')], file=T,
      extra=[sig('r: &R__', 'r_: &R__'), {'rule': 'R2', 'find': 'p.resolve(r)', 'replace': 'p.resolve(r_)'}]),
  'rect_to_primitive': writer(r'^impl ObjectWrite for Rectangle$', 'rect_to_primitive',
      [('wr_value', 'r matches Ok(Primitive::Array(v)) && is_numbers4(v@, this.left, this.bottom, this.right, this.top)')],
      file=T, extra=[selfty('Rectangle'), SELF(4),
        {'rule': 'R7', 'regex': r'Primitive::array::<f32, _, _, _>\(\[(.*?),\s*(.*?),\s*(.*?),\s*(.*?)\]\.iter\(\),\s*update\)',
         'replace': r'hoist_array4_f32(\1, \2, \3, \4, update)'}]),
 },
}

# C10 (documents built from scratch reload equal, mechanism "derived dictionary writers incl. indirect fields"): Rectangle (page boxes), Option<T> writer (every optional entry), i32 (/Rotate), u32 (/Count), Name (/Type, /Subtype) and the accessors their readers call
# -- the same obligations also count for C10 (no contract changed).
for k__ in ['Primitive::resolve', 'Primitive::as_integer', 'Primitive::as_u32', 'Primitive::as_number', 'Primitive::into_array', 'Primitive::into_name', 'i32_from_primitive', 'i32_to_primitive', 'u32_from_primitive', 'u32_to_primitive', 'name_from_primitive', 'name_to_primitive', 'option_to_primitive', 'rect_from_primitive', 'rect_to_primitive']:
    UNIT['items'][k__]['props'] = list(UNIT['items'][k__]['props']) + ['C10']
