// Repro for finding `u32_usize_writer_wraps` (C15): copy to pdf/tests/u32_usize_writer_wraps_repro.rs of a scratch copy and run
//   CARGO_TARGET_DIR=/verif/.cache/native-target cargo test --offline -p pdf --test u32_usize_writer_wraps_repro
// On the pinned tree both tests pass (= the defect is present). With findings/u32_usize_writer_wraps_fix.diff applied
// `to_primitive` returns Err and the `unwrap()`s below panic, i.e. the tests fail.
use pdf::object::{NoResolve, NoUpdate, Object, ObjectWrite};
use pdf::primitive::Primitive;

#[test]
fn u32_above_i32_max_is_written_as_another_number_and_does_not_read_back() {
    let x: u32 = 3_000_000_000;
    let p = x.to_primitive(&mut NoUpdate).unwrap();
    assert_eq!(p, Primitive::Integer(-1_294_967_296));
    assert!(u32::from_primitive(p, &NoResolve).is_err());
}

#[test]
fn usize_above_i32_max_is_written_as_another_number() {
    let x: usize = (1usize << 32) + 7; // e.g. a byte offset in a file > 4 GiB
    let p = x.to_primitive(&mut NoUpdate).unwrap();
    assert_eq!(p, Primitive::Integer(7));
    assert_eq!(usize::from_primitive(p, &NoResolve).unwrap(), 7); // reads back, as a different value
    let y: usize = 3_000_000_000;
    let q = y.to_primitive(&mut NoUpdate).unwrap();
    assert!(usize::from_primitive(q, &NoResolve).is_err());
}
