// Unit `expansions_hw` (C15, C18): the hand-written scalar / container codec pairs of pdf/src/object/mod.rs,
// pdf/src/object/types.rs (Rectangle) and the Primitive accessors of pdf/src/primitive.rs they are built from.
// Contract shape: every reader is a function `*_reads(p, store)`, every writer a function `*_writes(x)`, both written
// from ISO 32000 7.3 (an Integer object denotes the same number; an indirect reference stands for the object it refers
// to); the lemmas at the end prove reads(writes(x)) == Ok(x) from those specs alone.
use vstd::prelude::*;
//@@ INCLUDE _common/error_macros.rs
// R4: `unexpected_primitive!` of pdf/src/error.rs, same control flow (it `return`s the error)
macro_rules! unexpected_primitive {
    ($expected:ident, $found:expr) => ( return Err(PdfError::UnexpectedPrimitive { expected: stringify!($expected), found: $found }) )
}
verus! {
global size_of usize == 8;

//@@ PDFERROR

// ---- env types (not under proof) ---------------------------------------------------------------------------------
pub struct SmallString { pub chars: Ghost<Seq<char>> }
impl Clone for SmallString {
    #[verifier::external_body]
    fn clone(&self) -> (r: SmallString) ensures r == *self { unimplemented!() }
}
pub struct PdfString { pub data: Ghost<Seq<u8>> }
pub struct PdfStream { pub data: Ghost<Seq<u8>> }
pub struct Dictionary { pub m: Ghost<Map<Seq<char>, Primitive>> }
pub type ObjNr = u64;
pub type GenNr = u64;
//@@ struct PlainRef
//@@ struct Name
//@@ struct Rectangle
pub enum Primitive {
    Null,
    Integer(i32),
    Number(f32),
    Boolean(bool),
    String(PdfString),
    Stream(PdfStream),
    Dictionary(Dictionary),
    Array(Vec<Primitive>),
    Reference(PlainRef),
    Name(SmallString),
}
// what a `Resolve` can see: the stored object behind every reference (or the error of looking it up)
pub struct Store { pub objs: Map<PlainRef, Result<Primitive>> }
impl Store {
    pub open spec fn get(self, r: PlainRef) -> Result<Primitive> { self.objs[r] }
}
pub trait Resolve {
    spec fn store(&self) -> Store;
    fn resolve(&self, r: PlainRef) -> (res: Result<Primitive>) ensures res == self.store().get(r);
}
pub trait Updater: Sized {
    spec fn created(&self) -> Map<PlainRef, Primitive>;
}
// abstract element codecs for the generic containers
pub trait Object: Sized {
    spec fn reads(p: Primitive, st: Store) -> Result<Self>;
    fn from_primitive<R: Resolve>(p: Primitive, resolve: &R) -> (r: Result<Self>)
        ensures r == Self::reads(p, resolve.store());
}
pub trait ObjectWrite: Sized {
    spec fn writes(&self) -> Primitive;
    spec fn wfail(&self) -> bool;
    fn to_primitive<U: Updater>(&self, update: &mut U) -> (r: Result<Primitive>)
        ensures
            r matches Ok(p) ==> p == self.writes(),
            r is Err ==> self.wfail();
}
pub open spec fn rt_strong<T: Object + ObjectWrite>(t: T, st: Store) -> bool { T::reads(t.writes(), st) == Ok::<T, PdfError>(t) }

// ---- R7 helpers (trusted, L0) ---------------------------------------------------------------------------------------
// `let [a, b]: [Primitive; 2] = arr.try_into().unwrap();`  (array pattern + TryInto for Vec)
#[verifier::external_body]
fn hoist_take2(arr: Vec<Primitive>) -> (r: (Primitive, Primitive))
    requires arr@.len() == 2
    ensures r.0 == arr@[0], r.1 == arr@[1]
// (`.unwrap()` spelled as a match: the env twin of Primitive has no Debug impl)
{ let [a, b]: [Primitive; 2] = match arr.try_into() { Ok(x) => x, Err(_) => panic!() }; (a, b) }
// `.map(Box::new)` on a Result (function item as argument)
#[verifier::external_body]
fn hoist_map_box<T>(x: Result<T>) -> (r: Result<Box<T>>)
    ensures r == (match x { Ok(v) => Ok::<Box<T>, PdfError>(Box::new(v)), Err(e) => Err::<Box<T>, PdfError>(e) })
{ x.map(Box::new) }
// `n as f32` (Verus has no int -> float cast)
#[verifier::external_body]
fn hoist_i32_as_f32(n: i32) -> (r: f32) ensures r == f32_of_i32(n) { n as f32 }
// `vec![a, b]`
#[verifier::external_body]
fn hoist_vec2(a: Primitive, b: Primitive) -> (r: Vec<Primitive>) ensures r@ == seq![a, b] { vec![a, b] }
// `Primitive::array::<f32, _, _, _>([a, b, c, d].iter(), update)`: maps f32::to_primitive (= Number) over the slice
#[verifier::external_body]
fn hoist_array4_f32<U: Updater>(a: f32, b: f32, c: f32, d: f32, update: &mut U) -> (r: Result<Primitive>)
    ensures r matches Ok(Primitive::Array(v)) && is_numbers4(v@, a, b, c, d)
{ unimplemented!() }

pub open spec fn is_numbers4(v: Seq<Primitive>, a: f32, b: f32, c: f32, d: f32) -> bool {
    v.len() == 4 && v[0] == Primitive::Number(a) && v[1] == Primitive::Number(b) && v[2] == Primitive::Number(c) && v[3] == Primitive::Number(d)
}
// ---- specs: Primitive accessors (ISO 32000 7.3: which object kind denotes which value) ------------------------------
pub open spec fn debug_name(p: Primitive) -> &'static str {
    match p {
        Primitive::Null => "Null", Primitive::Integer(..) => "Integer", Primitive::Number(..) => "Number",
        Primitive::Boolean(..) => "Boolean", Primitive::String(..) => "String", Primitive::Stream(..) => "Stream",
        Primitive::Dictionary(..) => "Dictionary", Primitive::Array(..) => "Array",
        Primitive::Reference(..) => "Reference", Primitive::Name(..) => "Name",
    }
}
pub open spec fn unexpected<T>(expected: &'static str, p: Primitive) -> Result<T> {
    Err(PdfError::UnexpectedPrimitive { expected: expected, found: debug_name(p) })
}
// an indirect reference stands for the object it refers to (one level, as everywhere in the crate)
pub open spec fn deref1(p: Primitive, st: Store) -> Result<Primitive> {
    match p { Primitive::Reference(id) => st.get(id), _ => Ok(p) }
}
pub open spec fn int_of(p: Primitive) -> Result<i32> { match p { Primitive::Integer(n) => Ok(n), _ => unexpected("Integer", p) } }
pub open spec fn nat_of(p: Primitive) -> Result<int> {
    match p { Primitive::Integer(n) => if n >= 0 { Ok(n as int) } else { Err(PdfError::Other) }, _ => unexpected("Integer", p) }
}
pub open spec fn bool_of(p: Primitive) -> Result<bool> { match p { Primitive::Boolean(b) => Ok(b), _ => unexpected("Number", p) } }
pub uninterp spec fn f32_of_i32(n: i32) -> f32;
pub open spec fn number_of(p: Primitive) -> Result<f32> {
    match p { Primitive::Integer(n) => Ok(f32_of_i32(n)), Primitive::Number(f) => Ok(f), _ => unexpected("Number", p) }
}
pub open spec fn then<A, B>(x: Result<A>, f: spec_fn(A) -> Result<B>) -> Result<B> { match x { Ok(v) => f(v), Err(e) => Err(e) } }

impl Primitive {
//@@ Primitive::get_debug_name
//@@ Primitive::resolve
//@@ Primitive::as_integer
//@@ Primitive::as_u32
//@@ Primitive::as_usize
//@@ Primitive::as_number
//@@ Primitive::as_bool
//@@ Primitive::into_reference
//@@ Primitive::into_array
//@@ Primitive::into_name
}

// ---- specs: scalar codecs ---------------------------------------------------------------------------------------------
pub open spec fn i32_reads(p: Primitive, st: Store) -> Result<i32> { then(deref1(p, st), |q: Primitive| int_of(q)) }
pub open spec fn u32_reads(p: Primitive, st: Store) -> Result<u32> {
    then(deref1(p, st), |q: Primitive| then(nat_of(q), |n: int| Ok::<u32, PdfError>(n as u32)))
}
pub open spec fn usize_reads(p: Primitive, st: Store) -> Result<usize> {
    then(deref1(p, st), |q: Primitive| then(nat_of(q), |n: int| Ok::<usize, PdfError>(n as usize)))
}
pub open spec fn bool_reads(p: Primitive, st: Store) -> Result<bool> { then(deref1(p, st), |q: Primitive| bool_of(q)) }
pub open spec fn name_reads(p: Primitive, st: Store) -> Result<Name> {
    then(deref1(p, st), |q: Primitive| match q { Primitive::Name(s) => Ok(Name(s)), _ => unexpected("Name", q) })
}
pub open spec fn plainref_reads(p: Primitive) -> Result<PlainRef> {
    match p { Primitive::Reference(id) => Ok(id), _ => unexpected("Reference", p) }
}
// A writer of a number either produces the Integer object denoting that very number or reports an error; it never
// writes a different number (ISO 32000 7.3.3; property C15 "reading that back gives a value that writes identically").
pub open spec fn writes_nat(x: int, r: Result<Primitive>) -> bool {
    if x <= i32::MAX { r == Ok::<Primitive, PdfError>(Primitive::Integer(x as i32)) } else { r is Err }
}

//@@ i32_from_primitive
//@@ i32_to_primitive
//@@ u32_from_primitive
//@@ u32_to_primitive
//@@ usize_from_primitive
//@@ usize_to_primitive
//@@ bool_from_primitive
//@@ bool_to_primitive
//@@ name_from_primitive
//@@ name_to_primitive
//@@ plainref_from_primitive
//@@ plainref_to_primitive
//@@ unit_from_primitive
//@@ unit_to_primitive

// ---- containers over abstract element codecs -------------------------------------------------------------------------
pub open spec fn pair_reads<T: Object, U: Object>(p: Primitive, st: Store) -> Result<(T, U)> {
    then(deref1(p, st), |q: Primitive| match q {
        Primitive::Array(v) => if v@.len() != 2 { Err(PdfError::Other) } else {
            then(T::reads(v@[0], st), |a: T| then(U::reads(v@[1], st), |b: U| Ok::<(T, U), PdfError>((a, b)))) },
        _ => unexpected("Array", q) })
}
//@@ option_to_primitive
//@@ pair_from_primitive
//@@ pair_to_primitive
//@@ box_from_primitive
//@@ box_to_primitive

pub open spec fn rect_reads(p: Primitive, st: Store) -> Result<Rectangle> {
    then(deref1(p, st), |q: Primitive| match q {
        Primitive::Array(v) => if v@.len() != 4 { Err(PdfError::Other) } else {
            then(number_of(v@[0]), |l: f32| then(number_of(v@[1]), |b: f32| then(number_of(v@[2]), |r: f32| then(number_of(v@[3]), |t: f32|
                Ok::<Rectangle, PdfError>(Rectangle { left: l, bottom: b, right: r, top: t }))))) },
        _ => unexpected("Array", q) })
}
//@@ rect_from_primitive
//@@ rect_to_primitive

// ---- round trips, from the specs alone ---------------------------------------------------------------------------------
pub proof fn lemma_scalar_roundtrips(st: Store)
    ensures
        forall|x: i32| i32_reads(Primitive::Integer(x), st) == Ok::<i32, PdfError>(x),
        forall|x: u32| x <= i32::MAX ==> u32_reads(Primitive::Integer(x as i32), st) == Ok::<u32, PdfError>(x),
        forall|x: usize| x <= i32::MAX ==> usize_reads(Primitive::Integer(x as i32), st) == Ok::<usize, PdfError>(x),
        forall|x: bool| bool_reads(Primitive::Boolean(x), st) == Ok::<bool, PdfError>(x),
        forall|x: Name| name_reads(Primitive::Name(x.0), st) == Ok::<Name, PdfError>(x),
        forall|x: PlainRef| plainref_reads(Primitive::Reference(x)) == Ok::<PlainRef, PdfError>(x),
{}
pub proof fn lemma_pair_roundtrip<T: Object + ObjectWrite, U: Object + ObjectWrite>(x: (T, U), v: Vec<Primitive>, st: Store)
    requires rt_strong(x.0, st), rt_strong(x.1, st), v@ == seq![x.0.writes(), x.1.writes()],
    ensures pair_reads::<T, U>(Primitive::Array(v), st) == Ok::<(T, U), PdfError>(x)
{}
pub proof fn lemma_rect_roundtrip(x: Rectangle, v: Vec<Primitive>, st: Store)
    requires is_numbers4(v@, x.left, x.bottom, x.right, x.top),
    ensures rect_reads(Primitive::Array(v), st) == Ok::<Rectangle, PdfError>(x)
{
    assert(v@.len() == 4);
    assert(number_of(v@[0]) == Ok::<f32, PdfError>(x.left));
    assert(number_of(v@[1]) == Ok::<f32, PdfError>(x.bottom));
    assert(number_of(v@[2]) == Ok::<f32, PdfError>(x.right));
    assert(number_of(v@[3]) == Ok::<f32, PdfError>(x.top));
    assert(deref1(Primitive::Array(v), st) == Ok::<Primitive, PdfError>(Primitive::Array(v)));
}
}
fn main(){}
