fn main() {
    for len in 0..8usize { for k in 0..=len {
        let w: Vec<i64> = (0..len as i64).collect();
        let mut r = w.clone(); r.rotate_right(k);
        for i in 0..len { assert_eq!(r[i], w[(i as i64 - k as i64).rem_euclid(len as i64) as usize]); }
        let mut l = w.clone(); l.rotate_left(k);
        for i in 0..len { assert_eq!(l[i], w[(i + k) % len]); }
    } }
    // head/tail split
    let mut v = vec![1,2,3,4,5]; { let t = &mut v[2..]; t.rotate_right(1); } assert_eq!(v, vec![1,2,5,3,4]);
    assert_eq!(-1e30f32 as isize, isize::MIN); assert_eq!(-3.0f32 as usize, 0); assert_eq!(f32::NAN as usize, 0);
    println!("rotate contracts ok");
}
