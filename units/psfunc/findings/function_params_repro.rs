// Native triage of hostile numeric parameters in function dictionaries (pdf/src/object/function.rs:91-180),
// observed while reading for unit psfunc; NOT under a Verus contract (derive-generated loading + iterator code).
// Drop into a scratch copy of /repo as pdf/tests/function_params_repro.rs and run
//   cargo test --offline -p pdf --test function_params_repro
use pdf::file::FileOptions;
use pdf::object::*;
use pdf::primitive::Primitive;

fn build_pdf(objs: &[&str]) -> Vec<u8> {
    let mut out = b"%PDF-1.7\n".to_vec();
    let mut offs = vec![];
    for (i, body) in objs.iter().enumerate() {
        offs.push(out.len());
        out.extend_from_slice(format!("{} 0 obj\n{}\nendobj\n", i + 1, body).as_bytes());
    }
    let xref = out.len();
    out.extend_from_slice(format!("xref\n0 {}\n0000000000 65535 f \n", objs.len() + 1).as_bytes());
    for o in &offs { out.extend_from_slice(format!("{:010} 00000 n \n", o).as_bytes()); }
    out.extend_from_slice(format!("trailer\n<< /Size {} /Root 1 0 R >>\nstartxref\n{}\n%%EOF\n", objs.len() + 1, xref).as_bytes());
    out
}
fn load_fn(body: &str) -> Result<Function, String> {
    let data = build_pdf(&["<< /Type /Catalog /Pages 2 0 R >>", "<< /Type /Pages /Kids [] /Count 0 >>", body]);
    let file = FileOptions::cached().load(data).expect("document loads");
    let resolver = file.resolver();
    let r = std::panic::catch_unwind(std::panic::AssertUnwindSafe(||
        Function::from_primitive(Primitive::Reference(PlainRef { id: 3, gen: 0 }), &resolver)));
    match r {
        Ok(Ok(f)) => Ok(f),
        Ok(Err(e)) => Err(format!("{:?}", e)),
        Err(_) => panic!("Function::from_primitive PANICKED on {}", body),
    }
}
/// exponential (type 2) function with an empty /Domain: `raw.domain[0]`
#[test]
fn type2_empty_domain() { let _ = load_fn("<< /FunctionType 2 /Domain [] /N 1 >>"); }
/// PostScript (type 4) function without /Range: `info.range.unwrap()`
#[test]
fn type4_without_range() { let _ = load_fn("<< /FunctionType 4 /Domain [0 1] /Length 8 >>\nstream\n{ 1 add }\nendstream"); }
/// sampled (type 0) function with /Size [0] and no /Encode: `(n-1) as f32` on u32 0
#[test]
fn type0_size_zero() { let _ = load_fn("<< /FunctionType 0 /Domain [0 1] /Range [0 1] /Size [0] /BitsPerSample 8 /Length 1 >>\nstream\n0\nendstream"); }
/// applying an exponential function to zero inputs: `x[0]`
#[test]
fn type2_apply_no_input() {
    let f = load_fn("<< /FunctionType 2 /Domain [0 1] /C0 [0] /C1 [1] /N 1 >>").expect("loads");
    let mut out = [0.0f32; 1];
    let r = std::panic::catch_unwind(std::panic::AssertUnwindSafe(|| f.apply(&[], &mut out).is_ok()));
    assert!(r.is_ok(), "Function::apply PANICKED on empty input");
}
