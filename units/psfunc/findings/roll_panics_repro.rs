// Repro for finding `roll_panics` (unit psfunc, obligation psfunc/PsFunc::exec_inner/panic_free).
// Drop into a scratch copy of /repo as pdf/tests/psfunc_roll_repro.rs and run
//   cargo test --offline -p pdf --test psfunc_roll_repro
// Each program is a syntactically valid PostScript calculator (Type 4) function body. `PsFunc::exec` must return
// Ok or Err for every one of them; on the pinned tree each of the four panics instead.
use pdf::object::PsFunc;

fn run(prog: &str, input: &[f32], n_out: usize) -> Result<Vec<f32>, String> {
    let f = PsFunc::parse(prog).expect("program parses");
    let inp = input.to_vec();
    let r = std::panic::catch_unwind(move || {
        let input = inp;
        let mut out = vec![0.0f32; n_out];
        f.exec(&input, &mut out).map(|()| out)
    });
    match r {
        Ok(Ok(v)) => Ok(v),
        Ok(Err(e)) => Err(format!("Err({:?})", e)),
        Err(_) => panic!("PsFunc::exec PANICKED on {:?} with input {:?}", prog, input),
    }
}

/// `n` larger than the stack: `stack.len() - n` underflows (debug: overflow panic; release: wraps, then slice index panic)
#[test]
fn roll_count_exceeds_stack() {
    let r = run("{ 5 1 roll }", &[1.0], 1);
    assert!(r.is_err(), "stackunderflow expected, got {:?}", r);
}

/// j > n: `slice.rotate_right(j as usize)` asserts k <= len. `3 4 roll` is legal PostScript (j is taken mod n).
#[test]
fn roll_shift_exceeds_window() {
    // a b c  3 4 roll  ==  a b c  3 1 roll  => c a b
    let r = run("{ 3 4 roll }", &[1.0, 2.0, 3.0], 3);
    assert_eq!(r, Ok(vec![3.0, 1.0, 2.0]));
}

/// j < -n: `slice.rotate_left(-j as usize)` asserts mid <= len.
#[test]
fn roll_negative_shift_exceeds_window() {
    // a b c  3 -4 roll == a b c 3 -1 roll => b c a
    let r = run("{ 3 -4 roll }", &[1.0, 2.0, 3.0], 3);
    assert_eq!(r, Ok(vec![2.0, 3.0, 1.0]));
}

/// j = -1e30 saturates to isize::MIN: `-j` overflows (debug) / rotate_left(2^63) (release)
#[test]
fn roll_shift_isize_min() {
    let r = run("{ 1 -1e30 roll }", &[7.0], 1);
    assert!(r.is_ok() || r.is_err());
}

/// n = 0 with positive j: rotate_right(1) on an empty window
#[test]
fn roll_empty_window() {
    let r = run("{ 0 1 roll }", &[7.0], 1);
    assert_eq!(r, Ok(vec![7.0]));
}

/// sanity: the in-range behaviour is unchanged
#[test]
fn roll_in_range() {
    assert_eq!(run("{ 3 1 roll }", &[1.0, 2.0, 3.0], 3), Ok(vec![3.0, 1.0, 2.0]));
    assert_eq!(run("{ 3 -1 roll }", &[1.0, 2.0, 3.0], 3), Ok(vec![2.0, 3.0, 1.0]));
    assert_eq!(run("{ 3 3 roll }", &[1.0, 2.0, 3.0], 3), Ok(vec![1.0, 2.0, 3.0]));
    assert_eq!(run("{ 2 0 roll }", &[1.0, 2.0], 2), Ok(vec![1.0, 2.0]));
}
