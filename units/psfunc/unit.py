F = 'pdf/src/object/function.rs'
IMPL = r'^impl PsFunc$'
POP = r'stack\.pop\(\)\.ok_or\(PostScriptError::StackUnderflow\)\?'

RUN_INV = ('run_prefix', 'ps_run(self.ops@.take(it.index@ as int), old(stack)@) is Some && ps_run(self.ops@.take(it.index@ as int), old(stack)@)->0 =~= stack@')

UNIT = {
 'name': 'psfunc',
 'doc': 'PostScript calculator (Type 4 function) interpreter PsFunc::exec_inner / exec: hostile programs end in Err, never a panic; result = PLRM stack machine',
 'rlimit': 60,
 'items': {
  # the crate's own `op!` macro is taken from /repo verbatim (it is part of the interpreter's control flow)
  'macro op': {'kind': 'decl', 'file': F, 'header': r'^macro_rules! op$'},
  'enum PostScriptError': {'kind': 'decl', 'file': F, 'header': r'^pub enum PostScriptError$'},
  'struct PsFunc': {'kind': 'decl', 'file': F, 'header': r'^pub struct PsFunc$'},
  'enum PsOp': {'kind': 'decl', 'file': F, 'header': r'^pub enum PsOp$', 'attrs': ['#[derive(Clone, Copy)]']},

  'PsFunc::exec_inner': {'kind': 'fn', 'file': F, 'container': IMPL, 'name': 'exec_inner', 'props': ['C14', 'C01'],
     'ensures': [
        ('run_ok',  'r is Ok ==> ps_run(self.ops@, old(stack)@) == Some(final(stack)@)'),
        ('run_err', 'r is Err ==> ps_run(self.ops@, old(stack)@) is None'),
     ],
     'loops': {1: {'for_ghost': 'it',
                   'invariant': [RUN_INV]}},
     'rewrites': [
        # R5: `for &op in` -> deref let
        {'rule': 'R5', 'find': 'for &op in &self.ops {', 'replace': 'for op_ in &self.ops { let op = *op_; proof { lemma_take_step(self.ops@, it.index@ as int, old(stack)@); }'},
        {'rule': 'R1', 'find': 'Ok(())', 'replace': 'proof { assert(self.ops@.take(self.ops@.len() as int) =~= self.ops@); } Ok(())'},
        # R7: f32 arithmetic and int<->float casts are opaque to Verus: hoisted into helpers whose body is the expression
        {'rule': 'R7', 'find': 'stack.push(i as f32)', 'replace': 'stack.push(hoist_i32_as_f32(i))'},
        {'rule': 'R7', 'regex': r'=> ([ab]) \+ ([ab])\)', 'replace': r'=> hoist_f32_add(\1, \2))'},
        {'rule': 'R7', 'regex': r'=> ([ab]) - ([ab])\)', 'replace': r'=> hoist_f32_sub(\1, \2))'},
        {'rule': 'R7', 'regex': r'=> ([ab]) \* ([ab])\)', 'replace': r'=> hoist_f32_mul(\1, \2))'},
        {'rule': 'R7', 'regex': r'=> ([ab])\.abs\(\)\)', 'replace': r'=> hoist_f32_abs(\1))'},
        {'rule': 'R7', 'regex': '(' + POP + r') as isize', 'replace': r'hoist_f32_as_isize(\1)'},
        {'rule': 'R7', 'regex': '(' + POP + r') as usize', 'replace': r'hoist_f32_as_usize(\1)', 'count': 2},
        # R7: Verus accepts `&mut v[a..]` but gives the reborrow no meaning; std panics unless start <= len
        {'rule': 'R7', 'find': 'let slice = &mut stack[start..];', 'replace': 'let slice = hoist_tail_mut(stack, start); let ghost w = slice@; proof { lemma_roll_empty(w, j as int); assert(w =~= s0.take(s0.len() - 2).subrange(s0.len() - 2 - n, s0.len() - 2)); }'},
        {'rule': 'R1', 'find': 'PsOp::Roll => {', 'replace': 'PsOp::Roll => { let ghost s0 = stack@;'},
        # only present once findings/roll_fix.diff is applied
        {'rule': 'R7', 'regex': r'\bj\.unsigned_abs\(\)', 'replace': 'hoist_unsigned_abs(j)', 'count': '*'},
        # R7: slice rotation (std): precondition k <= len is std's own `assert!(k <= self.len())`
        {'rule': 'R7', 'regex': r'slice\.rotate_right\((.*?)\);', 'replace': r'hoist_rotate_right(slice, \1); proof { lemma_roll_right(w, slice@, j as int, (\1) as int); }'},
        {'rule': 'R7', 'regex': r'slice\.rotate_left\((.*?)\);', 'replace': r'hoist_rotate_left(slice, \1); proof { lemma_roll_left(w, slice@, j as int, (\1) as int); }'},
     ]},

  'PsFunc::exec': {'kind': 'fn', 'file': F, 'container': IMPL, 'name': 'exec', 'props': ['C14', 'C01'],
     'ensures': [
        # the value: output = final operand stack of the program started on `input`
        ('exec_ok',  'r is Ok ==> ps_run(self.ops@, input@) == Some(final(output)@)'),
        # which inputs must be errors, and which error
        ('exec_err_underflow', 'ps_run(self.ops@, input@) is None ==> r is Err && r->Err_0 is PostScriptExec'),
        ('exec_err_arity', '(ps_run(self.ops@, input@) is Some && ps_run(self.ops@, input@)->0.len() != old(output)@.len()) ==> r is Err && r->Err_0 is Other'),
        ('exec_err_frame', 'r is Err ==> final(output)@ == old(output)@'),
     ],
     'rewrites': [
        # R7: std slice copy; panics unless both lengths are equal
        {'rule': 'R7', 'find': 'output.copy_from_slice(&stack);', 'replace': 'hoist_copy_from_slice(output, &stack);'},
        {'rule': 'R7', 'find': 'stack.extend_from_slice(input);', 'replace': 'hoist_extend_from_slice(&mut stack, input);'},
     ]},
 },
}
