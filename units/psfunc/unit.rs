// Unit `psfunc` (C14, C01): the PostScript calculator interpreter of pdf/src/object/function.rs
// (`PsFunc::exec_inner`, `PsFunc::exec`, the `op!` macro) against the PLRM / ISO 32000-1 7.10.5 operand-stack
// machine. A hostile program must end in `Err`, never in a panic.
use vstd::prelude::*;
//@@ INCLUDE _common/error_macros.rs
//@@ macro op
verus! {
global size_of usize == 8;

//@@ PDFERROR
//@@ enum PostScriptError
//@@ struct PsFunc
//@@ enum PsOp

// ---------------------------------------------------------------------------------------------------
// Floating point is opaque: every f32 operation of the source is an uninterpreted function of its operands.
// No floating-point fact is used or claimed. The casts are Rust's saturating `as` casts.
pub uninterp spec fn sp_i32_as_f32(i: i32) -> f32;
pub uninterp spec fn sp_f32_as_usize(f: f32) -> usize;
pub uninterp spec fn sp_f32_as_isize(f: f32) -> isize;
pub uninterp spec fn sp_add(a: f32, b: f32) -> f32;
pub uninterp spec fn sp_sub(a: f32, b: f32) -> f32;
pub uninterp spec fn sp_mul(a: f32, b: f32) -> f32;
pub uninterp spec fn sp_abs(a: f32) -> f32;

// ---- L0 helpers (R7): bodies are the hoisted source expressions ----
#[verifier::external_body]
fn hoist_i32_as_f32(i: i32) -> (r: f32) ensures r == sp_i32_as_f32(i) { i as f32 }
#[verifier::external_body]
fn hoist_f32_as_usize(f: f32) -> (r: usize) ensures r == sp_f32_as_usize(f) { f as usize }
#[verifier::external_body]
fn hoist_f32_as_isize(f: f32) -> (r: isize) ensures r == sp_f32_as_isize(f) { f as isize }
#[verifier::external_body]
fn hoist_f32_add(a: f32, b: f32) -> (r: f32) ensures r == sp_add(a, b) { a + b }
#[verifier::external_body]
fn hoist_f32_sub(a: f32, b: f32) -> (r: f32) ensures r == sp_sub(a, b) { a - b }
#[verifier::external_body]
fn hoist_f32_mul(a: f32, b: f32) -> (r: f32) ensures r == sp_mul(a, b) { a * b }
#[verifier::external_body]
fn hoist_f32_abs(a: f32) -> (r: f32) ensures r == sp_abs(a) { a.abs() }

#[verifier::external_body]
fn hoist_unsigned_abs(j: isize) -> (r: usize) ensures r as int == (if j >= 0 { j as int } else { -(j as int) }) { j.unsigned_abs() }

// std: `copy_from_slice` panics unless the lengths are equal ("source slice length does not match destination")
#[verifier::external_body]
fn hoist_copy_from_slice(dst: &mut [f32], src: &Vec<f32>)
    requires old(dst)@.len() == src@.len()
    ensures final(dst)@ == src@
{ dst.copy_from_slice(src) }
#[verifier::external_body]
fn hoist_extend_from_slice(v: &mut Vec<f32>, src: &[f32])
    ensures final(v)@ == old(v)@ + src@
{ v.extend_from_slice(src) }

// std: `&mut v[start..]` panics unless start <= len; the reborrow is the tail, the head is untouched.
#[verifier::external_body]
fn hoist_tail_mut(v: &mut Vec<f32>, start: usize) -> (r: &mut [f32])
    requires start <= old(v)@.len()
    ensures r@ == old(v)@.subrange(start as int, old(v)@.len() as int),
            final(v)@ == old(v)@.subrange(0, start as int) + final(r)@
{ &mut v[start..] }

// std: `<[T]>::rotate_right(k)` panics unless k <= len ("assertion failed: k <= self.len()"); the last k
// elements move to the front.  `rotate_left(mid)` panics unless mid <= len; the first mid elements move to the end.
#[verifier::external_body]
fn hoist_rotate_right(s: &mut [f32], k: usize)
    requires k <= old(s)@.len()
    ensures final(s)@.len() == old(s)@.len(),
            forall|i: int| 0 <= i < old(s)@.len() ==> #[trigger] final(s)@[i] == old(s)@[(i - k) % (old(s)@.len() as int)]
{ s.rotate_right(k) }
#[verifier::external_body]
fn hoist_rotate_left(s: &mut [f32], k: usize)
    requires k <= old(s)@.len()
    ensures final(s)@.len() == old(s)@.len(),
            forall|i: int| 0 <= i < old(s)@.len() ==> #[trigger] final(s)@[i] == old(s)@[(i + k) % (old(s)@.len() as int)]
{ s.rotate_left(k) }

// ---------------------------------------------------------------------------------------------------
// The operand-stack machine, written from the PostScript Language Reference (operators dup exch pop index
// roll add sub mul abs cvr) restricted to reals as ISO 32000-1 7.10.5 does. Top of stack = end of the Seq.
// `None` = the PostScript error `stackunderflow` (operand count / `index`,`roll` argument exceeds the stack).

/// PLRM `roll`: "circular shift of the n objects by amount j; positive j = motion toward the top":
/// the object at window position i moves to position (i + j) mod n.
pub open spec fn roll_seq(w: Seq<f32>, j: int) -> Seq<f32> {
    Seq::new(w.len(), |i: int| w[(i - j) % (w.len() as int)])
}

pub open spec fn ps_step(op: PsOp, s: Seq<f32>) -> Option<Seq<f32>> {
    let n = s.len() as int;
    match op {
        PsOp::Int(i) => Some(s.push(sp_i32_as_f32(i))),
        PsOp::Value(v) => Some(s.push(v)),
        PsOp::Add => if n >= 2 { Some(s.take(n - 2).push(sp_add(s[n - 2], s[n - 1]))) } else { None },
        PsOp::Sub => if n >= 2 { Some(s.take(n - 2).push(sp_sub(s[n - 2], s[n - 1]))) } else { None },
        PsOp::Mul => if n >= 2 { Some(s.take(n - 2).push(sp_mul(s[n - 2], s[n - 1]))) } else { None },
        PsOp::Abs => if n >= 1 { Some(s.take(n - 1).push(sp_abs(s[n - 1]))) } else { None },
        PsOp::Dup => if n >= 1 { Some(s.push(s[n - 1])) } else { None },
        PsOp::Exch => if n >= 2 { Some(s.take(n - 2).push(s[n - 1]).push(s[n - 2])) } else { None },
        PsOp::Pop => if n >= 1 { Some(s.take(n - 1)) } else { None },
        // every operand is already a real: cvr is the identity
        PsOp::Cvr => Some(s),
        // any_n .. any_0 n index  =>  any_n .. any_0 any_n
        PsOp::Index => if n >= 1 {
                let k = sp_f32_as_usize(s[n - 1]) as int;
                let rest = s.take(n - 1);
                if k < n - 1 { Some(rest.push(rest[n - 2 - k])) } else { None }
            } else { None },
        // any_(n-1) .. any_0 n j roll
        PsOp::Roll => if n >= 2 {
                let j = sp_f32_as_isize(s[n - 1]) as int;
                let cnt = sp_f32_as_usize(s[n - 2]) as int;
                let rest = s.take(n - 2);
                if cnt <= n - 2 { Some(rest.take(n - 2 - cnt) + roll_seq(rest.subrange(n - 2 - cnt, n - 2), j)) } else { None }
            } else { None },
    }
}

/// Run the whole program (left to right) from stack `s`.
pub open spec fn ps_run(ops: Seq<PsOp>, s: Seq<f32>) -> Option<Seq<f32>>
    decreases ops.len()
{
    if ops.len() == 0 { Some(s) }
    else {
        match ps_run(ops.drop_last(), s) {
            None => None,
            Some(s1) => ps_step(ops.last(), s1),
        }
    }
}

pub proof fn lemma_take_step(ops: Seq<PsOp>, i: int, s: Seq<f32>)
    requires 0 <= i < ops.len()
    ensures ops.take(i + 1).drop_last() == ops.take(i),
            ops.take(i + 1).last() == ops[i],
            ps_run(ops.take(i + 1), s) == match ps_run(ops.take(i), s) { None => None, Some(s1) => ps_step(ops[i], s1) },
            ps_run(ops.take(i + 1), s) is None ==> ps_run(ops, s) is None,
{
    assert(ops.take(i + 1).drop_last() =~= ops.take(i));
    if ps_run(ops.take(i + 1), s) is None { lemma_prefix_none(ops, i + 1, s); }
}

/// An error is final: once a prefix of the program fails, the program fails.
pub proof fn lemma_prefix_none(ops: Seq<PsOp>, k: int, s: Seq<f32>)
    requires 0 <= k <= ops.len(), ps_run(ops.take(k), s) is None
    ensures ps_run(ops, s) is None
    decreases ops.len() - k
{
    if k == ops.len() {
        assert(ops.take(k) =~= ops);
    } else {
        assert(ops.take(k + 1).drop_last() =~= ops.take(k));
        lemma_prefix_none(ops, k + 1, s);
    }
}

// `roll` by j is a right rotation by any k congruent to j, and a left rotation by any k congruent to -j.
pub proof fn lemma_roll_empty(w: Seq<f32>, j: int)
    ensures w.len() == 0 ==> roll_seq(w, j) == w
{
    if w.len() == 0 { assert(roll_seq(w, j) =~= w); }
}
pub proof fn lemma_roll_right(w: Seq<f32>, r: Seq<f32>, j: int, k: int)
    requires r.len() == w.len(),
             w.len() > 0 ==> (k == j || k == j % (w.len() as int)),
             forall|i: int| 0 <= i < w.len() ==> #[trigger] r[i] == w[(i - k) % (w.len() as int)],
    ensures r == roll_seq(w, j)
{
    let n = w.len() as int;
    if n > 0 {
        vstd::arithmetic::div_mod::lemma_mod_twice(j, n);
        assert forall|i: int| 0 <= i < n implies r[i] == roll_seq(w, j)[i] by {
            vstd::arithmetic::div_mod::lemma_sub_mod_noop_right(i, k, n);
            vstd::arithmetic::div_mod::lemma_sub_mod_noop_right(i, j, n);
        }
    }
    assert(r =~= roll_seq(w, j));
}
pub proof fn lemma_roll_left(w: Seq<f32>, r: Seq<f32>, j: int, k: int)
    requires r.len() == w.len(),
             w.len() > 0 ==> (k == -j || k == (-j) % (w.len() as int)),
             forall|i: int| 0 <= i < w.len() ==> #[trigger] r[i] == w[(i + k) % (w.len() as int)],
    ensures r == roll_seq(w, j)
{
    let n = w.len() as int;
    if n > 0 {
        vstd::arithmetic::div_mod::lemma_mod_twice(-j, n);
        assert forall|i: int| 0 <= i < n implies r[i] == roll_seq(w, j)[i] by {
            vstd::arithmetic::div_mod::lemma_add_mod_noop_right(i, k, n);
            vstd::arithmetic::div_mod::lemma_add_mod_noop_right(i, -j, n);
            assert(i + (-j) == i - j);
        }
    }
    assert(r =~= roll_seq(w, j));
}

impl PsFunc {
//@@ PsFunc::exec_inner
//@@ PsFunc::exec
}
}
fn main(){}
