// Unit `importer` (C20, thin): the MECHANISM of page import -- "deep clone through the Cloner trait with memoisation".
//   pdf/src/build.rs        : Importer::{new, clone_plainref, clone_ref, clone_rcref, clone_shared} (impl Cloner), Importer::stream_data
//   pdf/src/object/mod.rs   : DeepClone for PlainRef, Ref<T>, RcRef<T>, MaybeRef<T>, Lazy<T>, Vec<T>, Option<T>, Box<T>, (A, B), Primitive
//   pdf/src/primitive.rs    : DeepClone for Dictionary, PdfStream
//   pdf/src/object/stream.rs: DeepClone for Stream<I>
//   expanded:pdf            : derived DeepClone of StreamInfo<I>, Resources, XObject, AppearanceStreams; deep_clone_simple! instances
//   pdf/src/content.rs      : deep_clone_op (resource pruning)
//
// Two worlds (Verus rejects the mutual bound `Cloner::clone_ref<T: DeepClone>` / `DeepClone::deep_clone(&mut impl Cloner)`):
//   World A: every DeepClone impl over an ABSTRACT cloner `AnyCloner` (an opaque env struct whose clone_* contracts are the
//            ones World B proves of the real Importer);
//   World B: the real `impl Cloner for Importer` over an ABSTRACT element type `T: DeepCloneB` whose deep_clone contract
//            is the one World A proves of every impl.
// Each world's hypothesis is the other world's theorem: sound for every TERMINATING import by induction on the call
// depth (partial correctness).  Termination is NOT proved (see NOTES.md: what bounds the recursion).
//
// Value-level contract: `is_clone(v, c, m)` -- "c is v with every source reference r replaced by m[r]" (and every
// reference in v IS in the domain of m), `m` = the memo map at the END of the call.  Written from C20: "Every reference
// in the new document points to an object of the new document, shared source objects are copied once".
use vstd::prelude::*;
use std::sync::Arc;
use std::ops::Range;
use core::marker::PhantomData;
//@@ INCLUDE _common/error_macros.rs
verus! {
global size_of usize == 8;

//@@ PDFERROR
//@@ DEVIATIONS

pub type ObjNr = u64;
pub type GenNr = u64;
pub type Shared<T> = Arc<T>;

// ====================================================================================================================
// env: foreign value types
// istring::SmallString / IBytes: opaque values (ghost payload), `Clone` = same value (TRUSTED: derive(Clone) / istring)
pub struct SmallString { pub chars: Ghost<Seq<char>> }
impl Clone for SmallString {
    #[verifier::external_body]
    fn clone(&self) -> (r: SmallString) ensures r == *self { unimplemented!() }
}
pub struct PdfString { pub data: Ghost<Seq<u8>> }
impl Clone for PdfString {
    #[verifier::external_body]
    fn clone(&self) -> (r: PdfString) ensures r == *self { unimplemented!() }
}
// indexmap::IndexMap: insertion-ordered map with distinct keys; model = the entries in iteration order (as units/primser).
// `collect`/`try_collect` of (key, value) pairs with distinct keys gives the entries in the order produced.
pub struct IndexMap<K, V> { pub entries: Vec<(K, V)> }
impl<K, V> IndexMap<K, V> {
    pub fn new() -> (r: Self) ensures r.entries@.len() == 0 { IndexMap { entries: Vec::new() } }
}
// once_cell::sync::OnceCell (as units/readers)
#[verifier::external_body]
#[verifier::accept_recursive_types(A)]
pub struct OnceCell<A> { _p: PhantomData<A> }
impl<A> OnceCell<A> {
    pub uninterp spec fn peek(&self) -> Option<A>;
    #[verifier::external_body]
    pub fn new() -> (r: Self) ensures r.peek() is None { unimplemented!() }
}
// std::collections::HashMap: abstract map (TRUSTED model of get / insert / contains_key / new)
#[verifier::external_body]
#[verifier::reject_recursive_types(K)]
#[verifier::accept_recursive_types(V)]
pub struct HashMap<K, V> { _p: PhantomData<(K, V)> }
impl<K, V> HashMap<K, V> {
    pub uninterp spec fn view(&self) -> Map<K, V>;
    #[verifier::external_body]
    pub fn new() -> (r: Self) ensures r@ == Map::<K, V>::empty() { unimplemented!() }
    #[verifier::external_body]
    pub fn get(&self, k: &K) -> (r: Option<&V>)
        ensures match r { Some(v) => self@.dom().contains(*k) && *v == self@[*k], None => !self@.dom().contains(*k) }
    { unimplemented!() }
    #[verifier::external_body]
    pub fn contains_key(&self, k: &K) -> (r: bool) ensures r == self@.dom().contains(*k) { unimplemented!() }
    #[verifier::external_body]
    pub fn insert(&mut self, k: K, v: V) -> (r: Option<V>) ensures final(self)@ == old(self)@.insert(k, v) { unimplemented!() }
    // the entries in iteration order (some order; every key once): `self.iter()` collected
    #[verifier::external_body]
    pub fn hoist_iter(&self) -> (r: Vec<(&K, &V)>)
        ensures
            forall|i: int| 0 <= i < r@.len() ==> self@.dom().contains(*(#[trigger] r@[i]).0) && self@[*r@[i].0] == *r@[i].1,
            forall|i: int, j: int| 0 <= i < j < r@.len() ==> *r@[i].0 != *r@[j].0,
            forall|k: K| self@.dom().contains(k) ==> exists|i: int| 0 <= i < r@.len() && *(#[trigger] r@[i]).0 == k,
    { unimplemented!() }
}

// ====================================================================================================================
// data types taken from /repo
//@@ struct PlainRef
//@@ struct Name
impl Clone for Name {
    // TRUSTED: #[derive(Clone)] on Name
    #[verifier::external_body]
    fn clone(&self) -> (r: Name) ensures r == *self { unimplemented!() }
}
//@@ struct Dictionary
//@@ enum StreamInner
//@@ struct PdfStream
//@@ enum Primitive
//@@ struct Ref
//@@ struct RcRef
//@@ enum MaybeRef
//@@ struct Lazy
//@@ struct PromisedRef
impl Clone for Primitive {
    // TRUSTED: #[derive(Clone)] on Primitive
    #[verifier::external_body]
    fn clone(&self) -> (r: Primitive) ensures r == *self { unimplemented!() }
}
impl Clone for Dictionary {
    // TRUSTED: #[derive(Clone)] on Dictionary (a plain copy: references inside are NOT sent through the cloner)
    #[verifier::external_body]
    fn clone(&self) -> (r: Dictionary) ensures r == *self { unimplemented!() }
}
impl<T> Clone for Ref<T> { fn clone(&self) -> (r: Ref<T>) ensures r == *self { *self } }
impl<T> Copy for Ref<T> {}

impl<T> Ref<T> {
//@@ Ref::new
//@@ Ref::get_inner
}
impl<T> RcRef<T> {
//@@ RcRef::new
//@@ RcRef::get_ref
//@@ RcRef::data
}
impl<T> PromisedRef<T> {
//@@ PromisedRef::get_inner
}

// ====================================================================================================================
// specification
pub type Memo = Map<PlainRef, PlainRef>;
// `m` maps the source reference `o` to the new reference `n`
pub open spec fn maps(m: Memo, o: PlainRef, n: PlainRef) -> bool { m.dom().contains(o) && m[o] == n }
// entries are only ever ADDED to a memo ("shared source objects are copied once": what a source reference is mapped to never changes)
pub open spec fn submap(a: Memo, b: Memo) -> bool {
    forall|k: PlainRef| #![trigger a.dom().contains(k)] #![trigger b.dom().contains(k)] a.dom().contains(k) ==> b.dom().contains(k) && b[k] == a[k]
}
// the ghost state of a cloner: the memo, the references of the NEW document handed out so far (created or promised),
// and those of them that were promised (a promise may be fulfilled)
pub trait CState {
    spec fn memo(&self) -> Memo;
    spec fn newdoc(&self) -> Set<PlainRef>;
    spec fn promised(&self) -> Set<PlainRef>;
}
// REPRESENTATION INVARIANT: every value of the memo is a reference created in the new document
pub open spec fn wf<C: CState>(c: C) -> bool {
    forall|k: PlainRef| #![trigger c.memo().dom().contains(k)] c.memo().dom().contains(k) ==> c.newdoc().contains(c.memo()[k])
}
pub open spec fn subset(a: Set<PlainRef>, b: Set<PlainRef>) -> bool {
    forall|r: PlainRef| #![trigger a.contains(r)] #![trigger b.contains(r)] a.contains(r) ==> b.contains(r)
}
pub open spec fn grows<C: CState>(o: C, n: C) -> bool {
    submap(o.memo(), n.memo()) && subset(o.newdoc(), n.newdoc()) && subset(o.promised(), n.promised())
}
// THE SOURCE DOCUMENT (immutable during an import): what its resolver answers
pub uninterp spec fn src_obj(r: PlainRef) -> Result<Primitive>;                       // Resolve::resolve
pub uninterp spec fn src_typed<T>(r: PlainRef) -> Result<RcRef<T>>;                    // Resolve::get::<T>
pub uninterp spec fn src_stream(id: PlainRef, range: Range<usize>) -> Result<Arc<[u8]>>;   // Resolve::stream_data: the bytes of the
                                                                                      // stream of object `id` at `range` of the SOURCE file, decrypted

// ---- Primitive: c is v with every reference r replaced by m[r]; a stream's bytes are the source file's, held in memory
pub open spec fn prim_clone(v: Primitive, c: Primitive, m: Memo) -> bool decreases v, 0nat {
    match v {
        Primitive::Null => c is Null,
        Primitive::Integer(i) => c == Primitive::Integer(i),
        Primitive::Number(x) => c == Primitive::Number(x),
        Primitive::Boolean(b) => c == Primitive::Boolean(b),
        Primitive::String(s) => c == Primitive::String(s),
        Primitive::Name(s) => c == Primitive::Name(s),
        Primitive::Reference(r) => c matches Primitive::Reference(n) && maps(m, r, n),
        Primitive::Array(a) => c matches Primitive::Array(b) && list_clone(a@, b@, m, a@.len()) && a@.len() == b@.len(),
        Primitive::Dictionary(d) => c matches Primitive::Dictionary(e) && dict_clone(d, e, m),
        Primitive::Stream(s) => c matches Primitive::Stream(t) && stream_clone(s, t, m),
    }
}
// the first n elements
pub open spec fn list_clone(a: Seq<Primitive>, b: Seq<Primitive>, m: Memo, n: nat) -> bool decreases a, n {
    if n == 0 || n > a.len() || n > b.len() { n == 0 } else { list_clone(a, b, m, (n - 1) as nat) && prim_clone(a[n - 1], b[n - 1], m) }
}
// the first n entries: same keys in the same order
pub open spec fn entries_clone(a: Seq<(Name, Primitive)>, b: Seq<(Name, Primitive)>, m: Memo, n: nat) -> bool decreases a, n {
    if n == 0 || n > a.len() || n > b.len() { n == 0 }
    else { entries_clone(a, b, m, (n - 1) as nat) && b[n - 1].0 == a[n - 1].0 && prim_clone(a[n - 1].1, b[n - 1].1, m) }
}
pub open spec fn dict_clone(d: Dictionary, e: Dictionary, m: Memo) -> bool decreases d, 0nat {
    d.dict.entries@.len() == e.dict.entries@.len() && entries_clone(d.dict.entries@, e.dict.entries@, m, d.dict.entries@.len())
}
// "stream bytes pulled from the source file on clone": the clone holds IN MEMORY the bytes the SOURCE resolver gives
// for the SOURCE object id and range
pub open spec fn data_clone(s: StreamInner, t: StreamInner) -> bool {
    match s {
        StreamInner::InFile { id, file_range } => t matches StreamInner::Pending { data } && src_stream(id, file_range) == Ok::<Arc<[u8]>, PdfError>(data),
        StreamInner::Pending { data } => t == (StreamInner::Pending { data }),
    }
}
pub open spec fn stream_clone(s: PdfStream, t: PdfStream, m: Memo) -> bool decreases s, 1nat {
    dict_clone(s.info, t.info, m) && data_clone(s.inner, t.inner)
}

// ---- monotonicity: a clone under a memo stays a clone under every extension of it
pub proof fn lemma_prim_mono(v: Primitive, c: Primitive, m1: Memo, m2: Memo)
    ensures prim_clone(v, c, m1) && submap(m1, m2) ==> prim_clone(v, c, m2)
    decreases v, 0nat
{
    if prim_clone(v, c, m1) && submap(m1, m2) {
        match v {
            Primitive::Reference(r) => { assert(m1.dom().contains(r)); }
            Primitive::Array(a) => { let b = c->Array_0; lemma_list_mono(a@, b@, m1, m2, a@.len()); }
            Primitive::Dictionary(d) => { lemma_dict_mono(d, c->Dictionary_0, m1, m2); }
            Primitive::Stream(s) => { lemma_dict_mono(s.info, (c->Stream_0).info, m1, m2); }
            _ => {}
        }
    }
}
pub proof fn lemma_list_mono(a: Seq<Primitive>, b: Seq<Primitive>, m1: Memo, m2: Memo, n: nat)
    ensures list_clone(a, b, m1, n) && submap(m1, m2) ==> list_clone(a, b, m2, n)
    decreases a, n
{
    if list_clone(a, b, m1, n) && submap(m1, m2) && n > 0 {
        lemma_list_mono(a, b, m1, m2, (n - 1) as nat);
        lemma_prim_mono(a[n - 1], b[n - 1], m1, m2);
    }
}
pub proof fn lemma_entries_mono(a: Seq<(Name, Primitive)>, b: Seq<(Name, Primitive)>, m1: Memo, m2: Memo, n: nat)
    ensures entries_clone(a, b, m1, n) && submap(m1, m2) ==> entries_clone(a, b, m2, n)
    decreases a, n
{
    if entries_clone(a, b, m1, n) && submap(m1, m2) && n > 0 {
        lemma_entries_mono(a, b, m1, m2, (n - 1) as nat);
        lemma_prim_mono(a[n - 1].1, b[n - 1].1, m1, m2);
    }
}
pub proof fn lemma_dict_mono(d: Dictionary, e: Dictionary, m1: Memo, m2: Memo)
    ensures dict_clone(d, e, m1) && submap(m1, m2) ==> dict_clone(d, e, m2)
    decreases d, 0nat
{
    lemma_entries_mono(d.dict.entries@, e.dict.entries@, m1, m2, d.dict.entries@.len());
}
// extending a prefix by one element (the prefix relation only looks at the first n elements)
pub proof fn lemma_list_prefix(a: Seq<Primitive>, b1: Seq<Primitive>, b2: Seq<Primitive>, m: Memo, n: nat)
    ensures list_clone(a, b1, m, n) && n <= b1.len() && n <= b2.len() && (forall|j: int| 0 <= j < n ==> b1[j] == b2[j]) ==> list_clone(a, b2, m, n)
    decreases n
{
    if list_clone(a, b1, m, n) && n <= b1.len() && n <= b2.len() && (forall|j: int| 0 <= j < n ==> b1[j] == b2[j]) && n > 0 {
        lemma_list_prefix(a, b1, b2, m, (n - 1) as nat);
    }
}
pub proof fn lemma_entries_prefix(a: Seq<(Name, Primitive)>, b1: Seq<(Name, Primitive)>, b2: Seq<(Name, Primitive)>, m: Memo, n: nat)
    ensures entries_clone(a, b1, m, n) && n <= b1.len() && n <= b2.len() && (forall|j: int| 0 <= j < n ==> b1[j] == b2[j]) ==> entries_clone(a, b2, m, n)
    decreases n
{
    if entries_clone(a, b1, m, n) && n <= b1.len() && n <= b2.len() && (forall|j: int| 0 <= j < n ==> b1[j] == b2[j]) && n > 0 {
        lemma_entries_prefix(a, b1, b2, m, (n - 1) as nat);
    }
}

// ---- "Every reference in the new document points to an object of the new document", for a cloned value:
// every reference inside `c` is in `nd`
pub open spec fn refs_in(c: Primitive, nd: Set<PlainRef>) -> bool decreases c, 0nat {
    match c {
        Primitive::Reference(n) => nd.contains(n),
        Primitive::Array(b) => list_refs_in(b@, nd, b@.len()),
        Primitive::Dictionary(e) => entries_refs_in(e.dict.entries@, nd, e.dict.entries@.len()),
        Primitive::Stream(t) => entries_refs_in(t.info.dict.entries@, nd, t.info.dict.entries@.len()) && t.inner is Pending,
        _ => true,
    }
}
pub open spec fn list_refs_in(b: Seq<Primitive>, nd: Set<PlainRef>, n: nat) -> bool decreases b, n {
    if n == 0 || n > b.len() { true } else { list_refs_in(b, nd, (n - 1) as nat) && refs_in(b[n - 1], nd) }
}
pub open spec fn entries_refs_in(b: Seq<(Name, Primitive)>, nd: Set<PlainRef>, n: nat) -> bool decreases b, n {
    if n == 0 || n > b.len() { true } else { entries_refs_in(b, nd, (n - 1) as nat) && refs_in(b[n - 1].1, nd) }
}
pub open spec fn memo_in(m: Memo, nd: Set<PlainRef>) -> bool {
    forall|k: PlainRef| #![trigger m.dom().contains(k)] m.dom().contains(k) ==> nd.contains(m[k])
}
// THE SELF-CONTAINEDNESS THEOREM for values: a clone under a memo whose values all lie in the new document holds only
// references of the new document, and no stream of it points into the source file any more
pub proof fn lemma_self_contained(v: Primitive, c: Primitive, m: Memo, nd: Set<PlainRef>)
    ensures prim_clone(v, c, m) && memo_in(m, nd) ==> refs_in(c, nd)
    decreases v, 0nat
{
    if prim_clone(v, c, m) && memo_in(m, nd) {
        match v {
            Primitive::Reference(r) => { assert(m.dom().contains(r)); }
            Primitive::Array(a) => { lemma_list_self_contained(a@, (c->Array_0)@, m, nd, a@.len()); }
            Primitive::Dictionary(d) => {
                assert(dict_clone(d, c->Dictionary_0, m));
                lemma_entries_self_contained(d.dict.entries@, (c->Dictionary_0).dict.entries@, m, nd, d.dict.entries@.len());
            }
            Primitive::Stream(s) => {
                let t = c->Stream_0;
                assert(stream_clone(s, t, m));
                assert(dict_clone(s.info, t.info, m));
                lemma_entries_self_contained(s.info.dict.entries@, t.info.dict.entries@, m, nd, s.info.dict.entries@.len());
            }
            _ => {}
        }
    }
}
pub proof fn lemma_list_self_contained(a: Seq<Primitive>, b: Seq<Primitive>, m: Memo, nd: Set<PlainRef>, n: nat)
    ensures list_clone(a, b, m, n) && memo_in(m, nd) ==> list_refs_in(b, nd, n)
    decreases a, n
{
    if list_clone(a, b, m, n) && memo_in(m, nd) && n > 0 {
        lemma_list_self_contained(a, b, m, nd, (n - 1) as nat);
        lemma_self_contained(a[n - 1], b[n - 1], m, nd);
    }
}
pub proof fn lemma_entries_self_contained(a: Seq<(Name, Primitive)>, b: Seq<(Name, Primitive)>, m: Memo, nd: Set<PlainRef>, n: nat)
    ensures entries_clone(a, b, m, n) && memo_in(m, nd) ==> entries_refs_in(b, nd, n)
    decreases a, n
{
    if entries_clone(a, b, m, n) && memo_in(m, nd) && n > 0 {
        lemma_entries_self_contained(a, b, m, nd, (n - 1) as nat);
        lemma_self_contained(a[n - 1].1, b[n - 1].1, m, nd);
    }
}

// ====================================================================================================================
// WORLD A: the DeepClone impls over an abstract cloner
// ====================================================================================================================
// The abstract element type: the contract every impl below is PROVED to have, and World B ASSUMES of its `T`.
pub trait DeepClone: Sized {
    // `c` is `self` with every source reference replaced through `m`
    spec fn is_clone(&self, c: &Self, m: Memo) -> bool;
    proof fn lemma_mono(&self, c: &Self, m1: Memo, m2: Memo)
        ensures self.is_clone(c, m1) && submap(m1, m2) ==> self.is_clone(c, m2);
    fn deep_clone(&self, cloner: &mut AnyCloner) -> (r: Result<Self>)
        requires wf(*old(cloner))
        ensures wf(*final(cloner)), grows(*old(cloner), *final(cloner)),
            r matches Ok(c) ==> self.is_clone(&c, final(cloner).memo());
}

// The abstract cloner (`&mut impl Cloner` of the crate; R2: an opaque struct instead of a trait, see the head comment).
// Every contract is proved for the real Importer in World B (label named next to it).
#[verifier::external_body]
pub struct AnyCloner { _p: () }
impl CState for AnyCloner {
    uninterp spec fn memo(&self) -> Memo;
    uninterp spec fn newdoc(&self) -> Set<PlainRef>;
    uninterp spec fn promised(&self) -> Set<PlainRef>;
}
impl AnyCloner {
    // World B: Importer::clone_plainref/{cloner_wf, memo_grows, returns_mapped}
    #[verifier::external_body]
    pub fn clone_plainref(&mut self, old_: PlainRef) -> (r: Result<PlainRef>)
        requires wf(*old(self))
        ensures wf(*final(self)), grows(*old(self), *final(self)), r matches Ok(n) ==> maps(final(self).memo(), old_, n)
    { unimplemented!() }
    // World B: Importer::clone_ref/{cloner_wf, memo_grows, returns_mapped}
    #[verifier::external_body]
    pub fn clone_ref<T: DeepClone>(&mut self, old_: Ref<T>) -> (r: Result<Ref<T>>)
        requires wf(*old(self))
        ensures wf(*final(self)), grows(*old(self), *final(self)), r matches Ok(n) ==> maps(final(self).memo(), old_.inner, n.inner)
    { unimplemented!() }
    // World B: Importer::clone_rcref/{cloner_wf, memo_grows, returns_mapped}
    #[verifier::external_body]
    pub fn clone_rcref<T: DeepClone>(&mut self, old_: &RcRef<T>) -> (r: Result<RcRef<T>>)
        requires wf(*old(self))
        ensures wf(*final(self)), grows(*old(self), *final(self)), r matches Ok(n) ==> maps(final(self).memo(), old_.inner, n.inner)
    { unimplemented!() }
    // World B: Importer::clone_shared/{cloner_wf, memo_grows, shared_miss_is_clone}; on a HIT the value stored at the miss
    // is handed out (Importer::clone_shared/shared_hit_returns_stored) -- that it is the clone of the same Arc rests on the
    // type-erased `AnySync` store (see NOTES.md "trusted")
    #[verifier::external_body]
    pub fn clone_shared<T: DeepClone>(&mut self, old_: &Shared<T>) -> (r: Result<Shared<T>>)
        requires wf(*old(self))
        ensures wf(*final(self)), grows(*old(self), *final(self)), r matches Ok(n) ==> (**old_).is_clone(&*n, final(self).memo())
    { unimplemented!() }
    // World B: Importer::stream_data/forwards_to_source (impl Resolve for Importer)
    #[verifier::external_body]
    pub fn stream_data(&self, id: PlainRef, range: Range<usize>) -> (r: Result<Arc<[u8]>>)
        ensures r == src_stream(id, range)
    { unimplemented!() }
}

// the crate's `Cloner: Updater + Resolve`: as a resolver the cloner answers with THE source document.
// World B: Importer::resolve/forwards_to_source, Importer::stream_data/forwards_to_source; `get` (build.rs:322) is the same one-line forwarder (trusted)
impl Resolve for AnyCloner {
    #[verifier::external_body]
    fn resolve(&self, r: PlainRef) -> (res: Result<Primitive>) { unimplemented!() }
    #[verifier::external_body]
    fn get<T>(&self, r: Ref<T>) -> (res: Result<RcRef<T>>) { unimplemented!() }
    #[verifier::external_body]
    fn stream_data(&self, id: PlainRef, range: Range<usize>) -> (res: Result<Arc<[u8]>>) { unimplemented!() }
}

// ---- references
impl PlainRef {
//@@ PlainRef::deep_clone
}
impl DeepClone for PlainRef {
    open spec fn is_clone(&self, c: &Self, m: Memo) -> bool { maps(m, *self, *c) }
    proof fn lemma_mono(&self, c: &Self, m1: Memo, m2: Memo) { if self.is_clone(c, m1) && submap(m1, m2) { assert(m1.dom().contains(*self)); } }
    fn deep_clone(&self, cloner: &mut AnyCloner) -> (r: Result<Self>) { PlainRef::deep_clone(self, cloner) }
}
impl<T: DeepClone> Ref<T> {
//@@ Ref::deep_clone
}
impl<T: DeepClone> DeepClone for Ref<T> {
    open spec fn is_clone(&self, c: &Self, m: Memo) -> bool { maps(m, self.inner, c.inner) }
    proof fn lemma_mono(&self, c: &Self, m1: Memo, m2: Memo) { if self.is_clone(c, m1) && submap(m1, m2) { assert(m1.dom().contains(self.inner)); } }
    fn deep_clone(&self, cloner: &mut AnyCloner) -> (r: Result<Self>) { Ref::deep_clone(self, cloner) }
}
// RcRef<T>: what is WRITTEN for it is its reference (ObjectWrite for RcRef, object/mod.rs:276): the clone is the mapped
// reference.  (Its in-memory `data`: World B, Importer::clone_rcref/rc_miss_data_is_clone.)
impl<T: DeepClone> RcRef<T> {
//@@ RcRef::deep_clone
}
impl<T: DeepClone> DeepClone for RcRef<T> {
    open spec fn is_clone(&self, c: &Self, m: Memo) -> bool { maps(m, self.inner, c.inner) }
    proof fn lemma_mono(&self, c: &Self, m1: Memo, m2: Memo) { if self.is_clone(c, m1) && submap(m1, m2) { assert(m1.dom().contains(self.inner)); } }
    fn deep_clone(&self, cloner: &mut AnyCloner) -> (r: Result<Self>) { RcRef::deep_clone(self, cloner) }
}
// MaybeRef<T>: a direct value is cloned as a value, an indirect one as a reference; the kind is kept
pub open spec fn maybe_clone<T: DeepClone>(v: MaybeRef<T>, c: MaybeRef<T>, m: Memo) -> bool {
    match v {
        MaybeRef::Direct(a) => c matches MaybeRef::Direct(b) && (*a).is_clone(&*b, m),
        MaybeRef::Indirect(o) => c matches MaybeRef::Indirect(n) && maps(m, o.inner, n.inner),
    }
}
// R7: `res.map(MaybeRef::Direct)` / `res.map(MaybeRef::Indirect)` / `res.map(Some)` (constructor as function item)
#[verifier::external_body]
fn hoist_map_direct<T>(x: Result<Shared<T>>) -> (r: Result<MaybeRef<T>>)
    ensures r == (match x { Ok(a) => Ok::<MaybeRef<T>, PdfError>(MaybeRef::Direct(a)), Err(e) => Err::<MaybeRef<T>, PdfError>(e) })
{ x.map(MaybeRef::Direct) }
#[verifier::external_body]
fn hoist_map_indirect<T>(x: Result<RcRef<T>>) -> (r: Result<MaybeRef<T>>)
    ensures r == (match x { Ok(rc) => Ok::<MaybeRef<T>, PdfError>(MaybeRef::Indirect(rc)), Err(e) => Err::<MaybeRef<T>, PdfError>(e) })
{ x.map(MaybeRef::Indirect) }
#[verifier::external_body]
fn hoist_map_some<T>(x: Result<T>) -> (r: Result<Option<T>>)
    ensures r == (match x { Ok(a) => Ok::<Option<T>, PdfError>(Some(a)), Err(e) => Err::<Option<T>, PdfError>(e) })
{ x.map(Some) }
impl<T: DeepClone> MaybeRef<T> {
//@@ MaybeRef::deep_clone
}
impl<T: DeepClone> DeepClone for MaybeRef<T> {
    open spec fn is_clone(&self, c: &Self, m: Memo) -> bool { maybe_clone(*self, *c, m) }
    proof fn lemma_mono(&self, c: &Self, m1: Memo, m2: Memo) {
        if self.is_clone(c, m1) && submap(m1, m2) {
            match *self {
                MaybeRef::Direct(a) => { (*a).lemma_mono(&*(c->Direct_0), m1, m2); }
                MaybeRef::Indirect(o) => { assert(m1.dom().contains(o.inner)); }
            }
        }
    }
    fn deep_clone(&self, cloner: &mut AnyCloner) -> (r: Result<Self>) { MaybeRef::deep_clone(self, cloner) }
}
// Lazy<T>: the unparsed primitive is cloned as a primitive, the cache starts empty
impl<T> Lazy<T> {
//@@ Lazy::deep_clone
}
impl<T> DeepClone for Lazy<T> {
    open spec fn is_clone(&self, c: &Self, m: Memo) -> bool { prim_clone(self.primitive, c.primitive, m) && c.cache.peek() is None }
    proof fn lemma_mono(&self, c: &Self, m1: Memo, m2: Memo) { lemma_prim_mono(self.primitive, c.primitive, m1, m2); }
    fn deep_clone(&self, cloner: &mut AnyCloner) -> (r: Result<Self>) { Lazy::deep_clone(self, cloner) }
}

// ---- containers
pub open spec fn vec_clone<T: DeepClone>(a: Seq<T>, b: Seq<T>, m: Memo) -> bool {
    a.len() == b.len() && forall|i: int| 0 <= i < a.len() ==> (#[trigger] a[i]).is_clone(&b[i], m)
}
pub proof fn lemma_vec_mono<T: DeepClone>(a: Seq<T>, b: Seq<T>, m1: Memo, m2: Memo, n: int)
    ensures (forall|i: int| 0 <= i < n ==> (#[trigger] a[i]).is_clone(&b[i], m1)) && submap(m1, m2) ==> (forall|i: int| 0 <= i < n ==> (#[trigger] a[i]).is_clone(&b[i], m2))
{
    if (forall|i: int| 0 <= i < n ==> (#[trigger] a[i]).is_clone(&b[i], m1)) && submap(m1, m2) {
        assert forall|i: int| 0 <= i < n implies (#[trigger] a[i]).is_clone(&b[i], m2) by { a[i].lemma_mono(&b[i], m1, m2); }
    }
}
//@@ vec_deep_clone
impl<T: DeepClone> DeepClone for Vec<T> {
    open spec fn is_clone(&self, c: &Self, m: Memo) -> bool { vec_clone(self@, c@, m) }
    proof fn lemma_mono(&self, c: &Self, m1: Memo, m2: Memo) { lemma_vec_mono(self@, c@, m1, m2, self@.len() as int); }
    fn deep_clone(&self, cloner: &mut AnyCloner) -> (r: Result<Self>) { vec_deep_clone(self, cloner) }
}
pub open spec fn option_clone<T: DeepClone>(v: Option<T>, c: Option<T>, m: Memo) -> bool {
    match v { None => c is None, Some(t) => c matches Some(u) && t.is_clone(&u, m) }
}
//@@ option_deep_clone
impl<T: DeepClone> DeepClone for Option<T> {
    open spec fn is_clone(&self, c: &Self, m: Memo) -> bool { option_clone(*self, *c, m) }
    proof fn lemma_mono(&self, c: &Self, m1: Memo, m2: Memo) {
        if self.is_clone(c, m1) && submap(m1, m2) { match *self { Some(t) => { t.lemma_mono(&(c->Some_0), m1, m2); } None => {} } }
    }
    fn deep_clone(&self, cloner: &mut AnyCloner) -> (r: Result<Self>) { option_deep_clone(self, cloner) }
}
//@@ box_deep_clone
impl<T: DeepClone> DeepClone for Box<T> {
    open spec fn is_clone(&self, c: &Self, m: Memo) -> bool { (**self).is_clone(&**c, m) }
    proof fn lemma_mono(&self, c: &Self, m1: Memo, m2: Memo) { (**self).lemma_mono(&**c, m1, m2); }
    fn deep_clone(&self, cloner: &mut AnyCloner) -> (r: Result<Self>) { box_deep_clone(self, cloner) }
}
//@@ pair_deep_clone
impl<A: DeepClone, B: DeepClone> DeepClone for (A, B) {
    open spec fn is_clone(&self, c: &Self, m: Memo) -> bool { self.0.is_clone(&c.0, m) && self.1.is_clone(&c.1, m) }
    proof fn lemma_mono(&self, c: &Self, m1: Memo, m2: Memo) { self.0.lemma_mono(&c.0, m1, m2); self.1.lemma_mono(&c.1, m1, m2); }
    fn deep_clone(&self, cloner: &mut AnyCloner) -> (r: Result<Self>) { pair_deep_clone(self, cloner) }
}
// HashMap<Name, V>: same keys, every value cloned
pub open spec fn hashmap_clone<V: DeepClone>(a: Map<Name, V>, b: Map<Name, V>, m: Memo) -> bool {
    &&& forall|k: Name| #![trigger a.dom().contains(k)] #![trigger b.dom().contains(k)] a.dom().contains(k) <==> b.dom().contains(k)
    &&& forall|k: Name| #![trigger a.dom().contains(k)] a.dom().contains(k) ==> a[k].is_clone(&b[k], m)
}
//@@ hashmap_deep_clone
impl<V: DeepClone> DeepClone for HashMap<Name, V> {
    open spec fn is_clone(&self, c: &Self, m: Memo) -> bool { hashmap_clone(self@, c@, m) }
    proof fn lemma_mono(&self, c: &Self, m1: Memo, m2: Memo) {
        if self.is_clone(c, m1) && submap(m1, m2) {
            assert forall|k: Name| #![trigger self@.dom().contains(k)] self@.dom().contains(k) implies self@[k].is_clone(&c@[k], m2) by { self@[k].lemma_mono(&c@[k], m1, m2); }
        }
    }
    fn deep_clone(&self, cloner: &mut AnyCloner) -> (r: Result<Self>) { hashmap_deep_clone(self, cloner) }
}

// ---- Primitive, Dictionary, PdfStream
impl Primitive {
//@@ Primitive::resolve
//@@ Primitive::deep_clone
}
impl Dictionary {
//@@ Dictionary::deep_clone
}
// R7: `file_range.clone()` (Range<usize>: Clone), `data.clone()` (Arc<[u8]>: the same buffer)
#[verifier::external_body]
fn hoist_range_clone(r: &Range<usize>) -> (c: Range<usize>) ensures c == *r { r.clone() }
#[verifier::external_body]
fn hoist_arc_clone(a: &Arc<[u8]>) -> (c: Arc<[u8]>) ensures c == *a { a.clone() }
impl PdfStream {
//@@ PdfStream::deep_clone
}
impl DeepClone for Primitive {
    open spec fn is_clone(&self, c: &Self, m: Memo) -> bool { prim_clone(*self, *c, m) }
    proof fn lemma_mono(&self, c: &Self, m1: Memo, m2: Memo) { lemma_prim_mono(*self, *c, m1, m2); }
    fn deep_clone(&self, cloner: &mut AnyCloner) -> (r: Result<Self>) { Primitive::deep_clone(self, cloner) }
}
impl DeepClone for Dictionary {
    open spec fn is_clone(&self, c: &Self, m: Memo) -> bool { dict_clone(*self, *c, m) }
    proof fn lemma_mono(&self, c: &Self, m1: Memo, m2: Memo) { lemma_dict_mono(*self, *c, m1, m2); }
    fn deep_clone(&self, cloner: &mut AnyCloner) -> (r: Result<Self>) { Dictionary::deep_clone(self, cloner) }
}
impl DeepClone for PdfStream {
    open spec fn is_clone(&self, c: &Self, m: Memo) -> bool { stream_clone(*self, *c, m) }
    proof fn lemma_mono(&self, c: &Self, m1: Memo, m2: Memo) { lemma_dict_mono(self.info, c.info, m1, m2); }
    fn deep_clone(&self, cloner: &mut AnyCloner) -> (r: Result<Self>) { PdfStream::deep_clone(self, cloner) }
}

// ---- values without references: `deep_clone_simple!` (macro expansion): the clone IS the value
//@@ i32_deep_clone
//@@ name_deep_clone
impl DeepClone for i32 {
    open spec fn is_clone(&self, c: &Self, m: Memo) -> bool { *c == *self }
    proof fn lemma_mono(&self, c: &Self, m1: Memo, m2: Memo) {}
    fn deep_clone(&self, cloner: &mut AnyCloner) -> (r: Result<Self>) { i32_deep_clone(self, cloner) }
}
impl DeepClone for Name {
    open spec fn is_clone(&self, c: &Self, m: Memo) -> bool { *c == *self }
    proof fn lemma_mono(&self, c: &Self, m1: Memo, m2: Memo) {}
    fn deep_clone(&self, cloner: &mut AnyCloner) -> (r: Result<Self>) { name_deep_clone(self, cloner) }
}


// ====================================================================================================================
// WORLD C: derived DeepClone (pdf_derive output, `file: expanded:pdf`) and Stream<I>
// ====================================================================================================================
// Element types nothing here looks inside: OPAQUE, each assumed to satisfy the DeepClone contract (hypothesis on the
// abstract element type, as `T` in the generic impls above): `abs_is_clone` = its substitution relation.
pub uninterp spec fn abs_is_clone<T>(a: T, b: T, m: Memo) -> bool;
#[verifier::external_body]
pub proof fn hyp_abs_mono<T>(a: T, b: T, m1: Memo, m2: Memo)
    ensures abs_is_clone(a, b, m1) && submap(m1, m2) ==> abs_is_clone(a, b, m2)
{}
pub struct GraphicsStateParameters { opaque: u8 }
impl DeepClone for GraphicsStateParameters {
    open spec fn is_clone(&self, c: &Self, m: Memo) -> bool { abs_is_clone(*self, *c, m) }
    proof fn lemma_mono(&self, c: &Self, m1: Memo, m2: Memo) { hyp_abs_mono(*self, *c, m1, m2); }
    #[verifier::external_body]
    fn deep_clone(&self, cloner: &mut AnyCloner) -> (r: Result<Self>) { unimplemented!() }
}
pub struct ColorSpace { opaque: u8 }
impl DeepClone for ColorSpace {
    open spec fn is_clone(&self, c: &Self, m: Memo) -> bool { abs_is_clone(*self, *c, m) }
    proof fn lemma_mono(&self, c: &Self, m1: Memo, m2: Memo) { hyp_abs_mono(*self, *c, m1, m2); }
    #[verifier::external_body]
    fn deep_clone(&self, cloner: &mut AnyCloner) -> (r: Result<Self>) { unimplemented!() }
}
pub struct Pattern { opaque: u8 }
impl DeepClone for Pattern {
    open spec fn is_clone(&self, c: &Self, m: Memo) -> bool { abs_is_clone(*self, *c, m) }
    proof fn lemma_mono(&self, c: &Self, m1: Memo, m2: Memo) { hyp_abs_mono(*self, *c, m1, m2); }
    #[verifier::external_body]
    fn deep_clone(&self, cloner: &mut AnyCloner) -> (r: Result<Self>) { unimplemented!() }
}
pub struct Font { opaque: u8 }
impl DeepClone for Font {
    open spec fn is_clone(&self, c: &Self, m: Memo) -> bool { abs_is_clone(*self, *c, m) }
    proof fn lemma_mono(&self, c: &Self, m1: Memo, m2: Memo) { hyp_abs_mono(*self, *c, m1, m2); }
    #[verifier::external_body]
    fn deep_clone(&self, cloner: &mut AnyCloner) -> (r: Result<Self>) { unimplemented!() }
}
pub struct StreamFilter { opaque: u8 }
impl DeepClone for StreamFilter {
    open spec fn is_clone(&self, c: &Self, m: Memo) -> bool { abs_is_clone(*self, *c, m) }
    proof fn lemma_mono(&self, c: &Self, m1: Memo, m2: Memo) { hyp_abs_mono(*self, *c, m1, m2); }
    #[verifier::external_body]
    fn deep_clone(&self, cloner: &mut AnyCloner) -> (r: Result<Self>) { unimplemented!() }
}
pub struct FileSpec { opaque: u8 }
impl DeepClone for FileSpec {
    open spec fn is_clone(&self, c: &Self, m: Memo) -> bool { abs_is_clone(*self, *c, m) }
    proof fn lemma_mono(&self, c: &Self, m1: Memo, m2: Memo) { hyp_abs_mono(*self, *c, m1, m2); }
    #[verifier::external_body]
    fn deep_clone(&self, cloner: &mut AnyCloner) -> (r: Result<Self>) { unimplemented!() }
}
pub struct PostScriptDict { opaque: u8 }
impl DeepClone for PostScriptDict {
    open spec fn is_clone(&self, c: &Self, m: Memo) -> bool { abs_is_clone(*self, *c, m) }
    proof fn lemma_mono(&self, c: &Self, m1: Memo, m2: Memo) { hyp_abs_mono(*self, *c, m1, m2); }
    #[verifier::external_body]
    fn deep_clone(&self, cloner: &mut AnyCloner) -> (r: Result<Self>) { unimplemented!() }
}
pub struct ImageXObject { opaque: u8 }
impl DeepClone for ImageXObject {
    open spec fn is_clone(&self, c: &Self, m: Memo) -> bool { abs_is_clone(*self, *c, m) }
    proof fn lemma_mono(&self, c: &Self, m1: Memo, m2: Memo) { hyp_abs_mono(*self, *c, m1, m2); }
    #[verifier::external_body]
    fn deep_clone(&self, cloner: &mut AnyCloner) -> (r: Result<Self>) { unimplemented!() }
}
pub struct FormXObject { opaque: u8 }
impl DeepClone for FormXObject {
    open spec fn is_clone(&self, c: &Self, m: Memo) -> bool { abs_is_clone(*self, *c, m) }
    proof fn lemma_mono(&self, c: &Self, m1: Memo, m2: Memo) { hyp_abs_mono(*self, *c, m1, m2); }
    #[verifier::external_body]
    fn deep_clone(&self, cloner: &mut AnyCloner) -> (r: Result<Self>) { unimplemented!() }
}
pub struct AppearanceStreamEntry { opaque: u8 }
impl DeepClone for AppearanceStreamEntry {
    open spec fn is_clone(&self, c: &Self, m: Memo) -> bool { abs_is_clone(*self, *c, m) }
    proof fn lemma_mono(&self, c: &Self, m1: Memo, m2: Memo) { hyp_abs_mono(*self, *c, m1, m2); }
    #[verifier::external_body]
    fn deep_clone(&self, cloner: &mut AnyCloner) -> (r: Result<Self>) { unimplemented!() }
}

pub type PostScriptXObject = Stream<PostScriptDict>;

//@@ struct StreamInfo
//@@ enum StreamData
//@@ struct Stream
//@@ struct Resources
//@@ enum XObject
//@@ struct AppearanceStreams

// "field-wise deep_clone, nothing dropped": the clone of a struct is the struct of the clones of ALL its fields (field
// lists written from the declarations in object/stream.rs:205, object/types.rs:372, :1038); of an enum, the same variant
pub open spec fn streaminfo_clone<I: DeepClone>(v: StreamInfo<I>, c: StreamInfo<I>, m: Memo) -> bool {
    v.filters.is_clone(&c.filters, m) && v.file.is_clone(&c.file, m) && v.file_filters.is_clone(&c.file_filters, m) && v.info.is_clone(&c.info, m)
}
pub open spec fn resources_clone(v: Resources, c: Resources, m: Memo) -> bool {
    v.graphics_states.is_clone(&c.graphics_states, m) && v.color_spaces.is_clone(&c.color_spaces, m) && v.pattern.is_clone(&c.pattern, m)
    && v.xobjects.is_clone(&c.xobjects, m) && v.fonts.is_clone(&c.fonts, m) && v.properties.is_clone(&c.properties, m)
}
pub open spec fn appearance_clone(v: AppearanceStreams, c: AppearanceStreams, m: Memo) -> bool {
    v.normal.is_clone(&c.normal, m) && v.rollover.is_clone(&c.rollover, m) && v.down.is_clone(&c.down, m)
}
pub open spec fn xobject_clone(v: XObject, c: XObject, m: Memo) -> bool {
    match v {
        XObject::Postscript(a) => c matches XObject::Postscript(b) && a.is_clone(&b, m),
        XObject::Image(a) => c matches XObject::Image(b) && a.is_clone(&b, m),
        XObject::Form(a) => c matches XObject::Form(b) && a.is_clone(&b, m),
    }
}
// Stream<I>: the typed stream -- info cloned, bytes from the SOURCE file (source id, source range) held in memory
pub open spec fn typed_stream_clone<I: DeepClone>(v: Stream<I>, c: Stream<I>, m: Memo) -> bool {
    streaminfo_clone(v.info, c.info, m) && match v.inner_data {
        StreamData::Generated(d) => c.inner_data == StreamData::Generated(d),
        StreamData::Original(range, id) => c.inner_data matches StreamData::Generated(d) && src_stream(id, range) == Ok::<Arc<[u8]>, PdfError>(d),
    }
}
impl<I: DeepClone> StreamInfo<I> {
//@@ StreamInfo::deep_clone
}
impl<I: DeepClone> DeepClone for StreamInfo<I> {
    open spec fn is_clone(&self, c: &Self, m: Memo) -> bool { streaminfo_clone(*self, *c, m) }
    proof fn lemma_mono(&self, c: &Self, m1: Memo, m2: Memo) {
        self.filters.lemma_mono(&c.filters, m1, m2); self.file.lemma_mono(&c.file, m1, m2); self.file_filters.lemma_mono(&c.file_filters, m1, m2); self.info.lemma_mono(&c.info, m1, m2);
        if self.is_clone(c, m1) && submap(m1, m2) {
            assert(streaminfo_clone(*self, *c, m1));
            assert(self.filters.is_clone(&c.filters, m2));
            assert(self.file.is_clone(&c.file, m2));
            assert(self.file_filters.is_clone(&c.file_filters, m2));
            assert(self.info.is_clone(&c.info, m2));
        }
    }
    fn deep_clone(&self, cloner: &mut AnyCloner) -> (r: Result<Self>) { StreamInfo::deep_clone(self, cloner) }
}
impl<I: DeepClone> Stream<I> {
//@@ Stream::deep_clone
}
impl<I: DeepClone> DeepClone for Stream<I> {
    open spec fn is_clone(&self, c: &Self, m: Memo) -> bool { typed_stream_clone(*self, *c, m) }
    proof fn lemma_mono(&self, c: &Self, m1: Memo, m2: Memo) { self.info.lemma_mono(&c.info, m1, m2); }
    fn deep_clone(&self, cloner: &mut AnyCloner) -> (r: Result<Self>) { Stream::deep_clone(self, cloner) }
}
impl XObject {
//@@ XObject::deep_clone
}
impl DeepClone for XObject {
    open spec fn is_clone(&self, c: &Self, m: Memo) -> bool { xobject_clone(*self, *c, m) }
    proof fn lemma_mono(&self, c: &Self, m1: Memo, m2: Memo) {
        if self.is_clone(c, m1) && submap(m1, m2) {
            match *self {
                XObject::Postscript(a) => { a.lemma_mono(&(c->Postscript_0), m1, m2); }
                XObject::Image(a) => { a.lemma_mono(&(c->Image_0), m1, m2); }
                XObject::Form(a) => { a.lemma_mono(&(c->Form_0), m1, m2); }
            }
        }
    }
    fn deep_clone(&self, cloner: &mut AnyCloner) -> (r: Result<Self>) { XObject::deep_clone(self, cloner) }
}
impl Resources {
//@@ Resources::deep_clone
}
impl AppearanceStreams {
//@@ AppearanceStreams::deep_clone
}

// ====================================================================================================================
// WORLD D: resource pruning (content.rs: deep_clone_op) -- "for every resource name those operations use, a resource ..."
// ====================================================================================================================
// payload types of the operations: opaque
pub struct Point { opaque: u8 }
pub struct ViewRect { opaque: u8 }
pub struct Winding { opaque: u8 }
pub struct Matrix { opaque: u8 }
pub struct LineJoin { opaque: u8 }
pub struct LineCap { opaque: u8 }
pub struct RenderingIntent { opaque: u8 }
pub struct TextMode { opaque: u8 }
pub struct TextDrawAdjusted { opaque: u8 }
pub struct Rgb { opaque: u8 }
pub struct Cmyk { opaque: u8 }
//@@ enum Color
//@@ enum Op
impl Clone for Op {
    // TRUSTED: #[derive(Clone)] on Op
    #[verifier::external_body]
    fn clone(&self) -> (r: Op) ensures r == *self { unimplemented!() }
}
impl Clone for Color {
    // TRUSTED: #[derive(Clone)] on Color
    #[verifier::external_body]
    fn clone(&self) -> (r: Color) ensures r == *self { unimplemented!() }
}
// R7: `args.last()` (slice::last)
#[verifier::external_body]
fn hoist_last(v: &Vec<Primitive>) -> (r: Option<&Primitive>)
    ensures match r { Some(p) => v@.len() > 0 && *p == v@[v@.len() - 1], None => v@.len() == 0 }
{ v.last() }

// ---- which resource an operation names.  Written from ISO 32000-1: Table 57 `gs` (dictName: /ExtGState), Table 105 `Tf`
// (font: /Font), Table 87 `Do` (name: /XObject), Table 74 `CS`/`cs` (name: /ColorSpace unless a device family or Pattern)
// and `SCN`/`scn` (last operand a name: /Pattern), Table 320 `DP`/`BDC` (properties a name: /Properties), Table 77 `sh`
// (name: /Shading).
pub enum Cat { ExtGState, ColorSpace, Pattern, XObject, Font, Properties, Shading }
pub open spec fn color_pattern_name(c: Color) -> Option<Name> {
    match c {
        Color::Other(args) => if args@.len() > 0 && args@[args@.len() - 1] is Name { Some(Name(args@[args@.len() - 1]->Name_0)) } else { None },
        _ => None,
    }
}
pub open spec fn props_name(p: Option<Primitive>) -> Option<Name> {
    match p { Some(Primitive::Name(s)) => Some(Name(s)), _ => None }
}
pub open spec fn uses(op: Op) -> Option<(Cat, Name)> {
    match op {
        Op::GraphicsState { name } => Some((Cat::ExtGState, name)),
        Op::TextFont { name, size } => Some((Cat::Font, name)),
        Op::XObject { name } => Some((Cat::XObject, name)),
        Op::FillColorSpace { name } => Some((Cat::ColorSpace, name)),
        Op::StrokeColorSpace { name } => Some((Cat::ColorSpace, name)),
        Op::FillColor { color } => match color_pattern_name(color) { Some(n) => Some((Cat::Pattern, n)), None => None },
        Op::StrokeColor { color } => match color_pattern_name(color) { Some(n) => Some((Cat::Pattern, n)), None => None },
        Op::BeginMarkedContent { tag, properties } => match props_name(properties) { Some(n) => Some((Cat::Properties, n)), None => None },
        Op::MarkedContentPoint { tag, properties } => match props_name(properties) { Some(n) => Some((Cat::Properties, n)), None => None },
        Op::Shade { name } => Some((Cat::Shading, name)),
        _ => None,
    }
}
// the entry `name` of category `cat` of `src` is in `dst`, as a clone under `m` (a name the source does not define --
// a device colour space, an undefined name -- needs nothing)
pub open spec fn entry_kept(cat: Cat, name: Name, src: Resources, dst: Resources, m: Memo) -> bool {
    match cat {
        Cat::ExtGState => src.graphics_states@.dom().contains(name) ==> dst.graphics_states@.dom().contains(name) && src.graphics_states@[name].is_clone(&dst.graphics_states@[name], m),
        Cat::ColorSpace => src.color_spaces@.dom().contains(name) ==> dst.color_spaces@.dom().contains(name) && src.color_spaces@[name].is_clone(&dst.color_spaces@[name], m),
        Cat::Pattern => src.pattern@.dom().contains(name) ==> dst.pattern@.dom().contains(name) && src.pattern@[name].is_clone(&dst.pattern@[name], m),
        Cat::XObject => src.xobjects@.dom().contains(name) ==> dst.xobjects@.dom().contains(name) && src.xobjects@[name].is_clone(&dst.xobjects@[name], m),
        Cat::Font => src.fonts@.dom().contains(name) ==> dst.fonts@.dom().contains(name) && src.fonts@[name].is_clone(&dst.fonts@[name], m),
        Cat::Properties => src.properties@.dom().contains(name) ==> dst.properties@.dom().contains(name) && src.properties@[name].is_clone(&dst.properties@[name], m),
        // `Resources` has no /Shading entry (object/types.rs:382 "// shading: Option<Shading>"): nothing to keep, nothing kept
        Cat::Shading => DEV_SHADING_RESOURCES_NOT_MODELLED(),
    }
}
// what was collected before is kept as it is (the resources of a page are collected over ALL its operations)
pub open spec fn map_kept<V>(a: Map<Name, V>, b: Map<Name, V>) -> bool {
    forall|k: Name| #![trigger a.dom().contains(k)] a.dom().contains(k) ==> b.dom().contains(k) && b[k] == a[k]
}
pub open spec fn resources_kept(a: Resources, b: Resources) -> bool {
    map_kept(a.graphics_states@, b.graphics_states@) && map_kept(a.color_spaces@, b.color_spaces@) && map_kept(a.pattern@, b.pattern@)
    && map_kept(a.xobjects@, b.xobjects@) && map_kept(a.fonts@, b.fonts@) && map_kept(a.properties@, b.properties@)
}
// every entry collected so far is a clone of the source's entry of the same name (so that "kept as it is" + monotone
// memo carries `entry_kept` of earlier operations to the end of the page)
pub open spec fn pruned_of(src: Resources, dst: Resources, m: Memo) -> bool {
    &&& forall|k: Name| #![trigger dst.graphics_states@.dom().contains(k)] dst.graphics_states@.dom().contains(k) ==> src.graphics_states@.dom().contains(k) && src.graphics_states@[k].is_clone(&dst.graphics_states@[k], m)
    &&& forall|k: Name| #![trigger dst.color_spaces@.dom().contains(k)] dst.color_spaces@.dom().contains(k) ==> src.color_spaces@.dom().contains(k) && src.color_spaces@[k].is_clone(&dst.color_spaces@[k], m)
    &&& forall|k: Name| #![trigger dst.pattern@.dom().contains(k)] dst.pattern@.dom().contains(k) ==> src.pattern@.dom().contains(k) && src.pattern@[k].is_clone(&dst.pattern@[k], m)
    &&& forall|k: Name| #![trigger dst.xobjects@.dom().contains(k)] dst.xobjects@.dom().contains(k) ==> src.xobjects@.dom().contains(k) && src.xobjects@[k].is_clone(&dst.xobjects@[k], m)
    &&& forall|k: Name| #![trigger dst.fonts@.dom().contains(k)] dst.fonts@.dom().contains(k) ==> src.fonts@.dom().contains(k) && src.fonts@[k].is_clone(&dst.fonts@[k], m)
    &&& forall|k: Name| #![trigger dst.properties@.dom().contains(k)] dst.properties@.dom().contains(k) ==> src.properties@.dom().contains(k) && src.properties@[k].is_clone(&dst.properties@[k], m)
}
pub proof fn lemma_pruned_mono(src: Resources, dst: Resources, m1: Memo, m2: Memo)
    ensures pruned_of(src, dst, m1) && submap(m1, m2) ==> pruned_of(src, dst, m2)
{
    if pruned_of(src, dst, m1) && submap(m1, m2) {
        assert forall|k: Name| #![trigger dst.graphics_states@.dom().contains(k)] dst.graphics_states@.dom().contains(k) implies src.graphics_states@[k].is_clone(&dst.graphics_states@[k], m2) by { src.graphics_states@[k].lemma_mono(&dst.graphics_states@[k], m1, m2); }
        assert forall|k: Name| #![trigger dst.color_spaces@.dom().contains(k)] dst.color_spaces@.dom().contains(k) implies src.color_spaces@[k].is_clone(&dst.color_spaces@[k], m2) by { src.color_spaces@[k].lemma_mono(&dst.color_spaces@[k], m1, m2); }
        assert forall|k: Name| #![trigger dst.pattern@.dom().contains(k)] dst.pattern@.dom().contains(k) implies src.pattern@[k].is_clone(&dst.pattern@[k], m2) by { src.pattern@[k].lemma_mono(&dst.pattern@[k], m1, m2); }
        assert forall|k: Name| #![trigger dst.xobjects@.dom().contains(k)] dst.xobjects@.dom().contains(k) implies src.xobjects@[k].is_clone(&dst.xobjects@[k], m2) by { src.xobjects@[k].lemma_mono(&dst.xobjects@[k], m1, m2); }
        assert forall|k: Name| #![trigger dst.fonts@.dom().contains(k)] dst.fonts@.dom().contains(k) implies src.fonts@[k].is_clone(&dst.fonts@[k], m2) by { src.fonts@[k].lemma_mono(&dst.fonts@[k], m1, m2); }
        assert forall|k: Name| #![trigger dst.properties@.dom().contains(k)] dst.properties@.dom().contains(k) implies src.properties@[k].is_clone(&dst.properties@[k], m2) by { src.properties@[k].lemma_mono(&dst.properties@[k], m1, m2); }
    }
}
// the operation itself: the same operation; the inline property list of a marked-content operator is cloned
pub open spec fn op_clone(op: Op, c: Op, m: Memo) -> bool {
    match op {
        Op::BeginMarkedContent { tag, properties } => c matches Op::BeginMarkedContent { tag: t2, properties: p2 } && t2 == tag && properties.is_clone(&p2, m),
        Op::MarkedContentPoint { tag, properties } => c matches Op::MarkedContentPoint { tag: t2, properties: p2 } && t2 == tag && properties.is_clone(&p2, m),
        _ => c == op,
    }
}
//@@ clone_named_color_space
//@@ clone_named_pattern
//@@ clone_named_properties
//@@ deep_clone_op

// ---- PageBuilder::clone_page (build.rs:57): "a page with the same boxes and rotation, the same operation sequence, and,
// for every resource name those operations use, a resource ..."
pub struct PagesRc { opaque: u8 }
pub struct Content { opaque: u8 }
pub struct Annot { opaque: u8 }
//@@ struct Rectangle
//@@ struct Page
//@@ struct PageBuilder
impl<T> MaybeRef<T> {
//@@ MaybeRef::data
}
pub open spec fn maybe_data<T>(m: MaybeRef<T>) -> Shared<T> {
    match m { MaybeRef::Direct(t) => t, MaybeRef::Indirect(r) => r.data }
}
// the operation sequence a content stream denotes (C08: units/ops; abstract here, as in units/build)
pub uninterp spec fn content_ops(c: Content) -> Seq<Op>;
// the EFFECTIVE (own or inherited, ISO 32000-1 7.7.3.4) attributes of a page.
// proved in units/pagetree: Page::media_box/media_box_effective, Page::crop_box/crop_box_effective,
// Page::resources/resources_effective -- `eff_*` stand for `effective(own entry, parent chain, selector)` of that unit
// (the crop box falls back to the effective media box)
pub uninterp spec fn eff_media_box(p: Page) -> Option<Rectangle>;
pub uninterp spec fn eff_crop_box(p: Page) -> Option<Rectangle>;
pub uninterp spec fn eff_resources(p: Page) -> Option<MaybeRef<Resources>>;
impl Page {
    #[verifier::external_body]
    pub fn media_box(&self) -> (r: Result<Rectangle>)
        ensures match eff_media_box(*self) { Some(b) => r == Ok::<Rectangle, PdfError>(b), None => r is Err }
    { unimplemented!() }
    #[verifier::external_body]
    pub fn crop_box(&self) -> (r: Result<Rectangle>)
        ensures match eff_crop_box(*self) { Some(b) => r == Ok::<Rectangle, PdfError>(b), None => r is Err }
    { unimplemented!() }
    #[verifier::external_body]
    pub fn resources(&self) -> (r: Result<&MaybeRef<Resources>>)
        ensures match eff_resources(*self) { Some(x) => r matches Ok(y) && *y == x, None => r is Err }
    { unimplemented!() }
}
impl Resources {
    // TRUSTED: #[derive(Default)] on Resources: six empty maps
    #[verifier::external_body]
    pub fn default() -> (r: Resources)
        ensures r.graphics_states@ == Map::<Name, GraphicsStateParameters>::empty(), r.color_spaces@ == Map::<Name, ColorSpace>::empty(),
            r.pattern@ == Map::<Name, Ref<Pattern>>::empty(), r.xobjects@ == Map::<Name, Ref<XObject>>::empty(),
            r.fonts@ == Map::<Name, Lazy<Font>>::empty(), r.properties@ == Map::<Name, MaybeRef<Dictionary>>::empty()
    { unimplemented!() }
}
// R7: `page.contents.as_ref().map(|content| content.operations(cloner)).transpose()?` -- the operations of the page's
// content, read through the cloner's SOURCE resolver (the cloner is only read); None if the page has no content
#[verifier::external_body]
pub fn hoist_contents_ops(contents: &Option<Content>, cloner: &AnyCloner) -> (r: Result<Option<Vec<Op>>>)
    ensures match *contents { None => r matches Ok(None), Some(c) => r matches Ok(Some(v)) ==> v@ == content_ops(c) }, *contents is Some ==> !(r matches Ok(None))
{ unimplemented!() /* contents.as_ref().map(|content| content.operations(cloner)).transpose() */ }

// the operations of `b` are those of `a`, one for one and in order
pub open spec fn ops_clone(a: Seq<Op>, b: Seq<Op>, m: Memo, n: int) -> bool {
    forall|i: int| 0 <= i < n ==> op_clone(#[trigger] a[i], b[i], m)
}
// every resource the first n operations name is kept
pub open spec fn ops_resources_kept(a: Seq<Op>, src: Resources, dst: Resources, m: Memo, n: int) -> bool {
    forall|i: int| 0 <= i < n ==> (uses(#[trigger] a[i]) matches Some(u) ==> entry_kept(u.0, u.1, src, dst, m))
}
pub proof fn lemma_op_mono(a: Op, b: Op, m1: Memo, m2: Memo)
    ensures op_clone(a, b, m1) && submap(m1, m2) ==> op_clone(a, b, m2)
{
    if op_clone(a, b, m1) && submap(m1, m2) {
        match a {
            Op::BeginMarkedContent { tag, properties } => { properties.lemma_mono(&(b->BeginMarkedContent_properties), m1, m2); }
            Op::MarkedContentPoint { tag, properties } => { properties.lemma_mono(&(b->MarkedContentPoint_properties), m1, m2); }
            _ => {}
        }
    }
}
pub proof fn lemma_ops_mono(a: Seq<Op>, b: Seq<Op>, m1: Memo, m2: Memo, n: int)
    ensures ops_clone(a, b, m1, n) && submap(m1, m2) ==> ops_clone(a, b, m2, n)
{
    if ops_clone(a, b, m1, n) && submap(m1, m2) {
        assert forall|i: int| 0 <= i < n implies op_clone(#[trigger] a[i], b[i], m2) by { lemma_op_mono(a[i], b[i], m1, m2); }
    }
}
// a name that was present stays present when the collected entries are kept, and what is present is a clone under the
// memo `pruned_of` speaks about
pub proof fn lemma_entry_kept_step(cat: Cat, name: Name, src: Resources, d1: Resources, d2: Resources, m1: Memo, m2: Memo)
    ensures entry_kept(cat, name, src, d1, m1) && resources_kept(d1, d2) && pruned_of(src, d2, m2) ==> entry_kept(cat, name, src, d2, m2)
{
    if entry_kept(cat, name, src, d1, m1) && resources_kept(d1, d2) && pruned_of(src, d2, m2) {
        match cat {
            Cat::ExtGState => { if src.graphics_states@.dom().contains(name) { assert(d1.graphics_states@.dom().contains(name)); assert(d2.graphics_states@.dom().contains(name)); } }
            Cat::ColorSpace => { if src.color_spaces@.dom().contains(name) { assert(d1.color_spaces@.dom().contains(name)); assert(d2.color_spaces@.dom().contains(name)); } }
            Cat::Pattern => { if src.pattern@.dom().contains(name) { assert(d1.pattern@.dom().contains(name)); assert(d2.pattern@.dom().contains(name)); } }
            Cat::XObject => { if src.xobjects@.dom().contains(name) { assert(d1.xobjects@.dom().contains(name)); assert(d2.xobjects@.dom().contains(name)); } }
            Cat::Font => { if src.fonts@.dom().contains(name) { assert(d1.fonts@.dom().contains(name)); assert(d2.fonts@.dom().contains(name)); } }
            Cat::Properties => { if src.properties@.dom().contains(name) { assert(d1.properties@.dom().contains(name)); assert(d2.properties@.dom().contains(name)); } }
            Cat::Shading => {}
        }
    }
}
pub proof fn lemma_ops_resources_step(a: Seq<Op>, src: Resources, d1: Resources, d2: Resources, m1: Memo, m2: Memo, n: int)
    ensures ops_resources_kept(a, src, d1, m1, n) && resources_kept(d1, d2) && pruned_of(src, d2, m2) ==> ops_resources_kept(a, src, d2, m2, n)
{
    if ops_resources_kept(a, src, d1, m1, n) && resources_kept(d1, d2) && pruned_of(src, d2, m2) {
        assert forall|i: int| 0 <= i < n implies (uses(#[trigger] a[i]) matches Some(u) ==> entry_kept(u.0, u.1, src, d2, m2)) by {
            match uses(a[i]) { Some(u) => { lemma_entry_kept_step(u.0, u.1, src, d1, d2, m1, m2); } None => {} }
        }
    }
}
pub proof fn lemma_resources_kept_refl(d: Resources) ensures resources_kept(d, d) {}
// what C20 says of the builder made from a page (`b`), under the memo `m`
pub open spec fn page_cloned(p: Page, b: PageBuilder, m: Memo) -> bool {
    // "the same boxes and rotation": the page's EFFECTIVE boxes (the new page hangs under a new root and inherits nothing)
    &&& b.media_box == eff_media_box(p) && b.media_box is Some
    &&& b.crop_box == eff_crop_box(p) && b.crop_box is Some
    &&& b.trim_box == p.trim_box
    &&& b.rotate == p.rotate
    // "the same operation sequence": one for one, in order
    &&& match p.contents { None => b.ops@.len() == 0, Some(c) => b.ops@.len() == content_ops(c).len() && ops_clone(content_ops(c), b.ops@, m, b.ops@.len() as int) }
    // "for every resource name those operations use, a resource ...": of the page's EFFECTIVE resources; and nothing but them
    &&& eff_resources(p) matches Some(mr) && pruned_of(*maybe_data(mr), b.resources, m)
        && (p.contents matches Some(c) ==> ops_resources_kept(content_ops(c), *maybe_data(mr), b.resources, m, content_ops(c).len() as int))
    // the entries that hold references go through the cloner
    &&& p.metadata.is_clone(&b.metadata, m) && p.lgi.is_clone(&b.lgi, m) && p.vp.is_clone(&b.vp, m) && dict_clone(p.other, b.other, m)
}
impl PageBuilder {
//@@ PageBuilder::clone_page
}


// ====================================================================================================================
// WORLD B: the real Importer (`impl Cloner for Importer`, build.rs) over an abstract element type
// ====================================================================================================================
// type-erased shared value (pdf/src/any.rs: AnySync = Arc<dyn Any + Sync + Send>): abstract; `holds::<T>()` = the value if
// its type is T.  TRUSTED model of new / new_without_size / downcast / Clone.
#[verifier::external_body]
pub struct AnySync { _p: () }
impl AnySync {
    pub uninterp spec fn holds<T>(&self) -> Option<T>;
    #[verifier::external_body]
    pub fn new<T>(x: T) -> (r: AnySync) ensures r.holds::<T>() == Some(x) { unimplemented!() }
    #[verifier::external_body]
    pub fn new_without_size<T>(x: T) -> (r: AnySync) ensures r.holds::<T>() == Some(x) { unimplemented!() }
    #[verifier::external_body]
    pub fn downcast<T>(self) -> (r: Result<T>) ensures r matches Ok(v) ==> self.holds::<T>() == Some(v) { unimplemented!() }
}
impl Clone for AnySync {
    #[verifier::external_body]
    fn clone(&self) -> (r: AnySync) ensures r == *self { unimplemented!() }
}
// the source document's resolver (abstract): answers with THE source document (`src_*`), and a typed load keeps the
// reference it was asked for (proved for the crate's resolver in units/guard: StorageResolver::get/get_keeps_full_reference)
pub trait Resolve {
    fn resolve(&self, r: PlainRef) -> (res: Result<Primitive>) ensures res == src_obj(r);
    fn get<T>(&self, r: Ref<T>) -> (res: Result<RcRef<T>>)
        ensures res == src_typed::<T>(r.inner), res matches Ok(rc) ==> rc.inner == r.inner;
    fn stream_data(&self, id: PlainRef, range: Range<usize>) -> (res: Result<Arc<[u8]>>) ensures res == src_stream(id, range);
}
// the new document's updater (abstract), with ghost state: `handed()` = the references it has handed out (a created
// object or a promise), `promised_()` = those handed out as promises (the cross-reference entry of a promise stays
// `Promised` until `save`: file.rs:428-444), `at::<T>(r)` = the value last stored under r.
// proved in units/updater for `impl Updater for Storage`: create/{create_id, create_frame}, promise/{promise_id,
// promise_frame}, fulfill/{fulfill_same_ref, fulfill_value, fulfill_frame} (fulfill = update: file.rs:442), and its
// precondition "the entry is neither Free nor Invalid, else panic!" is implied by: the number was handed out by `promise`.
pub trait Updater: Sized {
    spec fn handed(&self) -> Set<PlainRef>;
    spec fn promised_(&self) -> Set<PlainRef>;
    spec fn at<T>(&self, r: PlainRef) -> Option<T>;
    fn create<T>(&mut self, obj: T) -> (r: Result<RcRef<T>>)
        ensures
            subset(old(self).handed(), final(self).handed()) && subset(old(self).promised_(), final(self).promised_()),
            r matches Ok(rc) ==> *rc.data == obj && !old(self).handed().contains(rc.inner) && final(self).handed().contains(rc.inner)
                && final(self).at::<T>(rc.inner) == Some(obj);
    fn promise<T>(&mut self) -> (r: PromisedRef<T>)
        ensures
            subset(old(self).handed(), final(self).handed()) && subset(old(self).promised_(), final(self).promised_()),
            !old(self).handed().contains(r.inner), final(self).handed().contains(r.inner), final(self).promised_().contains(r.inner);
    fn fulfill<T>(&mut self, promise: PromisedRef<T>, obj: T) -> (r: Result<RcRef<T>>)
        requires old(self).promised_().contains(promise.inner)
        ensures
            subset(old(self).handed(), final(self).handed()) && subset(old(self).promised_(), final(self).promised_()),
            r matches Ok(rc) ==> rc.inner == promise.inner && *rc.data == obj && final(self).at::<T>(rc.inner) == Some(obj);
    fn update<T>(&mut self, old_: PlainRef, obj: T) -> (r: Result<RcRef<T>>)
        requires old(self).promised_().contains(old_)
        ensures
            subset(old(self).handed(), final(self).handed()) && subset(old(self).promised_(), final(self).promised_()),
            r matches Ok(rc) ==> rc.inner == old_ && *rc.data == obj && final(self).at::<T>(rc.inner) == Some(obj);
}

//@@ struct Importer
impl<R, U: Updater> CState for Importer<R, U> {
    open spec fn memo(&self) -> Memo { self.map@ }
    open spec fn newdoc(&self) -> Set<PlainRef> { self.updater.handed() }
    open spec fn promised(&self) -> Set<PlainRef> { self.updater.promised_() }
}
// the SOURCE side of an importer never changes (`resolver` is only read)
pub open spec fn same_source<R, U>(o: Importer<R, U>, n: Importer<R, U>) -> bool { n.resolver == o.resolver }
// nothing happened: the state of a memo HIT
pub open spec fn untouched<R, U>(o: Importer<R, U>, n: Importer<R, U>) -> bool {
    n.resolver == o.resolver && n.map@ == o.map@ && n.updater == o.updater && n.rcrefs@ == o.rcrefs@ && n.shared@ == o.shared@
}

// The abstract element type of World B: the contract World A proves of every impl (same three labels), for the
// Importer as cloner.
pub trait DeepCloneB: Sized {
    spec fn is_clone(&self, c: &Self, m: Memo) -> bool;
    fn deep_clone<R: Resolve, U: Updater>(&self, cloner: &mut Importer<R, U>) -> (r: Result<Self>)
        requires wf(*old(cloner))
        ensures wf(*final(cloner)), grows(*old(cloner), *final(cloner)), same_source(*old(cloner), *final(cloner)),
            r matches Ok(c) ==> self.is_clone(&c, final(cloner).memo());
}
// World A: Primitive::deep_clone/{cloner_wf, memo_grows, clone_is_subst}
impl DeepCloneB for Primitive {
    open spec fn is_clone(&self, c: &Self, m: Memo) -> bool { prim_clone(*self, *c, m) }
    #[verifier::external_body]
    fn deep_clone<R: Resolve, U: Updater>(&self, cloner: &mut Importer<R, U>) -> (r: Result<Self>) { unimplemented!() }
}

// R7: `&**old as *const T as usize` -- the address of the shared value (the memo key of clone_shared).  Two live Arcs
// with the same address are the same Arc (`shared` keeps a clone of every old Arc it has seen alive: build.rs:402).
pub uninterp spec fn addr_of<T>(a: Shared<T>) -> usize;
#[verifier::external_body]
fn hoist_addr<T>(a: &Shared<T>) -> (r: usize) ensures r == addr_of(*a) { &**a as *const T as usize }
// R7: Shared::new / Arc::clone
#[verifier::external_body]
fn hoist_shared_new<T>(x: T) -> (r: Shared<T>) ensures *r == x { Shared::new(x) }
#[verifier::external_body]
fn hoist_shared_clone<T>(a: &Shared<T>) -> (r: Shared<T>) ensures r == *a { a.clone() }

impl<R, U> Importer<R, U> {
//@@ Importer::new
}
impl<R: Resolve, U: Updater> Importer<R, U> {
//@@ Importer::clone_ref
//@@ Importer::clone_plainref
//@@ Importer::clone_rcref
//@@ Importer::clone_shared
//@@ Importer::stream_data
//@@ Importer::resolve
}

}
fn main(){}
