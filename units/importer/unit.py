B = 'pdf/src/build.rs'
M = 'pdf/src/object/mod.rs'
P = 'pdf/src/primitive.rs'
S = 'pdf/src/object/stream.rs'
T = 'pdf/src/object/types.rs'
CT = 'pdf/src/content.rs'
FILE = 'pdf/src/file.rs'
X = 'expanded:pdf'
PR = ['C20']


def pub(*fields):
    return [{'rule': 'R2', 'regex': r'(?<!pub )\b%s:' % f, 'replace': 'pub %s:' % f} for f in fields]


# ---------------------------------------------------------------------------------------------------------------------
# World A: a DeepClone impl's method.  R2: the trait method is emitted as an inherent fn (local types) or a free fn
# (`this`, foreign types); `&mut impl Cloner` is the opaque env struct AnyCloner (unit.rs head comment).
WF_A = 'wf(*old(cloner))'


def ens_a(rel):
    return [('cloner_wf', 'wf(*final(cloner))'),
            ('memo_grows', 'grows(*old(cloner), *final(cloner))'),
            ('clone_is_subst', 'r matches Ok(c) ==> ' + rel)]


CLONER_SIG = {'where': 'sig', 'rule': 'R2', 'regex': r'&mut impl (pdf::object::)?Cloner', 'replace': '&mut AnyCloner'}


def inherent(file, container, rel, extra=(), **kw):
    d = {'kind': 'fn', 'file': file, 'container': container, 'name': 'deep_clone', 'props': PR,
         'requires': [WF_A], 'ensures': ens_a(rel),
         'rewrites': [CLONER_SIG, {'where': 'sig', 'rule': 'R2', 'regex': r'\Afn ', 'replace': 'pub fn '}] + list(extra)}
    d.update(kw)
    return d


def free(file, container, new, generics, ty, rel, extra=(), **kw):
    d = {'kind': 'fn', 'file': file, 'container': container, 'name': 'deep_clone', 'rename': new, 'verus_name': new, 'props': PR,
         'requires': [WF_A], 'ensures': ens_a(rel),
         'rewrites': [CLONER_SIG,
                      {'where': 'sig', 'rule': 'R2', 'regex': r'\bfn deep_clone\(&self', 'replace': 'fn deep_clone%s(this: &%s' % (generics, ty)},
                      {'where': 'sig', 'rule': 'R2', 'regex': r'Result<Self>', 'replace': 'Result<%s>' % ty},
                      {'rule': 'R2', 'regex': r'\bself\b', 'replace': 'this', 'count': '*'}] + list(extra)}
    d.update(kw)
    return d


# R6: `SRC.iter().map(|t| BODY).collect()` / `.into_iter()...try_collect()?` -> index loop pushing BODY (verbatim, by
# back-reference) for every element front to back; the closure captured `cloner` mutably (R8: inlined); the first `Err`
# ends the iteration and is the result (`?`), as `collect::<Result<_, _>>` / `try_collect` do.
def seq_loop(src_re, var, body_re, elem_ty, tail=''):
    return (r'{ let src_ = \g<src>; let mut out_: Vec<%s> = Vec::new(); let mut i_: usize = 0; '
            r'while i_ < src_.len() { let %s = &src_[i_]; let c_ = \g<body>?; out_.push(c_); i_ = i_ + 1; } out_ }%s' % (elem_ty, var, tail))


VEC_LOOP = {1: {'invariant': [
        'i_ <= src_@.len()', 'src_@ == this@', 'out_@.len() == i_',
        'wf(*cloner)', 'grows(*old(cloner), *cloner)',
        ('elements_cloned', 'forall|j: int| 0 <= j < i_ ==> (#[trigger] src_@[j]).is_clone(&out_@[j], cloner.memo())'),
    ], 'decreases': 'src_@.len() - i_'}}

UNIT = {
 'name': 'importer',
 'doc': 'page import mechanism: Importer memo invariant (copied once, references of the new document only), DeepClone '
        'impls as reference substitution, derived DeepClone field-wise, resource pruning keeps what the operations name',
 'timeout': 900,
 'rlimit': 30,
 'native': {'tests': [
    {'name': 'import_shared_resources_cycles_rotation', 'code': 'import_bounded.rs', 'place': 'pdf/tests/verif_import_bounded.rs',
     'fn': 'PageBuilder::clone_page', 'props': ['C20'], 'tier': 'quick', 'timeout': 900,
     'bound': 'ONE 13-object source document: pages A, B share one indirect font (indirect /Widths), one form XObject (whose resources name the same '
              'font) and one ExtGState (whose /Font names the same font); page C has /Rotate 90, own /MediaBox /CropBox /TrimBox, refers to itself through '
              '/PieceInfo and to an annotation whose /P points back at it (cycles through /Parent, /Annots, /P); x all 15 non-empty ordered selections of '
              'the three pages, each imported through ONE Importer, built (CatalogBuilder, PdfBuilder::build), saved and reloaded',
     'contract': 'per imported page: media/crop/trim box and rotation equal; operation sequence equal; every resource the operations name is isomorphic to '
                 'the source entry under ONE injective map old reference -> new reference for the whole document (same keys, lengths, stream bytes; the '
                 'same source object is the same new object wherever it is reached from; no source object has more than one copy, inline or indirect); '
                 '/PieceInfo likewise (the copy of the page names itself, the annotation points back at it, its parent lists it); every reference resolves '
                 'in the new document. ExtGState entries (held by value in Resources) are compared by content + inner references: see '
                 'findings/extgstate_copied_per_page.md'},
    # KNOWN FINDING (known_findings.txt: importer/PageBuilder::clone_page/import_shared_extgstate_identity; findings/extgstate_copied_per_page.md):
    # fails on /repo -- Resources holds ExtGState (and ColorSpace) entries by value, the shared indirect graphics state is written inline per page.
    # Its own test file, so that ONLY this identity check lives under that obligation id.
    {'name': 'import_shared_extgstate_identity', 'code': 'findings/extgstate_copied_per_page_repro.rs', 'place': 'pdf/tests/verif_extgstate_shared.rs',
     'fn': 'PageBuilder::clone_page', 'props': ['C20'], 'tier': 'quick', 'timeout': 900,
     'bound': 'one 13-object document, two pages sharing one indirect ExtGState (10 0 R), imported through ONE Importer, built, saved, reloaded',
     'contract': 'the shared graphics state is ONE indirect object of the new document, named by both pages (C20: shared source objects are copied once)'},
 ]},
 'items': {
  # ---------------------------------------------------------------- data types
  'struct PlainRef': {'kind': 'decl', 'file': M, 'header': r'^pub struct PlainRef$', 'attrs': ['#[derive(Clone, Copy)]']},
  'struct Name': {'kind': 'decl', 'file': P, 'header': r'^pub struct Name\('},
  'struct Dictionary': {'kind': 'decl', 'file': P, 'header': r'^pub struct Dictionary$', 'rewrites': pub('dict')},
  'enum StreamInner': {'kind': 'decl', 'file': P, 'header': r'^pub enum StreamInner$'},
  'struct PdfStream': {'kind': 'decl', 'file': P, 'header': r'^pub struct PdfStream$',
        'rewrites': [{'rule': 'R2', 'find': 'pub (crate) inner:', 'replace': 'pub inner:'}]},
  'enum Primitive': {'kind': 'decl', 'file': P, 'header': r'^pub enum Primitive$'},
  'struct Ref': {'kind': 'decl', 'file': M, 'header': r'^pub struct Ref<T>$', 'rewrites': pub('inner', '_marker')},
  'struct RcRef': {'kind': 'decl', 'file': M, 'header': r'^pub struct RcRef<T>$', 'rewrites': pub('inner', 'data')},
  'enum MaybeRef': {'kind': 'decl', 'file': M, 'header': r'^pub enum MaybeRef<T>$'},
  'struct Lazy': {'kind': 'decl', 'file': M, 'header': r'^pub struct Lazy<T>$', 'rewrites': pub('primitive', 'cache', '_marker')},
  'struct PromisedRef': {'kind': 'decl', 'file': FILE, 'header': r'^pub struct PromisedRef<T>$', 'rewrites': pub('inner', '_marker')},

  # ---------------------------------------------------------------- accessors (same text and contracts as units/readers, units/build)
  'Ref::new': {'kind': 'fn', 'file': M, 'container': r'^impl<T> Ref<T>$', 'name': 'new', 'props': PR,
      'ensures': [('new_inner', 'r.inner == inner')]},
  'Ref::get_inner': {'kind': 'fn', 'file': M, 'container': r'^impl<T> Ref<T>$', 'name': 'get_inner', 'props': PR,
      'ensures': [('get_inner_is_reference', 'r == self.inner')]},
  'RcRef::new': {'kind': 'fn', 'file': M, 'container': r'^impl<T> RcRef<T>$', 'name': 'new', 'props': PR,
      'ensures': [('new_keeps_both', 'r.inner == inner && r.data == data')]},
  'RcRef::get_ref': {'kind': 'fn', 'file': M, 'container': r'^impl<T> RcRef<T>$', 'name': 'get_ref', 'props': PR,
      'ensures': [('get_ref_keeps_reference', 'r.inner == self.inner')]},
  'RcRef::data': {'kind': 'fn', 'file': M, 'container': r'^impl<T> RcRef<T>$', 'name': 'data', 'props': PR,
      'ensures': [('data_is_data', '*r == self.data')]},
  'PromisedRef::get_inner': {'kind': 'fn', 'file': FILE, 'container': r'^impl<T> PromisedRef<T>$', 'name': 'get_inner', 'props': PR,
      'ensures': [('get_inner_is_inner', 'r == self.inner')]},

  # ---------------------------------------------------------------- World A: references
  'PlainRef::deep_clone': inherent(M, r'^impl DeepClone for PlainRef$', 'maps(final(cloner).memo(), *self, c)'),
  'Ref::deep_clone': inherent(M, r'^impl<T: DeepClone\+Object\+DataSize\+ObjectWrite> DeepClone for Ref<T>$',
      'maps(final(cloner).memo(), self.inner, c.inner)'),
  'RcRef::deep_clone': inherent(M, r'^impl<T: DeepClone \+ std::fmt::Debug \+ DataSize \+ Object \+ ObjectWrite> DeepClone for RcRef<T>$',
      'maps(final(cloner).memo(), self.inner, c.inner)'),
  'MaybeRef::deep_clone': inherent(M, r'^impl<T: DeepClone \+ std::fmt::Debug \+ DataSize \+ Object \+ ObjectWrite> DeepClone for MaybeRef<T>$',
      'maybe_clone(*self, c, final(cloner).memo())',
      extra=[{'rule': 'R7', 'regex': r'cloner\.clone_shared\(old\)\.map\(MaybeRef::Direct\)', 'replace': 'hoist_map_direct(cloner.clone_shared(old))'},
             {'rule': 'R7', 'regex': r'cloner\.clone_rcref\(old\)\.map\(MaybeRef::Indirect\)', 'replace': 'hoist_map_indirect(cloner.clone_rcref(old))'}]),
  # the real `Primitive::resolve` (primitive.rs): a reference is looked up in the SOURCE document, anything else is itself. Under contract so
  # that a DeepClone impl that resolves before cloning (bypassing the cloner's memo) is read, not skipped
  'Primitive::resolve': {'kind': 'fn', 'file': P, 'container': r'^impl Primitive$', 'name': 'resolve', 'props': PR, 'ret': 'res',
      'ensures': [('resolve_is_source_lookup', 'res == (match self { Primitive::Reference(id) => src_obj(id), _ => Ok::<Primitive, PdfError>(self) })')],
      'rewrites': [{'where': 'sig', 'rule': 'R2', 'regex': r'\bfn resolve\(', 'replace': 'fn resolve<R__: Resolve>('},
                   {'where': 'sig', 'rule': 'R2', 'regex': r'&impl Resolve', 'replace': '&R__'}]},
  'Lazy::deep_clone': inherent(M, r'^impl<T: Object> DeepClone for Lazy<T>$',
      'prim_clone(self.primitive, c.primitive, final(cloner).memo()) && c.cache.peek() is None'),

  # ---------------------------------------------------------------- World A: containers
  'vec_deep_clone': free(M, r'^impl<T: DeepClone> DeepClone for Vec<T>$', 'vec_deep_clone', '<T: DeepClone>', 'Vec<T>',
      'vec_clone(this@, c@, final(cloner).memo())',
      attrs=['#[verifier::loop_isolation(false)]'],
      extra=[{'rule': 'R6', 'regex': r'(?P<src>this)\.iter\(\)\.map\(\|t\| (?P<body>t\.deep_clone\(cloner\))\)\.collect\(\)',
              'replace': seq_loop('', 't', '', 'T').replace('let c_ = \\g<body>?;',
                         'let ghost m0_ = cloner.memo(); let c_ = \\g<body>?; proof { lemma_vec_mono(src_@, out_@, m0_, cloner.memo(), i_ as int); }')
                         .replace(' out_ }', ' Ok(out_) }')}],
      loops=VEC_LOOP),
  'option_deep_clone': free(M, r'^impl<T: DeepClone> DeepClone for Option<T>$', 'option_deep_clone', '<T: DeepClone>', 'Option<T>',
      'option_clone(*this, c, final(cloner).memo())',
      extra=[{'rule': 'R7', 'regex': r't\.deep_clone\(cloner\)\.map\(Some\)', 'replace': 'hoist_map_some(t.deep_clone(cloner))'}]),
  'box_deep_clone': free(M, r'^impl<T: DeepClone> DeepClone for Box<T>$', 'box_deep_clone', '<T: DeepClone>', 'Box<T>',
      '(**this).is_clone(&*c, final(cloner).memo())'),
  'pair_deep_clone': free(M, r'^impl<A: DeepClone, B: DeepClone> DeepClone for \(A, B\)$', 'pair_deep_clone', '<A: DeepClone, B: DeepClone>', '(A, B)',
      'this.0.is_clone(&c.0, final(cloner).memo()) && this.1.is_clone(&c.1, final(cloner).memo())',
      # R1: the two components are named so that a ghost step can sit between them (same evaluation order, text by back-reference)
      extra=[{'rule': 'R1', 'regex': r'Ok\(\((?P<a>this\.0\.deep_clone\(cloner\)\?), (?P<b>this\.1\.deep_clone\(cloner\)\?)\)\)',
              'replace': r'{ let a_ = \g<a>; let ghost m0_ = cloner.memo(); let b_ = \g<b>; '
                         r'proof { this.0.lemma_mono(&a_, m0_, cloner.memo()); } Ok((a_, b_)) }'}]),
  'hashmap_deep_clone': free(M, r'^impl<V: DeepClone> DeepClone for HashMap<Name, V>$', 'hashmap_deep_clone', '<V: DeepClone>', 'HashMap<Name, V>',
      'hashmap_clone(this@, c@, final(cloner).memo())',
      attrs=['#[verifier::loop_isolation(false)]'],
      # R6: `self.iter().map(|(k, v)| Ok((KEY, VALUE?))).collect()` -> loop over the entries (hoist_iter: some order, every key once)
      # inserting (KEY, VALUE) into a new map; `collect::<Result<HashMap, _>>` = insert in turn, first Err ends
      extra=[{'rule': 'R6', 'regex': r'this\.iter\(\)\.map\(\|\(k, v\)\| Ok\(\((?P<k>k\.clone\(\)), (?P<v>v\.deep_clone\(cloner\)\?)\)\)\)\.collect\(\)',
              'replace': r'{ let src_ = this.hoist_iter(); let mut out_: HashMap<Name, V> = HashMap::new(); let mut i_: usize = 0; '
                         r'while i_ < src_.len() { let k = src_[i_].0; let v = src_[i_].1; let ghost m0_ = cloner.memo(); let ghost o0_ = out_@; '
                         r'let k_ = \g<k>; let v_ = \g<v>; '
                         r'proof { assert forall|kk: Name| #![trigger o0_.dom().contains(kk)] o0_.dom().contains(kk) implies this@[kk].is_clone(&o0_[kk], cloner.memo()) by { this@[kk].lemma_mono(&o0_[kk], m0_, cloner.memo()); } } '
                         r'out_.insert(k_, v_); i_ = i_ + 1; } '
                         r'proof { assert forall|kk: Name| #![trigger this@.dom().contains(kk)] #![trigger out_@.dom().contains(kk)] this@.dom().contains(kk) <==> out_@.dom().contains(kk) by { '
                         r'if this@.dom().contains(kk) { let i = choose|i: int| 0 <= i < src_@.len() && *(#[trigger] src_@[i]).0 == kk; assert(*src_@[i].0 == kk); } } } Ok(out_) }'}],
      loops={1: {'invariant': [
          'i_ <= src_@.len()', 'wf(*cloner)', 'grows(*old(cloner), *cloner)',
          'forall|i: int| 0 <= i < src_@.len() ==> this@.dom().contains(*(#[trigger] src_@[i]).0) && this@[*src_@[i].0] == *src_@[i].1',
          'forall|i: int, j: int| 0 <= i < j < src_@.len() ==> *src_@[i].0 != *src_@[j].0',
          'forall|k: Name| this@.dom().contains(k) ==> exists|i: int| 0 <= i < src_@.len() && *(#[trigger] src_@[i]).0 == k',
          ('keys_so_far', 'forall|kk: Name| #![trigger out_@.dom().contains(kk)] out_@.dom().contains(kk) <==> exists|i: int| 0 <= i < i_ && *(#[trigger] src_@[i]).0 == kk'),
          ('values_cloned', 'forall|kk: Name| #![trigger out_@.dom().contains(kk)] out_@.dom().contains(kk) ==> this@.dom().contains(kk) && this@[kk].is_clone(&out_@[kk], cloner.memo())'),
      ], 'decreases': 'src_@.len() - i_'}}),

  # ---------------------------------------------------------------- World A: Primitive, Dictionary, PdfStream
  'Primitive::deep_clone': inherent(M, r'^impl DeepClone for Primitive$', 'prim_clone(*self, c, final(cloner).memo())',
      decreases='*self, 0nat', attrs=['#[verifier::loop_isolation(false)]'],
      extra=[{'rule': 'R6', 'regex': r'(?P<src>parts)\.into_iter\(\)\.map\(\|p\| (?P<body>p\.deep_clone\(cloner\))\)\.try_collect\(\)\?',
              'replace': r'{ let src_ = \g<src>; let mut out_: Vec<Primitive> = Vec::new(); let mut i_: usize = 0; '
                         r'while i_ < src_.len() { let p = &src_[i_]; let ghost m0_ = cloner.memo(); let ghost o0_ = out_@; let c_ = \g<body>?; out_.push(c_); i_ = i_ + 1; '
                         r'proof { lemma_list_mono(src_@, o0_, m0_, cloner.memo(), (i_ - 1) as nat); lemma_list_prefix(src_@, o0_, out_@, cloner.memo(), (i_ - 1) as nat); } } out_ }'}],
      loops={1: {'invariant': [
          'i_ <= src_@.len()', 'out_@.len() == i_', 'wf(*cloner)', 'grows(*old(cloner), *cloner)',
          '*self matches Primitive::Array(a_) && a_@ == src_@',
          ('elements_cloned', 'list_clone(src_@, out_@, cloner.memo(), i_ as nat)'),
      ], 'decreases': 'src_@.len() - i_'}}),
  'Dictionary::deep_clone': inherent(P, r'^impl DeepClone for Dictionary$', 'dict_clone(*self, c, final(cloner).memo())',
      decreases='*self, 0nat', attrs=['#[verifier::loop_isolation(false)]'],
      # R6: IndexMap iteration -> index loop over the entries in iteration order, the new map receives them in that order
      extra=[{'rule': 'R6', 'regex': r'self\.dict\.iter\(\)\s*\.map\(\|\(key, value\)\| Ok\(\((?P<k>[^,]*), (?P<v>.*?)\)\)\)\s*\.try_collect::<_, _, PdfError>\(\)\?',
              'replace': r'{ let mut out_: IndexMap<Name, Primitive> = IndexMap::new(); let mut i_: usize = 0; '
                         r'while i_ < self.dict.entries.len() { let key = &self.dict.entries[i_].0; let value = &self.dict.entries[i_].1; '
                         r'let ghost m0_ = cloner.memo(); let ghost o0_ = out_.entries@; let k_ = \g<k>; let v_ = \g<v>; out_.entries.push((k_, v_)); i_ = i_ + 1; '
                         r'proof { lemma_entries_mono(self.dict.entries@, o0_, m0_, cloner.memo(), (i_ - 1) as nat); '
                         r'lemma_entries_prefix(self.dict.entries@, o0_, out_.entries@, cloner.memo(), (i_ - 1) as nat); } } out_ }'}],
      loops={1: {'invariant': [
          'i_ <= self.dict.entries@.len()', 'out_.entries@.len() == i_', 'wf(*cloner)', 'grows(*old(cloner), *cloner)',
          ('entries_cloned', 'entries_clone(self.dict.entries@, out_.entries@, cloner.memo(), i_ as nat)'),
      ], 'decreases': 'self.dict.entries@.len() - i_'}}),
  'PdfStream::deep_clone': inherent(P, r'^impl DeepClone for PdfStream$', 'stream_clone(*self, c, final(cloner).memo())',
      decreases='*self, 1nat',
      # R7: `Clone` of a Range<usize> / of an Arc<[u8]> (same range; same buffer)
      extra=[{'rule': 'R7', 'find': 'file_range.clone()', 'replace': 'hoist_range_clone(file_range)'},
             {'rule': 'R7', 'find': 'data.clone()', 'replace': 'hoist_arc_clone(data)'}]),

  # ---------------------------------------------------------------- World A: deep_clone_simple! instances (macro expansion)
  'i32_deep_clone': free(X, [r'^pub mod object$', r'^impl DeepClone for i32$'], 'i32_deep_clone', '', 'i32', 'c == *this'),
  'name_deep_clone': free(X, [r'^pub mod object$', r'^impl DeepClone for Name$'], 'name_deep_clone', '', 'Name', 'c == *this'),
 },
}

# ---------------------------------------------------------------------------------------------------------------------
# World B: impl Cloner for Importer.  ONE description reads both shapes of the tree (before / after
# findings/memo_after_recursion_fix.diff): every shape-dependent rewrite is a regex with count '*'.
CL = r"^impl<'a, R: Resolve, U: Updater> Cloner for Importer<'a, R, U>$"
RB = [
    # R2: a parameter named `old` is renamed (Verus keyword)
    {'where': 'sig', 'rule': 'R2', 'regex': r'\bold:', 'replace': 'old_:'},
    {'rule': 'R2', 'regex': r'\bold\b', 'replace': 'old_', 'count': '*'},
    # R2: trait method emitted as an inherent fn; the element type's bounds reduce to the abstract contract DeepCloneB
    {'where': 'sig', 'rule': 'R2', 'regex': r'\Afn (\w+)<T: [^>]*>', 'replace': r'pub fn \1<T: DeepCloneB>', 'count': '*'},
    {'where': 'sig', 'rule': 'R2', 'regex': r'\Afn clone_plainref', 'replace': 'pub fn clone_plainref', 'count': '*'},
    # R5: reference pattern -> deref let
    {'rule': 'R5', 'regex': r'if let Some\(&new_ref\) = (.*?) \{', 'replace': r'if let Some(new_ref_) = \1 { let new_ref = *new_ref_;', 'count': '*'},
    # R1: the ghost accessors spelled out once (definitional tautologies: e-matching needs the terms)
    {'rule': 'R1', 'regex': r'\A\s*\{', 'replace': '{ proof { assert(self.memo() == self.map@); assert(self.newdoc() == self.updater.handed()); assert(self.promised() == self.updater.promised_()); }'},
    # R7: Arc::clone
    {'rule': 'R7', 'regex': r'new\.data\(\)\.clone\(\)', 'replace': 'hoist_shared_clone(new.data())', 'count': '*'},
]
HIT = 'old(self).memo().dom().contains(%s)'


def ens_b(key, extra):
    return [('cloner_wf', 'wf(*final(self))'),
            ('memo_grows', 'grows(*old(self), *final(self)) && same_source(*old(self), *final(self))'),
            ] + extra


WORLD_B = {
  'struct Importer': {'kind': 'decl', 'file': B, 'header': r"^pub struct Importer<'a, R, U>$",
      # R2/R8: the `&'a mut U` alias of the updater is held by value (Verus has no `&mut` fields); fields pub
      'rewrites': [{'rule': 'R2', 'find': "pub struct Importer<'a, R, U>", 'replace': 'pub struct Importer<R, U>'},
                   {'rule': 'R8', 'find': "updater: &'a mut U", 'replace': 'updater: U'}] + pub('resolver', 'map', 'updater', 'rcrefs', 'shared')},
  'Importer::new': {'kind': 'fn', 'file': B, 'container': r"^impl<'a, R, U> Importer<'a, R, U>$", 'name': 'new', 'props': PR,
      'ensures': [('starts_empty', 'r.map@ == Map::<PlainRef, PlainRef>::empty() && r.resolver == resolver && r.updater == updater'),
                  ('starts_wf', 'forall|k: PlainRef| !r.map@.dom().contains(k)')],
      'rewrites': [{'where': 'sig', 'rule': 'R8', 'find': "updater: &'a mut U", 'replace': 'updater: U'},
                   # R7: `Default::default()` of a HashMap = the empty map
                   {'rule': 'R7', 'find': 'Default::default()', 'replace': 'HashMap::new()', 'count': 3}]},
  'Importer::clone_ref': {'kind': 'fn', 'file': B, 'container': CL, 'name': 'clone_ref', 'props': PR,
      'requires': ['wf(*old(self))'],
      'ensures': ens_b('old_.inner', [
          ('returns_mapped', 'r matches Ok(n) ==> maps(final(self).memo(), old_.inner, n.inner)'),
          ('returned_ref_in_new_document', 'r matches Ok(n) ==> final(self).newdoc().contains(n.inner)'),
          ('hit_copies_nothing', (HIT % 'old_.inner') + ' ==> (r matches Ok(n) && n.inner == old(self).memo()[old_.inner]) && untouched(*old(self), *final(self))'),
          ('new_object_is_subst', 'r matches Ok(n) ==> (!' + (HIT % 'old_.inner') + ' ==> !old(self).newdoc().contains(n.inner) && '
              '(src_typed::<T>(old_.inner) matches Ok(rc) && (final(self).updater.at::<T>(n.inner) matches Some(c) && (*rc.data).is_clone(&c, final(self).memo()))))'),
      ]),
      'rewrites': RB + [
          # R2: auto-deref RcRef<T> -> T spelled out (RcRef<T> itself is not DeepClone here: no `Debug` bound, build.rs:356)
          {'rule': 'R2', 'find': 'obj.deep_clone(self)', 'replace': '(*obj.data).deep_clone(self)'}]},
  'Importer::clone_plainref': {'kind': 'fn', 'file': B, 'container': CL, 'name': 'clone_plainref', 'props': PR,
      'requires': ['wf(*old(self))'],
      'ensures': ens_b('old_', [
          ('returns_mapped', 'r matches Ok(n) ==> maps(final(self).memo(), old_, n)'),
          ('returned_ref_in_new_document', 'r matches Ok(n) ==> final(self).newdoc().contains(n)'),
          ('hit_copies_nothing', (HIT % 'old_') + ' ==> r == Ok::<PlainRef, PdfError>(old(self).memo()[old_]) && untouched(*old(self), *final(self))'),
          ('new_object_is_subst', 'r matches Ok(n) ==> (!' + (HIT % 'old_') + ' ==> !old(self).newdoc().contains(n) && '
              '(src_obj(old_) matches Ok(v) && (final(self).updater.at::<Primitive>(n) matches Some(c) && prim_clone(v, c, final(self).memo()))))'),
      ]),
      'rewrites': RB + [
          # R2: trait dispatch spelled out (the env Primitive also carries World A's inherent deep_clone)
          {'rule': 'R2', 'find': 'obj.deep_clone(self)', 'replace': 'DeepCloneB::deep_clone(&obj, self)'}]},
  'Importer::clone_rcref': {'kind': 'fn', 'file': B, 'container': CL, 'name': 'clone_rcref', 'props': PR,
      'requires': ['wf(*old(self))'],
      'ensures': ens_b('old_.inner', [
          ('returns_mapped', 'r matches Ok(n) ==> maps(final(self).memo(), old_.inner, n.inner)'),
          ('returned_ref_in_new_document', 'r matches Ok(n) ==> final(self).newdoc().contains(n.inner)'),
          ('hit_copies_nothing', (HIT % 'old_.inner') + ' ==> untouched(*old(self), *final(self)) && (r matches Ok(n) ==> n.inner == old(self).memo()[old_.inner] '
              '&& old(self).rcrefs@.dom().contains(n.inner) && old(self).rcrefs@[n.inner].holds::<Shared<T>>() == Some(n.data))'),
          ('rc_miss_data_is_clone', 'r matches Ok(n) ==> (!' + (HIT % 'old_.inner') + ' ==> !old(self).newdoc().contains(n.inner) && '
              '(*old_.data).is_clone(&*n.data, final(self).memo()) && final(self).updater.at::<T>(n.inner) == Some(*n.data))'),
      ]),
      'rewrites': RB + [
          # R2: auto-deref &Arc<T> -> T spelled out
          {'rule': 'R2', 'find': 'old_.data().deep_clone(self)', 'replace': '(**old_.data()).deep_clone(self)'}]},
  'Importer::clone_shared': {'kind': 'fn', 'file': B, 'container': CL, 'name': 'clone_shared', 'props': PR,
      'requires': ['wf(*old(self))'],
      'ensures': ens_b('', [
          ('shared_miss_is_clone', '!old(self).shared@.dom().contains(addr_of(*old_)) ==> (r matches Ok(n) ==> (**old_).is_clone(&*n, final(self).memo()))'),
          ('shared_hit_returns_stored', 'old(self).shared@.dom().contains(addr_of(*old_)) ==> untouched(*old(self), *final(self)) '
              '&& (r matches Ok(n) ==> old(self).shared@[addr_of(*old_)].1.holds::<Shared<T>>() == Some(n))'),
      ]),
      'rewrites': RB + [
          {'rule': 'R7', 'find': '&**old_ as *const T as usize', 'replace': 'hoist_addr(old_)'},
          # R2: tuple pattern behind a reference -> field access
          {'rule': 'R2', 'find': 'if let Some((old_, new)) = self.shared.get(&key) {', 'replace': 'if let Some(pair_) = self.shared.get(&key) { let new = &pair_.1;'},
          {'rule': 'R7', 'find': 'Shared::new(old_.as_ref().deep_clone(self)?)', 'replace': 'hoist_shared_new((**old_).deep_clone(self)?)'},
          {'rule': 'R7', 'find': 'AnySync::new_without_size(old_.clone())', 'replace': 'AnySync::new_without_size(hoist_shared_clone(old_))'},
          {'rule': 'R7', 'find': 'AnySync::new_without_size(new.clone())', 'replace': 'AnySync::new_without_size(hoist_shared_clone(&new))'}]},
  'Importer::stream_data': {'kind': 'fn', 'file': B, 'container': r"^impl<'a, R: Resolve, U> Resolve for Importer<'a, R, U>$", 'name': 'stream_data', 'props': PR,
      'ensures': [('forwards_to_source', 'r == src_stream(id, range)')],
      'rewrites': [{'where': 'sig', 'rule': 'R2', 'regex': r'\Afn ', 'replace': 'pub fn '}]},
  'Importer::resolve': {'kind': 'fn', 'file': B, 'container': r"^impl<'a, R: Resolve, U> Resolve for Importer<'a, R, U>$", 'name': 'resolve', 'props': PR, 'ret': 'res',
      'ensures': [('forwards_to_source', 'res == src_obj(r)')],
      'rewrites': [{'where': 'sig', 'rule': 'R2', 'regex': r'\Afn ', 'replace': 'pub fn '}]},
}
UNIT['items'].update(WORLD_B)

# ---------------------------------------------------------------------------------------------------------------------
# World C: derived DeepClone (macro expansion).  R1 only: the memo after each field is remembered in a ghost variable and
# the monotonicity lemma of every field is called at the end (field texts stay verbatim, by back-reference).
OBJ_TYPES = [r'^pub mod object$', r'^mod types$']
OBJ_STREAM = [r'^pub mod object$', r'^mod stream$']


def derived_struct(ty, fields, container, rel):
    decl = ' '.join('let ghost mut m_%s: Memo = cloner.memo();' % f for f in fields)
    lemmas = ' '.join('self.%s.lemma_mono(&r_.%s, m_%s, cloner.memo());' % (f, f, f) for f in fields)
    return inherent(X, container, rel, extra=[
        {'rule': 'R1', 'regex': r'\A\s*\{', 'replace': '{ ' + decl},
        {'rule': 'R1', 'regex': r'(\w+): (self\.\w+\.deep_clone\(cloner\)\?),', 'replace': r'\1: { let v_ = \2; proof { m_\1 = cloner.memo(); } v_ },', 'count': '*'},
        {'rule': 'R1', 'regex': r'Ok\(%s \{(.*)\}\)\s*\}\s*\Z' % ty, 'replace': r'let r_ = %s {\1}; proof { %s } Ok(r_) }' % (ty, lemmas)},
    ])


RES_FIELDS = ['graphics_states', 'color_spaces', 'pattern', 'xobjects', 'fonts', 'properties']
WORLD_C = {
  'struct StreamInfo': {'kind': 'decl', 'file': S, 'header': r'^pub struct StreamInfo<I>$'},
  'enum StreamData': {'kind': 'decl', 'file': S, 'header': r'^pub \(crate\) enum StreamData$',
      'rewrites': [{'rule': 'R2', 'find': 'pub (crate) enum', 'replace': 'pub enum'}]},
  'struct Stream': {'kind': 'decl', 'file': S, 'header': r'^pub struct Stream<I>$',
      'rewrites': [{'rule': 'R2', 'find': 'pub (crate) inner_data:', 'replace': 'pub inner_data:'}]},
  'struct Resources': {'kind': 'decl', 'file': T, 'header': r'^pub struct Resources$'},
  'enum XObject': {'kind': 'decl', 'file': T, 'header': r'^pub enum XObject$'},
  'struct AppearanceStreams': {'kind': 'decl', 'file': T, 'header': r'^pub struct AppearanceStreams$'},
  'StreamInfo::deep_clone': derived_struct('StreamInfo', ['filters', 'file', 'file_filters', 'info'],
      OBJ_STREAM + [r'^impl<I: pdf::object::DeepClone> pdf::object::DeepClone for\s+StreamInfo<I>$'],
      'streaminfo_clone(*self, c, final(cloner).memo())'),
  'Stream::deep_clone': inherent(S, r'^impl<I: DeepClone> DeepClone for Stream<I>$', 'typed_stream_clone(*self, c, final(cloner).memo())',
      extra=[{'rule': 'R7', 'find': 'range.clone()', 'replace': 'hoist_range_clone(range)'},
             {'rule': 'R7', 'find': 'data.clone()', 'replace': 'hoist_arc_clone(data)'}]),
  'XObject::deep_clone': inherent(X, OBJ_TYPES + [r'^impl pdf::object::DeepClone for XObject$'], 'xobject_clone(*self, c, final(cloner).memo())'),
  'Resources::deep_clone': derived_struct('Resources', RES_FIELDS, OBJ_TYPES + [r'^impl pdf::object::DeepClone for Resources$'],
      'resources_clone(*self, c, final(cloner).memo())'),
  'AppearanceStreams::deep_clone': derived_struct('AppearanceStreams', ['normal', 'rollover', 'down'],
      OBJ_TYPES + [r'^impl pdf::object::DeepClone for AppearanceStreams$'], 'appearance_clone(*self, c, final(cloner).memo())'),
}
UNIT['items'].update(WORLD_C)

# ---------------------------------------------------------------------------------------------------------------------
# World D: resource pruning
PRUNE_REQ = [WF_A, 'pruned_of(*old_resources, *old(resources), old(cloner).memo())']
KEPT = [('collected_resources_kept', 'resources_kept(*old(resources), *final(resources))'),
        ('pruned_invariant', 'r is Ok ==> pruned_of(*old_resources, *final(resources), final(cloner).memo())')]
# R1: after an entry went in, the entries collected before are clones under the grown memo too
AFTER_INSERT = {'rule': 'R1', 'regex': r'(resources\.\w+\.insert\((?:name\.clone\(\)|name), \w+\.deep_clone\(cloner\)\?\);)',
                'replace': r'\1 proof { lemma_pruned_mono(*old_resources, *old(resources), old(cloner).memo(), cloner.memo()); }', 'count': '*'}


def helper(name, used):
    return {'kind': 'fn', 'file': CT, 'container': None, 'name': name, 'props': PR, 'optional': True,
            'requires': PRUNE_REQ,
            'ensures': [('cloner_wf', 'wf(*final(cloner))'), ('memo_grows', 'grows(*old(cloner), *final(cloner))'),
                        ('named_resource_kept', 'r is Ok ==> ' + used)] + KEPT,
            'rewrites': [CLONER_SIG, AFTER_INSERT,
                         {'rule': 'R7', 'find': 'args.last()', 'replace': 'hoist_last(args)', 'count': '*'}]}


ENTRY = 'entry_kept(%s, %s, *old_resources, *final(resources), final(cloner).memo())'
WORLD_D = {
  'enum Color': {'kind': 'decl', 'file': CT, 'header': r'^pub enum Color$'},
  'enum Op': {'kind': 'decl', 'file': CT, 'header': r'^pub enum Op$'},
  'clone_named_color_space': helper('clone_named_color_space', ENTRY % ('Cat::ColorSpace', '*name')),
  'clone_named_pattern': helper('clone_named_pattern', '(color_pattern_name(*color) matches Some(n) ==> %s)' % (ENTRY % ('Cat::Pattern', 'n'))),
  'clone_named_properties': helper('clone_named_properties', '(props_name(*properties) matches Some(n) ==> %s)' % (ENTRY % ('Cat::Properties', 'n'))),
  'deep_clone_op': {'kind': 'fn', 'file': CT, 'container': None, 'name': 'deep_clone_op', 'props': PR,
      'requires': PRUNE_REQ,
      'ensures': [('cloner_wf', 'wf(*final(cloner))'), ('memo_grows', 'grows(*old(cloner), *final(cloner))'),
                  ('op_kept', 'r matches Ok(c) ==> op_clone(*op, c, final(cloner).memo())'),
                  ('named_resource_kept', 'r is Ok ==> (uses(*op) matches Some(u) ==> %s)' % (ENTRY % ('u.0', 'u.1')))] + KEPT,
      'rewrites': [CLONER_SIG, AFTER_INSERT,
          # R1: the inline property list is cloned last: the collected entries are clones under the grown memo too
          {'rule': 'R1', 'regex': r'properties: (properties\.deep_clone\(cloner\)\?) \}\)', 'count': '*',
           'replace': r'properties: { let ghost r1_ = *resources; let ghost m1_ = cloner.memo(); let p_ = \1; '
                      r'proof { lemma_pruned_mono(*old_resources, r1_, m1_, cloner.memo()); } p_ } })'}]},
}
UNIT['items'].update(WORLD_D)
UNIT['deviations'] = {
  'DEV_SHADING_RESOURCES_NOT_MODELLED': 'the operator `sh` names a /Shading resource, but `Resources` has no /Shading entry '
      '(object/types.rs:382: the field is commented out): the shading a page paints with is lost already on load, and so on '
      'import (findings/pruning_drops_named_resources.md)',
}

# ---------------------------------------------------------------------------------------------------------------------
# PageBuilder::clone_page
CLONE_PAGE_LEMMAS = (
    'if page.contents is Some { lemma_ops_mono(content_ops(page.contents->Some_0), r_.ops@, m_ops, cloner.memo(), r_.ops@.len() as int); '
    'lemma_pruned_mono(*old_resources, r_.resources, m_ops, cloner.memo()); lemma_resources_kept_refl(r_.resources); '
    'lemma_ops_resources_step(content_ops(page.contents->Some_0), *old_resources, r_.resources, r_.resources, m_ops, cloner.memo(), content_ops(page.contents->Some_0).len() as int); } '
    'else { lemma_pruned_mono(*old_resources, r_.resources, m_ops, cloner.memo()); } '
    'page.metadata.lemma_mono(&r_.metadata, m_metadata, cloner.memo()); page.lgi.lemma_mono(&r_.lgi, m_lgi, cloner.memo()); '
    'page.vp.lemma_mono(&r_.vp, m_vp, cloner.memo()); lemma_dict_mono(page.other, r_.other, m_other, cloner.memo());')
WORLD_E = {
  'struct Rectangle': {'kind': 'decl', 'file': T, 'header': r'^pub struct Rectangle$', 'attrs': ['#[derive(Clone, Copy)]']},
  'struct Page': {'kind': 'decl', 'file': T, 'header': r'^pub struct Page$'},
  'struct PageBuilder': {'kind': 'decl', 'file': B, 'header': r'^pub struct PageBuilder$'},
  'MaybeRef::data': {'kind': 'fn', 'file': M, 'container': r'^impl<T> MaybeRef<T>$', 'name': 'data', 'props': PR,
      'ensures': [('data_is_data', '*r == maybe_data(*self)')]},
  'PageBuilder::clone_page': {'kind': 'fn', 'file': B, 'container': r'^impl PageBuilder$', 'name': 'clone_page', 'props': PR,
      'attrs': ['#[verifier::loop_isolation(false)]'],
      'requires': [WF_A],
      'ensures': [('cloner_wf', 'wf(*final(cloner))'), ('memo_grows', 'grows(*old(cloner), *final(cloner))'),
                  ('page_cloned', 'r matches Ok(b) ==> page_cloned(*page, b, final(cloner).memo())'),
                  ('no_media_box_is_error', 'eff_media_box(*page) is None ==> r is Err')],
      'rewrites': [CLONER_SIG,
          # R6/R7/R8: the Option/iterator chain -> the hoisted read of the operations, then an index loop over them calling the
          # closure body (verbatim, by back-reference) front to back; first Err ends it (`collect::<Result<Vec<_>,_>>`)
          {'rule': 'R6', 'regex': r'let ops = page\.contents\.as_ref\(\)\s*\.map\(\|content\| content\.operations\(cloner\)\)\.transpose\(\)\?\s*'
                                  r'\.map\(\|ops\| \{\s*ops\.into_iter\(\)\.map\(\|op\| -> Result<Op, PdfError> \{\s*(?P<body>.*?)\s*\}\)\.collect\(\)\s*\}\)\s*'
                                  r'\.transpose\(\)\?\s*\.unwrap_or_default\(\);',
           'replace': r'let ops: Vec<Op> = match hoist_contents_ops(&page.contents, cloner)? { None => Vec::new(), Some(ops) => { '
                      r'let mut out_: Vec<Op> = Vec::new(); let mut i_: usize = 0; while i_ < ops.len() { let op = &ops[i_]; '
                      r'let ghost m0_ = cloner.memo(); let ghost r0_ = resources; let ghost o0_ = out_@; let c_ = \g<body>?; out_.push(c_); i_ = i_ + 1; '
                      r'proof { lemma_ops_mono(ops@, o0_, m0_, cloner.memo(), (i_ - 1) as int); '
                      r'lemma_ops_resources_step(ops@, *old_resources, r0_, resources, m0_, cloner.memo(), (i_ - 1) as int); } } out_ } };'},
          # R1: ghost snapshots between the deep-cloned fields, lemmas at the end (as the derived impls)
          {'rule': 'R1', 'regex': r'Ok\(PageBuilder \{(.*)\}\)\s*\}\s*\Z',
           'replace': r'let ghost m_ops = cloner.memo(); let ghost mut m_metadata: Memo = cloner.memo(); let ghost mut m_lgi: Memo = cloner.memo(); '
                      r'let ghost mut m_vp: Memo = cloner.memo(); let ghost mut m_other: Memo = cloner.memo(); '
                      r'let r_ = PageBuilder {\1}; proof { ' + CLONE_PAGE_LEMMAS + r' } Ok(r_) }'},
          {'rule': 'R1', 'regex': r'(\w+): (page\.(\w+)\.deep_clone\(cloner\)\?),', 'replace': r'\1: { let v_ = \2; proof { m_\1 = cloner.memo(); } v_ },', 'count': '*'},
      ],
      'loops': {1: {'invariant': [
          'i_ <= ops@.len()', 'out_@.len() == i_', 'wf(*cloner)', 'grows(*old(cloner), *cloner)',
          'page.contents matches Some(c_) && ops@ == content_ops(c_)',
          'eff_resources(*page) matches Some(mr_) && *old_resources == *maybe_data(mr_)',
          ('resources_are_pruned_source', 'pruned_of(*old_resources, resources, cloner.memo())'),
          ('operations_in_order', 'ops_clone(ops@, out_@, cloner.memo(), i_ as int)'),
          ('named_resources_kept', 'ops_resources_kept(ops@, *old_resources, resources, cloner.memo(), i_ as int)'),
      ], 'decreases': 'ops@.len() - i_'}}},
}
UNIT['items'].update(WORLD_E)
