// Native repro for units/importer findings (C20).  Drop into a scratch copy as pdf/tests/pruning_drops_named_resources_repro.rs and run
//   CARGO_TARGET_DIR=/tmp/importer_target cargo test --offline -p pdf --test pruning_drops_named_resources_repro -- --test-threads 1
// On the unfixed tree `named_colour_space_kept` fails; with findings/pruning_drops_named_resources_fix.diff it passes.
use pdf::build::*;
use pdf::content::Op;
use pdf::file::FileOptions;
use pdf::object::*;
use pdf::primitive::Primitive;

// a classic cross-reference-table file from object bodies (object number = index + 1), /Root 1 0 R
fn mk_pdf(objs: &[&str]) -> Vec<u8> {
    let mut out = b"%PDF-1.4\n".to_vec();
    let mut offs = Vec::new();
    for (i, body) in objs.iter().enumerate() {
        offs.push(out.len());
        out.extend_from_slice(format!("{} 0 obj\n{}\nendobj\n", i + 1, body).as_bytes());
    }
    let xref = out.len();
    out.extend_from_slice(format!("xref\n0 {}\n0000000000 65535 f \n", objs.len() + 1).as_bytes());
    for o in offs {
        out.extend_from_slice(format!("{:010} 00000 n \n", o).as_bytes());
    }
    out.extend_from_slice(format!("trailer\n<< /Size {} /Root 1 0 R >>\nstartxref\n{}\n%%EOF\n", objs.len() + 1, xref).as_bytes());
    out
}
fn stream(dict: &str, data: &str) -> String {
    format!("<< {} /Length {} >>\nstream\n{}\nendstream", dict, data.len(), data)
}

// import page 0 of `src` into a new document, save it, hand back the bytes
fn import_page0(src: Vec<u8>) -> pdf::error::Result<Vec<u8>> {
    let old_file = FileOptions::uncached().load(src)?;
    let old_page = old_file.get_page(0)?;
    let mut builder = PdfBuilder::new(FileOptions::uncached());
    let mut importer = Importer::new(old_file.resolver(), &mut builder.storage);
    let new_page = PageBuilder::clone_page(&old_page, &mut importer)?;
    builder.build(CatalogBuilder::from_pages(vec![new_page]))
}

// The content names a colour space (`/CS0 cs`): ISO 32000-1 8.6.8 -- the name is looked up in the /ColorSpace
// sub-dictionary of the current resource dictionary.  The imported page must carry that entry.
#[test]
fn named_colour_space_kept() {
    let content = stream("", "/CS0 cs 0.5 sc 0 0 5 5 re f");
    let src = mk_pdf(&[
        "<< /Type /Catalog /Pages 2 0 R >>",
        "<< /Type /Pages /Kids [3 0 R] /Count 1 >>",
        "<< /Type /Page /Parent 2 0 R /MediaBox [0 0 10 10] /Resources << /ColorSpace << /CS0 [/CalGray << /WhitePoint [0.9505 1 1.089] >>] >> >> /Contents 4 0 R >>",
        &content,
    ]);
    let old_file = FileOptions::uncached().load(src).expect("load");
    let old_page = old_file.get_page(0).expect("page");
    assert!(old_page.resources().unwrap().color_spaces.contains_key("CS0"));
    let mut builder = PdfBuilder::new(FileOptions::uncached());
    let mut importer = Importer::new(old_file.resolver(), &mut builder.storage);
    let new_page = PageBuilder::clone_page(&old_page, &mut importer).expect("import");
    assert!(new_page.ops.iter().any(|op| matches!(op, Op::FillColorSpace { name } if name.as_str() == "CS0")));
    assert!(new_page.resources.color_spaces.contains_key("CS0"), "the operations name /CS0 but the pruned resources lost it");
}

