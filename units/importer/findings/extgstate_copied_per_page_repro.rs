// Repro for findings/extgstate_copied_per_page.md (C20, "shared source objects are copied once").
// Place at pdf/tests/verif_extgstate_shared.rs; `cargo test --offline -p pdf --test verif_extgstate_shared`.
// Two pages share ONE indirect ExtGState object (10 0 R). Both are imported through ONE Importer; in the saved and reloaded document the
// graphics state must still be one object that both pages refer to. On /repo HEAD ebb87a5 each page carries its own inline copy.
use pdf::build::{CatalogBuilder, Importer, PageBuilder, PdfBuilder};
use pdf::file::FileOptions;
use pdf::object::*;
use pdf::primitive::{Dictionary, Primitive};

/// a classic (table + trailer) PDF file from numbered object bodies
fn make_pdf(objects: &[(usize, Vec<u8>)], root: usize) -> Vec<u8> {
    let mut out = b"%PDF-1.7\n".to_vec();
    let size = objects.iter().map(|o| o.0).max().unwrap() + 1;
    let mut offsets = vec![None; size];
    for (id, body) in objects {
        offsets[*id] = Some(out.len());
        out.extend_from_slice(format!("{} 0 obj\n", id).as_bytes());
        out.extend_from_slice(body);
        out.extend_from_slice(b"\nendobj\n");
    }
    let xref = out.len();
    out.extend_from_slice(format!("xref\n0 {}\n", size).as_bytes());
    for (id, off) in offsets.iter().enumerate() {
        match off {
            Some(off) => out.extend_from_slice(format!("{:010} 00000 n \n", off).as_bytes()),
            None if id == 0 => out.extend_from_slice(b"0000000000 65535 f \n"),
            None => out.extend_from_slice(b"0000000000 00000 f \n"),
        }
    }
    out.extend_from_slice(format!("trailer\n<< /Size {} /Root {} 0 R >>\nstartxref\n{}\n%%EOF\n", size, root, xref).as_bytes());
    out
}
fn stream(dict: &str, data: &[u8]) -> Vec<u8> {
    let mut v = format!("<< {} /Length {} >>\nstream\n", dict, data.len()).into_bytes();
    v.extend_from_slice(data);
    v.extend_from_slice(b"\nendstream");
    v
}

fn source() -> Vec<u8> {
    let res = "/Resources << /Font << /F1 7 0 R >> /XObject << /X1 9 0 R >> /ExtGState << /GS1 10 0 R >> >>";
    make_pdf(&[
        (1, b"<< /Type /Catalog /Pages 2 0 R >>".to_vec()),
        (2, b"<< /Type /Pages /Kids [3 0 R 4 0 R 12 0 R] /Count 3 /MediaBox [0 0 612 792] >>".to_vec()),
        (3, format!("<< /Type /Page /Parent 2 0 R {} /Contents 5 0 R >>", res).into_bytes()),
        (4, format!("<< /Type /Page /Parent 2 0 R {} /Contents 6 0 R >>", res).into_bytes()),
        (5, stream("", b"q /GS1 gs BT /F1 12 Tf 72 720 Td (first page) Tj ET /X1 Do Q")),
        (6, stream("", b"BT /F1 10 Tf 72 700 Td (second page) Tj ET q /GS1 gs /X1 Do Q")),
        (7, b"<< /Type /Font /Subtype /Type1 /BaseFont /Helvetica /Encoding /WinAnsiEncoding \
              /FirstChar 32 /LastChar 34 /Widths 8 0 R >>".to_vec()),
        (8, b"[278 278 355]".to_vec()),
        (9, stream("/Type /XObject /Subtype /Form /FormType 1 /BBox [0 0 10 10] /Resources << /Font << /F1 7 0 R >> >>", b"BT /F1 5 Tf (x) Tj ET")),
        (10, b"<< /Type /ExtGState /LW 2 /Font [7 0 R 9] /CA 0.5 >>".to_vec()),
        (11, stream("", b"BT /F1 8 Tf 10 10 Td (third page) Tj ET")),
        (12, b"<< /Type /Page /Parent 2 0 R /Rotate 90 /MediaBox [0 0 300 400] /CropBox [5 6 290 390] /TrimBox [10 12 280 380] \
               /Resources << /Font << /F1 7 0 R >> >> /Contents 11 0 R /Annots [13 0 R] \
               /PieceInfo << /Self 12 0 R /Note 13 0 R >> >>".to_vec()),
        (13, b"<< /Type /Annot /Subtype /Link /Rect [0 0 10 10] /P 12 0 R /Border [0 0 0] >>".to_vec()),
    ], 1)
}
fn dict_of(p: &Primitive, resolve: &impl Resolve) -> Dictionary {
    p.clone().resolve(resolve).unwrap().into_dictionary().unwrap()
}
fn page_dict(page: &PageRc, resolve: &impl Resolve) -> Dictionary {
    dict_of(&Primitive::Reference(page.get_ref().get_inner()), resolve)
}

fn gs_entry(page: &PageRc, resolve: &impl Resolve) -> Primitive {
    let res = dict_of(page_dict(page, resolve).get("Resources").unwrap(), resolve);
    dict_of(res.get("ExtGState").expect("/ExtGState"), resolve).get("GS1").expect("/GS1").clone()
}

#[test]
fn extgstate_shared_by_two_pages_is_copied_once() {
    let old = FileOptions::cached().load(source()).expect("source loads");
    let old_res = old.resolver();
    let (a, b) = (gs_entry(&old.get_page(0).unwrap(), &old_res), gs_entry(&old.get_page(1).unwrap(), &old_res));
    assert!(matches!(a, Primitive::Reference(_)) && a == b, "in the source the two pages share one graphics state object");

    let mut builder = PdfBuilder::new(FileOptions::cached());
    let mut importer = Importer::new(old.resolver(), &mut builder.storage);
    let mut pages = Vec::new();
    for i in 0..2 { pages.push(PageBuilder::clone_page(&old.get_page(i).unwrap(), &mut importer).expect("import")); }
    let data = builder.build(CatalogBuilder::from_pages(pages)).expect("save");
    let new = FileOptions::cached().load(data).expect("reload");
    let new_res = new.resolver();
    let (a, b) = (gs_entry(&new.get_page(0).unwrap(), &new_res), gs_entry(&new.get_page(1).unwrap(), &new_res));
    assert!(matches!(a, Primitive::Reference(_)), "page 0 holds its own inline copy of the shared graphics state: {:?}", a);
    assert!(matches!(b, Primitive::Reference(_)), "page 1 holds its own inline copy of the shared graphics state: {:?}", b);
    assert_eq!(a, b, "the two pages refer to two copies of the shared graphics state");
}
