// Native repro for units/importer findings (C20).  Drop into a scratch copy as pdf/tests/memo_after_recursion_repro.rs and run
//   CARGO_TARGET_DIR=/tmp/importer_target cargo test --offline -p pdf --test memo_after_recursion_repro -- --test-threads 1
// On the unfixed tree: `cycle_through_plain_references` overflows the stack (the test binary dies with SIGSEGV/SIGABRT),
// `typed_after_untyped_reference` panics at build.rs:385 (`Option::unwrap()` on `None`).
// With findings/memo_after_recursion_fix.diff both pass; `corpus_pages_import_and_reload` passes before and after.
use pdf::build::*;
use pdf::content::Op;
use pdf::file::FileOptions;
use pdf::object::*;
use pdf::primitive::Primitive;

// a classic cross-reference-table file from object bodies (object number = index + 1), /Root 1 0 R
fn mk_pdf(objs: &[&str]) -> Vec<u8> {
    let mut out = b"%PDF-1.4\n".to_vec();
    let mut offs = Vec::new();
    for (i, body) in objs.iter().enumerate() {
        offs.push(out.len());
        out.extend_from_slice(format!("{} 0 obj\n{}\nendobj\n", i + 1, body).as_bytes());
    }
    let xref = out.len();
    out.extend_from_slice(format!("xref\n0 {}\n0000000000 65535 f \n", objs.len() + 1).as_bytes());
    for o in offs {
        out.extend_from_slice(format!("{:010} 00000 n \n", o).as_bytes());
    }
    out.extend_from_slice(format!("trailer\n<< /Size {} /Root 1 0 R >>\nstartxref\n{}\n%%EOF\n", objs.len() + 1, xref).as_bytes());
    out
}
fn stream(dict: &str, data: &str) -> String {
    format!("<< {} /Length {} >>\nstream\n{}\nendstream", dict, data.len(), data)
}

// import page 0 of `src` into a new document, save it, hand back the bytes
fn import_page0(src: Vec<u8>) -> pdf::error::Result<Vec<u8>> {
    let old_file = FileOptions::uncached().load(src)?;
    let old_page = old_file.get_page(0)?;
    let mut builder = PdfBuilder::new(FileOptions::uncached());
    let mut importer = Importer::new(old_file.resolver(), &mut builder.storage);
    let new_page = PageBuilder::clone_page(&old_page, &mut importer)?;
    builder.build(CatalogBuilder::from_pages(vec![new_page]))
}

// A page entry (`/B`: the article beads of the page, ISO 32000-1 Table 30) pointing at a dictionary that refers to
// itself (`/N`, `/V`: next / previous bead of a one-bead thread, 12.4.3: "the last bead's /N points to the first").
#[test]
fn cycle_through_plain_references() {
    let content = stream("", "0 0 m");
    let src = mk_pdf(&[
        "<< /Type /Catalog /Pages 2 0 R >>",
        "<< /Type /Pages /Kids [3 0 R] /Count 1 >>",
        "<< /Type /Page /Parent 2 0 R /MediaBox [0 0 10 10] /Resources << >> /Contents 4 0 R /B [5 0 R] >>",
        &content,
        "<< /Type /Bead /N 5 0 R /V 5 0 R >>",
    ]);
    let bytes = import_page0(src).expect("import");
    // reload: the bead of the new page is an object of the NEW file and its /N is that same object (copied once)
    let new_file = FileOptions::uncached().load(bytes).expect("reload");
    let page = new_file.get_page(0).expect("page");
    let b = page.other.get("B").expect("/B kept").clone();
    let bead_ref = match b { Primitive::Array(a) => a[0].clone().into_reference().expect("reference"), p => panic!("{:?}", p) };
    let bead = new_file.resolver().resolve(bead_ref).expect("bead is an object of the new file").into_dictionary().expect("dict");
    assert_eq!(bead.get("N").unwrap().clone().into_reference().unwrap(), bead_ref);
    assert_eq!(bead.get("V").unwrap().clone().into_reference().unwrap(), bead_ref);
}

// Object 7 is reached first through an untyped reference (an unknown entry of form X1) and then through a typed one
// (`/Resources 7 0 R` of form X2: MaybeRef<Resources>).
#[test]
fn typed_after_untyped_reference() {
    let content = stream("", "/X1 Do /X2 Do");
    let x1 = stream("/Type /XObject /Subtype /Form /BBox [0 0 1 1] /Foo 7 0 R", "");
    let x2 = stream("/Type /XObject /Subtype /Form /BBox [0 0 1 1] /Resources 7 0 R", "");
    let src = mk_pdf(&[
        "<< /Type /Catalog /Pages 2 0 R >>",
        "<< /Type /Pages /Kids [3 0 R] /Count 1 >>",
        "<< /Type /Page /Parent 2 0 R /MediaBox [0 0 10 10] /Resources << /XObject << /X1 5 0 R /X2 6 0 R >> >> /Contents 4 0 R >>",
        &content,
        &x1,
        &x2,
        "<< >>",
    ]);
    // must not panic: Ok or Err are both acceptable to "importing never panics"
    let _ = import_page0(src);
}

// Corpus: every page of every (unencrypted) file under files/ is imported alone into a new document, saved, reloaded.
// Reports per file instead of failing at the first one.  (Needs `files/` in the scratch copy: `ln -s /repo/files files`.)
#[test]
fn corpus_pages_import_and_reload() {
    let mut bad = Vec::new();
    let mut n_pages = 0;
    for entry in std::fs::read_dir("../files").unwrap() {
        let path = entry.unwrap().path();
        if path.extension().map(|e| e != "pdf").unwrap_or(true) { continue; }
        let data = std::fs::read(&path).unwrap();
        let old_file = match FileOptions::uncached().load(data) { Ok(f) => f, Err(_) => continue };   // encrypted
        for n in 0..old_file.num_pages() {
            let old_page = match old_file.get_page(n) { Ok(p) => p, Err(_) => continue };
            let res = std::panic::catch_unwind(std::panic::AssertUnwindSafe(|| -> pdf::error::Result<()> {
                let mut builder = PdfBuilder::new(FileOptions::uncached());
                let mut importer = Importer::new(old_file.resolver(), &mut builder.storage);
                let new_page = PageBuilder::clone_page(&old_page, &mut importer)?;
                let n_ops = new_page.ops.len();
                let bytes = builder.build(CatalogBuilder::from_pages(vec![new_page]))?;
                let new_file = FileOptions::uncached().load(bytes)?;
                let page = new_file.get_page(0)?;
                assert_eq!(new_file.num_pages(), 1);
                let (a, b) = (page.media_box()?, old_page.media_box()?);
                assert!(a.left == b.left && a.right == b.right && a.top == b.top && a.bottom == b.bottom);
                assert_eq!(page.rotate, old_page.rotate);
                let ops = page.contents.as_ref().map(|c| c.operations(&new_file.resolver())).transpose()?.unwrap_or_default();
                assert_eq!(ops.len(), n_ops);
                Ok(())
            }));
            n_pages += 1;
            match res {
                Ok(Ok(())) => {}
                Ok(Err(e)) => bad.push(format!("{}: page {}: Err({:?})", path.display(), n, e)),
                Err(_) => bad.push(format!("{}: page {}: PANIC", path.display(), n)),
            }
        }
    }
    println!("{} pages imported, {} not: {:#?}", n_pages, bad.len(), bad);
    assert!(bad.iter().all(|b| !b.ends_with("PANIC")));
}
