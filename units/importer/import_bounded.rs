// BOUNDED native stand-in for page import (C20) on the crate's public API: Importer + PageBuilder::clone_page + CatalogBuilder + PdfBuilder::build,
// then FileOptions::load of the saved bytes. Placed at pdf/tests/verif_import_bounded.rs.
//
// Universe: ONE source document with three pages
//   A, B  share ONE indirect font (7 0 R, with an indirect /Widths array), ONE form XObject (9 0 R, whose own resources name the same font) and
//         ONE ExtGState (10 0 R, whose /Font entry names the same font); each has its own content stream using all three;
//   C     /Rotate 90, own /MediaBox, /CropBox, /TrimBox; uses the font; refers to ITSELF through /PieceInfo (an entry the page model keeps in its
//         catch-all) and to an annotation (13 0 R) that points back at the page through /P, next to /Parent and /Annots: a reference cycle
//         page -> page, page -> annotation -> page, page -> parent -> kids -> page;
// x EVERY non-empty ordered selection of the three pages (15 sequences), each imported through ONE Importer, built, saved, reloaded.
// Checked on the reloaded document, for every imported page against its source page:
//   * media box, crop box, trim box and rotation;
//   * the operation sequence;
//   * for every resource the operations name: the entry, as written in the new file, is ISOMORPHIC to the source entry under ONE injective map
//     old reference -> new reference kept for the whole document: the same source object is the same new object wherever it is reached from
//     (other pages, the form's resources, the graphics state's /Font), two source objects never share a copy, dictionaries have the same
//     keys, arrays the same length, streams the same raw bytes; a typed model may write an indirect source value inline (content compared),
//     but NO source object may end up with more than one copy (two inline copies, or an inline copy next to an indirect one): `copied_once`;
//   * the catch-all entry /PieceInfo likewise: the copy of the page it names refers to itself, its annotation's /P names that copy, its
//     /Parent's /Kids contain it;
//   * every reference met on the way resolves in the new document.
// ExtGState entries are held BY VALUE by the page model (Resources::graphics_states: HashMap<Name, GraphicsStateParameters>): an indirect
// /ExtGState entry is compared through the reference on the source side (content, and the references INSIDE it under the one map); that the
// entry is written inline on every page is recorded in findings/extgstate_copied_per_page.md and is not asserted here.
use std::collections::HashMap;

use pdf::build::{CatalogBuilder, Importer, PageBuilder, PdfBuilder};
use pdf::file::FileOptions;
use pdf::object::*;
use pdf::primitive::{Dictionary, Primitive};

/// a classic (table + trailer) PDF file from numbered object bodies
fn make_pdf(objects: &[(usize, Vec<u8>)], root: usize) -> Vec<u8> {
    let mut out = b"%PDF-1.7\n".to_vec();
    let size = objects.iter().map(|o| o.0).max().unwrap() + 1;
    let mut offsets = vec![None; size];
    for (id, body) in objects {
        offsets[*id] = Some(out.len());
        out.extend_from_slice(format!("{} 0 obj\n", id).as_bytes());
        out.extend_from_slice(body);
        out.extend_from_slice(b"\nendobj\n");
    }
    let xref = out.len();
    out.extend_from_slice(format!("xref\n0 {}\n", size).as_bytes());
    for (id, off) in offsets.iter().enumerate() {
        match off {
            Some(off) => out.extend_from_slice(format!("{:010} 00000 n \n", off).as_bytes()),
            None if id == 0 => out.extend_from_slice(b"0000000000 65535 f \n"),
            None => out.extend_from_slice(b"0000000000 00000 f \n"),
        }
    }
    out.extend_from_slice(format!("trailer\n<< /Size {} /Root {} 0 R >>\nstartxref\n{}\n%%EOF\n", size, root, xref).as_bytes());
    out
}
fn stream(dict: &str, data: &[u8]) -> Vec<u8> {
    let mut v = format!("<< {} /Length {} >>\nstream\n", dict, data.len()).into_bytes();
    v.extend_from_slice(data);
    v.extend_from_slice(b"\nendstream");
    v
}

fn source() -> Vec<u8> {
    let res = "/Resources << /Font << /F1 7 0 R >> /XObject << /X1 9 0 R >> /ExtGState << /GS1 10 0 R >> >>";
    make_pdf(&[
        (1, b"<< /Type /Catalog /Pages 2 0 R >>".to_vec()),
        (2, b"<< /Type /Pages /Kids [3 0 R 4 0 R 12 0 R] /Count 3 /MediaBox [0 0 612 792] >>".to_vec()),
        (3, format!("<< /Type /Page /Parent 2 0 R {} /Contents 5 0 R >>", res).into_bytes()),
        (4, format!("<< /Type /Page /Parent 2 0 R {} /Contents 6 0 R >>", res).into_bytes()),
        (5, stream("", b"q /GS1 gs BT /F1 12 Tf 72 720 Td (first page) Tj ET /X1 Do Q")),
        (6, stream("", b"BT /F1 10 Tf 72 700 Td (second page) Tj ET q /GS1 gs /X1 Do Q")),
        (7, b"<< /Type /Font /Subtype /Type1 /BaseFont /Helvetica /Encoding /WinAnsiEncoding \
              /FirstChar 32 /LastChar 34 /Widths 8 0 R >>".to_vec()),
        (8, b"[278 278 355]".to_vec()),
        (9, stream("/Type /XObject /Subtype /Form /FormType 1 /BBox [0 0 10 10] /Resources << /Font << /F1 7 0 R >> >>", b"BT /F1 5 Tf (x) Tj ET")),
        (10, b"<< /Type /ExtGState /LW 2 /Font [7 0 R 9] /CA 0.5 >>".to_vec()),
        (11, stream("", b"BT /F1 8 Tf 10 10 Td (third page) Tj ET")),
        (12, b"<< /Type /Page /Parent 2 0 R /Rotate 90 /MediaBox [0 0 300 400] /CropBox [5 6 290 390] /TrimBox [10 12 280 380] \
               /Resources << /Font << /F1 7 0 R >> >> /Contents 11 0 R /Annots [13 0 R] \
               /PieceInfo << /Self 12 0 R /Note 13 0 R >> >>".to_vec()),
        (13, b"<< /Type /Annot /Subtype /Link /Rect [0 0 10 10] /P 12 0 R /Border [0 0 0] >>".to_vec()),
    ], 1)
}

/// ONE map old reference -> new reference for a whole comparison; injective
struct Iso<'a, A: Resolve, B: Resolve> {
    old: &'a A,
    new: &'a B,
    fwd: HashMap<PlainRef, PlainRef>,
    bwd: HashMap<PlainRef, PlainRef>,
    /// source object -> the places where a copy of it was written INLINE
    inline: HashMap<PlainRef, Vec<String>>,
}
impl<'a, A: Resolve, B: Resolve> Iso<'a, A, B> {
    fn pair(&mut self, x: PlainRef, y: PlainRef, path: &str) -> bool {
        if let Some(&y0) = self.fwd.get(&x) {
            assert_eq!(y0, y, "{}: source object {:?} was copied twice: it is {:?} elsewhere and {:?} here", path, x, y0, y);
            return false;
        }
        if let Some(&x0) = self.bwd.get(&y) {
            panic!("{}: new object {:?} stands for two source objects {:?} and {:?}", path, y, x0, x);
        }
        self.fwd.insert(x, y);
        self.bwd.insert(y, x);
        true
    }
    /// "shared source objects are copied once": every source object has ONE copy in the new document -- one indirect object, or one inline value
    fn copied_once(&self, what: &str) {
        for (x, places) in &self.inline {
            assert!(places.len() == 1 && !self.fwd.contains_key(x),
                "{}: source object {:?} was copied more than once: inline at {:?}{}", what, x, places,
                match self.fwd.get(x) { Some(y) => format!(" and as the indirect object {:?}", y), None => String::new() });
        }
    }
    fn same(&mut self, a: &Primitive, b: &Primitive, path: &str) {
        match (a, b) {
            (Primitive::Reference(x), Primitive::Reference(y)) => {
                if self.pair(*x, *y, path) {
                    let a2 = self.old.resolve(*x).unwrap_or_else(|e| panic!("{}: source {:?} does not resolve: {:?}", path, x, e));
                    let b2 = self.new.resolve(*y).unwrap_or_else(|e| panic!("{}: {:?} does not resolve in the NEW document: {:?}", path, y, e));
                    self.same(&a2, &b2, &format!("{}<{}>", path, x.id));
                }
            }
            (Primitive::Reference(x), other) => {
                // a typed model may hold the value itself (Option<Vec<f32>>, ...): an indirect source object written inline. Equal content is
                // required here; that no source object ends up with MORE THAN ONE copy is audited at the end (`copied_once`)
                self.inline.entry(*x).or_default().push(path.to_string());
                let a2 = self.old.resolve(*x).unwrap_or_else(|e| panic!("{}: source {:?} does not resolve: {:?}", path, x, e));
                self.same(&a2, other, &format!("{}<{} inline>", path, x.id));
            }
            (other, Primitive::Reference(y)) => panic!("{}: a direct source value {:?} became the indirect object {:?}", path, other, y),
            (Primitive::Integer(i), Primitive::Number(f)) | (Primitive::Number(f), Primitive::Integer(i)) =>
                assert_eq!(*i as f32, *f, "{}: number", path),
            (Primitive::Array(x), Primitive::Array(y)) => {
                assert_eq!(x.len(), y.len(), "{}: array length ({:?} vs {:?})", path, x, y);
                for (i, (p, q)) in x.iter().zip(y).enumerate() { self.same(p, q, &format!("{}[{}]", path, i)); }
            }
            (Primitive::Dictionary(x), Primitive::Dictionary(y)) => self.same_dict(x, y, path),
            (Primitive::Stream(x), Primitive::Stream(y)) => {
                self.same_dict(&x.info, &y.info, &format!("{}.info", path));
                let dx = x.raw_data(self.old).unwrap_or_else(|e| panic!("{}: source stream data: {:?}", path, e));
                let dy = y.raw_data(self.new).unwrap_or_else(|e| panic!("{}: new stream data: {:?}", path, e));
                assert_eq!(&*dx, &*dy, "{}: stream bytes", path);
            }
            (x, y) => assert_eq!(x, y, "{}", path),
        }
    }
    fn same_dict(&mut self, x: &Dictionary, y: &Dictionary, path: &str) {
        let mut kx: Vec<String> = x.iter().map(|(k, _)| k.to_string()).collect();
        let mut ky: Vec<String> = y.iter().map(|(k, _)| k.to_string()).collect();
        kx.sort(); ky.sort();
        assert_eq!(kx, ky, "{}: dictionary keys", path);
        for (k, v) in x.iter() { self.same(v, y.get(k).unwrap(), &format!("{}/{}", path, k)); }
    }
}

fn dict_of(p: &Primitive, resolve: &impl Resolve) -> Dictionary {
    p.clone().resolve(resolve).unwrap().into_dictionary().unwrap()
}
fn page_dict(page: &PageRc, resolve: &impl Resolve) -> Dictionary {
    dict_of(&Primitive::Reference(page.get_ref().get_inner()), resolve)
}
fn rect(r: Rectangle) -> [f32; 4] { [r.left, r.bottom, r.right, r.top] }
/// (category, name) of every named resource the operations use
fn names_used(ops: &[pdf::content::Op]) -> Vec<(&'static str, String)> {
    use pdf::content::Op;
    let mut v = Vec::new();
    for op in ops {
        match op {
            Op::TextFont { name, .. } => v.push(("Font", name.as_str().to_string())),
            Op::XObject { name } => v.push(("XObject", name.as_str().to_string())),
            Op::GraphicsState { name } => v.push(("ExtGState", name.as_str().to_string())),
            _ => {}
        }
    }
    v
}

fn import_and_check(selection: &[usize]) {
    let what = format!("pages {:?}", selection);
    let old = FileOptions::cached().load(source()).expect("source loads");
    let old_res = old.resolver();
    let mut builder = PdfBuilder::new(FileOptions::cached());
    let mut importer = Importer::new(old.resolver(), &mut builder.storage);
    let mut pages = Vec::new();
    for &i in selection {
        let page = old.get_page(i as u32).unwrap();
        pages.push(PageBuilder::clone_page(&page, &mut importer).unwrap_or_else(|e| panic!("{}: import of page {} fails: {:?}", what, i, e)));
    }
    let data = builder.build(CatalogBuilder::from_pages(pages)).unwrap_or_else(|e| panic!("{}: build/save fails: {:?}", what, e));
    let new = FileOptions::cached().load(data).unwrap_or_else(|e| panic!("{}: the new document does not load: {:?}", what, e));
    let new_res = new.resolver();
    assert_eq!(new.num_pages() as usize, selection.len(), "{}: page count", what);

    let mut iso = Iso { old: &old_res, new: &new_res, fwd: HashMap::new(), bwd: HashMap::new(), inline: HashMap::new() };
    for (k, &i) in selection.iter().enumerate() {
        let a = old.get_page(i as u32).unwrap();
        let b = new.get_page(k as u32).unwrap();
        let w = format!("{}: new page {} (source page {})", what, k, i);
        assert_eq!(rect(a.media_box().unwrap()), rect(b.media_box().unwrap()), "{}: media box", w);
        assert_eq!(rect(a.crop_box().unwrap()), rect(b.crop_box().unwrap()), "{}: crop box", w);
        assert_eq!(a.trim_box.map(rect), b.trim_box.map(rect), "{}: trim box", w);
        assert_eq!(a.rotate, b.rotate, "{}: rotation", w);
        let ops_a = a.contents.as_ref().unwrap().operations(&old_res).unwrap();
        let ops_b = b.contents.as_ref().unwrap().operations(&new_res).unwrap();
        assert_eq!(format!("{:?}", ops_a), format!("{:?}", ops_b), "{}: operations", w);

        let res_a = dict_of(page_dict(&a, &old_res).get("Resources").expect("source page has /Resources"), &old_res);
        let res_b = dict_of(page_dict(&b, &new_res).get("Resources").unwrap_or_else(|| panic!("{}: no /Resources", w)), &new_res);
        let used = names_used(&ops_a);
        assert!(!used.is_empty());
        for (cat, name) in used {
            let ea = dict_of(res_a.get(cat).unwrap(), &old_res).get(&name).unwrap().clone();
            let cb = dict_of(res_b.get(cat).unwrap_or_else(|| panic!("{}: /Resources has no /{}", w, cat)), &new_res);
            let eb = cb.get(&name).unwrap_or_else(|| panic!("{}: /{} /{} is missing", w, cat, name)).clone();
            let path = format!("{}: /{} /{}", w, cat, name);
            if cat == "ExtGState" {
                // held by value in the page model (see the head comment): content, and the references inside under the one map
                let va = ea.clone().resolve(&old_res).unwrap();
                let vb = eb.clone().resolve(&new_res).unwrap();
                let (mut da, mut db) = (va.into_dictionary().unwrap(), vb.into_dictionary().unwrap());
                da.remove("Type"); db.remove("Type");   // the optional /Type /ExtGState tag
                iso.same_dict(&da, &db, &path);
            } else {
                iso.same(&ea, &eb, &path);
            }
        }
        // the catch-all entries of the page
        let (pa, pb) = (page_dict(&a, &old_res), page_dict(&b, &new_res));
        match (pa.get("PieceInfo"), pb.get("PieceInfo")) {
            (None, None) => {}
            (Some(x), Some(y)) => {
                iso.same(x, y, &format!("{}: /PieceInfo", w));
                // identity, spelled out: the copy of the page refers to itself, its annotation points back at it, its parent lists it
                let self_ref = dict_of(y, &new_res).get("Self").unwrap().clone();
                let copy = dict_of(&self_ref, &new_res);
                assert_eq!(dict_of(copy.get("PieceInfo").unwrap(), &new_res).get("Self"), Some(&self_ref), "{}: the copy's /PieceInfo /Self is the copy", w);
                let note = dict_of(copy.get("PieceInfo").unwrap(), &new_res).get("Note").unwrap().clone();
                assert!(matches!(note, Primitive::Reference(_)), "{}: the annotation is an indirect object", w);
                assert_eq!(dict_of(&note, &new_res).get("P"), Some(&self_ref), "{}: the annotation's /P is the copy of the page", w);
                let annots = copy.get("Annots").unwrap().clone().resolve(&new_res).unwrap().into_array().unwrap();
                assert_eq!(annots, vec![note.clone()], "{}: the copy's /Annots holds the same annotation", w);
                let kids = dict_of(copy.get("Parent").unwrap(), &new_res).get("Kids").unwrap().clone().resolve(&new_res).unwrap().into_array().unwrap();
                assert!(kids.contains(&self_ref), "{}: the copy's /Parent lists the copy", w);
            }
            (x, y) => panic!("{}: /PieceInfo {:?} became {:?}", w, x, y),
        }
    }
    iso.copied_once(&what);
    // copied once, across pages: the shared font is one object of the new document
    let fonts: Vec<PlainRef> = iso.fwd.iter().filter(|(o, _)| o.id == 7).map(|(_, n)| *n).collect();
    assert_eq!(fonts.len(), 1, "{}: the shared font is one indirect object of the new document", what);
}

fn selections() -> Vec<Vec<usize>> {
    let mut out = Vec::new();
    for a in 0..3 {
        out.push(vec![a]);
        for b in 0..3 {
            if b == a { continue; }
            out.push(vec![a, b]);
            for c in 0..3 { if c != a && c != b { out.push(vec![a, b, c]); } }
        }
    }
    out
}

#[test]
fn the_source_is_as_described() {
    let old = FileOptions::cached().load(source()).expect("source loads");
    assert_eq!(old.num_pages(), 3);
    assert_eq!(old.get_page(2).unwrap().rotate, 90);
    assert_eq!(rect(old.get_page(2).unwrap().crop_box().unwrap()), [5., 6., 290., 390.]);
    assert_eq!(selections().len(), 15);
}

#[test]
fn two_pages_sharing_font_xobject_extgstate() { import_and_check(&[0, 1]); }

#[test]
fn rotated_page_with_boxes_and_cycles() { import_and_check(&[2]); }

#[test]
fn every_ordered_selection_of_the_three_pages() {
    for s in selections() { import_and_check(&s); }
}
