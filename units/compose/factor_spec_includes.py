#!/usr/bin/env python3
"""Cut the spec text of units primser / parser_obj into include files (byte-identical assembled output).
usage: factor.py <units dir>      (e.g. /tmp/u10_units or /verif/units)
Each piece = an exact line range of unit.rs, written WITHOUT trailing newline to <unit>/spec/<name>.rs and replaced
by one `//@@ INCLUDE <unit>/spec/<name>.rs` line."""
import hashlib, os, sys

ROOT = sys.argv[1]
PLAN = {
 'primser': ('1cb34ed994597082ff7e4402087629a402c5316854cd1a17bc68731bf09b6427', [
    ('w0_env_types', 20, 39),
    ('w1_lit_hexdig', 58, 60),
    ('w2_spell', 62, 260),
 ]),
 'parser_obj': ('04d54ed68b8cb7298ec59fa9c18684ac0fc28267319c325e9331a7677a7cfde7', [
    ('r00_ascii', 159, 160),
    ('r01_tokens', 191, 362),
    ('r02_numbers', 421, 456),
    ('r03_fromdec', 462, 477),
    ('r04_lit_step', 556, 624),
    ('r05_hex_step', 643, 680),
    ('r06_val', 721, 735),
    ('r07_arr_prepend', 765, 778),
    ('r08_str_lemmas', 788, 798),
    ('r09_ctx_env', 803, 813),
    ('r10_objects', 815, 1201),
    ('r11_indirect', 1207, 1231),
 ]),
 'lexer': ('bb257cac3f748fa9a9e623d229da9bd313fe64d11cb218fec76a09343671cdc1', [
    ('l1_tokens_numbers', 32, 106),
 ]),
 'strlex': ('2028c32b3414c6f21102f4ec01717fb3625112e9ae163145deb7839ed6792bab', [
    ('s1_lit_step', 36, 121),
    ('s2_hex_step', 157, 194),
 ]),
}
for unit, (sha, pieces) in PLAN.items():
    p = os.path.join(ROOT, unit, 'unit.rs')
    data = open(p, encoding='utf-8').read()
    if hashlib.sha256(data.encode()).hexdigest() != sha:
        sys.exit('%s: unit.rs is not the analysed text (sha mismatch) -- not touched' % unit)
    lines = data.split('\n')
    os.makedirs(os.path.join(ROOT, unit, 'spec'), exist_ok=True)
    out = []
    cur = 1
    for name, a, b in pieces:
        out.extend(lines[cur - 1:a - 1])
        body = '\n'.join(lines[a - 1:b])
        with open(os.path.join(ROOT, unit, 'spec', name + '.rs'), 'w', encoding='utf-8') as f:
            f.write(body)
        out.append('//@@ INCLUDE %s/spec/%s.rs' % (unit, name))
        cur = b + 1
    out.extend(lines[cur - 1:])
    tmp = p + '.tmp_factor'
    with open(tmp, 'w', encoding='utf-8') as f:
        f.write('\n'.join(out))
    os.replace(tmp, p)
    print('factored', unit, [n for n, _, _ in pieces])
