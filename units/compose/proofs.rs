// =====================================================================================================
// composition: definitions
// =====================================================================================================
/// the value (in the reader's value domain `rd::Val`) that a writer-side object denotes
pub open spec fn val_of(v: wr::Primitive) -> rd::Val decreases v, 0nat {
    match v {
        wr::Primitive::Null => rd::Val::Null,
        wr::Primitive::Integer(i) => rd::Val::Int(i as int),
        wr::Primitive::Number(n) => rd::Val::Real(wr::spell_real(n)),       // the literal; its value: lemma_real_value
        wr::Primitive::Boolean(b) => rd::Val::Bool(b),
        wr::Primitive::String(s) => rd::Val::Str(s.data@),
        wr::Primitive::Stream(s) => rd::Val::Null,                            // outside the domain (`writable` is false)
        wr::Primitive::Dictionary(d) => rd::Val::Dict(dict_val(d)),
        wr::Primitive::Array(a) => rd::Val::Arr(elems_val(a@, a@.len())),
        wr::Primitive::Reference(r) => rd::Val::Ref(r.id as int, r.gen as int),
        wr::Primitive::Name(s) => rd::Val::Name(encode_utf8(s@)),
    }
}
pub open spec fn elems_val(a: Seq<wr::Primitive>, n: nat) -> Seq<rd::Val> decreases a, n {
    if n == 0 || n > a.len() { Seq::empty() } else { elems_val(a, (n - 1) as nat).push(val_of(a[n - 1])) }
}
pub open spec fn key_bytes(k: wr::Name) -> Seq<u8> { encode_utf8(k.0@) }
/// IndexMap semantics = 7.3.7 as the reader has it: a later duplicate key replaces the earlier value
pub open spec fn entries_val(e: Seq<(wr::Name, wr::Primitive)>, n: nat) -> Map<Seq<u8>, rd::Val> decreases e, n {
    if n == 0 || n > e.len() { Map::empty() } else { entries_val(e, (n - 1) as nat).insert(key_bytes(e[n - 1].0), val_of(e[n - 1].1)) }
}
pub open spec fn dict_val(d: wr::Dictionary) -> Map<Seq<u8>, rd::Val> decreases d, 0nat {
    entries_val(d.dict.entries@, d.dict.entries@.len())
}

/// the domain of the theorem: no stream, finite reals, containers nested at most d deep (d = the reader's depth budget)
pub open spec fn writable(v: wr::Primitive, d: nat) -> bool decreases v, 0nat {
    match v {
        wr::Primitive::Stream(s) => false,
        wr::Primitive::Number(n) => wr::f32_finite(n),
        wr::Primitive::Dictionary(dd) => d > 0 && dict_writable(dd, (d - 1) as nat),
        wr::Primitive::Array(a) => d > 0 && elems_writable(a@, a@.len(), (d - 1) as nat),
        _ => true,
    }
}
pub open spec fn elems_writable(a: Seq<wr::Primitive>, n: nat, d: nat) -> bool decreases a, n {
    if n == 0 || n > a.len() { true } else { elems_writable(a, (n - 1) as nat, d) && writable(a[n - 1], d) }
}
pub open spec fn entries_writable(e: Seq<(wr::Name, wr::Primitive)>, n: nat, d: nat) -> bool decreases e, n {
    if n == 0 || n > e.len() { true } else { entries_writable(e, (n - 1) as nat, d) && writable(e[n - 1].1, d) }
}
pub open spec fn dict_writable(dd: wr::Dictionary, d: nat) -> bool decreases dd, 0nat {
    entries_writable(dd.dict.entries@, dd.dict.entries@.len(), d)
}

/// the bytes s stand at position p of buf
pub open spec fn placed(buf: Seq<u8>, p: int, s: Seq<u8>) -> bool {
    0 <= p && p + s.len() <= buf.len() && buf.subrange(p, p + s.len()) == s
}
/// a token that ends at q ends there whatever it is: end of data, white-space or a delimiter follows (7.2.2)
pub open spec fn boundary(buf: Seq<u8>, q: int) -> bool { q == buf.len() || (0 <= q < buf.len() && !rd::is_reg(buf[q])) }
pub open spec fn word_at(buf: Seq<u8>, t: (int, int)) -> Seq<u8> { buf.subrange(t.0, t.1) }
/// what may start at q behind an object so that the object is read as written: not the keyword `stream` (7.3.8: a
/// dictionary followed by it is a stream), not `R`, not `<int> R` (7.3.10: integers followed by them are a reference)
pub open spec fn starts_ok(buf: Seq<u8>, q: int) -> bool {
    &&& match rd::tok(buf, q) { None => true, Some(t) => word_at(buf, t) != rd::K_STREAM() && word_at(buf, t) != rd::K_R() }
    &&& rd::ref_tail(buf, q) is None
}
pub open spec fn follow_ok(buf: Seq<u8>, q: int) -> bool { boundary(buf, q) && starts_ok(buf, q) }
/// strings are not decrypted: no context, or a context without decoder (an unencrypted file)
pub open spec fn no_decoder(e: rd::Env) -> bool { match e.ctx { None => true, Some(c) => c.dec is None } }
/// white-space written behind the last token of the spelling (`>>` + SEP_DICT_CLOSE)
pub open spec fn trail(v: wr::Primitive) -> int { if v is Dictionary { wr::SEP_DICT_CLOSE().len() as int } else { 0 } }

/// TRUSTED bridge between the two units' uninterpreted symbols (hypothesis of every theorem, never assumed):
/// the UTF-8 encoding of a `str` is well-formed UTF-8 (`std::str::from_utf8` accepts what `str::as_bytes` yields)
pub open spec fn bridge_utf8() -> bool { forall|s: Seq<char>| rd::utf8_ok(#[trigger] encode_utf8(s)) }
pub open spec fn hyp() -> bool {
    &&& bridge_utf8()
    &&& wr::display_req()                 // units/primser: the requirement on `Display for f32` (trusted there, restated)
    &&& !DEV_DICT_KEY_RAW() && !DEV_REAL_WITHOUT_PERIOD() && !DEV_NO_SEPARATOR_BEFORE_ENDOBJ()
}

// =====================================================================================================
// sequences and placement
// =====================================================================================================
pub proof fn lemma_placed_at(buf: Seq<u8>, p: int, s: Seq<u8>, i: int)
    requires placed(buf, p, s), 0 <= i < s.len()
    ensures buf[p + i] == s[i]
{ assert(buf.subrange(p, p + s.len())[i] == buf[p + i]); }
pub proof fn lemma_placed_all(buf: Seq<u8>, p: int, s: Seq<u8>)
    requires placed(buf, p, s)
    ensures forall|i: int| 0 <= i < s.len() ==> #[trigger] buf[p + i] == s[i]
{ assert forall|i: int| 0 <= i < s.len() implies #[trigger] buf[p + i] == s[i] by { lemma_placed_at(buf, p, s, i); } }
pub proof fn lemma_placed_cat(buf: Seq<u8>, p: int, x: Seq<u8>, y: Seq<u8>)
    requires placed(buf, p, x + y)
    ensures placed(buf, p, x), placed(buf, p + x.len(), y)
{
    lemma_placed_all(buf, p, x + y);
    assert(buf.subrange(p, p + x.len()) =~= x) by {
        assert forall|i: int| 0 <= i < x.len() implies buf.subrange(p, p + x.len())[i] == x[i] by { assert(buf[p + i] == (x + y)[i]); }
    }
    assert(buf.subrange(p + x.len(), p + x.len() + y.len()) =~= y) by {
        assert forall|i: int| 0 <= i < y.len() implies buf.subrange(p + x.len(), p + x.len() + y.len())[i] == y[i] by { assert(buf[p + (x.len() + i)] == (x + y)[x.len() + i]); }
    }
}
pub proof fn lemma_placed_first(buf: Seq<u8>, p: int, s: Seq<u8>)
    requires placed(buf, p, s), s.len() > 0
    ensures 0 <= p < buf.len(), buf[p] == s[0]
{ lemma_placed_at(buf, p, s, 0); }

// =====================================================================================================
// tokens (7.2): where the next token starts and ends, over rd::tok
// =====================================================================================================
pub proof fn lemma_ws_run(buf: Seq<u8>, p: int, q: int)
    requires 0 <= p <= q <= buf.len(), forall|i: int| p <= i < q ==> rd::is_ws(#[trigger] buf[i])
    ensures rd::ws_end(buf, p) == rd::ws_end(buf, q)
    decreases q - p
{ if p < q { lemma_ws_run(buf, p + 1, q); } }
pub proof fn lemma_reg_run(buf: Seq<u8>, p: int, q: int)
    requires 0 <= p <= q <= buf.len(), forall|i: int| p <= i < q ==> rd::is_reg(#[trigger] buf[i]), boundary(buf, q)
    ensures rd::reg_end(buf, p) == q
    decreases q - p
{ if p < q { lemma_reg_run(buf, p + 1, q); } }
/// white-space in front does not change the next token
pub proof fn lemma_tok_skip(buf: Seq<u8>, p: int, q: int)
    requires 0 <= p <= q <= buf.len(), forall|i: int| p <= i < q ==> rd::is_ws(#[trigger] buf[i])
    ensures rd::tok(buf, p) == rd::tok(buf, q), rd::ref_tail(buf, p) == rd::ref_tail(buf, q), starts_ok(buf, p) == starts_ok(buf, q)
{
    lemma_ws_run(buf, p, q);
    rd::lemma_ws_end(buf, q);
    let w = rd::ws_end(buf, q);
    if w < buf.len() && buf[w] == 37 { rd::lemma_eol_bound(buf, w + 1); }
}
/// a byte that is neither white-space nor `%` starts the next token
pub proof fn lemma_tok_here(buf: Seq<u8>, p: int)
    requires 0 <= p < buf.len(), !rd::is_ws(buf[p]), buf[p] != 37
    ensures rd::token_start(buf, p) == Some(p)
{}
pub open spec fn all_reg(w: Seq<u8>) -> bool { forall|i: int| 0 <= i < w.len() ==> rd::is_reg(#[trigger] w[i]) }
/// a run of regular characters followed by a boundary is one token
pub proof fn lemma_tok_word(buf: Seq<u8>, p: int, w: Seq<u8>)
    requires placed(buf, p, w), w.len() > 0, all_reg(w), boundary(buf, p + w.len())
    ensures rd::tok(buf, p) == Some((p, p + w.len())), word_at(buf, (p, p + w.len())) == w
{
    lemma_placed_all(buf, p, w);
    assert(buf[p + 0] == w[0]);
    assert forall|i: int| p <= i < p + w.len() implies rd::is_reg(#[trigger] buf[i]) by { assert(buf[p + (i - p)] == w[i - p]); }
    lemma_tok_here(buf, p);
    lemma_reg_run(buf, p, p + w.len());
}
/// SOLIDUS + a run of regular characters followed by a boundary is one token
pub proof fn lemma_tok_name(buf: Seq<u8>, p: int, w: Seq<u8>)
    requires placed(buf, p, w), w.len() > 0, w[0] == 47, all_reg(w.subrange(1, w.len() as int)), boundary(buf, p + w.len())
    ensures rd::tok(buf, p) == Some((p, p + w.len())), word_at(buf, (p, p + w.len())) == w
{
    lemma_placed_all(buf, p, w);
    assert(buf[p + 0] == w[0]);
    let t = w.subrange(1, w.len() as int);
    assert forall|i: int| p + 1 <= i < p + w.len() implies rd::is_reg(#[trigger] buf[i]) by { assert(buf[p + (i - p)] == w[i - p]); assert(t[i - p - 1] == w[i - p]); }
    lemma_tok_here(buf, p);
    lemma_reg_run(buf, p + 1, p + w.len());
}
/// the one- and two-byte delimiter tokens
pub proof fn lemma_tok_delim(buf: Seq<u8>, p: int)
    requires 0 <= p < buf.len()
    ensures (buf[p] == 91 || buf[p] == 93 || buf[p] == 40) ==> rd::tok(buf, p) == Some((p, p + 1)),
        (buf[p] == 60 && !(p + 1 < buf.len() && buf[p + 1] == 60)) ==> rd::tok(buf, p) == Some((p, p + 1)),
        (buf[p] == 60 && p + 1 < buf.len() && buf[p + 1] == 60) ==> rd::tok(buf, p) == Some((p, p + 2)),
        (buf[p] == 62 && p + 1 < buf.len() && buf[p + 1] == 62) ==> rd::tok(buf, p) == Some((p, p + 2)),
{}
/// a token whose first byte is none of digit, sign, PERIOD is not a number
pub proof fn lemma_not_number(w: Seq<u8>)
    requires w.len() > 0, !(rd::digit(w[0]) || w[0] == 46 || w[0] == 45 || w[0] == 43)
    ensures !rd::is_int_lit(w), !rd::is_real_iso(w)
{
    rd::b_real_first(w); rd::lemma_real_iso_is_lit(w); rd::lemma_int_is_real_iso(w);
}
pub proof fn lemma_kw_bytes()
    ensures wr::KW_NULL() == rd::K_NULL(), wr::KW_TRUE() == rd::K_TRUE(), wr::KW_FALSE() == rd::K_FALSE(), wr::KW_R() == rd::K_R(),
        wr::KW_OBJ() == rd::K_OBJ(), wr::KW_ENDOBJ() == rd::K_ENDOBJ(), wr::ARRAY_OPEN() == rd::K_LBRACK(), wr::ARRAY_CLOSE() == rd::K_RBRACK(),
        wr::DICT_OPEN() == rd::K_LTLT(), wr::DICT_CLOSE() == rd::K_GTGT(),
        rd::K_STREAM()[0] == 115, rd::K_R()[0] == 82, rd::K_LTLT()[0] == 60, rd::K_GTGT()[0] == 62, rd::K_RBRACK()[0] == 93, rd::K_ENDOBJ()[0] == 101,
        all_reg(wr::KW_NULL()), all_reg(wr::KW_TRUE()), all_reg(wr::KW_FALSE()), all_reg(wr::KW_R()), all_reg(wr::KW_OBJ()), all_reg(wr::KW_ENDOBJ()),
{
    reveal(rd::K_NULL); reveal(rd::K_TRUE); reveal(rd::K_FALSE); reveal(rd::K_R); reveal(rd::K_OBJ); reveal(rd::K_ENDOBJ);
    reveal(rd::K_LBRACK); reveal(rd::K_RBRACK); reveal(rd::K_LTLT); reveal(rd::K_GTGT); reveal(rd::K_STREAM);
    assert(wr::KW_NULL() =~= rd::K_NULL()); assert(wr::KW_TRUE() =~= rd::K_TRUE()); assert(wr::KW_FALSE() =~= rd::K_FALSE());
    assert(wr::KW_R() =~= rd::K_R()); assert(wr::KW_OBJ() =~= rd::K_OBJ()); assert(wr::KW_ENDOBJ() =~= rd::K_ENDOBJ());
    assert(wr::ARRAY_OPEN() =~= rd::K_LBRACK()); assert(wr::ARRAY_CLOSE() =~= rd::K_RBRACK());
    assert(wr::DICT_OPEN() =~= rd::K_LTLT()); assert(wr::DICT_CLOSE() =~= rd::K_GTGT());
}
/// a first token that is no integer and neither `stream` nor `R` may start behind any object
pub proof fn lemma_starts_ok_nonint(buf: Seq<u8>, p: int, t: (int, int))
    requires rd::tok(buf, p) == Some(t), !rd::is_int_lit(word_at(buf, t)), word_at(buf, t) != rd::K_STREAM(), word_at(buf, t) != rd::K_R()
    ensures starts_ok(buf, p)
{}

// =====================================================================================================
// leaf values
// =====================================================================================================

// ---- 7.3.3 integers: the decimal spelling reads back ----
pub proof fn lemma_dec_digits(n: nat)
    ensures rd::dec_digits(wr::dec_digits(n)) == Some(n), wr::dec_digits(n).len() > 0, rd::all_digits(wr::dec_digits(n)), all_reg(wr::dec_digits(n)),
    decreases n
{
    let s = wr::dec_digits(n);
    if n >= 10 {
        lemma_dec_digits(n / 10);
        let h = wr::dec_digits(n / 10);
        assert(s.drop_last() =~= h);
        assert(s.last() == (48 + n % 10) as u8);
        assert forall|i: int| 0 <= i < s.len() implies rd::digit(#[trigger] s[i]) && rd::is_reg(s[i]) by { if i < h.len() { assert(s[i] == h[i]); } }
    }
}
pub proof fn lemma_dec_int(i: int)
    ensures rd::dec_signed(wr::dec_int(i)) == Some(i), rd::is_int_lit(wr::dec_int(i)), all_reg(wr::dec_int(i)), wr::dec_int(i).len() > 0,
        rd::digit(wr::dec_int(i)[0]) || wr::dec_int(i)[0] == 45,
        i >= 0 ==> rd::dec_unsigned(wr::dec_int(i)) == Some(i),
{
    let w = wr::dec_int(i);
    if i < 0 {
        let h = wr::dec_digits((-i) as nat);
        lemma_dec_digits((-i) as nat);
        assert(w.subrange(1, w.len() as int) =~= h);
        assert forall|k: int| 0 <= k < w.len() implies rd::is_reg(#[trigger] w[k]) by { if k > 0 { assert(w[k] == h[k - 1]); } }
    } else {
        lemma_dec_digits(i as nat);
        assert(w.subrange(0, w.len() as int) =~= w);
        assert(rd::digit(w[0]));
    }
}


// ---- 7.3.5 names: `#xx` escapes decode to the bytes written ----
pub proof fn lemma_hexdig(n: int)
    requires 0 <= n < 16
    ensures rd::hexval(wr::hexdig(n)) == Some(n as u8), rd::is_reg(wr::hexdig(n)), wr::hexdig(n) != 35, wr::hexdig(n) != 62, !rd::hex_ws(wr::hexdig(n)),
{}
pub proof fn lemma_name_byte(b: u8, t: Seq<u8>)
    ensures all_reg(wr::name_byte(b)), wr::name_byte(b).len() > 0,
        rd::name_dec(wr::name_byte(b) + t) == rd::opt_prepend(seq![b], rd::name_dec(t)),
{
    let nb = wr::name_byte(b);
    lemma_hexdig(b as int / 16); lemma_hexdig(b as int % 16);
    let s = nb + t;
    reveal_with_fuel(rd::name_dec, 2);
    if wr::name_plain(b) {
        assert(s[0] == b);
        assert(s.subrange(1, s.len() as int) =~= t);
    } else {
        assert(s[0] == 35 && s[1] == wr::hexdig(b as int / 16) && s[2] == wr::hexdig(b as int % 16));
        assert(s.subrange(3, s.len() as int) =~= t);
        assert(((b as int / 16) as u8 * 16 + (b as int % 16) as u8) as u8 == b);
    }
}
pub proof fn lemma_name_body(d: Seq<u8>, t: Seq<u8>)
    ensures rd::name_dec(wr::name_body(d) + t) == rd::opt_prepend(d, rd::name_dec(t)), all_reg(wr::name_body(d)),
    decreases d.len()
{
    if d.len() == 0 {
        assert(wr::name_body(d) + t =~= t);
        match rd::name_dec(t) { Some(x) => { assert(d + x =~= x); }, None => {} }
    } else {
        let h = d.drop_last(); let b = d.last();
        let nb = wr::name_byte(b);
        lemma_name_byte(b, t);
        lemma_name_body(h, nb + t);
        assert(wr::name_body(d) + t =~= wr::name_body(h) + (nb + t));
        match rd::name_dec(t) { Some(x) => { assert(h + (seq![b] + x) =~= d + x); }, None => {} }
        let s = wr::name_body(d);
        assert forall|i: int| 0 <= i < s.len() implies rd::is_reg(#[trigger] s[i]) by {
            if i < wr::name_body(h).len() { assert(s[i] == wr::name_body(h)[i]); } else { assert(s[i] == nb[i - wr::name_body(h).len()]); }
        }
    }
}
/// the name token `/...` for the UTF-8 bytes d reads back as d
pub proof fn lemma_name_token(buf: Seq<u8>, p: int, d: Seq<u8>)
    requires placed(buf, p, seq![47u8] + wr::name_body(d)), boundary(buf, p + 1 + wr::name_body(d).len())
    ensures ({ let t = (p, p + 1 + wr::name_body(d).len()); let w = word_at(buf, t);
        rd::tok(buf, p) == Some(t) && w.len() > 0 && w[0] == 47 && rd::name_dec(w.subrange(1, w.len() as int)) == Some(d) })
{
    let w = seq![47u8] + wr::name_body(d);
    lemma_name_body(d, Seq::<u8>::empty());
    assert(wr::name_body(d) + Seq::<u8>::empty() =~= wr::name_body(d));
    assert(w.subrange(1, w.len() as int) =~= wr::name_body(d));
    lemma_tok_name(buf, p, w);
    reveal_with_fuel(rd::name_dec, 1);
    assert(d + Seq::<u8>::empty() =~= d);
}

// =====================================================================================================
// white-space in front of an object / the rest of an array / the rest of a dictionary
// =====================================================================================================
pub proof fn lemma_obj_skip<R: rd::Resolve>(r: &R, e: rd::Env, p0: int, p: int, d: nat)
    requires 0 <= p0 <= p <= e.buf.len(), forall|i: int| p0 <= i < p ==> rd::is_ws(#[trigger] e.buf[i])
    ensures rd::obj_at(r, e, p0, d) == rd::obj_at(r, e, p, d)
{
    lemma_tok_skip(e.buf, p0, p);
    rd::lemma_tok(e.buf, p);
    rd::lemma_obj_unfold(r, e, p0, d); rd::lemma_obj_unfold(r, e, p, d);
}
pub proof fn lemma_arr_skip<R: rd::Resolve>(r: &R, e: rd::Env, p0: int, p: int, d: nat)
    requires 0 <= p0 <= p <= e.buf.len(), forall|i: int| p0 <= i < p ==> rd::is_ws(#[trigger] e.buf[i]), rd::arr_at(r, e, p, d) is Some
    ensures rd::arr_at(r, e, p0, d) == rd::arr_at(r, e, p, d)
{
    lemma_tok_skip(e.buf, p0, p);
    lemma_obj_skip(r, e, p0, p, d);
    rd::lemma_arr_unfold(r, e, p0, d); rd::lemma_arr_unfold(r, e, p, d);
}
pub proof fn lemma_dict_skip<R: rd::Resolve>(r: &R, e: rd::Env, p0: int, p: int, d: nat, acc: Map<Seq<u8>, rd::Val>)
    requires 0 <= p0 <= p <= e.buf.len(), forall|i: int| p0 <= i < p ==> rd::is_ws(#[trigger] e.buf[i])
    ensures rd::dict_at(r, e, p0, d, acc) == rd::dict_at(r, e, p, d, acc)
{
    lemma_tok_skip(e.buf, p0, p);
    rd::lemma_tok(e.buf, p);
    rd::lemma_dict_unfold(r, e, p0, d, acc); rd::lemma_dict_unfold(r, e, p, d, acc);
}
/// the bytes of a white-space separator standing at p are white-space
pub proof fn lemma_sep_ws(buf: Seq<u8>, p: int, sep: Seq<u8>)
    requires placed(buf, p, sep), wr::all_ws(sep)
    ensures forall|i: int| p <= i < p + sep.len() ==> rd::is_ws(#[trigger] buf[i])
{
    lemma_placed_all(buf, p, sep);
    assert forall|i: int| p <= i < p + sep.len() implies rd::is_ws(#[trigger] buf[i]) by { assert(buf[p + (i - p)] == sep[i - p]); assert(wr::is_ws(sep[i - p])); }
}

// =====================================================================================================
// layout of the elements of an array / the entries of a dictionary inside the spelling
// =====================================================================================================
pub open spec fn elem_start(a: Seq<wr::Primitive>, i: nat) -> int {
    if i == 0 { 0 } else { (wr::spell_elems(a, i).len() + wr::SEP_ELEM().len()) as int }
}
pub proof fn lemma_elems_layout(buf: Seq<u8>, pa: int, a: Seq<wr::Primitive>, n: nat, i: nat)
    requires placed(buf, pa, wr::spell_elems(a, n)), i < n <= a.len()
    ensures placed(buf, pa + elem_start(a, i), wr::spell(a[i as int])),
        i > 0 ==> placed(buf, pa + wr::spell_elems(a, i).len(), wr::SEP_ELEM()),
        wr::spell_elems(a, (i + 1) as nat).len() == elem_start(a, i) + wr::spell(a[i as int]).len(),
        wr::spell_elems(a, (i + 1) as nat).len() <= wr::spell_elems(a, n).len(),
    decreases n - i
{
    if n == i + 1 {
        if i > 0 {
            assert(wr::spell_elems(a, n) == wr::spell_elems(a, i) + wr::SEP_ELEM() + wr::spell(a[i as int]));
            lemma_placed_cat(buf, pa, wr::spell_elems(a, i) + wr::SEP_ELEM(), wr::spell(a[i as int]));
            lemma_placed_cat(buf, pa, wr::spell_elems(a, i), wr::SEP_ELEM());
        }
    } else {
        assert(wr::spell_elems(a, n) == wr::spell_elems(a, (n - 1) as nat) + wr::SEP_ELEM() + wr::spell(a[n - 1]));
        lemma_placed_cat(buf, pa, wr::spell_elems(a, (n - 1) as nat) + wr::SEP_ELEM(), wr::spell(a[n - 1]));
        lemma_placed_cat(buf, pa, wr::spell_elems(a, (n - 1) as nat), wr::SEP_ELEM());
        lemma_elems_layout(buf, pa, a, (n - 1) as nat, i);
    }
}
pub proof fn lemma_entries_layout(buf: Seq<u8>, pb: int, en: Seq<(wr::Name, wr::Primitive)>, n: nat, j: nat)
    requires placed(buf, pb, wr::spell_entries(en, n)), j < n <= en.len()
    ensures ({
        let q = pb + wr::spell_entries(en, j).len(); let k = wr::spell_key(en[j as int].0); let x = wr::spell(en[j as int].1);
        &&& placed(buf, q, k) && placed(buf, q + k.len(), wr::SEP_KEY()) && placed(buf, q + k.len() + wr::SEP_KEY().len(), x)
        &&& placed(buf, q + k.len() + wr::SEP_KEY().len() + x.len(), wr::SEP_ENTRY())
        &&& wr::spell_entries(en, (j + 1) as nat).len() == wr::spell_entries(en, j).len() + k.len() + wr::SEP_KEY().len() + x.len() + wr::SEP_ENTRY().len()
        &&& wr::spell_entries(en, (j + 1) as nat).len() <= wr::spell_entries(en, n).len()
    }),
    decreases n - j
{
    let m = (n - 1) as nat;
    let k = wr::spell_key(en[n - 1].0); let x = wr::spell(en[n - 1].1);
    assert(wr::spell_entries(en, n) == wr::spell_entries(en, m) + k + wr::SEP_KEY() + x + wr::SEP_ENTRY());
    lemma_placed_cat(buf, pb, wr::spell_entries(en, m) + k + wr::SEP_KEY() + x, wr::SEP_ENTRY());
    lemma_placed_cat(buf, pb, wr::spell_entries(en, m) + k + wr::SEP_KEY(), x);
    lemma_placed_cat(buf, pb, wr::spell_entries(en, m) + k, wr::SEP_KEY());
    lemma_placed_cat(buf, pb, wr::spell_entries(en, m), k);
    if n > j + 1 { lemma_entries_layout(buf, pb, en, m, j); }
}
pub proof fn lemma_elems_val(a: Seq<wr::Primitive>, n: nat, i: int)
    requires n <= a.len()
    ensures elems_val(a, n).len() == n, 0 <= i < n ==> elems_val(a, n)[i] == val_of(a[i])
    decreases n
{ if n > 0 { lemma_elems_val(a, (n - 1) as nat, i); } }
pub proof fn lemma_elems_writable(a: Seq<wr::Primitive>, n: nat, d: nat, i: int)
    requires elems_writable(a, n, d), 0 <= i < n <= a.len()
    ensures writable(a[i], d)
    decreases n
{ if i < n - 1 { lemma_elems_writable(a, (n - 1) as nat, d, i); } }
pub proof fn lemma_entries_writable(en: Seq<(wr::Name, wr::Primitive)>, n: nat, d: nat, j: int)
    requires entries_writable(en, n, d), 0 <= j < n <= en.len()
    ensures writable(en[j].1, d)
    decreases n
{ if j < n - 1 { lemma_entries_writable(en, (n - 1) as nat, d, j); } }

/// the first byte of a spelling: never white-space, `%`, `]`, `>`
pub open spec fn first_ok(b: u8) -> bool {
    rd::digit(b) || b == 45 || b == 110 || b == 116 || b == 102 || b == 40 || b == 60 || b == 91 || b == 47
}
pub proof fn lemma_first_byte(v: wr::Primitive, d: nat)
    requires hyp(), writable(v, d)
    ensures wr::spell(v).len() > 0, first_ok(wr::spell(v)[0])
{
    match v {
        wr::Primitive::Integer(i) => { lemma_dec_int(i as int); }
        wr::Primitive::Reference(r) => { lemma_dec_int(r.id as int); }
        wr::Primitive::Number(n) => { let t = wr::f32_display(n); assert(wr::is_plain_decimal(t)); }
        _ => {}
    }
}

// =====================================================================================================
// 7.3.3 reals, relative to the requirement on `Display for f32` that units/primser states (wr::display_req, trusted there)
// =====================================================================================================
/// the spelling of a finite real is `[-] d+ . d+`: a real literal in the ISO-exact reading, and not an integer literal
pub proof fn lemma_real_shape(n: f32)
    requires wr::display_req(), wr::f32_finite(n), !DEV_REAL_WITHOUT_PERIOD()
    ensures ({ let w = wr::spell_real(n); w.len() > 0 && all_reg(w) && rd::is_real_iso(w) && !rd::is_int_lit(w) && (rd::digit(w[0]) || w[0] == 45) })
{
    let t = wr::f32_display(n);
    let w = wr::spell_real(n);
    assert(wr::is_plain_decimal(t));
    let k: int = if t.len() > 0 && t[0] == 45 { 1 } else { 0 };
    assert(w == wr::with_period(t));
    assert(rd::sign_len(w) == k) by { assert(w[0] == t[0]); }
    let u = w.subrange(k, w.len() as int);
    // position of the PERIOD in w
    let j: int = if wr::has_period(t) { choose|i: int| 0 <= i < t.len() && #[trigger] t[i] == 46 } else { t.len() as int };
    assert(k < j < w.len() && w[j] == 46) by { if k == 1 { assert(t[0] == 45); } assert(wr::is_digit(t[k])); }
    assert forall|i: int| k <= i < w.len() && i != j implies rd::digit(#[trigger] w[i]) by {
        if i < t.len() {
            assert(w[i] == t[i]);
            assert(wr::is_digit(t[i]) || t[i] == 46);
            if wr::has_period(t) { if i < j { assert(!(t[i] == 46 && t[j] == 46)); } else { assert(!(t[j] == 46 && t[i] == 46)); } }
        }
    }
    assert(u[j - k] == 46);
    assert(rd::all_digits(u.subrange(0, j - k))) by { assert forall|i: int| 0 <= i < j - k implies rd::digit(#[trigger] u.subrange(0, j - k)[i]) by { assert(rd::digit(w[k + i])); } }
    assert(rd::all_digits(u.subrange(j - k + 1, u.len() as int))) by {
        assert forall|i: int| 0 <= i < u.len() - (j - k + 1) implies rd::digit(#[trigger] u.subrange(j - k + 1, u.len() as int)[i]) by { assert(rd::digit(w[j + 1 + i])); } }
    assert(rd::is_real_iso(w));
    assert(!rd::is_int_lit(w)) by { if rd::is_int_lit(w) { assert(rd::digit(u[j - k])); } }
    assert forall|i: int| 0 <= i < w.len() implies rd::is_reg(#[trigger] w[i]) by { if i >= k && i != j { assert(rd::digit(w[i])); } }
}

// =====================================================================================================
// the composition theorem: structural induction over the value
// =====================================================================================================

// =====================================================================================================
// 7.3.4 strings
// =====================================================================================================
/// bytes standing at p + k of buf stand at k of the tail buf[p..]
pub proof fn lemma_placed_tail(buf: Seq<u8>, p: int, k: int, s: Seq<u8>)
    requires 0 <= p, 0 <= k, placed(buf, p + k, s)
    ensures placed(buf.subrange(p, buf.len() as int), k, s)
{
    let b = buf.subrange(p, buf.len() as int);
    lemma_placed_all(buf, p + k, s);
    assert(b.subrange(k, k + s.len()) =~= s) by {
        assert forall|i: int| 0 <= i < s.len() implies b.subrange(k, k + s.len())[i] == s[i] by { assert(buf[p + k + i] == s[i]); }
    }
}
/// one byte of the value, as the literal form writes it (escaped `\\ \( \) \r`, else itself), is one lexeme
pub proof fn lemma_lit_byte(b: Seq<u8>, q: int, x: u8)
    requires placed(b, q, wr::lit_byte(x))
    ensures rd::lit_str(b, q, 0) == rd::str_prepend(seq![x], rd::lit_str(b, q + wr::lit_byte(x).len(), 0))
{
    rd::lemma_lit_unfold(b, q, 0);
    lemma_placed_all(b, q, wr::lit_byte(x));
    assert(b[q + 0] == wr::lit_byte(x)[0]);
    if wr::lit_byte(x).len() > 1 { assert(b[q + 1] == wr::lit_byte(x)[1]); }
}
pub proof fn lemma_lit_body(b: Seq<u8>, q: int, d: Seq<u8>)
    requires placed(b, q, wr::lit_body(d))
    ensures rd::lit_str(b, q, 0) == rd::str_prepend(d, rd::lit_str(b, q + wr::lit_body(d).len(), 0))
    decreases d.len()
{
    if d.len() == 0 {
        rd::lemma_str_ends(d, 0, rd::lit_str(b, q, 0));
    } else {
        let h = d.drop_last(); let x = d.last();
        lemma_placed_cat(b, q, wr::lit_body(h), wr::lit_byte(x));
        lemma_lit_body(b, q, h);
        let q1 = q + wr::lit_body(h).len();
        lemma_lit_byte(b, q1, x);
        rd::lemma_str_step(h, x, rd::lit_str(b, q1 + wr::lit_byte(x).len(), 0));
        assert(h.push(x) =~= d);
    }
}
pub proof fn lemma_hex_byte(b: Seq<u8>, q: int, x: u8)
    requires placed(b, q, wr::hex_byte(x))
    ensures rd::hex_str(b, q) == rd::str_prepend(seq![x], rd::hex_str(b, q + 2))
{
    rd::lemma_hex_unfold(b, q);
    lemma_placed_all(b, q, wr::hex_byte(x));
    assert(b[q + 0] == wr::hex_byte(x)[0]); assert(b[q + 1] == wr::hex_byte(x)[1]);
    lemma_hexdig(x as int / 16); lemma_hexdig(x as int % 16);
    assert(((x as int / 16) as u8 * 16 + (x as int % 16) as u8) as u8 == x);
}
pub proof fn lemma_hex_body(b: Seq<u8>, q: int, d: Seq<u8>)
    requires placed(b, q, wr::hex_body(d))
    ensures rd::hex_str(b, q) == rd::str_prepend(d, rd::hex_str(b, q + wr::hex_body(d).len())),
        wr::hex_body(d).len() > 0 ==> wr::hex_body(d)[0] != 60,
    decreases d.len()
{
    if d.len() == 0 {
        rd::lemma_str_ends(d, 0, rd::hex_str(b, q));
    } else {
        let h = d.drop_last(); let x = d.last();
        lemma_placed_cat(b, q, wr::hex_body(h), wr::hex_byte(x));
        lemma_hex_body(b, q, h);
        let q1 = q + wr::hex_body(h).len();
        lemma_hex_byte(b, q1, x);
        rd::lemma_str_step(h, x, rd::hex_str(b, q1 + 2));
        assert(h.push(x) =~= d);
        lemma_hexdig(x as int / 16);
    }
}

// =====================================================================================================
// corollaries
// =====================================================================================================
/// nothing at all behind the object is admissible
pub proof fn lemma_follow_ok_at_end(buf: Seq<u8>)
    ensures follow_ok(buf, buf.len() as int)
{}
/// TRUSTED bridge for the VALUE of a real (hypothesis of lemma_real_value only): `str::parse::<f32>` (rd::f32_of) computes the f32
/// nearest to the decimal numeral (wr::f32_of_decimal, the function units/primser's display_req speaks about), and a trailing `.0`
/// does not change the number
pub open spec fn bridge_f32() -> bool {
    forall|t: Seq<u8>| wr::is_plain_decimal(t) ==> rd::f32_of(#[trigger] wr::with_period(t)) == Some(wr::f32_of_decimal(t))
}

// =====================================================================================================
// agreement of the restated token / step functions: helpers
// =====================================================================================================
pub proof fn agree_runs(buf: Seq<u8>, p: int)
    ensures lx::ws_end(buf, p) == rd::ws_end(buf, p), lx::reg_end(buf, p) == rd::reg_end(buf, p), lx::eol_after(buf, p) == rd::eol_after(buf, p)
    decreases buf.len() - p
{ if 0 <= p < buf.len() { agree_runs(buf, p + 1); } }
pub proof fn agree_oct(buf: Seq<u8>, p: int, n: int)
    ensures sx::oct_val(buf, p, n) == rd::oct_val(buf, p, n)
    decreases n
{ if n > 0 { agree_oct(buf, p, n - 1); } }
pub proof fn agree_skip(buf: Seq<u8>, p: int)
    ensures sx::skip_iso(buf, p) == rd::skip(buf, p)
    decreases buf.len() - p
{ if 0 <= p < buf.len() && rd::hex_ws(buf[p]) { agree_skip(buf, p + 1); } }
