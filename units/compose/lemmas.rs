// The theorems of unit `compose` (bodies only: the contracts are injected from unit.py, as for extracted functions).
// Helper lemmas and definitions: proofs.rs.

/// 7.3.2 / 7.3.9: null, true, false
pub proof fn lemma_keyword<R: rd::Resolve>(r: &R, e: rd::Env, p: int, d: nat, v: wr::Primitive)
{
    let w = wr::spell(v);
    lemma_kw_bytes(); rd::lemma_kw_first();
    lemma_tok_word(e.buf, p, w);
    rd::lemma_obj_unfold(r, e, p, d);
    lemma_not_number(w);
    lemma_starts_ok_nonint(e.buf, p, (p, p + w.len()));
}

/// 7.3.3: an integer object
pub proof fn lemma_integer<R: rd::Resolve>(r: &R, e: rd::Env, p: int, d: nat, v: wr::Primitive)
{
    let w = wr::spell(v);
    lemma_kw_bytes(); rd::lemma_kw_first();
    lemma_dec_int(v->Integer_0 as int);
    lemma_tok_word(e.buf, p, w);
    rd::lemma_obj_unfold(r, e, p, d);
}

/// 7.3.10: an indirect reference `id gen R`
pub proof fn lemma_reference<R: rd::Resolve>(r: &R, e: rd::Env, p: int, d: nat, v: wr::Primitive)
{
    let buf = e.buf;
    let id = v->Reference_0.id; let gen = v->Reference_0.gen;
    let w1 = wr::dec_int(id as int); let w2 = wr::dec_int(gen as int); let sp = wr::SEP_REF(); let kr = wr::KW_R();
    lemma_kw_bytes(); rd::lemma_kw_first();
    lemma_dec_int(id as int); lemma_dec_int(gen as int);
    assert(wr::spell(v) == w1 + sp + w2 + sp + kr);
    lemma_placed_cat(buf, p, w1 + sp + w2 + sp, kr);
    lemma_placed_cat(buf, p, w1 + sp + w2, sp);
    lemma_placed_cat(buf, p, w1 + sp, w2);
    lemma_placed_cat(buf, p, w1, sp);
    let p1 = p + w1.len(); let p2 = p1 + sp.len(); let p3 = p2 + w2.len(); let p4 = p3 + sp.len();
    lemma_placed_all(buf, p1, sp); lemma_placed_all(buf, p3, sp);
    assert(buf[p1 + 0] == sp[0]); assert(buf[p3 + 0] == sp[0]);
    lemma_tok_word(buf, p, w1);
    assert forall|i: int| p1 <= i < p2 implies rd::is_ws(#[trigger] buf[i]) by { assert(buf[p1 + (i - p1)] == sp[i - p1]); }
    lemma_tok_skip(buf, p1, p2);
    lemma_tok_word(buf, p2, w2);
    assert forall|i: int| p3 <= i < p4 implies rd::is_ws(#[trigger] buf[i]) by { assert(buf[p3 + (i - p3)] == sp[i - p3]); }
    lemma_tok_skip(buf, p3, p4);
    lemma_tok_word(buf, p4, kr);
    rd::lemma_obj_unfold(r, e, p, d);
    assert(rd::ref_tail(buf, p1) == Some((p2, p3, p4 + kr.len())));
    // starts_ok: the token behind the first integer is an integer, not `R`
    assert(w2 != rd::K_R());
}

/// 7.3.5: a name object
pub proof fn lemma_name<R: rd::Resolve>(r: &R, e: rd::Env, p: int, d: nat, v: wr::Primitive)
{
    let bytes = encode_utf8(v->Name_0@);
    lemma_name_token(e.buf, p, bytes);
    rd::lemma_obj_name(r, e, p, d);
    let t = (p, p + wr::spell(v).len());
    let w = word_at(e.buf, t);
    lemma_kw_bytes(); lemma_not_number(w);
    lemma_starts_ok_nonint(e.buf, p, t);
}

/// 7.3.4: a string object, literal or hexadecimal form
pub proof fn lemma_string<R: rd::Resolve>(r: &R, e: rd::Env, p: int, d: nat, v: wr::Primitive)
{
    let buf = e.buf; let data = v->String_0.data@;
    let b = buf.subrange(p + 1, buf.len() as int);
    lemma_kw_bytes(); rd::lemma_kw_first();
    reveal(rd::K_LPAREN); reveal(rd::K_LT);
    rd::lemma_obj_unfold(r, e, p, d);
    if wr::string_form_is_hex(data) {
        let body = wr::hex_body(data);
        assert(wr::spell(v) == seq![60u8] + body + seq![62u8]);
        lemma_placed_cat(buf, p, seq![60u8] + body, seq![62u8]);
        lemma_placed_cat(buf, p, seq![60u8], body);
        lemma_placed_first(buf, p, seq![60u8]);
        lemma_placed_tail(buf, p + 1, 0, body);
        lemma_placed_tail(buf, p + 1, body.len() as int, seq![62u8]);
        lemma_hex_body(b, 0, data);
        lemma_placed_first(b, body.len() as int, seq![62u8]);
        rd::lemma_hex_unfold(b, body.len() as int);
        rd::lemma_str_ends(data, body.len() as int + 1, None);
        if body.len() > 0 { lemma_placed_first(buf, p + 1, body); } else { lemma_placed_first(buf, p + 1, seq![62u8]); }
        lemma_tok_delim(buf, p);
        assert(word_at(buf, (p, p + 1)) =~= rd::K_LT());
        lemma_not_number(rd::K_LT());
        lemma_starts_ok_nonint(buf, p, (p, p + 1));
    } else {
        let body = wr::lit_body(data);
        assert(wr::spell(v) == seq![40u8] + body + seq![41u8]);
        lemma_placed_cat(buf, p, seq![40u8] + body, seq![41u8]);
        lemma_placed_cat(buf, p, seq![40u8], body);
        lemma_placed_first(buf, p, seq![40u8]);
        lemma_placed_tail(buf, p + 1, 0, body);
        lemma_placed_tail(buf, p + 1, body.len() as int, seq![41u8]);
        lemma_lit_body(b, 0, data);
        lemma_placed_first(b, body.len() as int, seq![41u8]);
        rd::lemma_lit_unfold(b, body.len() as int, 0);
        rd::lemma_str_ends(data, body.len() as int + 1, None);
        lemma_tok_delim(buf, p);
        assert(word_at(buf, (p, p + 1)) =~= rd::K_LPAREN());
        lemma_not_number(rd::K_LPAREN());
        lemma_starts_ok_nonint(buf, p, (p, p + 1));
    }
}

/// 7.3.3: a real object; the denoted value is the literal (its f32: lemma_real_value)
pub proof fn lemma_real<R: rd::Resolve>(r: &R, e: rd::Env, p: int, d: nat, v: wr::Primitive)
{
    let w = wr::spell(v);
    lemma_real_shape(v->Number_0);
    lemma_kw_bytes(); rd::lemma_kw_first();
    lemma_tok_word(e.buf, p, w);
    rd::lemma_obj_unfold(r, e, p, d);
    lemma_starts_ok_nonint(e.buf, p, (p, p + w.len()));
}

/// MAIN: the spelling of a writable value, standing at p and followed by something that `follow_ok` admits, denotes the value
pub proof fn theorem_value_reads_back<R: rd::Resolve>(r: &R, e: rd::Env, p: int, d: nat, v: wr::Primitive)
{
    let buf = e.buf;
    match v {
        wr::Primitive::Null => { lemma_keyword(r, e, p, d, v); }
        wr::Primitive::Boolean(b) => { lemma_keyword(r, e, p, d, v); }
        wr::Primitive::Integer(i) => { lemma_integer(r, e, p, d, v); }
        wr::Primitive::Reference(x) => { lemma_reference(r, e, p, d, v); }
        wr::Primitive::Name(s) => { lemma_name(r, e, p, d, v); }
        wr::Primitive::Number(n) => { lemma_real(r, e, p, d, v); }
        wr::Primitive::String(s) => { lemma_string(r, e, p, d, v); }
        wr::Primitive::Stream(s) => { }
        wr::Primitive::Array(vec) => {
            let a = vec@; let n = a.len(); let body = wr::spell_elems(a, n);
            lemma_kw_bytes(); rd::lemma_kw_first();
            assert(wr::spell(v) == wr::ARRAY_OPEN() + body + wr::ARRAY_CLOSE());
            lemma_placed_cat(buf, p, wr::ARRAY_OPEN() + body, wr::ARRAY_CLOSE());
            lemma_placed_cat(buf, p, wr::ARRAY_OPEN(), body);
            lemma_placed_first(buf, p, wr::ARRAY_OPEN());
            lemma_tok_delim(buf, p);
            assert(word_at(buf, (p, p + 1)) =~= rd::K_LBRACK());
            lemma_array_from(r, e, (d - 1) as nat, a, 0, p + 1);
            rd::lemma_obj_unfold(r, e, p, d);
            lemma_not_number(rd::K_LBRACK());
            assert(elems_val(a, n).subrange(0, n as int) =~= elems_val(a, n)) by { lemma_elems_val(a, n, 0); }
            lemma_starts_ok_nonint(buf, p, (p, p + 1));
        }
        wr::Primitive::Dictionary(dd) => {
            let en = dd.dict.entries@; let n = en.len(); let body = wr::spell_entries(en, n);
            lemma_kw_bytes(); rd::lemma_kw_first();
            let s0 = wr::DICT_OPEN(); let s1 = wr::SEP_DICT_OPEN(); let s3 = wr::DICT_CLOSE(); let s4 = wr::SEP_DICT_CLOSE();
            assert(wr::spell(v) == s0 + s1 + body + s3 + s4);
            lemma_placed_cat(buf, p, s0 + s1 + body + s3, s4);
            lemma_placed_cat(buf, p, s0 + s1 + body, s3);
            lemma_placed_cat(buf, p, s0 + s1, body);
            lemma_placed_cat(buf, p, s0, s1);
            lemma_placed_all(buf, p, s0);
            assert(buf[p + 0] == 60 && buf[p + 1] == 60);
            lemma_tok_delim(buf, p);
            assert(word_at(buf, (p, p + 2)) =~= rd::K_LTLT());
            let pb = p + 2 + s1.len();
            lemma_sep_ws(buf, p + 2, s1);
            lemma_dict_from(r, e, (d - 1) as nat, en, 0, pb);
            lemma_dict_skip(r, e, p + 2, pb, (d - 1) as nat, Map::<Seq<u8>, rd::Val>::empty());
            let close = pb + body.len();
            // what follows `>>`: white-space, then something that is not the keyword `stream`
            lemma_sep_ws(buf, close + 2, s4);
            lemma_tok_skip(buf, close + 2, close + 2 + s4.len());
            rd::lemma_obj_unfold(r, e, p, d);
            lemma_not_number(rd::K_LTLT());
            lemma_starts_ok_nonint(buf, p, (p, p + 2));
        }
    }
}

/// the elements i.. of an array and the closing bracket, read from just behind element i-1 (or behind `[`)
pub proof fn lemma_array_from<R: rd::Resolve>(r: &R, e: rd::Env, d: nat, a: Seq<wr::Primitive>, i: nat, pa: int)
{
    let buf = e.buf; let n = a.len();
    let q = pa + wr::spell_elems(a, i).len(); let close = pa + wr::spell_elems(a, n).len();
    lemma_kw_bytes(); rd::lemma_kw_first();
    lemma_placed_first(buf, close, wr::ARRAY_CLOSE());
    lemma_elems_val(a, n, i as int);
    if i == n {
        lemma_tok_delim(buf, close);
        assert(word_at(buf, (close, close + 1)) =~= rd::K_RBRACK());
        rd::lemma_arr_unfold(r, e, q, d);
        assert(elems_val(a, n).subrange(n as int, n as int) =~= Seq::<rd::Val>::empty());
        lemma_not_number(rd::K_RBRACK());
        lemma_starts_ok_nonint(buf, close, (close, close + 1));
    } else {
        let x = a[i as int]; let sx = wr::spell(x);
        lemma_elems_layout(buf, pa, a, n, i);
        lemma_elems_writable(a, n, d, i as int);
        lemma_first_byte(x, d);
        lemma_array_from(r, e, d, a, (i + 1) as nat, pa);
        let s = pa + elem_start(a, i);           // where element i starts
        let q1 = s + sx.len();                   // == pa + |spell_elems(a, i+1)|
        if i > 0 { lemma_sep_ws(buf, q, wr::SEP_ELEM()); lemma_placed_first(buf, q, wr::SEP_ELEM()); }
        theorem_value_reads_back(r, e, s, d, x);
        lemma_tok_skip(buf, q, s);
        lemma_obj_skip(r, e, q, s, d);
        lemma_placed_first(buf, s, sx);
        lemma_tok_here(buf, s);
        rd::lemma_tok(buf, s);
        let t = rd::tok(buf, s).unwrap();
        assert(word_at(buf, t)[0] == buf[s]);
        lemma_arr_skip(r, e, q1 - trail(x), q1, d);
        rd::lemma_arr_unfold(r, e, q, d);
        let all = elems_val(a, n);
        assert(starts_ok(buf, q));
        assert(rd::obj_at(r, e, q, d) == Some((val_of(x), q1 - trail(x))));
        assert(rd::arr_at(r, e, q1 - trail(x), d) == Some((all.subrange(i as int + 1, n as int), close + 1)));
        assert(word_at(buf, t) != rd::K_RBRACK());
        assert(rd::tok(buf, q) == Some(t));
        assert(seq![val_of(x)] + all.subrange(i as int + 1, n as int) =~= all.subrange(i as int, n as int));
    }
}

/// the entries j.. of a dictionary and the closing `>>`, read from just behind entry j-1 (or behind `<<` and its separator)
pub proof fn lemma_dict_from<R: rd::Resolve>(r: &R, e: rd::Env, d: nat, en: Seq<(wr::Name, wr::Primitive)>, j: nat, pb: int)
{
    let buf = e.buf; let n = en.len();
    let q = pb + wr::spell_entries(en, j).len(); let close = pb + wr::spell_entries(en, n).len();
    lemma_kw_bytes(); rd::lemma_kw_first();
    if j == n {
        lemma_placed_all(buf, close, wr::DICT_CLOSE());
        assert(buf[close + 0] == 62 && buf[close + 1] == 62);
        lemma_tok_delim(buf, close);
        assert(word_at(buf, (close, close + 2)) =~= rd::K_GTGT());
        rd::lemma_dict_unfold(r, e, q, d, entries_val(en, j));
        lemma_not_number(rd::K_GTGT());
        lemma_starts_ok_nonint(buf, close, (close, close + 2));
    } else {
        let key = en[j as int].0; let x = en[j as int].1;
        let sk = wr::spell_key(key); let sx = wr::spell(x); let bytes = key_bytes(key);
        lemma_entries_layout(buf, pb, en, n, j);
        lemma_entries_writable(en, n, d, j as int);
        lemma_dict_from(r, e, d, en, (j + 1) as nat, pb);
        let pk = q + sk.len();                    // end of the key token
        let s = pk + wr::SEP_KEY().len();         // where the value starts
        let q1 = s + sx.len() + wr::SEP_ENTRY().len();
        lemma_sep_ws(buf, pk, wr::SEP_KEY()); lemma_placed_first(buf, pk, wr::SEP_KEY());
        lemma_sep_ws(buf, s + sx.len(), wr::SEP_ENTRY()); lemma_placed_first(buf, s + sx.len(), wr::SEP_ENTRY());
        // the key
        lemma_name_token(buf, q, bytes);
        let t1 = (q, pk); let w = word_at(buf, t1);
        lemma_not_number(w);
        lemma_starts_ok_nonint(buf, q, t1);
        // the value
        lemma_tok_skip(buf, s + sx.len(), q1);
        theorem_value_reads_back(r, e, s, d, x);
        lemma_obj_skip(r, e, pk, s, d);
        // the rest
        assert forall|i: int| s + sx.len() - trail(x) <= i < q1 implies rd::is_ws(#[trigger] buf[i]) by {}
        lemma_dict_skip(r, e, s + sx.len() - trail(x), q1, d, entries_val(en, j).insert(bytes, val_of(x)));
        rd::lemma_dict_unfold(r, e, q, d, entries_val(en, j));
    }
}

/// C04 in its plainest form: the serialiser's output, alone in a buffer, parses back to the value (any context without decoder,
/// any resolver, depth budget d)
pub proof fn theorem_parse_of_serialize<R: rd::Resolve>(r: &R, e: rd::Env, d: nat, v: wr::Primitive)
{
    assert(e.buf.subrange(0, e.buf.len() as int) =~= e.buf);
    lemma_follow_ok_at_end(e.buf);
    theorem_value_reads_back(r, e, 0, d, v);
}

/// the literal that theorem_value_reads_back yields for a real denotes the f32 that was written
pub proof fn lemma_real_value(n: f32)
{
    let t = wr::f32_display(n);
    assert(wr::is_plain_decimal(t) && wr::f32_of_decimal(t) == n);
}

/// 7.3.10 (C04 "indirect-object body", C09/C10 "reload through the parser"): the framed object `id gen obj <v> endobj` that
/// Storage::save writes is read by the indirect-object function as (id gen, v), and the keyword `endobj` follows the value
pub proof fn theorem_indirect_reads_back<R: rd::Resolve>(r: &R, buf: Seq<u8>, base: int, p: int, id: wr::ObjNr, gen: wr::GenNr, v: wr::Primitive)
{
    let w1 = wr::dec_int(id as int); let w2 = wr::dec_int(gen as int); let sp = wr::SEP_REF(); let ko = wr::KW_OBJ(); let so = wr::SEP_OBJ();
    let sv = wr::spell(v); let sb = wr::SEP_BODY(); let ke = wr::KW_ENDOBJ(); let se = wr::SEP_ENDOBJ();
    lemma_kw_bytes(); rd::lemma_kw_first();
    lemma_dec_int(id as int); lemma_dec_int(gen as int);
    assert(wr::spell_indirect(id, gen, v) == (w1 + sp + w2 + sp + ko + so) + sv + (sb + ke + se));
    let all = wr::spell_indirect(id, gen, v);
    assert(all =~= w1 + sp + w2 + sp + ko + so + sv + sb + ke + se);
    lemma_placed_cat(buf, p, w1 + sp + w2 + sp + ko + so + sv + sb + ke, se);
    lemma_placed_cat(buf, p, w1 + sp + w2 + sp + ko + so + sv + sb, ke);
    lemma_placed_cat(buf, p, w1 + sp + w2 + sp + ko + so + sv, sb);
    lemma_placed_cat(buf, p, w1 + sp + w2 + sp + ko + so, sv);
    lemma_placed_cat(buf, p, w1 + sp + w2 + sp + ko, so);
    lemma_placed_cat(buf, p, w1 + sp + w2 + sp, ko);
    lemma_placed_cat(buf, p, w1 + sp + w2, sp);
    lemma_placed_cat(buf, p, w1 + sp, w2);
    lemma_placed_cat(buf, p, w1, sp);
    let p1 = p + w1.len(); let p2 = p1 + sp.len(); let p3 = p2 + w2.len(); let p4 = p3 + sp.len(); let p5 = p4 + ko.len();
    let p6 = p5 + so.len(); let p7 = p6 + sv.len(); let p8 = p7 + sb.len(); let p9 = p8 + ke.len();
    lemma_sep_ws(buf, p1, sp); lemma_placed_first(buf, p1, sp);
    lemma_sep_ws(buf, p3, sp); lemma_placed_first(buf, p3, sp);
    lemma_sep_ws(buf, p5, so); lemma_placed_first(buf, p5, so);
    lemma_sep_ws(buf, p7, sb); lemma_placed_first(buf, p7, sb);
    lemma_placed_first(buf, p9, se);
    lemma_tok_word(buf, p, w1);
    lemma_tok_skip(buf, p1, p2); lemma_tok_word(buf, p2, w2);
    lemma_tok_skip(buf, p3, p4); lemma_tok_word(buf, p4, ko);
    lemma_tok_skip(buf, p7, p8); lemma_tok_word(buf, p8, ke);
    // `endobj` may follow the object
    lemma_not_number(ke);
    lemma_starts_ok_nonint(buf, p8, (p8, p9));
    let pr = rd::PlainRef { id: id, gen: gen };
    let e = rd::Env { buf, base, ctx: Some(rd::CtxV { dec: None, id: pr }) };
    theorem_value_reads_back(r, e, p6, 20, v);
    lemma_obj_skip(r, e, p5, p6, 20);
    // from the end of the value's last token on: white-space, then `endobj`
    assert forall|i: int| p7 - trail(v) <= i < p8 implies rd::is_ws(#[trigger] buf[i]) by {}
    lemma_tok_skip(buf, p7 - trail(v), p8);
}

/// the separator between array elements is what makes `[1 2]` read back: the same two integers written WITHOUT it are the
/// bytes of `[12]`, which denote another value (non-vacuity: the theorem distinguishes spellings)
pub proof fn lemma_array_separator_needed<R: rd::Resolve>(r: &R, e: rd::Env, v1: wr::Primitive, v2: wr::Primitive)
{
    let a1 = v1->Array_0@; let a2 = v2->Array_0@;
    reveal_with_fuel(wr::dec_digits, 2);
    assert(wr::dec_int(12) =~= wr::dec_int(1) + wr::dec_int(2));
    assert(wr::spell_elems(a2, 1) == wr::spell(a2[0]));
    assert(wr::spell(v2) =~= e.buf);
    assert(a2.len() == 1 && a2[0] == wr::Primitive::Integer(12));
    assert(writable(a2[0], 0));
    assert(elems_writable(a2, 0, 0));
    assert(elems_writable(a2, 1, 0));
    theorem_parse_of_serialize(r, e, 1, v2);
    lemma_elems_val(a1, 2, 0); lemma_elems_val(a2, 1, 0);
}

/// NUMBER SIGN must be escaped in a name: the bytes `A#42` written raw after the SOLIDUS denote the two-byte name `AB`
/// (the reader decodes `#42`), while the escaped spelling `A#2342` denotes the four bytes that were meant
pub proof fn lemma_name_hash_must_be_escaped()
{
    reveal_with_fuel(rd::name_dec, 6);
    let raw = seq![65u8, 35u8, 52u8, 50u8];
    assert(raw.subrange(1, 4) =~= seq![35u8, 52u8, 50u8]);
    assert(seq![35u8, 52u8, 50u8].subrange(3, 3) =~= Seq::<u8>::empty());
    assert(seq![66u8] + Seq::<u8>::empty() =~= seq![66u8]);
    assert(seq![65u8] + seq![66u8] =~= seq![65u8, 66u8]);
    assert(rd::name_dec(Seq::<u8>::empty()) == Some(Seq::<u8>::empty()));
    assert(rd::name_dec(seq![35u8, 52u8, 50u8]) == Some(seq![66u8]));
    lemma_name_body(raw, Seq::<u8>::empty());
    assert(wr::name_body(raw) + Seq::<u8>::empty() =~= wr::name_body(raw));
    assert(raw + Seq::<u8>::empty() =~= raw);
}

// =====================================================================================================
// the token / number / string-step functions that unit parser_obj restates are the functions units lexer and strlex prove
// =====================================================================================================
/// 7.2: unit lexer's token function (lx) == the copy parser_obj's object function is written over (rd)
pub proof fn agree_tokens(buf: Seq<u8>, p: int)
{
    agree_runs(buf, p);
    let q = lx::ws_end(buf, p);
    if !(p < 0 || q < p || q >= buf.len()) && buf[q] == 37 {
        agree_runs(buf, q + 1);
        rd::lemma_eol_bound(buf, q + 1);
        match lx::eol_after(buf, q + 1) { Some(e) => { if p < e <= buf.len() { agree_tokens(buf, e); } }, None => {} }
    }
    if 0 <= p < buf.len() { agree_runs(buf, p + 1); }
}
/// 7.3.3: the number grammar
pub proof fn agree_numbers(s: Seq<u8>)
{}
/// 7.3.4.2: unit strlex's literal-string step function (sx) == parser_obj's copy (rd)
pub proof fn agree_lit_step(buf: Seq<u8>, pos: int, nested: int)
{
    if 0 <= pos && pos + 1 < buf.len() && buf[pos] == 0x5C {
        let d = buf[pos + 1];
        if d == 0x0A { agree_lit_step(buf, pos + 2, nested); }
        else if d == 0x0D { agree_lit_step(buf, if pos + 2 < buf.len() && buf[pos + 2] == 0x0A { pos + 3 } else { pos + 2 }, nested); }
        else if sx::is_oct(d) { agree_oct(buf, pos + 1, 1); agree_oct(buf, pos + 1, 2); agree_oct(buf, pos + 1, 3); }
    }
}
/// 7.3.4.3: the hexadecimal-string step function
pub proof fn agree_hex_step(buf: Seq<u8>, pos: int)
{
    agree_skip(buf, pos);
    let p1 = rd::skip(buf, pos);
    agree_skip(buf, p1 + 1);
}
