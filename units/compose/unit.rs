// Unit `compose` (C04; C09/C10 framing corollary): parse(serialize(v)) == v as a theorem over the SPEC functions of
//   units/primser  (writer: the serialisers emit exactly `wr::spell(v)`), and
//   units/parser_obj (reader: the parser returns exactly what `rd::obj_at` denotes).
// The spec text is not copied: it is the include files units/primser/spec/*.rs and units/parser_obj/spec/*.rs, the very
// files the owning units assemble their own proofs from.
use vstd::prelude::*;
use vstd::utf8::*;
use std::sync::Arc;
use std::ops::Range;
verus! {
global size_of usize == 8;

//@@ DEVIATIONS

// =====================================================================================================
// writer side: the spec of units/primser
// =====================================================================================================
pub mod wr {
use vstd::prelude::*;
use vstd::utf8::*;
use std::sync::Arc;
use std::ops::Range;
use super::{DEV_DICT_KEY_RAW, DEV_REAL_WITHOUT_PERIOD, DEV_NO_SEPARATOR_BEFORE_ENDOBJ, TOL_NONFINITE_REAL};
//@@ INCLUDE primser/spec/w0_env_types.rs
//@@ wr struct PdfString
//@@ wr struct PlainRef
//@@ wr struct Name
//@@ wr struct Dictionary
//@@ wr enum StreamInner
//@@ wr struct PdfStream
//@@ wr enum Primitive
//@@ INCLUDE primser/spec/w1_lit_hexdig.rs
//@@ INCLUDE primser/spec/w2_spell.rs
}

// =====================================================================================================
// reader side: the spec of units/parser_obj
// =====================================================================================================
pub mod rd {
use vstd::prelude::*;
use super::{DEV_STREAM_KEYWORD_COMMENT_NOT_SKIPPED, DEV_LONE_DOT_IS_REAL, DEV_REAL_PREFIX_ACCEPTED};
// ---- env (parameters of the spec, restated from units/parser_obj/unit.rs; nothing is proved ABOUT them here) ----
//@@ PDFERROR
pub type ObjNr = u64;
pub type GenNr = u64;
//@@ rd struct PlainRef
#[verifier::external_body]
pub struct Decoder { _p: () }
/// the byte sequence is well-formed UTF-8 (std::str::from_utf8 succeeds)
pub uninterp spec fn utf8_ok(s: Seq<u8>) -> bool;
pub struct ParseFlags { pub bits: u16 }
impl ParseFlags {
    pub const INTEGER: ParseFlags = ParseFlags { bits: 1 };
    pub const STREAM: ParseFlags = ParseFlags { bits: 2 };
    pub const DICT: ParseFlags = ParseFlags { bits: 4 };
    pub const NUMBER: ParseFlags = ParseFlags { bits: 8 };
    pub const NAME: ParseFlags = ParseFlags { bits: 16 };
    pub const ARRAY: ParseFlags = ParseFlags { bits: 32 };
    pub const STRING: ParseFlags = ParseFlags { bits: 64 };
    pub const BOOL: ParseFlags = ParseFlags { bits: 128 };
    pub const NULL: ParseFlags = ParseFlags { bits: 256 };
    pub const REF: ParseFlags = ParseFlags { bits: 512 };
    pub const ANY: ParseFlags = ParseFlags { bits: 1023 };
}
/// stand-in for the reader's `Primitive`: the spec consults it only for the value of a stream's /Length read through a
/// reference (`stream_length`); streams are outside the theorem of this unit
pub enum Primitive { Integer(i32), Other }
/// the resolver (abstract): only its spec function occurs in the object function
pub trait Resolve {
    spec fn resolve_spec(&self, r: PlainRef, flags: ParseFlags, depth: usize) -> Result<Primitive>;
}
pub uninterp spec fn decrypt_spec(d: Decoder, id: PlainRef, data: Seq<u8>) -> Option<Seq<u8>>;
//@@ rd struct Context
// ---- the specification (include files of units/parser_obj, in the order of its unit.rs) ----
//@@ INCLUDE parser_obj/spec/r00_ascii.rs
//@@ INCLUDE parser_obj/spec/r01_tokens.rs
//@@ INCLUDE parser_obj/spec/r02_numbers.rs
//@@ INCLUDE parser_obj/spec/r03_fromdec.rs
//@@ INCLUDE parser_obj/spec/r04_lit_step.rs
//@@ INCLUDE parser_obj/spec/r05_hex_step.rs
//@@ INCLUDE parser_obj/spec/r06_val.rs
//@@ INCLUDE parser_obj/spec/r07_arr_prepend.rs
//@@ INCLUDE parser_obj/spec/r08_str_lemmas.rs
//@@ INCLUDE parser_obj/spec/r09_ctx_env.rs
//@@ INCLUDE parser_obj/spec/r10_objects.rs
//@@ INCLUDE parser_obj/spec/r11_indirect.rs
}

// =====================================================================================================
// the ORIGINAL token / string-step specifications of units/lexer and units/strlex (their own include files): unit
// parser_obj restates them without the repaired deviation switches; `agree_*` (lemmas.rs) prove the two texts denote the
// same functions with every switch in its current position
// =====================================================================================================
pub mod lx {
use vstd::prelude::*;
use super::{DEV_FORMFEED_NOT_WHITESPACE, DEV_COMMENT_EOL_LF_ONLY, DEV_UNTERMINATED_COMMENT_IS_LEXED, DEV_STREAM_KEYWORD_COMMENT_NOT_SKIPPED,
            DEV_NO_PLUS_SIGN, DEV_LONE_DOT_IS_REAL};
//@@ INCLUDE lexer/spec/l1_tokens_numbers.rs
}
pub mod sx {
use vstd::prelude::*;
use super::{DEV_UNKNOWN_ESCAPE_EMITS_NUL, DEV_BARE_CR_KEPT, DEV_BACKSLASH_LF_SWALLOWS_CR, DEV_HEX_NUL_NOT_SKIPPED};
pub use super::rd::{PdfError, Result};
//@@ INCLUDE strlex/spec/s1_lit_step.rs
//@@ INCLUDE strlex/spec/s2_hex_step.rs
}

//@@ INCLUDE compose/proofs.rs

// =====================================================================================================
// the theorems (text: lemmas.rs, contracts: unit.py)
// =====================================================================================================
//@@ lemma_keyword
//@@ lemma_integer
//@@ lemma_reference
//@@ lemma_name
//@@ lemma_string
//@@ lemma_real
//@@ theorem_value_reads_back
//@@ lemma_array_from
//@@ lemma_dict_from
//@@ theorem_parse_of_serialize
//@@ lemma_array_separator_needed
//@@ lemma_name_hash_must_be_escaped
//@@ agree_tokens
//@@ agree_numbers
//@@ agree_lit_step
//@@ agree_hex_step
//@@ lemma_real_value
//@@ theorem_indirect_reads_back
}
fn main(){}
