"""Unit `compose` (C04; C09, C10 for the framed-object corollary): the composition theorem
   parse(serialize(v)) == v   over the spec functions of units primser (writer) and parser_obj (reader).
No executable text of /repo is under contract here: the items are the Primitive / PlainRef / Context declarations (re-extracted with
the item descriptions OF THE OWNING UNITS) and the theorems, whose text lives in lemmas.rs of this directory and goes through the same
renderer as extracted functions (labelled `ensures` = obligation ids, canary twin `ensures false` per theorem)."""
import importlib.util, os
HERE = os.path.dirname(os.path.abspath(__file__))

def _load(unit):
    p = os.path.join(os.path.dirname(HERE), unit, 'unit.py')
    spec = importlib.util.spec_from_file_location('compose_dep_' + unit, p)
    mod = importlib.util.module_from_spec(spec)
    spec.loader.exec_module(mod)
    return mod.UNIT

_W = _load('primser')
_R = _load('parser_obj')
_L = _load('lexer')
_S = _load('strlex')
# the switches of the four specifications: tolerances (always on) as the owning units have them -- incl. parser_obj's mirror of the
# one open finding of unit lexer (DEV_STREAM_KEYWORD_COMMENT_NOT_SKIPPED) --, every other deviation OFF (= the ISO reading that the
# units prove on the current /repo; known_findings.txt lists no deviation of primser / strlex / parser_obj)
_TOLS = {}
for _u in (_W, _R, _L, _S):
    _TOLS.update(_u.get('tolerances', {}))
# a deviation that known_findings.txt switches ON for an owning unit is ON here too (then `hyp()` is false for a writer deviation: the
# canaries are no longer rejected and the unit reports UNDECIDED -- the theorem is not claimed for a deviating writer)
try:
    from vlib import findings as _F
    _fl = _F.load()
    for _n in ('primser', 'parser_obj', 'lexer', 'strlex'):
        for _k in _F.deviations_for(_n, _fl):
            _TOLS.setdefault(_k, 'deviation of units/%s, switched ON by known_findings.txt' % _n)
except ImportError:
    pass
_DEVS = {}
for _u, _n in ((_W, 'primser'), (_L, 'lexer'), (_S, 'strlex'), (_R, 'parser_obj')):
    for _k in _u.get('deviations', {}):
        if _k not in _TOLS:
            _DEVS[_k] = 'switch of units/%s, off' % _n
LEM = os.path.join(HERE, 'lemmas.rs')     # absolute path: read as is by the extractor (os.path.join(REPO, abs) == abs)

def wr(key):
    return dict(_W['items'][key])
def rd(key):
    return dict(_R['items'][key])

LEAF = 'rd::obj_at(r, e, p, d) == Some((val_of(v), p + wr::spell(v).len()))'
def thm(name, requires, ensures, decreases=None, props=('C04',), **kw):
    it = {'kind': 'fn', 'file': LEM, 'container': None, 'name': name, 'props': list(props),
          'requires': requires, 'ensures': ensures, 'decreases': decreases}
    it.update(kw)
    return it

UNIT = {
 'name': 'compose',
 'doc': 'composition theorem: the spelling the serialisers are proved to emit (units primser/serial_leaf) is read back by the object '
        'function the parser is proved to compute (units parser_obj/lexer/strlex) as the same value',
 'rlimit': 20, 'timeout': 900,
 'deviations': _DEVS,
 'tolerances': _TOLS,
 'allowed_assumes': [],
 'items': {
  'wr struct PdfString': wr('struct PdfString'),
  'wr struct PlainRef': wr('struct PlainRef'),
  'wr struct Name': wr('struct Name'),
  'wr struct Dictionary': wr('struct Dictionary'),
  'wr enum StreamInner': wr('enum StreamInner'),
  'wr struct PdfStream': wr('struct PdfStream'),
  'wr enum Primitive': wr('enum Primitive'),
  'rd struct PlainRef': rd('struct PlainRef'),
  'rd struct Context': rd('struct Context'),

  # ---------------- the theorems (text: lemmas.rs) ----------------
  # leaves: one obligation per kind of scalar. END = p + |spell(v)|
  'lemma_keyword': thm('lemma_keyword',
     ['placed(e.buf, p, wr::spell(v))', 'v is Null || v is Boolean', 'boundary(e.buf, p + wr::spell(v).len())'],
     [('keyword_reads_back', LEAF), ('keyword_may_start_behind_object', 'starts_ok(e.buf, p)')]),
  'lemma_integer': thm('lemma_integer',
     ['placed(e.buf, p, wr::spell(v))', 'v is Integer', 'follow_ok(e.buf, p + wr::spell(v).len())'],
     [('integer_reads_back', LEAF), ('integer_may_start_behind_object', 'starts_ok(e.buf, p)')]),
  'lemma_reference': thm('lemma_reference',
     ['placed(e.buf, p, wr::spell(v))', 'v is Reference', 'boundary(e.buf, p + wr::spell(v).len())'],
     [('reference_reads_back', LEAF), ('reference_may_start_behind_object', 'starts_ok(e.buf, p)')]),
  'lemma_name': thm('lemma_name',
     ['bridge_utf8()', 'placed(e.buf, p, wr::spell(v))', 'v is Name', 'boundary(e.buf, p + wr::spell(v).len())'],
     [('name_reads_back', LEAF), ('name_may_start_behind_object', 'starts_ok(e.buf, p)')]),
  'lemma_string': thm('lemma_string',
     ['no_decoder(e)', 'placed(e.buf, p, wr::spell(v))', 'v is String'],
     [('string_reads_back', LEAF), ('string_may_start_behind_object', 'starts_ok(e.buf, p)')]),
  'lemma_real': thm('lemma_real',
     ['wr::display_req()', '!DEV_REAL_WITHOUT_PERIOD()', 'placed(e.buf, p, wr::spell(v))',
      'v matches wr::Primitive::Number(n) && wr::f32_finite(n)', 'boundary(e.buf, p + wr::spell(v).len())'],
     [('real_reads_back', LEAF), ('real_may_start_behind_object', 'starts_ok(e.buf, p)')]),
  # MAIN: structural induction (mutually recursive with the two container lemmas)
  'theorem_value_reads_back': thm('theorem_value_reads_back',
     ['hyp()', 'writable(v, d)', 'no_decoder(e)', 'placed(e.buf, p, wr::spell(v))', 'follow_ok(e.buf, p + wr::spell(v).len())'],
     [('value_reads_back', 'rd::obj_at(r, e, p, d) == Some((val_of(v), p + wr::spell(v).len() - trail(v)))'),
      ('value_may_start_behind_object', 'starts_ok(e.buf, p)'),
      ('value_trailing_white_space', 'forall|i: int| p + wr::spell(v).len() - trail(v) <= i < p + wr::spell(v).len() ==> rd::is_ws(#[trigger] e.buf[i])')],
     decreases='v, 0nat'),
  'lemma_array_from': thm('lemma_array_from',
     ['hyp()', 'no_decoder(e)', 'elems_writable(a, a.len(), d)', 'i <= a.len()',
      'placed(e.buf, pa, wr::spell_elems(a, a.len()))', 'placed(e.buf, pa + wr::spell_elems(a, a.len()).len(), wr::ARRAY_CLOSE())',
      'follow_ok(e.buf, pa + wr::spell_elems(a, a.len()).len() + 1)'],
     [('array_tail_reads_back', 'rd::arr_at(r, e, pa + wr::spell_elems(a, i).len(), d) == Some((elems_val(a, a.len()).subrange(i as int, a.len() as int), pa + wr::spell_elems(a, a.len()).len() + 1))'),
      ('array_tail_may_follow_element', 'starts_ok(e.buf, pa + wr::spell_elems(a, i).len()) && (i > 0 ==> boundary(e.buf, pa + wr::spell_elems(a, i).len()))')],
     decreases='a, a.len() - i'),
  'lemma_dict_from': thm('lemma_dict_from',
     ['hyp()', 'no_decoder(e)', 'entries_writable(en, en.len(), d)', 'j <= en.len()',
      'placed(e.buf, pb, wr::spell_entries(en, en.len()))', 'placed(e.buf, pb + wr::spell_entries(en, en.len()).len(), wr::DICT_CLOSE())'],
     [('dict_tail_reads_back', 'rd::dict_at(r, e, pb + wr::spell_entries(en, j).len(), d, entries_val(en, j)) == Some((entries_val(en, en.len()), pb + wr::spell_entries(en, en.len()).len() + 2))'),
      ('dict_tail_may_follow_value', 'starts_ok(e.buf, pb + wr::spell_entries(en, j).len()) && boundary(e.buf, pb + wr::spell_entries(en, j).len())')],
     decreases='en, en.len() - j'),
  # corollaries
  'theorem_parse_of_serialize': thm('theorem_parse_of_serialize',
     ['hyp()', 'writable(v, d)', 'no_decoder(e)', 'e.buf == wr::spell(v)'],
     [('parse_of_serialize_is_identity', 'rd::obj_at(r, e, 0, d) == Some((val_of(v), wr::spell(v).len() - trail(v)))')]),
  'lemma_array_separator_needed': thm('lemma_array_separator_needed',
     ['hyp()', 'no_decoder(e)',
      'v1 matches wr::Primitive::Array(a1) && a1@ == seq![wr::Primitive::Integer(1), wr::Primitive::Integer(2)]',
      'v2 matches wr::Primitive::Array(a2) && a2@ == seq![wr::Primitive::Integer(12)]',
      'e.buf == wr::ARRAY_OPEN() + wr::spell(wr::Primitive::Integer(1)) + wr::spell(wr::Primitive::Integer(2)) + wr::ARRAY_CLOSE()'],
     [('elements_without_separator_denote_another_value', 'rd::obj_at(r, e, 0, 1) == Some((val_of(v2), 4int)) && val_of(v2) != val_of(v1)')]),
  'lemma_name_hash_must_be_escaped': thm('lemma_name_hash_must_be_escaped', [],
     [('raw_hash_denotes_another_name', 'rd::name_dec(seq![65u8, 35u8, 52u8, 50u8]) == Some(seq![65u8, 66u8])'),
      ('escaped_hash_reads_back', 'rd::name_dec(wr::name_body(seq![65u8, 35u8, 52u8, 50u8])) == Some(seq![65u8, 35u8, 52u8, 50u8])')],
     canary=False),    # no hypothesis: nothing that could be vacuous
  # the spec text parser_obj restates == the spec text units lexer / strlex prove (same functions, switches in their current position)
  'agree_tokens': thm('agree_tokens', [],
     [('token_start_agrees', 'lx::token_start(buf, p) == rd::token_start(buf, p)'),
      ('token_end_agrees', '0 <= p < buf.len() ==> lx::token_end(buf, p) == rd::token_end(buf, p)'),
      ('stream_keyword_agrees', 'lx::stream_kw_pos(buf, p) == rd::stream_kw_pos(buf, p) && lx::stream_data_start(buf, p) == rd::stream_data_start(buf, p)'),
      ('char_classes_agree', 'forall|b: u8| lx::is_ws(b) == rd::is_ws(b) && lx::is_delim(b) == rd::is_delim(b) && lx::is_reg(b) == rd::is_reg(b) && lx::is_eol(b) == rd::is_eol(b)')],
     decreases='buf.len() - p', canary=False),
  'agree_numbers': thm('agree_numbers', [],
     [('number_grammar_agrees', 'lx::is_int_lit(s) == rd::is_int_lit(s) && lx::is_real_lit(s) == rd::is_real_lit(s) && lx::sign_len(s) == rd::sign_len(s)')],
     canary=False),
  'agree_lit_step': thm('agree_lit_step', [],
     [('lit_step_agrees', '({ let a = sx::lit_step(buf, pos, nested); let b = rd::lit_step(buf, pos, nested); '
                          'a.eof == b.eof && a.trunc == b.trunc && a.out == b.out && a.pos == b.pos && a.nested == b.nested })'),
      ('depth_limit_agrees', 'forall|n: int| sx::depth_fits(n) == rd::depth_fits(n)')],
     decreases='buf.len() - pos', canary=False),
  'agree_hex_step': thm('agree_hex_step', [],
     [('hex_step_agrees', '({ let a = sx::hex_step(buf, pos); let b = rd::hex_step(buf, pos); a.eof == b.eof && a.bad == b.bad && a.out == b.out && a.pos == b.pos })')],
     canary=False),
  'lemma_real_value': thm('lemma_real_value',
     ['wr::display_req()', 'bridge_f32()', 'wr::f32_finite(n)', '!DEV_REAL_WITHOUT_PERIOD()'],
     [('real_literal_denotes_the_value', 'rd::f32_of(wr::spell_real(n)) == Some(n)')]),
  'theorem_indirect_reads_back': thm('theorem_indirect_reads_back',
     ['hyp()', 'writable(v, 20)', 'placed(buf, p, wr::spell_indirect(id, gen, v))'],
     [('indirect_object_reads_back',
       'match rd::indirect_at(r, buf, base, None, p) { None => false, Some(x) => x.0 == (rd::PlainRef { id: id, gen: gen }) && x.1 == val_of(v) '
       '&& rd::is_endobj(buf, x.3) && (match x.3 { Some(t4) => t4.1 == p + wr::spell_indirect(id, gen, v).len() - wr::SEP_ENDOBJ().len(), None => false }) }')],
     props=('C04', 'C09', 'C10')),
 },
}
