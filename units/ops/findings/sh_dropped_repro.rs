// Repro for finding `sh_dropped` (C08, obligation ops/OpBuilder::add/table).
// Drop into a scratch copy of /repo as  pdf/tests/ops_sh_dropped.rs  and run
//   cargo test --offline -p pdf --test ops_sh_dropped
// On the pinned tree both tests FAIL (the `sh` operator is parsed to nothing); with findings/sh_dropped_fix.diff they pass.
use pdf::content::{parse_ops, serialize_ops, Op};
use pdf::object::NoResolve;

#[test]
fn sh_parses_to_shade() {
    let ops = parse_ops(b"/Sh0 sh", &NoResolve).unwrap();
    assert_eq!(ops.len(), 1, "`/Sh0 sh` must parse to [Shade {{ name: Sh0 }}], got {:?}", ops);
    match &ops[0] {
        Op::Shade { name } => assert_eq!(name.as_str(), "Sh0"),
        other => panic!("expected Op::Shade, got {:?}", other),
    }
}

#[test]
fn shade_survives_write_then_parse() {
    let written = serialize_ops(&[Op::Save, Op::Shade { name: "Sh0".into() }, Op::Restore]).unwrap();
    let back = parse_ops(&written, &NoResolve).unwrap();
    assert_eq!(back.len(), 3, "wrote {:?}, read back {:?}", String::from_utf8_lossy(&written), back);
}
