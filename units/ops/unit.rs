// Unit `ops` (C08, parse side): OpBuilder::{add, parse} and the operand helpers of pdf/src/content.rs against the
// operator table of ISO 32000-1 Annex A (table_spec.rs, generated from gen_table.py's transcription).
use vstd::prelude::*;
use std::sync::Arc;
use std::cmp::Ordering;
//@@ INCLUDE _common/error_macros.rs
// R4: pdf/src/primitive.rs `unexpected_primitive!`: same control flow (evaluates to Err(UnexpectedPrimitive{..}));
// `stringify!($expected)` is replaced by a fixed string (payload text, R3)
macro_rules! unexpected_primitive {
    ($expected:ident, $found:expr) => (
        Err(PdfError::UnexpectedPrimitive { expected: "", found: $found })
    )
}
//@@ macro names
//@@ macro numbers
//@@ macro points
verus! {
global size_of usize == 8;

//@@ PDFERROR

// ---------------------------------------------------------------------------------------------------------
// env: opaque types of other modules (never inspected by the functions of this unit)
// ---------------------------------------------------------------------------------------------------------
#[verifier::external_body] pub struct SmallString { p: core::marker::PhantomData<()> }
#[verifier::external_body] pub struct PdfString { p: core::marker::PhantomData<()> }
#[verifier::external_body] pub struct PdfStream { p: core::marker::PhantomData<()> }
#[verifier::external_body] pub struct Dictionary { p: core::marker::PhantomData<()> }
#[verifier::external_body] pub struct PlainRef { p: core::marker::PhantomData<()> }
#[verifier::external_body] pub struct ImageXObject { p: core::marker::PhantomData<()> }
impl SmallString { pub uninterp spec fn view(&self) -> Seq<char>; }

//@@ enum Primitive
//@@ struct Name
//@@ enum RenderingIntent
//@@ enum Winding
//@@ enum LineCap
//@@ enum LineJoin
//@@ struct Point
//@@ struct ViewRect
//@@ struct Matrix
//@@ enum Color
//@@ enum TextMode
//@@ struct Rgb
//@@ struct Cmyk
//@@ enum TextDrawAdjusted
//@@ enum Op
//@@ struct OpBuilder

// ---------------------------------------------------------------------------------------------------------
// spec vocabulary over operands
// ---------------------------------------------------------------------------------------------------------
pub uninterp spec fn i32_as_f32(n: i32) -> f32;        // `n as f32` (opaque: float values are not interpreted)
pub uninterp spec fn neg(x: f32) -> f32;               // `-x`
pub open spec fn is_num(p: Primitive) -> bool { p is Integer || p is Number }
pub open spec fn num_of(p: Primitive) -> f32 {
    match p { Primitive::Integer(n) => i32_as_f32(n), Primitive::Number(f) => f, _ => arbitrary() }
}
pub open spec fn int_of(p: Primitive) -> int { match p { Primitive::Integer(n) => n as int, _ => arbitrary() } }
pub open spec fn name_of(p: Primitive) -> SmallString { match p { Primitive::Name(s) => s, _ => arbitrary() } }
pub open spec fn string_of(p: Primitive) -> PdfString { match p { Primitive::String(s) => s, _ => arbitrary() } }
pub open spec fn arr_of(p: Primitive) -> Seq<Primitive> { match p { Primitive::Array(v) => v@, _ => Seq::empty() } }
pub open spec fn pt_of(a: Seq<Primitive>, i: int) -> Point { Point { x: num_of(a[i]), y: num_of(a[i + 1]) } }
pub open spec fn all_num(s: Seq<Primitive>) -> bool { forall|i: int| 0 <= i < s.len() ==> is_num(#[trigger] s[i]) }
pub open spec fn nums_of(s: Seq<Primitive>) -> Seq<f32> { Seq::new(s.len(), |i: int| num_of(s[i])) }
// TJ: each array element is a string (shown) or a number (position adjustment)
pub open spec fn tj_ok(p: Primitive) -> bool { p is Integer || p is Number || p is String }
pub open spec fn tj_item(p: Primitive) -> TextDrawAdjusted {
    match p {
        Primitive::String(s) => TextDrawAdjusted::Text(s),
        _ => TextDrawAdjusted::Spacing(num_of(p)),
    }
}
pub open spec fn all_tj(s: Seq<Primitive>) -> bool { forall|i: int| 0 <= i < s.len() ==> tj_ok(#[trigger] s[i]) }
pub open spec fn tj_items(s: Seq<Primitive>) -> Seq<TextDrawAdjusted> { Seq::new(s.len(), |i: int| tj_item(s[i])) }
// Table 54 / 55 / 106: integer codes
pub open spec fn linecap_of(n: int) -> LineCap { if n == 0 { LineCap::Butt } else if n == 1 { LineCap::Round } else { LineCap::Square } }
pub open spec fn linejoin_of(n: int) -> LineJoin { if n == 0 { LineJoin::Miter } else if n == 1 { LineJoin::Round } else { LineJoin::Bevel } }
pub open spec fn textmode_of(n: int) -> TextMode {
    if n == 0 { TextMode::Fill } else if n == 1 { TextMode::Stroke } else if n == 2 { TextMode::FillThenStroke }
    else if n == 3 { TextMode::Invisible } else if n == 4 { TextMode::FillAndClip } else { TextMode::StrokeAndClip }
}
// Table 70: rendering intents
pub open spec fn intent_of_str(s: Seq<char>) -> Option<RenderingIntent> {
    if s == "AbsoluteColorimetric"@ { Some(RenderingIntent::AbsoluteColorimetric) }
    else if s == "RelativeColorimetric"@ { Some(RenderingIntent::RelativeColorimetric) }
    else if s == "Saturation"@ { Some(RenderingIntent::Saturation) }
    else if s == "Perceptual"@ { Some(RenderingIntent::Perceptual) }
    else { None }
}
pub open spec fn intent_of(s: SmallString) -> Option<RenderingIntent> { intent_of_str(s.view()) }

// every operation recorded before is still there, at its place
pub open spec fn prefix_kept(before: Seq<Op>, after: Seq<Op>) -> bool {
    after.len() >= before.len() && forall|j: int| 0 <= j < before.len() ==> #[trigger] after[j] == before[j]
}
// the operations appended by a call
pub open spec fn appended(before: Seq<Op>, after: Seq<Op>) -> Seq<Op> {
    Seq::new((after.len() - before.len()) as nat, |j: int| after[before.len() + j])
}
// `out` is exactly the sequence `e` (at most 4 operations per keyword)
pub open spec fn same_ops(out: Seq<Op>, e: Seq<Op>) -> bool {
    out.len() == e.len() && e.len() <= 4
    && (e.len() > 0 ==> out[0] == e[0]) && (e.len() > 1 ==> out[1] == e[1])
    && (e.len() > 2 ==> out[2] == e[2]) && (e.len() > 3 ==> out[3] == e[3])
}

//@@ INCLUDE ops/table_spec.rs

// operands well-formed for the keyword: exactly the operands the table lists, each of the listed kind
pub open spec fn wf_operands(op: Seq<char>, a: Seq<Primitive>, ii: Result<Arc<ImageXObject>>) -> bool {
    group_of(op) != 0 && pre(op, a, ii) && (arity(op) < 0 || a.len() == arity(op))
}
// inputs that must be rejected: a required operand is missing or of the wrong kind; ID / EI outside an image.
// (One case is left unconstrained: `TJ` without any operand, see NOTES.md.)
pub open spec fn must_err(op: Seq<char>, a: Seq<Primitive>, ii: Result<Arc<ImageXObject>>) -> bool {
    group_of(op) != 0 && !pre(op, a, ii) && !(op == "TJ"@ && a.len() == 0)
}
pub open spec fn table_clause(g: int, op: Seq<char>, a: Seq<Primitive>, last: Point, ii: Result<Arc<ImageXObject>>,
                              ok: bool, out: Seq<Op>) -> bool {
    (group_of(op) == g && wf_operands(op, a, ii)) ==> (ok && rel(op, a, last, ii, out))
}

// ---------------------------------------------------------------------------------------------------------
// env: the operand source.  `add` and the helpers take `impl Iterator<Item=Primitive>`; the only iterator any call
// site passes is `buffer.drain(..)` / `Vec::into_iter` (R6): a vector consumed front to back.
// ---------------------------------------------------------------------------------------------------------
pub struct Args { pub v: Vec<Primitive>, pub i: usize }
impl Args {
    pub open spec fn wf(&self) -> bool { self.i <= self.v@.len() }
    pub open spec fn avail(&self) -> int { self.v@.len() - self.i }
    pub open spec fn at(&self, k: int) -> Primitive { self.v@[self.i + k] }
    pub open spec fn rest(&self) -> Seq<Primitive> { self.v@.subrange(self.i as int, self.v@.len() as int) }
    // Iterator::next
    #[verifier::external_body]
    pub fn next(&mut self) -> (r: Option<Primitive>)
        requires old(self).wf()
        ensures final(self).v == old(self).v, final(self).wf(),
            old(self).i < old(self).v@.len() ==> r == Some(old(self).v@[old(self).i as int]) && final(self).i == old(self).i + 1,
            old(self).i >= old(self).v@.len() ==> r is None && final(self).i == old(self).i,
    { unimplemented!() }
    // Iterator::collect::<Vec<_>>
    #[verifier::external_body]
    pub fn collect(self) -> (r: Vec<Primitive>)
        requires self.wf()
        ensures r@ == self.rest()
    { unimplemented!() }
    // Vec::into_iter
    #[verifier::external_body]
    pub fn from_vec(v: Vec<Primitive>) -> (r: Args)
        ensures r.v == v, r.i == 0
    { unimplemented!() }
    // `v.iter().cloned()`: hands out a clone of every element, the vector is untouched (`Primitive: Clone` is derived:
    // a clone is an equal value -- trusted)
    #[verifier::external_body]
    pub fn cloned(buffer: &Vec<Primitive>) -> (r: Args)
        ensures r.v@ == buffer@, r.i == 0
    { unimplemented!() }
    // Vec::drain(..): hands out every element, the vector is empty afterwards
    #[verifier::external_body]
    pub fn drain_all(buffer: &mut Vec<Primitive>) -> (r: Args)
        ensures r.v@ == old(buffer)@, r.i == 0, final(buffer)@.len() == 0
    { unimplemented!() }
}

// ---------------------------------------------------------------------------------------------------------
// env: abstract callees
// ---------------------------------------------------------------------------------------------------------
#[verifier::external_body] pub struct Lexer { p: core::marker::PhantomData<()> }
pub struct ParseOptions { pub allow_invalid_ops: bool }
pub trait Resolve { fn options(&self) -> &ParseOptions; }

pub uninterp spec fn inline_image_spec(l: Lexer) -> (Result<Arc<ImageXObject>>, Lexer);
#[verifier::external_body]
fn inline_image(lexer: &mut Lexer, resolve: &impl Resolve) -> (r: Result<Arc<ImageXObject>>)
    ensures (r, *final(lexer)) == inline_image_spec(*old(lexer))
{ unimplemented!() }

// the lexer and the object parser (pdf/src/parser): opaque to this unit; no assumption besides determinism of inline_image
#[verifier::external_body] pub struct Substr { p: core::marker::PhantomData<()> }
impl Substr {
    #[verifier::external_body] pub fn as_str(&self) -> (r: Result<&str>) { unimplemented!() }
}
impl Lexer {
    #[verifier::external_body] pub fn new(data: &[u8]) -> (r: Lexer) { unimplemented!() }
    #[verifier::external_body] pub fn get_pos(&self) -> (r: usize) { unimplemented!() }
    #[verifier::external_body] pub fn set_pos(&mut self, wanted_pos: usize) -> (r: Substr) { unimplemented!() }
    #[verifier::external_body] pub fn next(&mut self) -> (r: Result<Substr>) { unimplemented!() }
}
pub struct ParseFlags { pub bits: u16 }
impl ParseFlags { pub const ANY: ParseFlags = ParseFlags { bits: 0xffff }; }
#[verifier::external_body]
fn parse_with_lexer(lexer: &mut Lexer, r: &impl Resolve, flags: ParseFlags) -> (res: Result<Primitive>) { unimplemented!() }
impl PdfError {
    #[verifier::external_body] pub fn is_eof(&self) -> (r: bool) { unimplemented!() }
}
#[verifier::external_body]
fn cmp_usize(a: usize, b: usize) -> (r: Ordering)
    ensures (r is Less) == (a < b), (r is Equal) == (a == b), (r is Greater) == (a > b)
{ a.cmp(&b) }

impl Name {
    #[verifier::external_body]
    pub fn as_str(&self) -> (r: &str) ensures r@ == self.0.view() { unimplemented!() }
}

// ---- L0 helpers (R7): expressions Verus cannot read; each body is the hoisted source text ----
#[verifier::external_body]
fn str_eq(a: &str, b: &str) -> (r: bool) ensures r == (a@ == b@) { a == b }
#[verifier::external_body]
fn f32_neg(x: f32) -> (r: f32) ensures r == neg(x) { -x }
#[verifier::external_body]
fn cast_i32_f32(n: i32) -> (r: f32) ensures r == i32_as_f32(n) { n as f32 }
#[verifier::external_body]
fn collect_numbers(s: &[Primitive]) -> (r: Result<Vec<f32>, PdfError>)
    ensures all_num(s@) ==> (r matches Ok(v) && v@ =~= nums_of(s@)), !all_num(s@) ==> r is Err
{ s.iter().map(|p| p.as_number()).collect::<Result<Vec<f32>, PdfError>>() }

#[verifier::external_body]
fn vec_as_slice(v: &Vec<Primitive>) -> (r: &[Primitive]) ensures r@ == v@ { v }

impl Primitive {
//@@ Primitive::get_debug_name
//@@ Primitive::as_integer
//@@ Primitive::as_number
//@@ Primitive::as_array
//@@ Primitive::into_name
//@@ Primitive::into_string
}
impl RenderingIntent {
//@@ RenderingIntent::from_str
}

// operand helper contracts: `n` operands of the required kind at the front <=> Ok with exactly those, consumed in order
pub open spec fn front_nums(a: Seq<Primitive>, n: int) -> bool { a.len() >= n && forall|i: int| 0 <= i < n ==> is_num(#[trigger] a[i]) }

//@@ name
//@@ number
//@@ string
//@@ point
//@@ rect
//@@ rgb
//@@ cmyk
//@@ matrix
//@@ array

impl OpBuilder {
//@@ OpBuilder::new
//@@ OpBuilder::add
//@@ OpBuilder::parse
}
}
fn main(){}
