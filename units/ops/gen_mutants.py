#!/usr/bin/env python3
"""Regenerates units/ops/mutants/*.diff (and the two benign edits under units/ops/benign/).
Each mutant = /repo + findings/sh_dropped_fix.diff (if it still applies) + ONE property-breaking edit, written as a
diff against /repo, so that the only reason for a rejection is the edit itself (on the pinned tree `sh` alone
already fails `table`).  Run:  python3 units/ops/gen_mutants.py"""
import os, subprocess, tempfile, shutil
HERE = os.path.dirname(os.path.abspath(__file__))
SRC = 'pdf/src/content.rs'
MUTANTS = {
 'c_operands_swapped': ('OpBuilder::add/table', 'push(Op::CurveTo { c1, c2, p });', 'push(Op::CurveTo { c1: c2, c2: c1, p });'),
 're_operands_swapped': ('rect/in_order',
    '    let width = args.next().ok_or(PdfError::NoOpArg)?.as_number()?;\n    let height = args.next().ok_or(PdfError::NoOpArg)?.as_number()?;\n    Ok(ViewRect',
    '    let height = args.next().ok_or(PdfError::NoOpArg)?.as_number()?;\n    let width = args.next().ok_or(PdfError::NoOpArg)?.as_number()?;\n    Ok(ViewRect'),
 'cm_operands_swapped': ('OpBuilder::add/table', 'matrix: Matrix { a, b, c, d, e, f }}', 'matrix: Matrix { a: b, b: a, c, d, e, f }}'),
 'v_uses_endpoint': ('OpBuilder::add/table', 'push(Op::CurveTo { c1: self.last, c2, p });', 'push(Op::CurveTo { c1: p, c2, p });'),
 'quote_without_newline': ('OpBuilder::add/table',
    '                push(Op::TextNewline);\n                push(Op::TextDraw { text: string(&mut args)? });\n            }\n            "\\""',
    '                push(Op::TextDraw { text: string(&mut args)? });\n            }\n            "\\""'),
 'l_keeps_last': ('OpBuilder::add/last_exact',
    '                push(Op::LineTo { p });\n                self.last = p;', '                push(Op::LineTo { p });'),
 'cm_reads_five': ('OpBuilder::add/table', 'numbers!(args, a, b, c, d, e, f);', 'numbers!(args, a, b, c, d, e); let f = e;'),
 'td_sign': ('OpBuilder::add/table', 'leading: -translation.y', 'leading: translation.y'),
 'parse_drops_operand': ('OpBuilder::parse/no_leak', '                    buffer.push(obj)\n', '                    if buffer.len() < 6 { buffer.push(obj) }\n'),
}
BENIGN = {
 'swap_q_Q_arms': ('            "q"   => push(Op::Save),\n            "Q"   => push(Op::Restore),\n',
                   '            "Q"   => push(Op::Restore),\n            "q"   => push(Op::Save),\n'),
 'c_last_before_push': ('                push(Op::CurveTo { c1, c2, p });\n                self.last = p;',
                        '                self.last = p;\n                push(Op::CurveTo { c1, c2, p });'),
}

def main():
    base = open(os.path.join('/repo', SRC)).read()
    tmp = tempfile.mkdtemp(prefix='ops_mut_')
    try:
        os.makedirs(os.path.join(tmp, 'a', os.path.dirname(SRC))); os.makedirs(os.path.join(tmp, 'b', os.path.dirname(SRC)))
        open(os.path.join(tmp, 'a', SRC), 'w').write(base)
        open(os.path.join(tmp, 'b', SRC), 'w').write(base)
        p = subprocess.run(['patch', '-p1', '-s', '-i', os.path.join(HERE, 'findings', 'sh_dropped_fix.diff')], cwd=os.path.join(tmp, 'b'))
        fixed = open(os.path.join(tmp, 'b', SRC)).read() if p.returncode == 0 else base
        for kind, table in (('mutants', MUTANTS), ('benign', BENIGN)):
            os.makedirs(os.path.join(HERE, kind), exist_ok=True)
            for name, spec in table.items():
                expect, old, new = spec if kind == 'mutants' else (None,) + spec
                assert fixed.count(old) == 1, (name, fixed.count(old))
                open(os.path.join(tmp, 'b', SRC), 'w').write(fixed.replace(old, new))
                d = subprocess.run(['diff', '-u', '--label', 'a/' + SRC, '--label', 'b/' + SRC, 'a/' + SRC, 'b/' + SRC],
                                   cwd=tmp, capture_output=True, text=True).stdout
                head = ('# expect: %s\n# (contains the hunk of findings/sh_dropped_fix.diff, see gen_mutants.py)\n' % expect) if expect else \
                       '# benign edit: must NOT be reported as failed (includes the sh fix hunk)\n'
                open(os.path.join(HERE, kind, name + '.diff'), 'w').write(head + d)
    finally:
        shutil.rmtree(tmp)

if __name__ == '__main__':
    main()
