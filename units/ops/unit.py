"""Unit `ops` (C08, parse side).  The operator table lives in gen_table.py (transcribed from ISO 32000-1 Annex A);
`python3 units/ops/gen_table.py` regenerates table_spec.rs from it.  This file only describes what is extracted
from /repo, the rewrites (R1..R10) and the contracts."""
F = 'pdf/src/content.rs'
P = 'pdf/src/primitive.rs'
T = 'pdf/src/object/types.rs'
IMPL_OB = r'^impl OpBuilder$'
IMPL_PRIM = r'^impl Primitive$'

COPY = ['#[derive(Clone, Copy)]']

# ---- R6: the operand iterator -------------------------------------------------------------------------------
ARGS_SIG = {'where': 'sig', 'rule': 'R6', 'find': 'args: &mut impl Iterator<Item=Primitive>', 'replace': 'args: &mut Args'}

# ---- R9: `match <str> { "lit" => .., "a" | "b" => .., }`  ->  if-chain over the hoisted `str_eq` ------------------
# Generic, shape-driven (no arm body is mentioned, so an edited arm never loses an anchor):
#   1. arm heads with two alternatives, 2. arm heads with one literal, 3. `match X {` + first head -> `if`,
#   4. the separator in front of every other head -> `; } else if`
STR = r'"(?:[^"\\]|\\.)*"'


def r9(scrut):
    return [
        {'rule': 'R9', 'regex': r'(%s)\s*\|\s*(%s)\s*=>' % (STR, STR), 'count': '*',
         'replace': r'__ARM (str_eq(%s, \1) || str_eq(%s, \2)) {' % (scrut, scrut)},
        {'rule': 'R9', 'regex': r'(%s)\s*=>' % STR, 'count': '*', 'replace': r'__ARM (str_eq(%s, \1)) {' % scrut},
        {'rule': 'R9', 'regex': r'match\s+%s\s*\{\s*__ARM' % scrut, 'count': 1, 'replace': 'if'},
        {'rule': 'R9', 'regex': r'\s*,?\s*__ARM', 'count': '*', 'replace': ' } else if'},
    ]


def helper_nums(n, ctor):
    """contract of point/rect/rgb/cmyk/matrix/number: n numbers at the front <=> Ok(ctor of them in order), n consumed"""
    front = ' && '.join(['old(args).avail() >= %d' % n] + ['is_num(old(args).at(%d))' % i for i in range(n)])
    return {
        'requires': ['old(args).wf()'],
        'ensures': [('frame', 'final(args).wf() && final(args).v == old(args).v'),
                    ('in_order', '(%s) ==> (r == Ok::<_, PdfError>(%s) && final(args).i == old(args).i + %d)' % (front, ctor, n)),
                    ('else_err', '!(%s) ==> r is Err' % front)],
    }


def N(i):
    return 'num_of(old(args).at(%d))' % i


def helper(name, contract):
    d = {'kind': 'fn', 'file': F, 'container': None, 'name': name, 'props': ['C08'], 'rewrites': [ARGS_SIG]}
    d.update(contract)
    return d


def kind_helper(variant, value):
    front = 'old(args).avail() >= 1 && old(args).at(0) is %s' % variant
    return {
        'requires': ['old(args).wf()'],
        'ensures': [('frame', 'final(args).wf() && final(args).v == old(args).v'),
                    ('in_order', '(%s) ==> (r == Ok::<_, PdfError>(%s) && final(args).i == old(args).i + 1)' % (front, value)),
                    ('else_err', '!(%s) ==> r is Err' % front)],
    }


def decl(file, header, attrs=None, rewrites=None, container=None):
    return {'kind': 'decl', 'file': file, 'header': header, 'container': container, 'attrs': attrs or [], 'rewrites': rewrites or []}


GROUPS = ['t57_gstate', 't59_path', 't60_paint', 't61_clip', 't74_colour', 't77_shading', 't87_xobject', 't92_inline',
          't105_textstate', 't107_textobj', 't108_textpos', 't109_textshow', 't113_type3', 't320_marked', 't32_compat']

A0 = 'args.v@'
II = 'inline_image_spec(*old(lexer)).0'
OUT = 'appended(old(self).ops@, final(self).ops@)'

ADD_ENSURES = [
    # Annex A: every keyword with well-formed operands is accepted and appends exactly the operations of its table row
    ('table', 'wf_operands(op@, %s, %s) ==> (r is Ok && rel(op@, %s, old(self).last, %s, %s))' % (A0, II, A0, II, OUT)),
    # the current point: moved exactly by m l c v y, and only when the operator is accepted
    ('last_exact', 'final(self).last == if r is Ok { new_last(op@, %s, old(self).last) } else { old(self).last }' % A0),
    # inputs that must be errors
    ('err_cases', 'must_err(op@, %s, %s) ==> r is Err' % (A0, II)),
    # keywords that are not in the table: error, or ignored inside BX .. EX; never an operation
    ('unknown_ops', '(group_of(op@) == 0 && op@ != "Do0"@) ==> ((r is Err <==> !old(self).compability_section) && %s.len() == 0)' % OUT),
    # nothing already recorded is touched; an operator that fails records nothing (the two text-showing shorthands may
    # have recorded their leading part); BX/EX only switch the mode; only BI reads from the lexer
    ('frame', 'prefix_kept(old(self).ops@, final(self).ops@)'
              ' && ((r is Err && op@ != "\'"@ && op@ != "\\""@) ==> %s.len() == 0)'
              ' && final(self).compability_section == (if op@ == "BX"@ { true } else if op@ == "EX"@ { false } else { old(self).compability_section })'
              ' && *final(lexer) == (if op@ == "BI"@ { inline_image_spec(*old(lexer)).1 } else { *old(lexer) })' % OUT),
]

ADD_REWRITES = [
    {'where': 'sig', 'rule': 'R6', 'find': 'mut args: impl Iterator<Item=Primitive>', 'replace': 'mut args: Args'},
    # R1: literal hints
    {'rule': 'R1', 'find': 'use Winding::*;', 'replace': 'use Winding::*; proof { lemma_literals(); } let ghost args0 = args;'},
    # R8: forwarding closure over a `&mut` alias inlined
    {'rule': 'R8', 'find': 'let ops = &mut self.ops; let mut push = move |op| ops.push(op);', 'replace': ''},
    {'rule': 'R8', 'regex': r'(?<![\w.])push\(', 'count': '*', 'replace': 'self.ops.push('},
    # R9: last two arms (binding + guard, wildcard) close the chain
    {'rule': 'R9', 'find': 'o if !self.compability_section => {', 'replace': ' } else if !self.compability_section { proof { lemma_kw_unknown(op@); }'},
    {'rule': 'R9', 'find': '}, _ => {} }', 'replace': '} else { proof { lemma_kw_unknown(op@); } }'},
] + r9('op') + [
    # R7: float negation
    {'rule': 'R7', 'regex': r'(?<![\w.)\]])-\s*(translation\.\w+)', 'count': '*', 'replace': r'f32_neg(\1)'},
    {'rule': 'R7', 'regex': r'(\bi) as f32', 'replace': r'cast_i32_f32(\1)'},
    # R7: iterator adaptor chain of `d`
    {'rule': 'R7', 'regex': r'(p\.as_array\(\)\?)\.iter\(\)\.map\(\|p\|\s*p\.as_number\(\)\)\.collect::<Result<Vec<f32>,\s*PdfError>>\(\)',
     'replace': r'collect_numbers(\1)'},
    # R2/R3: `ri`: &Name -> &str deref made explicit; error payload dropped
    {'rule': 'R2', 'find': 'RenderingIntent::from_str(&s)', 'replace': 'RenderingIntent::from_str(s.as_str())'},
    {'rule': 'R3', 'find': '.ok_or_else(|| PdfError::Other { msg: format!("invalid rendering intent {}", s) })',
     'replace': '.ok_or(PdfError::Other)'},
    # R6/R10: `for x in vec.into_iter()` -> `while let Some(x) = it.next()` over the operand-source model
    {'rule': 'R6', 'find': 'for spacing_or_text in array(&mut args)?.into_iter() {',
     'replace': 'let mut tj = Args::from_vec(array(&mut args)?); while let Some(spacing_or_text) = tj.next() {'},
]

UNIT = {
 'name': 'ops',
 'doc': 'Content-stream operator table (parse side): OpBuilder::add/parse and operand helpers vs ISO 32000-1 Annex A',
 'rlimit': 150, 'timeout': 1500,
 'items': {
  'macro names': decl(F, r'^macro_rules! names$'),
  'macro numbers': decl(F, r'^macro_rules! numbers$'),
  'macro points': decl(F, r'^macro_rules! points$'),
  'enum Primitive': decl(P, r'^pub enum Primitive$'),
  'struct Name': decl(P, r'^pub struct Name\b'),
  'enum RenderingIntent': decl(T, r'^pub enum RenderingIntent$', COPY),
  'enum Winding': decl(F, r'^pub enum Winding$', COPY),
  'enum LineCap': decl(F, r'^pub enum LineCap$', COPY),
  'enum LineJoin': decl(F, r'^pub enum LineJoin$', COPY),
  'struct Point': decl(F, r'^pub struct Point$', COPY),
  'struct ViewRect': decl(F, r'^pub struct ViewRect$', COPY),
  'struct Matrix': decl(F, r'^pub struct Matrix$', COPY),
  'enum Color': decl(F, r'^pub enum Color$'),
  'enum TextMode': decl(F, r'^pub enum TextMode$', COPY),
  'struct Rgb': decl(F, r'^pub struct Rgb$', COPY),
  'struct Cmyk': decl(F, r'^pub struct Cmyk$', COPY),
  'enum TextDrawAdjusted': decl(F, r'^pub enum TextDrawAdjusted$'),
  'enum Op': decl(F, r'^pub enum Op$'),
  'struct OpBuilder': decl(F, r'^struct OpBuilder$', rewrites=[
      {'rule': 'R2', 'find': 'struct OpBuilder', 'replace': 'pub struct OpBuilder'},
      {'rule': 'R2', 'find': 'last:', 'replace': 'pub last:'},
      {'rule': 'R2', 'find': 'compability_section:', 'replace': 'pub compability_section:'},
      {'rule': 'R2', 'find': 'ops:', 'replace': 'pub ops:'}]),

  # ---- pdf/src/primitive.rs: the accessors the operand helpers rely on ----
  'Primitive::get_debug_name': {'kind': 'fn', 'file': P, 'container': IMPL_PRIM, 'name': 'get_debug_name', 'props': ['C08']},
  'Primitive::as_integer': {'kind': 'fn', 'file': P, 'container': IMPL_PRIM, 'name': 'as_integer', 'props': ['C08'],
     'ensures': [('integer_only', 'match *self { Primitive::Integer(n) => r == Ok::<i32, PdfError>(n), _ => r is Err }')]},
  'Primitive::as_number': {'kind': 'fn', 'file': P, 'container': IMPL_PRIM, 'name': 'as_number', 'props': ['C08'],
     'ensures': [('number_value', 'is_num(*self) ==> r == Ok::<f32, PdfError>(num_of(*self))'),
                 ('else_err', '!is_num(*self) ==> r is Err')],
     'rewrites': [{'rule': 'R7', 'regex': r'(\bn) as f32', 'replace': r'cast_i32_f32(\1)'}]},
  'Primitive::as_array': {'kind': 'fn', 'file': P, 'container': IMPL_PRIM, 'name': 'as_array', 'props': ['C08'],
     'ensures': [('array_only', 'match *self { Primitive::Array(v) => (r matches Ok(s) && s@ == v@), _ => r is Err }')],
     'rewrites': [{'rule': 'R7', 'find': 'Ok(v)', 'replace': 'Ok(vec_as_slice(v))'}]},
  'Primitive::into_name': {'kind': 'fn', 'file': P, 'container': IMPL_PRIM, 'name': 'into_name', 'props': ['C08'],
     'ensures': [('name_only', 'match self { Primitive::Name(s) => r == Ok::<Name, PdfError>(Name(s)), _ => r is Err }')]},
  'Primitive::into_string': {'kind': 'fn', 'file': P, 'container': IMPL_PRIM, 'name': 'into_string', 'props': ['C08'],
     'ensures': [('string_only', 'match self { Primitive::String(s) => r == Ok::<PdfString, PdfError>(s), _ => r is Err }')]},
  'RenderingIntent::from_str': {'kind': 'fn', 'file': T, 'container': r'^impl RenderingIntent$', 'name': 'from_str', 'props': ['C08'],
     'ensures': [('table70_intents', 'r == intent_of_str(s@)')],
     'rewrites': r9('s') + [
        {'rule': 'R9', 'find': ', _ => None }', 'replace': ' } else { None }'},
        {'rule': 'R1', 'find': 'if (str_eq(s, "AbsoluteColorimetric"))', 'replace': 'proof { lemma_literals(); } if (str_eq(s, "AbsoluteColorimetric"))'}]},

  # ---- operand helpers ----
  'name': helper('name', kind_helper('Name', 'Name(name_of(old(args).at(0)))')),
  'number': helper('number', helper_nums(1, N(0))),
  'string': helper('string', kind_helper('String', 'string_of(old(args).at(0))')),
  'point': helper('point', helper_nums(2, 'Point { x: %s, y: %s }' % (N(0), N(1)))),
  'rect': helper('rect', helper_nums(4, 'ViewRect { x: %s, y: %s, width: %s, height: %s }' % (N(0), N(1), N(2), N(3)))),
  'rgb': helper('rgb', helper_nums(3, 'Rgb { red: %s, green: %s, blue: %s }' % (N(0), N(1), N(2)))),
  'cmyk': helper('cmyk', helper_nums(4, 'Cmyk { cyan: %s, magenta: %s, yellow: %s, key: %s }' % (N(0), N(1), N(2), N(3)))),
  'matrix': helper('matrix', helper_nums(6, 'Matrix { a: %s, b: %s, c: %s, d: %s, e: %s, f: %s }' % tuple(N(i) for i in range(6)))),
  'array': helper('array', {
     'requires': ['old(args).wf()'],
     'ensures': [('frame', 'final(args).wf() && final(args).v == old(args).v'),
                 ('in_order', '(old(args).avail() >= 1 && old(args).at(0) is Array) ==> (r == Ok::<_, PdfError>(old(args).at(0)->Array_0) && final(args).i == old(args).i + 1)'),
                 ('else_err', '(old(args).avail() >= 1 && !(old(args).at(0) is Array)) ==> r is Err'),
                 ('missing_is_empty', 'old(args).avail() == 0 ==> (r matches Ok(v) && v@.len() == 0)')]}),

  'OpBuilder::new': {'kind': 'fn', 'file': F, 'container': IMPL_OB, 'name': 'new', 'props': ['C08'],
     'ensures': [('starts_empty', 'r.ops@.len() == 0 && !r.compability_section')]},
  'OpBuilder::add': {'kind': 'fn', 'file': F, 'container': IMPL_OB, 'name': 'add', 'props': ['C08'],
     'requires': ['args.i == 0'],
     'ensures': ADD_ENSURES,
     'rewrites': ADD_REWRITES,
     'attrs': ['#[verifier::loop_isolation(false)]'],
     'loops': {1: {'invariant': [
                      'tj.wf()', 'args0.v@.len() >= 1 ==> tj.v@ == arr_of(args0.v@[0])', 'args0.v@.len() < 1 ==> tj.v@.len() == 0', 'result@.len() == tj.i',
                      'forall|j: int| 0 <= j < tj.i ==> tj_ok(#[trigger] tj.v@[j]) && result@[j] == tj_item(tj.v@[j])'],
                   'decreases': 'tj.v@.len() - tj.i'}},
  },
  'OpBuilder::parse': {'kind': 'fn', 'file': F, 'container': IMPL_OB, 'name': 'parse', 'props': ['C08'],
     # termination is NOT proved (it would need progress assumptions on the abstract lexer): see NOTES.md
     'attrs': ['#[verifier::exec_allows_no_decreases_clause]'],
     'ensures': [('ops_only_grow', 'prefix_kept(old(self).ops@, final(self).ops@)')],
     'loops': {1: {'invariant': [
                      # the operand buffer holds exactly the operands read since the last operator, in order
                      ('no_leak', 'buffer@ =~= pending'),
                      ('ops_only_grow', 'prefix_kept(old(self).ops@, self.ops@)')]}},
     'rewrites': [
        # R1: ghost history of the operands read since the last operator.  All anchors are SHAPES (names / argument
        # expressions captured); the only fixed name is `buffer` (the loop invariant talks about it).
        {'rule': 'R1', 'regex': r'let\s+mut\s+buffer\s*(:[^=;]+)?=\s*([^;]*);',
         'replace': r'let mut buffer \1= \2; let ghost mut pending: Seq<Primitive> = Seq::empty();'},
        # an operand is "read" when the object parser succeeds -- whatever the code then does with the value
        {'rule': 'R1', 'regex': r'let\s+(\w+)\s*=\s*parse_with_lexer\(([^;]*)\);',
         'replace': r'let \1 = parse_with_lexer(\2); proof { if \1 is Ok { pending = pending.push(\1->Ok_0); } }'},
        # R6 (operand source) + R1: the operator receives every pending operand (`operands_all_handed_over`); from here on
        # nothing is pending, so `no_leak` demands an empty buffer at the end of the iteration on EVERY path that continues
        {'rule': 'R6', 'regex': r'self\.add\(\s*([^,()]+?)\s*,\s*buffer\s*\.\s*drain\(\s*\.\.\s*\)\s*,', 'count': '*',
         'replace': r'self.add(\1, { let args_ = Args::drain_all(&mut buffer); proof { assert(args_.rest() =~= pending); //@L operands_all_handed_over\n pending = Seq::empty(); } args_ },'},
        {'rule': 'R6', 'regex': r'self\.add\(\s*([^,()]+?)\s*,\s*buffer\s*\.\s*iter\(\)\s*\.\s*cloned\(\)\s*,', 'count': '*',
         'replace': r'self.add(\1, { let args_ = Args::cloned(&buffer); proof { assert(args_.rest() =~= pending); //@L operands_all_handed_over\n pending = Seq::empty(); } args_ },'},
        # exactly one hand-over site must have been recognised (else: anchor lost => UNDECIDED)
        {'rule': 'R6', 'regex': r'let args_ = Args::', 'replace': 'let args_ = Args::', 'count': 1},
        # R7: Ord::cmp on usize
        {'rule': 'R7', 'regex': r'match (lexer\.get_pos\(\))\.cmp\(&(data\.len\(\))\)', 'replace': r'match cmp_usize(\1, \2)'},
     ]},
 },
}
