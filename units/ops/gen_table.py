#!/usr/bin/env python3
"""Generator of units/ops/table_spec.rs (run by hand: `python3 units/ops/gen_table.py`; output is committed).

The TABLE below is a transcription of ISO 32000-1:2008 Annex A "Operator summary" (Table A.1) together with
the operand lists of the tables it points to (Tables 32, 51/57, 59, 60, 61, 74, 77, 87, 92, 105, 107, 108, 109,
113, 320).  Nothing in here is read from /repo.  For every keyword:

    (keyword, group, operand kinds, operations it stands for, new current point or None)

operand kinds:  N number (integer or real)   I integer   M name   S string   A array   P any object
operations are Verus *spec* expressions over  a: Seq<Primitive> (the operands, in order),  last: Point
(current point before the operator).  `num(i)` = value of operand i, `pt(i)` = Point{num(i), num(i+1)}.
Rows with ops == None are written by hand in SPECIAL (variable-length / container-valued operators).
"""
import os

W_NZ, W_EO = 'Winding::NonZero', 'Winding::EvenOdd'

TABLE = [
 # ---- Table 57 - graphics state operators --------------------------------------------------------------
 ('q',  't57_gstate', '',       ['Op::Save'], None),
 ('Q',  't57_gstate', '',       ['Op::Restore'], None),
 ('cm', 't57_gstate', 'NNNNNN', ['Op::Transform { matrix: Matrix { a: num(0), b: num(1), c: num(2), d: num(3), e: num(4), f: num(5) } }'], None),
 ('w',  't57_gstate', 'N',      ['Op::LineWidth { width: num(0) }'], None),
 ('J',  't57_gstate', 'I',      None, None),          # line cap style 0 butt, 1 round, 2 projecting square (Table 54)
 ('j',  't57_gstate', 'I',      None, None),          # line join style 0 miter, 1 round, 2 bevel (Table 55)
 ('M',  't57_gstate', 'N',      ['Op::MiterLimit { limit: num(0) }'], None),
 ('d',  't57_gstate', 'AN',     None, None),          # dashArray dashPhase
 ('ri', 't57_gstate', 'M',      None, None),          # rendering intent (Table 70)
 ('i',  't57_gstate', 'N',      ['Op::Flatness { tolerance: num(0) }'], None),
 ('gs', 't57_gstate', 'M',      ['Op::GraphicsState { name: nm(0) }'], None),
 # ---- Table 59 - path construction ----------------------------------------------------------------------
 ('m',  't59_path', 'NN',       ['Op::MoveTo { p: pt(0) }'], 'pt(0)'),
 ('l',  't59_path', 'NN',       ['Op::LineTo { p: pt(0) }'], 'pt(0)'),
 ('c',  't59_path', 'NNNNNN',   ['Op::CurveTo { c1: pt(0), c2: pt(2), p: pt(4) }'], 'pt(4)'),     # x1 y1 x2 y2 x3 y3
 ('v',  't59_path', 'NNNN',     ['Op::CurveTo { c1: last, c2: pt(0), p: pt(2) }'], 'pt(2)'),      # x2 y2 x3 y3, first control point = current point
 ('y',  't59_path', 'NNNN',     ['Op::CurveTo { c1: pt(0), c2: pt(2), p: pt(2) }'], 'pt(2)'),     # x1 y1 x3 y3, second control point = end point
 ('h',  't59_path', '',         ['Op::Close'], None),
 ('re', 't59_path', 'NNNN',     ['Op::Rect { rect: ViewRect { x: num(0), y: num(1), width: num(2), height: num(3) } }'], None),
 # ---- Table 60 - path painting --------------------------------------------------------------------------
 ('S',  't60_paint', '', ['Op::Stroke'], None),
 ('s',  't60_paint', '', ['Op::Close', 'Op::Stroke'], None),                                  # = h S
 ('f',  't60_paint', '', ['Op::Fill { winding: %s }' % W_NZ], None),
 ('F',  't60_paint', '', ['Op::Fill { winding: %s }' % W_NZ], None),                          # = f (obsolete)
 ('f*', 't60_paint', '', ['Op::Fill { winding: %s }' % W_EO], None),
 ('B',  't60_paint', '', ['Op::FillAndStroke { winding: %s }' % W_NZ], None),
 ('B*', 't60_paint', '', ['Op::FillAndStroke { winding: %s }' % W_EO], None),
 ('b',  't60_paint', '', ['Op::Close', 'Op::FillAndStroke { winding: %s }' % W_NZ], None),    # = h B
 ('b*', 't60_paint', '', ['Op::Close', 'Op::FillAndStroke { winding: %s }' % W_EO], None),    # = h B*
 ('n',  't60_paint', '', ['Op::EndPath'], None),
 # ---- Table 61 - clipping paths -------------------------------------------------------------------------
 ('W',  't61_clip', '', ['Op::Clip { winding: %s }' % W_NZ], None),
 ('W*', 't61_clip', '', ['Op::Clip { winding: %s }' % W_EO], None),
 # ---- Table 74 - colour ---------------------------------------------------------------------------------
 ('CS', 't74_colour', 'M',    ['Op::StrokeColorSpace { name: nm(0) }'], None),
 ('cs', 't74_colour', 'M',    ['Op::FillColorSpace { name: nm(0) }'], None),
 ('SC', 't74_colour', '*',    None, None),            # c1 ... cn
 ('SCN','t74_colour', '*',    None, None),            # c1 ... cn [name]
 ('sc', 't74_colour', '*',    None, None),
 ('scn','t74_colour', '*',    None, None),
 ('G',  't74_colour', 'N',    ['Op::StrokeColor { color: Color::Gray(num(0)) }'], None),
 ('g',  't74_colour', 'N',    ['Op::FillColor { color: Color::Gray(num(0)) }'], None),
 ('RG', 't74_colour', 'NNN',  ['Op::StrokeColor { color: Color::Rgb(Rgb { red: num(0), green: num(1), blue: num(2) }) }'], None),
 ('rg', 't74_colour', 'NNN',  ['Op::FillColor { color: Color::Rgb(Rgb { red: num(0), green: num(1), blue: num(2) }) }'], None),
 ('K',  't74_colour', 'NNNN', ['Op::StrokeColor { color: Color::Cmyk(Cmyk { cyan: num(0), magenta: num(1), yellow: num(2), key: num(3) }) }'], None),
 ('k',  't74_colour', 'NNNN', ['Op::FillColor { color: Color::Cmyk(Cmyk { cyan: num(0), magenta: num(1), yellow: num(2), key: num(3) }) }'], None),
 # ---- Table 77 - shading --------------------------------------------------------------------------------
 ('sh', 't77_shading', 'M',   ['Op::Shade { name: nm(0) }'], None),
 # ---- Table 87 - external objects -----------------------------------------------------------------------
 ('Do', 't87_xobject', 'M',   ['Op::XObject { name: nm(0) }'], None),
 # ---- Table 92 - inline images (BI handled specially: the image is read from the lexer) -----------------
 ('BI', 't92_inline', '',     None, None),
 ('ID', 't92_inline', '!',    None, None),            # only legal inside BI ... EI: always an error on its own
 ('EI', 't92_inline', '!',    None, None),
 # ---- Table 105 - text state ----------------------------------------------------------------------------
 ('Tc', 't105_textstate', 'N',  ['Op::CharSpacing { char_space: num(0) }'], None),
 ('Tw', 't105_textstate', 'N',  ['Op::WordSpacing { word_space: num(0) }'], None),
 ('Tz', 't105_textstate', 'N',  ['Op::TextScaling { horiz_scale: num(0) }'], None),
 ('TL', 't105_textstate', 'N',  ['Op::Leading { leading: num(0) }'], None),
 ('Tf', 't105_textstate', 'MN', ['Op::TextFont { name: nm(0), size: num(1) }'], None),
 ('Tr', 't105_textstate', 'I',  None, None),          # rendering mode 0..7 (Table 106); the Op alphabet has 0..5
 ('Ts', 't105_textstate', 'N',  ['Op::TextRise { rise: num(0) }'], None),
 # ---- Table 107 - text objects --------------------------------------------------------------------------
 ('BT', 't107_textobj', '', ['Op::BeginText'], None),
 ('ET', 't107_textobj', '', ['Op::EndText'], None),
 # ---- Table 108 - text positioning ----------------------------------------------------------------------
 ('Td', 't108_textpos', 'NN',     ['Op::MoveTextPosition { translation: pt(0) }'], None),
 ('TD', 't108_textpos', 'NN',     ['Op::Leading { leading: neg(num(1)) }', 'Op::MoveTextPosition { translation: pt(0) }'], None),  # = -ty TL tx ty Td
 ('Tm', 't108_textpos', 'NNNNNN', ['Op::SetTextMatrix { matrix: Matrix { a: num(0), b: num(1), c: num(2), d: num(3), e: num(4), f: num(5) } }'], None),
 ('T*', 't108_textpos', '',       ['Op::TextNewline'], None),
 # ---- Table 109 - text showing --------------------------------------------------------------------------
 ('Tj', 't109_textshow', 'S',   ['Op::TextDraw { text: st(0) }'], None),
 ("'",  't109_textshow', 'S',   ['Op::TextNewline', 'Op::TextDraw { text: st(0) }'], None),                         # = T* string Tj
 ('"',  't109_textshow', 'NNS', ['Op::WordSpacing { word_space: num(0) }', 'Op::CharSpacing { char_space: num(1) }',
                                 'Op::TextNewline', 'Op::TextDraw { text: st(2) }'], None),                         # = aw Tw ac Tc string '
 ('TJ', 't109_textshow', 'A',   None, None),
 # ---- Table 113 - Type 3 font glyph metrics: no operation in the Op alphabet ----------------------------
 ('d0', 't113_type3', '', [], None),
 ('d1', 't113_type3', '', [], None),
 # ---- Table 320 - marked content ------------------------------------------------------------------------
 ('MP',  't320_marked', 'M',  ['Op::MarkedContentPoint { tag: nm(0), properties: None }'], None),
 ('DP',  't320_marked', 'MP', ['Op::MarkedContentPoint { tag: nm(0), properties: Some(a[1]) }'], None),
 ('BMC', 't320_marked', 'M',  ['Op::BeginMarkedContent { tag: nm(0), properties: None }'], None),
 ('BDC', 't320_marked', 'MP', ['Op::BeginMarkedContent { tag: nm(0), properties: Some(a[1]) }'], None),
 ('EMC', 't320_marked', '',   ['Op::EndMarkedContent'], None),
 # ---- Table 32 - compatibility sections: no operation, only the parser's mode changes --------------------
 ('BX', 't32_compat', '', [], None),
 ('EX', 't32_compat', '', [], None),
]

# d0 / d1 carry operands (wx wy / wx wy llx lly urx ury) but stand for no Op; their operands are not inspected.
ANY_OPERANDS = {'d0', 'd1'}

# hand-written rows whose operation is still a plain value: (extra precondition on the operands, operations)
SPECIAL = {
 'J':  ('0 <= int_of(a[0]) <= 2', ['Op::LineCap { cap: linecap_of(int_of(a[0])) }']),
 'j':  ('0 <= int_of(a[0]) <= 2', ['Op::LineJoin { join: linejoin_of(int_of(a[0])) }']),
 'Tr': ('0 <= int_of(a[0]) <= 5', ['Op::TextRenderMode { mode: textmode_of(int_of(a[0])) }']),
 'ri': ('intent_of(name_of(a[0])) is Some', ['Op::RenderingIntent { intent: intent_of(name_of(a[0]))->Some_0 }']),
 'BI': ('ii is Ok', ['Op::InlineImage { image: ii->Ok_0 }']),
 'ID': ('false', []),
 'EI': ('false', []),
}
# rows whose operation carries a Vec (no spec-level constructor): (extra precondition, relation on the appended ops `out`)
RELATIONAL = {
 'd':  ('all_num(arr_of(a[0]))',
        'out.len() == 1 && (out[0] matches Op::Dash { pattern, phase } && pattern@ =~= nums_of(arr_of(a[0])) && phase == num_of(a[1]))'),
 'SC': ('true', 'out.len() == 1 && (out[0] matches Op::StrokeColor { color } && (color matches Color::Other(v) && v@ =~= a))'),
 'SCN':('true', 'out.len() == 1 && (out[0] matches Op::StrokeColor { color } && (color matches Color::Other(v) && v@ =~= a))'),
 'sc': ('true', 'out.len() == 1 && (out[0] matches Op::FillColor { color } && (color matches Color::Other(v) && v@ =~= a))'),
 'scn':('true', 'out.len() == 1 && (out[0] matches Op::FillColor { color } && (color matches Color::Other(v) && v@ =~= a))'),
 'TJ': ('all_tj(arr_of(a[0]))',
        'out.len() == 1 && (out[0] matches Op::TextDrawAdjusted { array } && array@ =~= tj_items(arr_of(a[0])))'),
}

KIND_PRED = {'N': 'is_num(a[%d])', 'I': 'a[%d] is Integer', 'M': 'a[%d] is Name', 'S': 'a[%d] is String',
             'A': 'a[%d] is Array', 'P': 'true'}


def lit(kw):
    return '"%s"' % kw.replace('\\', '\\\\').replace('"', '\\"')


def chlit(c):
    return "'%s'" % ({"'": "\\'", '\\': '\\\\'}.get(c, c))


def expand(e):
    import re
    e = re.sub(r'\bnum\((\d+)\)', r'num_of(a[\1])', e)
    e = re.sub(r'\bpt\((\d+)\)', lambda m: 'pt_of(a, %s)' % m.group(1), e)
    e = re.sub(r'\bnm\((\d+)\)', r'Name(name_of(a[\1]))', e)
    e = re.sub(r'\bst\((\d+)\)', r'string_of(a[\1])', e)
    return e


def chain(rows, default):
    out = ''
    for i, (cond, val) in enumerate(rows):
        out += '    %sif %s { %s }\n' % ('' if i == 0 else 'else ', cond, val)
    out += '    else { %s }\n' % default
    return out


def main():
    groups = []
    for r in TABLE:
        if r[1] not in groups:
            groups.append(r[1])
    o = []
    o.append('// GENERATED by units/ops/gen_table.py from its TABLE (ISO 32000-1 Annex A). Do not edit by hand.')
    o.append('// %d operator keywords in %d groups.' % (len(TABLE), len(groups)))
    for gi, g in enumerate(groups, 1):
        o.append('pub open spec fn G_%s() -> int { %d }' % (g, gi))
    # keyword index
    o.append('// row number of the keyword in the table (1-based); 0 = not an operator of PDF 1.7')
    o.append('#[verifier::opaque]')
    o.append('pub open spec fn kw(op: Seq<char>) -> int {')
    o.append(chain([('op == %s@' % lit(kw), str(i)) for i, (kw, *_) in enumerate(TABLE, 1)], '0').rstrip('\n'))
    o.append('}')
    K = {kw: i for i, (kw, *_) in enumerate(TABLE, 1)}
    # group_of
    o.append('// which table of ISO 32000-1 defines the keyword')
    o.append('pub open spec fn group_k(k: int) -> int {')
    o.append(chain([('k == %d' % K[kw], 'G_%s()' % g) for kw, g, *_ in TABLE], '0').rstrip('\n'))
    o.append('}')
    # arity
    o.append('// number of operands the table lists; -1 = variable')
    o.append('pub open spec fn arity_k(k: int) -> int {')
    rows = []
    for kw, g, sig, ops, last in TABLE:
        n = -1 if (sig in ('*',) or kw in ANY_OPERANDS) else (0 if sig == '!' else len(sig))
        rows.append(('k == %d' % K[kw], str(n)))
    o.append(chain(rows, '0').rstrip('\n'))
    o.append('}')
    # pre
    o.append('// the operands the table requires are present, in order, each of the required kind')
    o.append('pub open spec fn pre_k(k: int, a: Seq<Primitive>, ii: Result<Arc<ImageXObject>>) -> bool {')
    rows = []
    for kw, g, sig, ops, last in TABLE:
        conds = []
        if sig not in ('*', '!') and len(sig) > 0:
            conds.append('a.len() >= %d' % len(sig))
            for i, k in enumerate(sig):
                p = KIND_PRED[k] % i if '%d' in KIND_PRED[k] else KIND_PRED[k]
                if p != 'true':
                    conds.append(p)
        extra = (SPECIAL.get(kw) or RELATIONAL.get(kw) or ('true',))[0]
        if extra != 'true':
            conds.append('(' + extra + ')')
        rows.append(('k == %d /* %s */' % (K[kw], kw.replace('*', 'star')), ' && '.join(conds) if conds else 'true'))
    o.append(chain(rows, 'false').rstrip('\n'))
    o.append('}')
    # expected
    o.append('// the operations the keyword stands for (rows whose operations are plain values)')
    o.append('pub open spec fn expected_k(k: int, a: Seq<Primitive>, last: Point, ii: Result<Arc<ImageXObject>>) -> Seq<Op> {')
    rows = []
    for kw, g, sig, ops, last in TABLE:
        if kw in RELATIONAL:
            continue
        if ops is None:
            ops = SPECIAL[kw][1]
        rows.append(('k == %d /* %s */' % (K[kw], kw.replace('*', 'star')), 'seq![%s]' % ', '.join(expand(e) for e in ops)))
    o.append(chain(rows, 'Seq::empty()').rstrip('\n'))
    o.append('}')
    o.append('// ... and the rows whose operation carries a vector: a relation on the sequence `out` of appended operations')
    o.append('pub open spec fn is_relational_k(k: int) -> bool { %s }' % ' || '.join('k == %d' % K[kw] for kw in RELATIONAL))
    o.append('pub open spec fn rel_relational_k(k: int, a: Seq<Primitive>, out: Seq<Op>) -> bool {')
    o.append(chain([('k == %d /* %s */' % (K[kw], kw), RELATIONAL[kw][1]) for kw in RELATIONAL], 'false').rstrip('\n'))
    o.append('}')
    # new_last
    o.append('// current point after the operator (Table 59: only m l c v y move it among the operators modelled here)')
    o.append('pub open spec fn new_last_k(k: int, a: Seq<Primitive>, last: Point) -> Point {')
    rows = [('k == %d /* %s */' % (K[kw], kw), expand(l)) for kw, g, sig, ops, l in TABLE if l]
    o.append(chain(rows, 'last').rstrip('\n'))
    o.append('}')
    o.append('pub open spec fn group_of(op: Seq<char>) -> int { group_k(kw(op)) }')
    o.append('pub open spec fn arity(op: Seq<char>) -> int { arity_k(kw(op)) }')
    o.append('pub open spec fn pre(op: Seq<char>, a: Seq<Primitive>, ii: Result<Arc<ImageXObject>>) -> bool { pre_k(kw(op), a, ii) }')
    o.append('pub open spec fn rel(op: Seq<char>, a: Seq<Primitive>, last: Point, ii: Result<Arc<ImageXObject>>, out: Seq<Op>) -> bool {')
    o.append('    if is_relational_k(kw(op)) { rel_relational_k(kw(op), a, out) } else { same_ops(out, expected_k(kw(op), a, last, ii)) }')
    o.append('}')
    o.append('pub open spec fn new_last(op: Seq<char>, a: Seq<Primitive>, last: Point) -> Point { new_last_k(kw(op), a, last) }')
    # literal lemmas
    lits = [kw for kw, *_ in TABLE] + ['Do0', 'AbsoluteColorimetric', 'RelativeColorimetric', 'Saturation', 'Perceptual']
    nk = len(TABLE) + 1
    o.append('// the characters of every string literal used by the table and by the code (reveal_strlit hints, R9)')
    o.append('pub proof fn lemma_literal_chars()')
    o.append('    ensures')
    for kw in lits:
        cs = ['%s@.len() == %d' % (lit(kw), len(kw))] + ['%s@[%d] == %s' % (lit(kw), i, chlit(c)) for i, c in enumerate(kw)]
        o.append('        ' + ' && '.join(cs) + ',')
    o.append('{')
    for kw in lits:
        o.append('    reveal_strlit(%s);' % lit(kw))
    o.append('}')
    o.append('// row number of every keyword literal (one small lemma each, so that no query has to compare all pairs)')
    for i, kw in enumerate(lits[:nk]):
        o.append('proof fn lemma_kw_%d() ensures kw(%s@) == %d { reveal(kw); lemma_literal_chars(); }' % (i, lit(kw), K.get(kw, 0)))
    o.append('// a keyword different from every table literal is not in the table')
    o.append('pub proof fn lemma_kw_unknown(op: Seq<char>)')
    o.append('    requires')
    for kw in lits[:len(TABLE)]:
        o.append('        op != %s@,' % lit(kw))
    o.append('    ensures kw(op) == 0')
    o.append('{ reveal(kw); }')
    o.append('pub proof fn lemma_literals()')
    o.append('    ensures')
    for kw in lits:
        cs = ['%s@.len() == %d' % (lit(kw), len(kw))] + ['%s@[%d] == %s' % (lit(kw), i, chlit(c)) for i, c in enumerate(kw)]
        o.append('        ' + ' && '.join(cs) + ',')
    for kw in lits[:nk]:
        o.append('        kw(%s@) == %d,' % (lit(kw), K.get(kw, 0)))
    o.append('{')
    o.append('    lemma_literal_chars();')
    for i in range(nk):
        o.append('    lemma_kw_%d();' % i)
    o.append('}')
    path = os.path.join(os.path.dirname(os.path.abspath(__file__)), 'table_spec.rs')
    with open(path, 'w') as f:
        f.write('\n'.join(o) + '\n')
    print('wrote %s: %d keywords' % (path, len(TABLE)))


if __name__ == '__main__':
    main()
