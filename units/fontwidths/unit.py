import os, importlib.util, copy

F = 'pdf/src/font.rs'
M = 'pdf/src/object/mod.rs'
P = 'pdf/src/primitive.rs'

# `struct Widths`, Widths::{get,new,ensure_cid,_set,set} are taken over from unit `widths` (same extraction, same
# contracts, proved again here so that nothing about them is assumed).
_p = os.path.join(os.path.dirname(os.path.abspath(__file__)), '..', 'widths', 'unit.py')
_s = importlib.util.spec_from_file_location('unit_widths_shared', _p)
_m = importlib.util.module_from_spec(_s)
_s.loader.exec_module(_m)
WITEMS = copy.deepcopy(_m.UNIT['items'])
# one more fact about the constructor is needed here (the default itself, not only the view)
WITEMS['Widths::new']['ensures'].append(('new_default', 'r.default == default'))
WITEMS['Widths::new']['ensures'].append(('new_extent', 'r.extent() == 0'))
# the table never reaches beyond the highest code set so far (C14: memory in proportion to the codes named)
for _k in ('Widths::_set', 'Widths::set'):
    WITEMS[_k]['ensures'].append(('set_extent', 'final(self).extent() <= (if old(self).extent() > cid + 1 { old(self).extent() } else { cid + 1 })'))

W = 'cid.widths@'
DW = 'cid.default_width'
EFF = 'eff_font(*self)'
EW = 'cid_of(%s).widths@' % EFF
EDW = 'cid_of(%s).default_width' % EFF

COMMON_INV = ['widths.wf()', ('default_is_dw', 'widths.default == %s' % DW), ('within_cid_space', 'widths.extent() <= cid_limit()')]
LIST_LOOP = {
    'invariant': COMMON_INV + [
        # codes c1 .. c1+i-1 carry the first i numbers of the array, every other code is as before the group
        ('list_prefix_set', 'forall|code: int| #[trigger] widths.view_at(code) == if c1 <= code < c1 + i { num_of(array@[code - c1]) } else { w0.view_at(code) }'),
        ('list_prefix_numbers', 'forall|j: int| 0 <= j < i ==> is_num(#[trigger] array@[j])'),
    ],
}
RANGE_LOOP = {
    'invariant': COMMON_INV + [
        '__rg.end@ == rg0.end@', 'c1 <= __rg.nxt@', '__rg.nxt@ <= rg0.end@ || __rg.nxt@ == c1',
        # the codes yielded so far carry w, every other code is as before the group
        ('range_prefix_set', 'forall|code: int| #[trigger] widths.view_at(code) == if c1 <= code < __rg.nxt@ { w } else { w0.view_at(code) }'),
    ],
    'decreases': '__rg.end@ - __rg.nxt@',
}
OUTER_LOOP = {
    'invariant': COMMON_INV + [
        'iter.seq() == %s' % W, 'iter.pos <= %s.len()' % W,
        # the table so far + the groups still to come = the whole array applied to an all-default table
        ('w_groups_applied', 'forall|code: int| w_fold(%s.skip(iter.pos as int), resolve, widths.view_at(code), code) == #[trigger] w_fold(%s, resolve, %s, code)' % (W, W, DW)),
        ('w_wellformed_so_far', 'w_wf(%s, resolve) <==> w_wf(%s.skip(iter.pos as int), resolve)' % (W, W)),
    ],
    'decreases': '%s.len() - iter.pos' % W,
}

ITEMS = {
  'struct PlainRef': {'kind': 'decl', 'file': M, 'header': r'^pub struct PlainRef$', 'attrs': ['#[derive(Clone, Copy)]']},
  'enum Primitive': {'kind': 'decl', 'file': P, 'header': r'^pub enum Primitive$'},
  'struct RcRef': {'kind': 'decl', 'file': M, 'header': r'^pub struct RcRef<T>$',
      'rewrites': [{'rule': 'R2', 'find': 'inner:', 'replace': 'pub inner:'},
                   {'rule': 'R2', 'find': 'data:', 'replace': 'pub data:'}]},
  'enum MaybeRef': {'kind': 'decl', 'file': M, 'header': r'^pub enum MaybeRef<T>$'},
  'enum FontType': {'kind': 'decl', 'file': F, 'header': r'^pub enum FontType$'},
  'struct Font': {'kind': 'decl', 'file': F, 'header': r'^pub struct Font$'},
  'enum FontData': {'kind': 'decl', 'file': F, 'header': r'^pub enum FontData$'},
  'struct TFont': {'kind': 'decl', 'file': F, 'header': r'^pub struct TFont$'},
  'struct Type0Font': {'kind': 'decl', 'file': F, 'header': r'^pub struct Type0Font$'},
  'struct CIDFont': {'kind': 'decl', 'file': F, 'header': r'^pub struct CIDFont$'},
  # Deref impls (trait methods: no canary twin possible)
  'RcRef::deref': {'kind': 'fn', 'file': M, 'container': r'^impl<T> Deref for RcRef<T>$', 'name': 'deref',
      'props': ['C19'], 'canary': False,
      'ensures': [('deref_is_data', '*r == *self.data')]},
  'MaybeRef::deref': {'kind': 'fn', 'file': M, 'container': r'^impl<T> Deref for MaybeRef<T>$', 'name': 'deref',
      'props': ['C19'], 'canary': False,
      'ensures': [('deref_is_target', '*r == mr_target(*self)')]},
}
for k, v in WITEMS.items():
    ITEMS[k] = v

ITEMS['Font::widths'] = {
  'kind': 'fn', 'file': F, 'container': r'^impl Font$', 'name': 'widths', 'props': ['C19', 'C14'],
  'attrs': ['#[verifier::loop_isolation(false)]'],
  'decreases': 'self',
  'ensures': [
     # ---- Type0: the first descendant answers (eff_font follows /DescendantFonts[0]); none -> error, never a panic
     ('type0_no_descendant_is_err', '%s.data is Type0 ==> r is Err' % EFF),
     # ---- simple fonts (Type1 / TrueType)
     ('simple_table', 'is_simple(%s) ==> simple_post(tfont_of(%s), r)' % (EFF, EFF)),
     # ---- CID fonts
     ('cid_ok_iff_wellformed', 'is_cidfont(%s) ==> (r is Ok <==> w_wf(%s, resolve))' % (EFF, EW)),
     ('cid_table_in_array_order',
      'is_cidfont(%s) ==> (r matches Ok(o) ==> o matches Some(t) && t.wf() && forall|code: int| #[trigger] t.view_at(code) == w_fold(%s, resolve, %s, code))' % (EFF, EW, EDW)),
     # C19 / ISO 32000-1 9.7.4.3
     ('cid_table_is_iso_w',
      '(is_cidfont(%s) && w_wf(%s, resolve) && w_disjoint(%s, resolve)) ==> (r matches Ok(Some(t)) && forall|code: int| #[trigger] t.view_at(code) == w_spec(%s, resolve, %s, code))' % (EFF, EW, EW, EW, EDW)),
     # C14: the table stays inside the CID space (<= 65536 entries, 256 KiB) whatever the array says
     ('cid_table_within_cid_space', 'is_cidfont(%s) ==> (r matches Ok(Some(t)) ==> t.extent() <= cid_limit())' % EFF),
     # ---- every other font kind has no width table
     ('other_none', '(%s.data is Other) ==> r matches Ok(None)' % EFF),
  ],
  'loops': {1: OUTER_LOOP, 2: LIST_LOOP, 3: LIST_LOOP, 4: RANGE_LOOP},
  'rewrites': [
     # R7: Option<&Vec>::cloned/unwrap_or_default chain (argument expression stays)
     {'rule': 'R7', 'regex': r'(\w+)\.as_ref\(\)\.cloned\(\)\.unwrap_or_default\(\)', 'replace': r'hoist_opt_vec_cloned_or_default(\1)'},
     # R3: error payload (format! of the offending primitive) dropped
     {'rule': 'R3', 'regex': r'PdfError::Other\s*\{\s*msg:\s*format!\("unexpected primitive in W array: \{:\?\}",\s*p\)\s*\}', 'replace': 'PdfError::Other', 'count': 2},
     # R6: slice iterator -> env iterator type with the same protocol; the `iter.next()` calls stay as they are
     {'rule': 'R6', 'find': 'let mut iter = cid.widths.iter();', 'replace': 'let mut iter = PrimIter::new(&cid.widths); proof { assert(%s.skip(0) =~= %s); }' % (W, W)},
     # R6: enumerate() -> index loop, the body (incl. `c1 + i`) stays verbatim
     {'rule': 'R6', 'regex': r'for \(i, w\) in array\.iter\(\)\.enumerate\(\) \{', 'replace': 'for i in 0..array.len() { let w = &array[i];', 'count': 2},
     # R6: integer range -> env iterator with the Iterator protocol of RangeInclusive / Range; bounds stay verbatim
     {'rule': 'R6', 'regex': r'for c in (\w+)\s*\.\.=\s*(\(.*?\)|\w+)\s*\{', 'replace': r'let mut __rg = URange::inclusive(\1, \2); let ghost rg0 = __rg; while let Some(c) = __rg.next() {', 'count': '*'},
     {'rule': 'R6', 'regex': r'for c in (\w+)\s*\.\.(?!=)\s*(\(.*?\)|\w+)\s*\{', 'replace': r'let mut __rg = URange::exclusive(\1, \2); let ghost rg0 = __rg; while let Some(c) = __rg.next() {', 'count': '*'},
     # R10: reference patterns on `Option<&Primitive>`
     {'rule': 'R10', 'find': 'Some(&Primitive::Reference(r)) => {', 'replace': 'Some(Primitive::Reference(r_)) => { let r = *r_;'},
     {'rule': 'R10', 'find': 'Some(&Primitive::Integer(c2)) => {', 'replace': 'Some(Primitive::Integer(c2_)) => { let c2 = *c2_;'},
     # R1 ghost injections
     {'rule': 'R1', 'find': 'while let Some(p) = iter.next() {',
      'replace': 'while let Some(p) = iter.next() { let ghost gp: int = iter.pos - 1; proof { lemma_skip_skip(%s, gp, 2); lemma_skip_skip(%s, gp, 3); }' % (W, W)},
     {'rule': 'R1', 'find': 'Some(Primitive::Array(array)) => {', 'replace': 'Some(Primitive::Array(array)) => { proof { axiom_vec_prim_len(*array); }'},
     {'rule': 'R1', 'find': 'Primitive::Array(array) => {', 'replace': 'Primitive::Array(array) => { proof { axiom_vec_prim_len(array); }'},
     {'rule': 'R1', 'regex': r'widths\.ensure_cid\(', 'replace': 'let ghost w0 = widths; widths.ensure_cid(', 'count': 2},
     {'rule': 'R1', 'regex': r'let mut __rg = ', 'replace': 'let ghost w0 = widths; let mut __rg = ', 'count': '*'},
     {'rule': 'R1', 'find': 'Ok(Some(widths)) }, _ => Ok(None)',
      'replace': 'proof { assert forall|code: int| w_disjoint(%s, resolve) ==> w_fold(%s, resolve, %s, code) == w_spec(%s, resolve, %s, code) by { lemma_fold_is_spec(%s, resolve, %s, code); } } Ok(Some(widths)) }, _ => Ok(None)' % (W, W, DW, W, DW, W, DW)},
  ],
}

UNIT = {
 'rlimit': 60,   # headroom: the proof needs < 1/4 of this (checked with the half-rlimit stability run)
 'name': 'fontwidths',
 'doc': 'Font::widths: /W array of CID fonts (both group forms, /DW elsewhere), /FirstChar+/Widths of simple fonts, Type0 delegation',
 'timeout': 900,
 'deviations': {
   'DEV_W_CODES_BEYOND_CID_SPACE': 'Font::widths accepts CIDs above 65535 (ISO 32000-1 Annex C) in /W: `/W [0 2147483647 500]` (a 612-byte '
                                   'file) builds a dense table of 2^31 entries = 8 GiB or aborts on allocation failure. '
                                   'See findings/w_code_beyond_cid_space.md (+ _fix.diff: with the fix applied the unit verifies with the deviation OFF)',
 },
 'items': ITEMS,
}
