// Unit `fontwidths` (C19, C14): Font::widths of pdf/src/font.rs -- the interpretation of the /W array of a CID font
// (ISO 32000-1 9.7.4.3), of /FirstChar + /Widths of a simple font (9.6.2.1), delegation of a Type0 font to its first
// descendant -- on top of Widths::{get,new,ensure_cid,_set,set} (same extraction and contracts as unit `widths`,
// proved again here so that nothing about them is assumed).
use vstd::prelude::*;
use std::sync::Arc;
use core::marker::PhantomData;
use core::ops::Deref;
//@@ INCLUDE _common/error_macros.rs
verus! {
global size_of usize == 8;

//@@ PDFERROR
//@@ DEVIATIONS

// ------------------------------------------------------------------ environment: opaque payload types (never looked into)
pub struct Name { opaque: u8 }
pub struct Encoding { opaque: u8 }
pub struct Dictionary { opaque: u8 }
pub struct FontDescriptor { opaque: u8 }
pub struct CidToGidMap { opaque: u8 }
pub struct SmallString { opaque: u8 }
pub struct PdfString { opaque: u8 }
pub struct PdfStream { opaque: u8 }
pub struct Stream<T> { opaque: u8, _marker: PhantomData<T> }
pub type ObjNr = u64;
pub type GenNr = u64;
pub type Shared<T> = Arc<T>;

// ------------------------------------------------------------------ data types, text from /repo
//@@ struct PlainRef
//@@ enum Primitive
//@@ struct RcRef
//@@ enum MaybeRef
//@@ enum FontType
//@@ struct Font
//@@ enum FontData
//@@ struct TFont
//@@ struct Type0Font
//@@ struct CIDFont
//@@ struct Widths

impl<T> Deref for RcRef<T> {
    type Target = T;
//@@ RcRef::deref
}
impl<T> Deref for MaybeRef<T> {
    type Target = T;
//@@ MaybeRef::deref
}
// the object a MaybeRef stands for (direct value or the loaded target of the reference)
pub open spec fn mr_target<T>(m: MaybeRef<T>) -> T {
    match m { MaybeRef::Direct(t) => *t, MaybeRef::Indirect(rr) => *rr.data }
}

// Abstract `Resolve` (pdf/src/object/mod.rs): only the untyped `resolve` is used here. `lookup` is what the file holds
// behind a reference (or the error of looking it up); nothing is assumed about it.
pub trait Resolve {
    spec fn lookup(&self, r: PlainRef) -> Result<Primitive>;
    fn resolve(&self, r: PlainRef) -> (res: Result<Primitive>)
        ensures res == self.lookup(r);
}

// ------------------------------------------------------------------ Primitive accessors (env stubs, proved elsewhere)
pub uninterp spec fn f32_of_i32(n: i32) -> f32;     // `n as f32`
pub open spec fn is_num(p: Primitive) -> bool { p is Integer || p is Number }
pub open spec fn num_of(p: Primitive) -> f32 {
    match p { Primitive::Integer(n) => f32_of_i32(n), Primitive::Number(f) => f, _ => 0.0f32 }
}
// a character code / CID operand: a non-negative integer object
pub open spec fn is_code(p: Primitive) -> bool { p matches Primitive::Integer(n) && n >= 0 }
pub open spec fn code_of(p: Primitive) -> int { p->Integer_0 as int }
// a CID: ISO 32000-1 Annex C (Table C.1): "Maximum value of a CID (character identifier): 65 535"
// With the named deviation on (known finding w_code_beyond_cid_space, unrepaired tree) the limit is lifted: any
// non-negative integer object is taken as a CID and no bound on the table is claimed.
pub open spec fn cid_limit() -> int { if DEV_W_CODES_BEYOND_CID_SPACE() { usize::MAX as int } else { 0x10000 } }
pub open spec fn is_cid(p: Primitive) -> bool { is_code(p) && code_of(p) < cid_limit() }
impl Primitive {
    // proved in units/expansions_hw: Primitive::as_usize/spec  (Integer(n), n >= 0 -> Ok(n); everything else Err)
    #[verifier::external_body]
    pub fn as_usize(&self) -> (r: Result<usize>)
        ensures r is Ok <==> is_code(*self), r matches Ok(n) ==> n as int == code_of(*self)
    { unimplemented!() }
    // proved in units/expansions_hw: Primitive::as_number/spec  (Integer(n) -> n as f32, Number(f) -> f, else Err)
    #[verifier::external_body]
    pub fn as_number(&self) -> (r: Result<f32>)
        ensures r is Ok <==> is_num(*self), r matches Ok(v) ==> v == num_of(*self)
    { unimplemented!() }
}

// ------------------------------------------------------------------ L0 helpers (R7) and env iterators (R6)
// --- taken over from unit `widths` (std iterator adaptors; bodies are the hoisted source text)
#[verifier::external_body]
fn hoist_splice_front(values: &mut Vec<f32>, d: f32, n: usize)
    ensures final(values)@ == Seq::new(n as nat, |i: int| d) + old(values)@
{
    values.splice(0 .. 0, std::iter::repeat(d).take(n));
}
#[verifier::external_body]
fn hoist_extend_repeat(values: &mut Vec<f32>, d: f32, n: usize)
    ensures final(values)@ == old(values)@ + Seq::new(n as nat, |i: int| d)
{
    values.extend(std::iter::repeat(d).take(n));
}
#[verifier::external_body]
fn hoist_reserve_to(values: &mut Vec<f32>, offset: usize)
    ensures final(values)@ == old(values)@
{
    values.reserve(offset.saturating_sub(values.capacity()));
}
// `widths.as_ref().cloned().unwrap_or_default()` on an `&Option<Vec<f32>>`: a copy of the vector, or the empty one
#[verifier::external_body]
fn hoist_opt_vec_cloned_or_default(o: &Option<Vec<f32>>) -> (r: Vec<f32>)
    ensures r@ == opt_seq(*o)
{
    o.as_ref().cloned().unwrap_or_default()
}
pub open spec fn opt_seq(o: Option<Vec<f32>>) -> Seq<f32> { match o { Some(v) => v@, None => Seq::empty() } }

// R6: `slice::Iter<'_, Primitive>` as an env type whose `next()` is the Iterator protocol over a ghost sequence.
pub struct PrimIter<'a> { pub v: &'a Vec<Primitive>, pub pos: usize }
impl<'a> PrimIter<'a> {
    pub open spec fn seq(&self) -> Seq<Primitive> { self.v@ }
    #[verifier::external_body]
    pub fn new(v: &'a Vec<Primitive>) -> (r: PrimIter<'a>)
        ensures r.seq() == v@, r.pos == 0
    { PrimIter { v, pos: 0 } }
    // protocol of `<slice::Iter as Iterator>::next`: the element under the cursor and advance, or None at the end (and stay)
    #[verifier::external_body]
    pub fn next(&mut self) -> (r: Option<&'a Primitive>)
        ensures
            final(self).seq() == old(self).seq(),
            old(self).pos < old(self).seq().len() ==> (r matches Some(p) && *p == old(self).seq()[old(self).pos as int]) && final(self).pos == old(self).pos + 1,
            old(self).pos >= old(self).seq().len() ==> r is None && final(self).pos == old(self).pos,
    { unimplemented!() }
}
// R6: `RangeInclusive<usize>` / `Range<usize>` as an env type whose `next()` is the Iterator protocol over the ghost
// interval [nxt, end): yields nxt and advances while nxt < end, then None (and stays).
pub struct URange { pub nxt: Ghost<int>, pub end: Ghost<int> }
impl URange {
    // `a ..= b`
    #[verifier::external_body]
    pub fn inclusive(a: usize, b: usize) -> (r: URange)
        ensures r.nxt@ == a, r.end@ == b + 1
    { unimplemented!() }
    // `a .. b`  (only met in mutated sources)
    #[verifier::external_body]
    pub fn exclusive(a: usize, b: usize) -> (r: URange)
        ensures r.nxt@ == a, r.end@ == b
    { unimplemented!() }
    #[verifier::external_body]
    pub fn next(&mut self) -> (r: Option<usize>)
        ensures
            final(self).end@ == old(self).end@,
            old(self).nxt@ < old(self).end@ ==> r == Some(old(self).nxt@ as usize) && final(self).nxt@ == old(self).nxt@ + 1,
            old(self).nxt@ >= old(self).end@ ==> r is None && final(self).nxt@ == old(self).nxt@,
    { unimplemented!() }
}
// Trusted fact about std: a Vec of a non-zero-sized element type never holds more than isize::MAX bytes
// ("Vec ... never allocate more than isize::MAX bytes"), hence not more than isize::MAX elements.
#[verifier::external_body]
pub proof fn axiom_vec_prim_len(v: Vec<Primitive>)
    ensures v@.len() <= isize::MAX
{}

// ------------------------------------------------------------------ specification: the width table (unit `widths`)
impl Widths {
    // "the entry at code minus first-character inside the table and the default outside"
    pub open spec fn view_at(&self, cid: int) -> f32 {
        if cid < self.first_char || cid >= self.first_char + self.values@.len() { self.default } else { self.values@[cid - self.first_char] }
    }
    pub open spec fn wf(&self) -> bool { self.first_char + self.values@.len() <= usize::MAX }
    // one past the highest code that has a slot in the table (the table is dense from first_char up to here)
    pub open spec fn extent(&self) -> int { self.first_char + self.values@.len() }

//@@ Widths::index_helper1
//@@ Widths::index_helper2
//@@ Widths::get
//@@ Widths::new
//@@ Widths::ensure_cid
//@@ Widths::_set
//@@ Widths::set
}

// ------------------------------------------------------------------ specification: the /W array, ISO 32000-1 9.7.4.3
// "The W array ... elements have a variable format that can specify individual widths for consecutive CIDs or one
//  width for a range of CIDs:   c [w1 w2 ... wn]      c_first c_last w
//  In the first format, c shall be an integer specifying a starting CID value; it shall be followed by an array of n
//  numbers that shall specify the widths for n consecutive CIDs, starting with c. The second format shall define the
//  same width, w, for all CIDs in the range c_first to c_last." Glyphs not covered use /DW.

// the array operand of the first format: written in place or through one indirect reference
pub open spec fn list_operand<R: Resolve>(p: Primitive, res: &R) -> Option<Seq<Primitive>> {
    match p {
        Primitive::Array(v) => Some(v@),
        Primitive::Reference(r) => match res.lookup(r) { Ok(Primitive::Array(v)) => Some(v@), _ => None },
        _ => None,
    }
}
pub open spec fn all_nums(a: Seq<Primitive>) -> bool { forall|i: int| 0 <= i < a.len() ==> is_num(#[trigger] a[i]) }
// number of elements occupied by the group at the front of `w`: 2 (first format), 3 (second format), 0 = no group there
pub open spec fn grp_len<R: Resolve>(w: Seq<Primitive>, res: &R) -> int {
    if w.len() >= 2 && is_cid(w[0]) && list_operand(w[1], res) is Some && all_nums(list_operand(w[1], res)->Some_0)
        && code_of(w[0]) + list_operand(w[1], res)->Some_0.len() <= cid_limit() { 2 }
    else if w.len() >= 3 && is_cid(w[0]) && is_cid(w[1]) && is_num(w[2]) { 3 }
    else { 0 }
}
// the front group assigns a width to `code`
pub open spec fn grp_covers<R: Resolve>(w: Seq<Primitive>, res: &R, code: int) -> bool {
    if grp_len(w, res) == 2 { code_of(w[0]) <= code < code_of(w[0]) + list_operand(w[1], res)->Some_0.len() }
    else if grp_len(w, res) == 3 { code_of(w[0]) <= code <= code_of(w[1]) }
    else { false }
}
pub open spec fn grp_width<R: Resolve>(w: Seq<Primitive>, res: &R, code: int) -> f32 {
    if grp_len(w, res) == 2 { num_of(list_operand(w[1], res)->Some_0[code - code_of(w[0])]) } else { num_of(w[2]) }
}
// well-formed: the array is a sequence of groups, nothing left over
pub open spec fn w_wf<R: Resolve>(w: Seq<Primitive>, res: &R) -> bool
    decreases w.len()
{
    w.len() == 0 || (grp_len(w, res) > 0 && w_wf(w.skip(grp_len(w, res)), res))
}
pub open spec fn w_covered<R: Resolve>(w: Seq<Primitive>, res: &R, code: int) -> bool
    decreases w.len()
{
    grp_len(w, res) > 0 && (grp_covers(w, res, code) || w_covered(w.skip(grp_len(w, res)), res, code))
}
// the groups cover disjoint code ranges
pub open spec fn w_disjoint<R: Resolve>(w: Seq<Primitive>, res: &R) -> bool
    decreases w.len()
{
    grp_len(w, res) == 0 || (
        (forall|c: int| grp_covers(w, res, c) ==> !#[trigger] w_covered(w.skip(grp_len(w, res)), res, c))
        && w_disjoint(w.skip(grp_len(w, res)), res))
}
// THE table a /W array and /DW define: the width given by the group that contains the code, /DW elsewhere
pub open spec fn w_spec<R: Resolve>(w: Seq<Primitive>, res: &R, dw: f32, code: int) -> f32
    decreases w.len()
{
    if grp_len(w, res) <= 0 { dw }
    else if grp_covers(w, res, code) { grp_width(w, res, code) }
    else { w_spec(w.skip(grp_len(w, res)), res, dw, code) }
}
// Order-dependent reading (a later group overrides an earlier one): what the table is for ANY sequence of groups,
// overlapping or not. Equal to w_spec when the groups are disjoint (lemma_fold_is_spec).
pub open spec fn w_fold<R: Resolve>(w: Seq<Primitive>, res: &R, cur: f32, code: int) -> f32
    decreases w.len()
{
    if grp_len(w, res) <= 0 { cur }
    else { w_fold(w.skip(grp_len(w, res)), res, if grp_covers(w, res, code) { grp_width(w, res, code) } else { cur }, code) }
}
pub proof fn lemma_fold_uncovered<R: Resolve>(w: Seq<Primitive>, res: &R, cur: f32, code: int)
    ensures !w_covered(w, res, code) ==> w_fold(w, res, cur, code) == cur
    decreases w.len()
{
    if grp_len(w, res) > 0 { lemma_fold_uncovered(w.skip(grp_len(w, res)), res, cur, code); }
}
pub proof fn lemma_fold_is_spec<R: Resolve>(w: Seq<Primitive>, res: &R, dw: f32, code: int)
    ensures w_disjoint(w, res) ==> w_fold(w, res, dw, code) == w_spec(w, res, dw, code)
    decreases w.len()
{
    let n = grp_len(w, res);
    if n > 0 {
        lemma_fold_is_spec(w.skip(n), res, dw, code);
        lemma_fold_uncovered(w.skip(n), res, grp_width(w, res, code), code);
    }
}
pub proof fn lemma_skip_skip(w: Seq<Primitive>, a: int, b: int)
    ensures 0 <= a && 0 <= b && a + b <= w.len() ==> w.skip(a).skip(b) =~= w.skip(a + b)
{}

// ------------------------------------------------------------------ specification: which font answers, simple fonts
// A Type0 font has exactly one descendant (ISO 32000-1 9.7.6.1: /DescendantFonts is a one-element array); its glyph
// metrics are those of that CIDFont. `eff_font` follows that delegation.
pub open spec fn eff_font(f: Font) -> Font
    decreases f
{
    match f.data {
        FontData::Type0(t0) => if t0.descendant_fonts@.len() > 0 { eff_font(mr_target(t0.descendant_fonts@[0])) } else { f },
        _ => f,
    }
}
// simple fonts, 9.6.2.1: /Widths holds the widths of codes FirstChar..LastChar; "for character codes outside the
// range FirstChar to LastChar, the value of MissingWidth from the FontDescriptor" -- this crate reports 0 there
// (MissingWidth defaults to 0) -- C19: "the entry at code minus first-character inside the table, default outside".
pub open spec fn simple_spec(first: int, ws: Seq<f32>, code: int) -> f32 {
    if first <= code < first + ws.len() { ws[code - first] } else { 0.0f32 }
}
pub open spec fn simple_post(info: TFont, r: Result<Option<Widths>>) -> bool {
    match info.first_char {
        Some(first) => r matches Ok(Some(t)) && (first >= 0 ==> forall|code: int| #[trigger] t.view_at(code) == simple_spec(first as int, opt_seq(info.widths), code)),
        None => r matches Ok(None),
    }
}
pub open spec fn cid_of(f: Font) -> CIDFont {
    match f.data { FontData::CIDFontType0(c) => c, FontData::CIDFontType2(c) => c, _ => arbitrary() }
}
pub open spec fn is_cidfont(f: Font) -> bool { f.data is CIDFontType0 || f.data is CIDFontType2 }
pub open spec fn is_simple(f: Font) -> bool { f.data is Type1 || f.data is TrueType }
pub open spec fn tfont_of(f: Font) -> TFont {
    match f.data { FontData::Type1(t) => t, FontData::TrueType(t) => t, _ => arbitrary() }
}

impl Font {
//@@ Font::widths
}
}
fn main(){}
