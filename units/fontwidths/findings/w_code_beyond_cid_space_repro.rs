// Native repro for finding `w_code_beyond_cid_space` (C14) of unit `fontwidths`. Drop into a scratch copy of /repo as
// pdf/tests/fontwidths_repro.rs (no `files/` directory needed) and run ONE test per process under a memory limit:
//   cd /tmp/x && ( ulimit -v 3000000; CARGO_TARGET_DIR=/tmp/<private>_target timeout 300 \
//        cargo test --offline -p pdf --test fontwidths_repro w_range_to_i32_max -- --exact --nocapture )
use pdf::file::FileOptions;
use pdf::object::*;
use pdf::primitive::Primitive;
use pdf::font::Font;

fn build_pdf(objs: &[&str]) -> Vec<u8> {
    let mut out = b"%PDF-1.7\n".to_vec();
    let mut offs = vec![];
    for (i, body) in objs.iter().enumerate() {
        offs.push(out.len());
        out.extend_from_slice(format!("{} 0 obj\n{}\nendobj\n", i + 1, body).as_bytes());
    }
    let xref = out.len();
    out.extend_from_slice(format!("xref\n0 {}\n0000000000 65535 f \n", objs.len() + 1).as_bytes());
    for o in &offs { out.extend_from_slice(format!("{:010} 00000 n \n", o).as_bytes()); }
    out.extend_from_slice(format!("trailer\n<< /Size {} /Root 1 0 R >>\nstartxref\n{}\n%%EOF\n", objs.len() + 1, xref).as_bytes());
    out
}
fn cid_font(w: &str) -> Vec<u8> {
    let f = format!("<< /Type /Font /Subtype /CIDFontType2 /BaseFont /X /CIDSystemInfo << /Registry (Adobe) /Ordering (Identity) /Supplement 0 >> /FontDescriptor 4 0 R /DW 1000 /W {} >>", w);
    build_pdf(&[
        "<< /Type /Catalog /Pages 2 0 R >>",
        "<< /Type /Pages /Kids [] /Count 0 >>",
        &f,
        "<< /Type /FontDescriptor /FontName /X /Flags 4 /FontBBox [0 0 1 1] /ItalicAngle 0 /Ascent 1 /Descent 0 /CapHeight 1 /StemV 1 >>",
    ])
}
fn widths_of(data: Vec<u8>) -> Result<Option<pdf::font::Widths>, pdf::error::PdfError> {
    println!("file size: {} bytes", data.len());
    let file = FileOptions::cached().load(data).expect("document loads");
    let font = Font::from_primitive(Primitive::Reference(PlainRef { id: 3, gen: 0 }), &file.resolver()).expect("font loads");
    let res = font.widths(&file.resolver());
    res
}
/// `/W [0 2147483647 500]`: a 20-byte array makes the dense table 2^31 entries (8 GiB) long.
#[test]
fn w_range_to_i32_max() {
    let res = widths_of(cid_font("[0 2147483647 500]"));
    println!("widths returned ok={:?}", res.is_ok());
    assert!(res.is_err(), "a CID beyond 65535 (ISO 32000-1 Annex C) must be an error");
}
/// `/W [0 [1] 2147483647 [1]]`: two one-element lists, the second at the top of the i32 range: same table.
#[test]
fn w_list_at_i32_max() {
    let res = widths_of(cid_font("[0 [1] 2147483647 [1]]"));
    println!("widths returned ok={:?}", res.is_ok());
    assert!(res.is_err(), "a CID beyond 65535 (ISO 32000-1 Annex C) must be an error");
}
/// sanity: the whole CID space is still accepted
#[test]
fn w_full_cid_space_ok() {
    let w = widths_of(cid_font("[0 65535 500 65535 [7]]")).unwrap().unwrap();
    assert_eq!((w.get(0), w.get(65534), w.get(65535), w.get(65536)), (500., 500., 7., 1000.));
}
