# Unit `decrypt` (C06 key plumbing, C14 key-size selection): Decoder::{default, from_password, new, key, decrypt} of
# pdf/src/crypt.rs. See NOTES.md. Verifies completely on /repo + findings/*_fix.diff (four small patches); on the pinned
# tree it fails at exactly the obligations listed in NOTES.md "Findings".
F = 'pdf/src/crypt.rs'
O = 'pdf/src/object/mod.rs'
IMPL = r'^impl Decoder$'

NOT_EXEMPT = '!self.exempt(id) && old(data)@.len() > 0'
# AES results: the ISO outcome with the pad checked strictly, or (TOL_PAD_BYTES_UNCHECKED) with only the last byte looked at
DELIVERS = lambda dec: 'delivers_either(r, %s.iso_decrypt(id, old(data)@), %s.iso_decrypt_pad(id, old(data)@, false))' % (dec, dec)


def _pad_helper():
    """A padding-removal helper next to `Decoder::decrypt`: ANY free fn of crypt.rs of the shape `fn NAME(x: &[u8]) -> Result<&[u8]>`
    (or `&mut [u8]`), whatever its name. The pinned tree has none (the `cbc` crate unpads): then the item is absent (optional)."""
    import os, re
    from vlib import assemble as _asm
    try:
        src = _asm.strip_comments(open(os.path.join(_asm.REPO, F), encoding='utf-8').read())
    except OSError:
        return None
    m = re.search(r"^(?:pub(?:\([a-z]+\))? )?fn (\w+)(?:<'\w+>)?\((\w+): &(?:'\w+ )?(mut )?\[u8\]\) -> Result<&(?:'\w+ )?\[u8\]>", src, re.M)
    return (m.group(1), m.group(2), bool(m.group(3))) if m else None


_PH = _pad_helper()
_PH_NAME, _PH_ARG, _PH_MUT = _PH if _PH else ('strip_padding', 'plain', False)
_PH_IN = ('old(%s)@' if _PH_MUT else '%s@') % _PH_ARG

# R7 hoists shared by key() and decrypt(); argument expressions stay verbatim (regex back-references)
HOISTS = [
    {'rule': 'R7', 'regex': r'std::cmp::min\(', 'replace': 'hoist_min(', 'count': '*'},
]

UNIT = {
 'name': 'decrypt',
 'doc': 'Decoder::{key, decrypt} against ISO 32000 Algorithm 1 / 1.A; Decoder::{from_password, default} key-size selection and '
        'login plumbing against Table 20/21, Algorithms 6, 7, 2.A (MD5, SHA-2, AES uninterpreted; RC4 = spec fn and lemmas of units/rc4, no RC4 axiom)',
 # BOUNDED native stand-in (never counted as proved): encrypted documents built from scratch by an independent implementation of
 # the standard security handler, read back through the public API
 'native': {'tests': [
    {'name': 'encrypted_documents_read_back_plaintext', 'code': 'native_c06_bounded.rs', 'place': 'pdf/tests/verif_c06_bounded.rs',
     'fn': 'FileOptions::load', 'props': ['C06'], 'tier': 'quick', 'timeout': 900,
     'bound': '6 handlers (RC4-40 V1/R2, RC4-128 V2/R3, crypt filter /V2 V4/R4, AESV2 V4/R4, AESV3 V5/R5, AESV3 V5/R6 with Algorithm 2.B) '
              'x 2 password pairs (empty / non-empty user password) x {user, owner} password x /EncryptMetadata {true, false} (V4, V5 only) '
              'x {xref table with generations 0,1,2 and object number 0x012345; xref stream + object stream} = 80 documents; in each: every '
              'plaintext length 0..=33 as hex/literal string in a dictionary and in an array, and as stream data via Stream::data and '
              'PdfStream::raw_data (each read twice), one ASCIIHex-filtered stream, a /Metadata stream (cleartext in the file when '
              '/EncryptMetadata false), /O and /U of the encryption dictionary; + a wrong password per document. /StrF == /StmF throughout '
              '(a document whose string filter differs: findings/strf_ignored.md). Not covered: /Perms validation, non-ASCII passwords',
     'contract': 'every string and every stream reads back equal to the plaintext that was encrypted (Algorithm 1 / 1.A by an independent '
                 'implementation); cleartext metadata and the strings of the encryption dictionary come back unmodified; a wrong password is InvalidPassword'},
    # known finding (known_findings.txt): /StrF is ignored. Its own obligation id, so that only this case is listed.
    {'name': 'strf_selects_the_string_filter', 'code': 'native_strf_identity.rs', 'place': 'pdf/tests/verif_c06_strf.rs',
     'fn': 'Decoder::from_password', 'props': ['C06'], 'tier': 'quick', 'timeout': 900,
     'bound': 'V4/R4 documents with /StmF /StdCF /StrF /Identity, /CFM /V2 and /CFM /AESV2, 34 clear strings of length 0..=33, user password empty',
     'contract': 'ISO 32000-1 Table 20: strings are processed by the crypt filter named by /StrF (here /Identity: passed through unchanged), streams by /StmF'},
 ]},
 'tolerances': {
   'TOL_PAD_BYTES_UNCHECKED': 'AES data whose last byte is a possible pad length n (1..=16, at most the data length) but whose last n bytes are not all '
        'equal to n: no encryptor that follows 7.6.2 produces it, C06 does not say what reading it yields. The `cbc` crate rejects it '
        '(DecryptionFailure); a reader that looks at the last byte only and drops n bytes is accepted as well. On every well-formed pad the two agree.',
 },
 'items': {
  'type ObjNr': {'kind': 'decl', 'file': O, 'header': r'^pub type ObjNr\b'},
  'type GenNr': {'kind': 'decl', 'file': O, 'header': r'^pub type GenNr\b'},
  'struct PlainRef': {'kind': 'decl', 'file': O, 'header': r'^pub struct PlainRef$',
     'attrs': ['#[derive(Clone, Copy, PartialEq, Eq, Structural)]']},
  'enum CryptMethod': {'kind': 'decl', 'file': F, 'header': r'^pub enum CryptMethod$',
     'attrs': ['#[derive(Clone, Copy)]']},
  'struct Decoder': {'kind': 'decl', 'file': F, 'header': r'^pub struct Decoder$',
     'rewrites': [{'rule': 'R2', 'find': 'key_size:', 'replace': 'pub key_size:'},
                  {'rule': 'R2', 'find': 'key:', 'replace': 'pub key:'},
                  {'rule': 'R2', 'find': 'method:', 'replace': 'pub method:'},
                  {'rule': 'R2', 'find': 'pub(crate)', 'replace': 'pub', 'count': 2},
                  {'rule': 'R2', 'find': 'encrypt_metadata:', 'replace': 'pub encrypt_metadata:'}]},

  # ---------------- from_password (key-size selection, login plumbing) ----------------
  'enum AuthEvent': {'kind': 'decl', 'file': F, 'header': r'^pub enum AuthEvent$', 'attrs': ['#[derive(Clone, Copy)]']},
  'struct CryptFilter': {'kind': 'decl', 'file': F, 'header': r'^pub struct CryptFilter$',
     'rewrites': [{'rule': 'R2', 'find': '_other: Dictionary', 'replace': ''}]},
  'struct CryptDict': {'kind': 'decl', 'file': F, 'header': r'^pub struct CryptDict$',
     'rewrites': [{'rule': 'R2', 'regex': r'\n    (\w+): ', 'replace': r'\n    pub \1: ', 'count': '*'},
                  {'rule': 'R2', 'find': 'pub _other: Dictionary', 'replace': ''}]},
  'Decoder::new': {'kind': 'fn', 'file': F, 'container': IMPL, 'name': 'new', 'props': ['C06'],
     'ensures': [('new_fields', 'r.key_size == key_size && r.key@ == key@ && r.method == method && r.encrypt_metadata == encrypt_metadata '
                                '&& r.encrypt_indirect_object is None && r.metadata_indirect_object is None')]},
  'Decoder::from_password': {'kind': 'fn', 'file': F, 'container': IMPL, 'name': 'from_password', 'props': ['C06', 'C14'],
     'ensures': [
        ('selection_rejects', 'iso_selection(*dict) is None ==> r is Err'),
        ('revision_rejects', '!(2 <= dict.r <= 6) ==> r is Err'),
        ('key_size_selection', 'post_key_size_selection(*dict, r)'),
        ('decoder_wf', 'r matches Ok(d) ==> d.wf()'),
        ('rc4_login', 'post_rc4_login(*dict, id@, pass@, r)'),
        ('aes_login', 'post_aes_login(*dict, pass@, r)'),
     ],
     'loops': {1: {'for_ghost': 'it',
                   'invariant': ['data@ == rounds_up(password_wrap_key@, dict.o.view(), it.index@ as int)',
                                 'password_wrap_key@.len() == key_size', '1 <= key_size <= 16', 'rounds <= 20']}},
     'rewrites': [
        # R2: the seven nested fn items are lifted out of the body (they are abstract callees, see the template)
        {'rule': 'R2', 'regex': r'fn (?:compute_u_rev_2|check_password_rev_2|compute_u_rev_3_4|check_password_rev_3_4|check_password_rc4|'
                                r'key_derivation_user_password_rc4|key_derivation_owner_password_rc4)\(.*?\n        \}\n',
         'replace': '', 'count': 7},
        # R1: closure contracts (Verus needs them to know the value of Option::map)
        {'rule': 'R1', 'regex': r'\|n\| 8 \* n', 'count': '*',
         'replace': '|n: u32| -> (r8: u32) ensures r8 == 8 * n { 8 * n }'},
        {'rule': 'R1', 'regex': r'\|n\| n\.saturating_mul\(8\)', 'count': '*',
         'replace': '|n: u32| -> (r8: u32) ensures r8 == (if 8 * n <= u32::MAX { (8 * n) as u32 } else { u32::MAX }) { n.saturating_mul(8) }'},
        {'rule': 'R1', 'find': 'let unwrapped_user_password = data;',
         'replace': 'proof { lemma_alg7(level, password_wrap_key@, dict.o.view(), rounds as int); } let unwrapped_user_password = data;'},
        # shape-independent hints only (tautologies / lemmas over the ISO-side terms)
        {'rule': 'R1', 'find': 'let (intermediate_key, mut wrapped_key) =',
         'replace': 'proof { lemma_empty_literal(); let pw_ = password_encoded@; let u_ = dict.u.view(); '
                    'lemma_concat_empty(pw_); lemma_concat_empty(pw_ + u_.subrange(32, 40)); lemma_concat_empty(pw_ + u_.subrange(40, 48)); } '
                    'let (intermediate_key, mut wrapped_key) ='},
        {'rule': 'R1', 'regex': r'if check_password_rc4\(', 'count': 2,
         'replace': 'proof { assert(key_size <= 16 ==> key@.subrange(0, 16).subrange(0, key_size as int) =~= key@.subrange(0, key_size as int)); } if check_password_rc4('},
        {'rule': 'R1', 'find': 'let key_slice = t!(',
         'replace': 'proof { assert((zero_iv.view().len() == 16 && (forall|i: int| 0 <= i < 16 ==> zero_iv.view()[i] == 0u8)) ==> zero_iv.view() =~= zeros16()); } let key_slice = t!('},
        # R7 hoists
        {'rule': 'R7', 'regex': r'dict\s*\.crypt_filters\s*\.get\((.*?)\)\s*\.ok_or_else\(\|\| other!\(.*?\)\)\?;',
         'replace': r'hoist_cf_get(&dict.crypt_filters, \1)?;', 'count': 1},
        {'rule': 'R7', 'regex': r'\((\d+)\.\.=(\d+)\)\.contains\((&\w+)\)', 'replace': r'hoist_range_incl_contains(\1, \2, \3)', 'count': 1},
        {'rule': 'R7', 'regex': r'std::cmp::min\(', 'replace': 'hoist_min(', 'count': '*'},
        {'rule': 'R7', 'regex': r'(dict\.o\.as_bytes\(\))\.to_vec\(\)', 'replace': r'hoist_to_vec(\1)', 'count': 1},
        {'rule': 'R7', 'regex': r'for byte in round_key\.iter_mut\(\) \{\s*\*byte \^= round;\s*\}', 'replace': 'hoist_xor_all(&mut round_key, round);', 'count': 1},
        {'rule': 'R3', 'regex': r'err!\(format!\((?:.*?)\)\s*\.into\(\)\)', 'replace': 'err!(PdfError::Other)', 'count': 3},
        {'rule': 'R7', 'regex': r'String::from_utf8\(pass\.to_vec\(\)\)\.map_err\(\|_\| PdfError::InvalidPassword\)', 'replace': 'hoist_from_utf8(pass)', 'count': 1},
        {'rule': 'R7', 'regex': r'stringprep::saslprep\((&\w+)\)\.map_err\(\|_\| PdfError::InvalidPassword\)', 'replace': r'hoist_saslprep(\1)', 'count': 1},
        {'rule': 'R7', 'regex': r'dict\.(ue|oe)\.as_ref\(\)\.ok_or_else\(\|\| PdfError::MissingEntry \{.*?\}\)', 'replace': r'hoist_ok_or_missing(dict.\1.as_ref())', 'count': 2},
        {'rule': 'R7', 'regex': r'(t!\(hoist_ok_or_missing\(dict\.\w+\.as_ref\(\)\)\)\s*\.as_bytes\(\))\s*\.to_vec\(\)', 'replace': r'hoist_to_vec(\1)', 'count': 2},
        {'rule': 'R7', 'regex': r'(Self::revision_6_kdf\([^()]*\))\.into\(\)', 'replace': r'hoist_ga_from_array(\1)', 'count': 2},
        {'rule': 'R7', 'regex': r'b("[^"]*")', 'replace': r'hoist_bstr(\1)', 'count': '*'},
        {'rule': 'R7', 'regex': r'(\w+_hash_computed)\.as_slice\(\) == (\w+_hash)\b', 'replace': r'hoist_bytes_eq(\1.as_slice(), \2)', 'count': 2},
        {'rule': 'R7', 'regex': r'if (\w+_hash_computed) == (\w+_hash)\b', 'replace': r'if hoist_bytes_eq(&\1, \2)', 'count': 2},
        {'rule': 'R7', 'regex': r'Aes256CbcDec::new\(([^()]*)\)\s*\.decrypt_padded_mut::<NoPadding>\(([^()]*)\)\s*\.map_err\(\|_\| PdfError::InvalidPassword\)',
         'replace': r'hoist_aes256_nopad(\1, \2)', 'count': 1},
        {'rule': 'R7', 'regex': r'key_slice\.into\(\)', 'replace': 'hoist_vec_from_slice(key_slice)', 'count': 1},
     ]},

  'Decoder::default': {'kind': 'fn', 'file': F, 'container': IMPL, 'name': 'default', 'props': ['C06', 'C14'],
     'ensures': [('default_is_empty_password', 'post_key_size_selection(*dict, r) && post_rc4_login(*dict, id@, Seq::<u8>::empty(), r) '
                                               '&& post_aes_login(*dict, Seq::<u8>::empty(), r)'),
                 ('decoder_wf', 'r matches Ok(d) ==> d.wf()')],
     'rewrites': [{'rule': 'R1', 'find': 'Decoder::from_password(', 'replace': 'proof { lemma_empty_literal(); } Decoder::from_password('},
                  {'rule': 'R7', 'regex': r'b("[^"]*")', 'replace': r'hoist_bstr(\1)', 'count': 1}]},

  'Decoder::key': {'kind': 'fn', 'file': F, 'container': IMPL, 'name': 'key', 'props': ['C06'],
     # wf: the only constructor call in /repo is from_password, whose obligation `decoder_wf` establishes it
     'requires': ['self.wf()'],
     'ensures': [('key_is_file_key', 'self.key_size <= 16 ==> r@ == self.file_key()'),
                 ('key_clamped', 'self.key_size > 16 ==> r@ == self.key@.subrange(0, 16)')],
     'rewrites': HOISTS},

  'Decoder::decrypt': {'kind': 'fn', 'file': F, 'container': IMPL, 'name': 'decrypt', 'props': ['C06'],
     'requires': ['self.wf()'],
     'ensures': [
        ('exempt_unchanged', '(self.exempt(id) || old(data)@.len() == 0) ==> (r matches Ok(d) && d@ == old(data)@)'),
        ('alg1_rc4', NOT_EXEMPT + ' && self.method is V2 && self.key_size <= 16 ==> delivers(r, self.iso_decrypt(id, old(data)@))'),
        ('alg1_aesv2', NOT_EXEMPT + ' && self.method is AESV2 && self.key_size <= 16 ==> ' + DELIVERS('self')),
        ('alg1A_aesv3', NOT_EXEMPT + ' && self.method is AESV3 ==> ' + DELIVERS('self')),
        ('oversize_key_clamped', NOT_EXEMPT + ' && !(self.method is AESV3) && self.key_size > 16 ==> ' + DELIVERS('self.clamped()')),
     ],
     'rewrites': [
        # R1 ghost: one lemma call right before the buffer is hashed (both arms). The lemma has no `requires` and its
        # arguments are the ISO values (file key, object id, AES flag taken from the length hashed), so a wrong layout
        # in the code surfaces at the postcondition, not at a proof step.
        {'rule': 'R1', 'regex': r'let key = \*md5::compute\(&key\[\.\.n \+ (5|9)\]\);', 'count': 2,
         'replace': r'proof { lemma_salt_literal(); lemma_layout(key@, n + \1, self.key@.subrange(0, n as int), id, \1 == 9int); } '
                    r'let key = *md5::compute(&key[..n + \1]);'},
        {'rule': 'R1', 'regex': r'(key\[n \+ 5\s*\.\.\s*n \+ 9\]\.copy_from_slice\(b"sAlT"\);)', 'count': '*',
         'replace': r'proof { lemma_salt_literal(); } \1'},
        # R7 hoists (count '*': a construct that escapes its hoist is rejected by Verus as unsupported => undecided)
        {'rule': 'R7', 'regex': r'std::cmp::min\(', 'replace': 'hoist_min(', 'count': '*'},
        {'rule': 'R7', 'regex': r'\(([^()]*)\)\.min\((\d+)\)', 'replace': r'hoist_min(\1, \2)', 'count': '*'},
        {'rule': 'R7', 'regex': r'(\w+)\[([^\]]*)\]\.copy_from_slice\(', 'replace': r'hoist_copy(&mut \1[\2], ', 'count': '*'},
        {'rule': 'R7', 'regex': r'(id\.\w+)\.to_le_bytes\(\)', 'replace': r'hoist_to_le_bytes(\1)', 'count': '*'},
        {'rule': 'R7', 'regex': r'b("[^"]*")', 'replace': r'hoist_bstr(\1)', 'count': '*'},
        {'rule': 'R7', 'regex': r'\*md5::compute\(', 'replace': 'hoist_md5(', 'count': '*'},
        {'rule': 'R7', 'regex': r'(\w+)\.split_at_mut\(', 'replace': r'hoist_split_at_mut(\1, ', 'count': '*'},
        {'rule': 'R7', 'regex': r'Aes(128|256)CbcDec::new_from_slices\((.*?)\)\s*\.map_err\(\|_\|\s*PdfError::DecryptionFailure\)',
         'replace': r'hoist_aes\1_new(\2)', 'count': '*'},
        {'rule': 'R7', 'regex': r'\.decrypt_padded_mut::<Pkcs7>\((\w+)\)\s*\.map_err\(\|_\|\s*PdfError::DecryptionFailure\)',
         'replace': r'.decrypt_padded_mut_pkcs7(\1)', 'count': '*'},
        # the same call with the padding left in place (a tree that removes the pad itself, see item `pkcs7_helper`)
        {'rule': 'R7', 'regex': r'\.decrypt_padded_mut::<NoPadding>\((\w+)\)\s*\.map_err\(\|_\|\s*PdfError::DecryptionFailure\)',
         'replace': r'.decrypt_padded_mut_nopad(\1)', 'count': '*'},
     ]},

  # OPTIONAL: a padding-removal helper (`fn NAME(x: &[u8]) -> Result<&[u8]>`, located by SHAPE in _pad_helper) that a tree may
  # have next to Decoder::decrypt. Contract = `pkcs7_unpad` (RFC 5652 6.3 as referenced by 7.6.2): last byte n, 1 <= n <= 16,
  # n <= len => Ok(first len - n bytes) (n = 16: a whole block of padding, i.e. every plaintext whose length is a multiple of 16);
  # anything else => Err(DecryptionFailure). Pad bytes other than the last: compared or not (TOL_PAD_BYTES_UNCHECKED).
  'pkcs7_helper': {'kind': 'fn', 'file': F, 'container': None, 'name': _PH_NAME, 'optional': True, 'props': ['C06'],
     'ensures': [('pkcs7_pad_removed', 'delivers_either(r, pkcs7_unpad(%s, true), pkcs7_unpad(%s, false))' % (_PH_IN, _PH_IN))],
     'rewrites': [
        # R7 / R8 by shape (count '*': whichever of these spellings the helper uses)
        {'rule': 'R7', 'regex': r'\b(\w+)\.last\(\)', 'replace': r'hoist_last(\1)', 'count': '*'},
        {'rule': 'R8', 'regex': r'(hoist_last\(\w+\))\.map_or\(([^,()]*), \|&(\w+)\| ([^()]*?)\)',
         'replace': r'(match \1 { Some(\3__) => { let \3 = *\3__; \4 }, None => \2 })', 'count': '*'},
        {'rule': 'R7', 'regex': r'\((\w+)\.\.=(\w+)\)\.contains\((&\w+)\)', 'replace': r'hoist_range_incl_contains_usize(\1, \2, \3)', 'count': '*'},
        {'rule': 'R7', 'regex': r'\((\w+)\.\.(\w+)\)\.contains\((&\w+)\)', 'replace': r'hoist_range_contains_usize(\1, \2, \3)', 'count': '*'},
        {'rule': 'R7', 'regex': r'&(\w+)\[\.\.([^\[\]]*)\]', 'replace': r'hoist_prefix(\1, \2)', 'count': '*'},
     ]},
 },
}
