// Repro for finding `key_length_zero` of unit `decrypt` (/Length 0 reaches the assert! in Rc4::new) -- append to pdf/src/crypt.rs of a scratch copy of /repo:
//   cat findings/key_length_zero_repro.rs >> <scratch>/pdf/src/crypt.rs
//   cd <scratch> && CARGO_TARGET_DIR=/tmp/decrypt_target cargo test --offline -p pdf --lib verif_key_length_zero -- --nocapture
// C14 expectation: "a value or an error, no panic". Panics on the pinned tree, passes with findings/key_length_zero_fix.diff.
#[cfg(test)]
mod verif_key_length_zero {
    use super::*;

    fn s(b: &[u8]) -> PdfString { PdfString::new(b.into()) }

    fn dict(v: i32, r: u32, bits: u32, cf: Option<(CryptMethod, Option<u32>)>) -> CryptDict {
        let mut crypt_filters = HashMap::new();
        if let Some((method, length)) = cf {
            crypt_filters.insert(Name::from("StdCF"), CryptFilter {
                method, auth_event: AuthEvent::DocOpen, length, _other: Dictionary::new() });
        }
        CryptDict {
            o: s(&[0u8; 32]), u: s(&[0u8; 32]), r, p: -4, v, bits, crypt_filters,
            default_crypt_filter: cf.map(|_| Name::from("StdCF")),
            encrypt_metadata: true, oe: None, ue: None, _other: Dictionary::new(),
        }
    }

    fn no_panic<T>(what: &str, f: impl FnOnce() -> T + std::panic::UnwindSafe) {
        let r = std::panic::catch_unwind(f);
        assert!(r.is_ok(), "{}: panicked instead of returning a value or an error", what);
    }

    /// << /V 2 /R 3 /Length 0 >> : key_size = 0, check_password_rc4(.., &key[..0]) -> Rc4::new(&[]) -> assert!
    #[test]
    fn verif_hostile_length_zero() {
        no_panic("/V 2 /Length 0", || Decoder::from_password(&dict(2, 3, 0, None), b"id", b"").map(|_| ()));
        no_panic("/V 4 /CF Length 0", || Decoder::from_password(&dict(4, 4, 128, Some((CryptMethod::V2, Some(0)))), b"id", b"").map(|_| ()));
    }
}
