// Repro for finding decrypt/Decoder::decrypt/alg1A_aesv3 -- append to pdf/src/crypt.rs of a scratch copy of /repo:
//   cat findings/aesv3_truncated_key_repro.rs >> <scratch>/pdf/src/crypt.rs
//   cd <scratch> && CARGO_TARGET_DIR=/tmp/decrypt_target cargo test --offline -p pdf --lib verif_aesv3 -- --nocapture
#[cfg(test)]
mod verif_aesv3_repro {
    use super::*;
    use aes::cipher::{BlockEncryptMut, KeyIvInit};
    use aes::cipher::block_padding::Pkcs7;
    type Aes256CbcEnc = cbc::Encryptor<aes::Aes256>;

    /// Algorithm 1.A: a string encrypted with AES-256-CBC under the 32-byte file key, IV prepended,
    /// must decrypt to the plaintext -- for every object id (no per-object key).
    #[test]
    fn verif_aesv3_roundtrip_with_32_byte_file_key() {
        let file_key: Vec<u8> = (0u8..32).collect();
        let iv = [0xA5u8; 16];
        let plain = b"Algorithm 1.A plaintext";
        let mut buf = vec![0u8; 48];
        let ct = Aes256CbcEnc::new_from_slices(&file_key, &iv).unwrap()
            .encrypt_padded_b2b_mut::<Pkcs7>(plain, &mut buf).unwrap().to_vec();
        let mut data = iv.to_vec();
        data.extend_from_slice(&ct);

        // exactly how from_password builds the decoder for R5/R6: Decoder::new(key_slice.into(), 32, method, ..)
        let decoder = Decoder::new(file_key, 32, CryptMethod::AESV3, true);
        let r = decoder.decrypt(PlainRef { id: 7, gen: 0 }, &mut data);
        match r {
            Ok(p) => assert_eq!(p, &plain[..]),
            Err(e) => panic!("AES-256 string did not decrypt: {:?} (key() returned {} bytes)", e, decoder.key().len()),
        }
    }

    /// the same on a fixture of the repository: every content stream of the AES-256 files fails to decrypt,
    /// although `FileOptions::password(..).open` succeeds (the test-suite discards page results)
    #[test]
    fn verif_aesv3_fixture_streams() {
        use crate::object::Resolve;
        for name in ["passwords_aes_256.pdf", "passwords_aes_256_hardened.pdf", "passwords_aes_128.pdf"] {
            let path = format!("/repo/files/password_protected/{}", name);
            let file = crate::file::FileOptions::uncached().password(b"userpassword").open(&path).unwrap();
            let page = file.get_page(0);
            let ok = match page {
                Ok(p) => match p.contents.as_ref() {
                    Some(c) => c.operations(&file.resolver()).map(|ops| ops.len()).map_err(|e| format!("{:?}", e)),
                    None => Ok(0),
                },
                Err(e) => Err(format!("{:?}", e)),
            };
            println!("{}: {:?}", name, ok);
            assert!(ok.is_ok(), "{}: {:?}", name, ok);
        }
    }
}
