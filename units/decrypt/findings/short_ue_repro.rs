// Repro for finding `short_ue` of unit `decrypt` (R5/R6 /UE not 32 bytes: Decoder with a short key buffer) -- append to pdf/src/crypt.rs of a scratch copy of /repo:
//   cat findings/short_ue_repro.rs >> <scratch>/pdf/src/crypt.rs
//   cd <scratch> && CARGO_TARGET_DIR=/tmp/decrypt_target cargo test --offline -p pdf --lib verif_short_ue -- --nocapture
// C14 expectation: "a value or an error, no panic". Panics on the pinned tree, passes with findings/short_ue_fix.diff.
#[cfg(test)]
mod verif_short_ue {
    use super::*;
    use sha2::{Digest, Sha256};

    fn s(b: &[u8]) -> PdfString { PdfString::new(b.into()) }

    fn dict(v: i32, r: u32, bits: u32, cf: Option<(CryptMethod, Option<u32>)>) -> CryptDict {
        let mut crypt_filters = HashMap::new();
        if let Some((method, length)) = cf {
            crypt_filters.insert(Name::from("StdCF"), CryptFilter {
                method, auth_event: AuthEvent::DocOpen, length, _other: Dictionary::new() });
        }
        CryptDict {
            o: s(&[0u8; 32]), u: s(&[0u8; 32]), r, p: -4, v, bits, crypt_filters,
            default_crypt_filter: cf.map(|_| Name::from("StdCF")),
            encrypt_metadata: true, oe: None, ue: None, _other: Dictionary::new(),
        }
    }

    fn no_panic<T>(what: &str, f: impl FnOnce() -> T + std::panic::UnwindSafe) {
        let r = std::panic::catch_unwind(f);
        assert!(r.is_ok(), "{}: panicked instead of returning a value or an error", what);
    }

    /// R5 dictionary whose /UE is the empty string: the unwrapped "file key" is empty, key_size is 32;
    /// open succeeds and the first decrypt() slices `self.key[..16]`
    #[test]
    fn verif_hostile_short_ue() {
        let pass = b"";
        let vsalt = [1u8; 8];
        let ksalt = [2u8; 8];
        let mut h = Sha256::new(); h.update(pass); h.update(vsalt);
        let mut u = h.finalize().to_vec(); u.extend_from_slice(&vsalt); u.extend_from_slice(&ksalt);
        let mut d = dict(4, 5, 128, Some((CryptMethod::AESV2, None)));
        d.u = s(&u); d.o = s(&[0u8; 48]); d.ue = Some(s(b"")); d.oe = Some(s(b""));
        // C14: either the dictionary is rejected, or the decoder it yields never panics
        match Decoder::from_password(&d, b"id", pass) {
            Err(e) => println!("rejected: {:?}", e),
            Ok(decoder) => {
                println!("accepted: key.len() = {}, key_size = {}", decoder.key.len(), decoder.key_size);
                no_panic("decrypt with empty /UE", move || {
                    let mut data = vec![0u8; 32];
                    decoder.decrypt(PlainRef { id: 1, gen: 0 }, &mut data).map(|_| ()).ok();
                });
            }
        }
    }
}
