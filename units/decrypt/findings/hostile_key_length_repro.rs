// Repro for the C14 findings of unit `decrypt` (hostile /Length, /CF Length, /UE) -- append to pdf/src/crypt.rs of a
// scratch copy of /repo:
//   cat findings/hostile_key_length_repro.rs >> <scratch>/pdf/src/crypt.rs
//   cd <scratch> && CARGO_TARGET_DIR=/verif/.cache/native-target cargo test --offline -p pdf --lib verif_hostile -- --nocapture
// Every test states the C14 expectation "a value or an error, no panic"; on the pinned tree each one panics.
#[cfg(test)]
mod verif_hostile_key_length {
    use super::*;
    use sha2::{Digest, Sha256};

    fn s(b: &[u8]) -> PdfString { PdfString::new(b.into()) }

    fn dict(v: i32, r: u32, bits: u32, cf: Option<(CryptMethod, Option<u32>)>) -> CryptDict {
        let mut crypt_filters = HashMap::new();
        if let Some((method, length)) = cf {
            crypt_filters.insert(Name::from("StdCF"), CryptFilter {
                method, auth_event: AuthEvent::DocOpen, length, _other: Dictionary::new() });
        }
        CryptDict {
            o: s(&[0u8; 32]), u: s(&[0u8; 32]), r, p: -4, v, bits, crypt_filters,
            default_crypt_filter: cf.map(|_| Name::from("StdCF")),
            encrypt_metadata: true, oe: None, ue: None, _other: Dictionary::new(),
        }
    }

    fn no_panic<T>(what: &str, f: impl FnOnce() -> T + std::panic::UnwindSafe) {
        let r = std::panic::catch_unwind(f);
        assert!(r.is_ok(), "{}: panicked instead of returning a value or an error", what);
    }

    /// << /V 2 /R 3 /Length 0 >> : key_size = 0, check_password_rc4(.., &key[..0]) -> Rc4::new(&[]) -> assert!
    #[test]
    fn verif_hostile_length_zero() {
        no_panic("/V 2 /Length 0", || Decoder::from_password(&dict(2, 3, 0, None), b"id", b"").map(|_| ()));
        no_panic("/V 4 /CF Length 0", || Decoder::from_password(&dict(4, 4, 128, Some((CryptMethod::V2, Some(0)))), b"id", b"").map(|_| ()));
    }

    /// << /V 4 /CF << /StdCF << /CFM /AESV2 /Length 536870912 >> >> >> : `8 * n` overflows u32
    #[test]
    fn verif_hostile_cf_length_overflow() {
        no_panic("/CF Length 2^29", || Decoder::from_password(&dict(4, 4, 128, Some((CryptMethod::AESV2, Some(1 << 29)))), b"id", b"").map(|_| ()));
    }

    /// R5 dictionary whose /UE is the empty string: the unwrapped "file key" is empty, key_size is 32;
    /// open succeeds and the first decrypt() slices `self.key[..16]`
    #[test]
    fn verif_hostile_short_ue() {
        let pass = b"";
        let vsalt = [1u8; 8];
        let ksalt = [2u8; 8];
        let mut h = Sha256::new(); h.update(pass); h.update(vsalt);
        let mut u = h.finalize().to_vec(); u.extend_from_slice(&vsalt); u.extend_from_slice(&ksalt);
        let mut d = dict(4, 5, 128, Some((CryptMethod::AESV2, None)));
        d.u = s(&u); d.o = s(&[0u8; 48]); d.ue = Some(s(b"")); d.oe = Some(s(b""));
        let decoder = Decoder::from_password(&d, b"id", pass).expect("user password matches");
        println!("key.len() = {}, key_size = {}", decoder.key.len(), decoder.key_size);
        no_panic("decrypt with empty /UE", move || {
            let mut data = vec![0u8; 32];
            decoder.decrypt(PlainRef { id: 1, gen: 0 }, &mut data).map(|_| ()).ok();
        });
    }
}
