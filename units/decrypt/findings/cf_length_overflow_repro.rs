// Repro for finding `cf_length_overflow` of unit `decrypt` (`8 * n` overflows u32) -- append to pdf/src/crypt.rs of a scratch copy of /repo:
//   cat findings/cf_length_overflow_repro.rs >> <scratch>/pdf/src/crypt.rs
//   cd <scratch> && CARGO_TARGET_DIR=/tmp/decrypt_target cargo test --offline -p pdf --lib verif_cf_length_overflow -- --nocapture
// C14 expectation: "a value or an error, no panic". Panics on the pinned tree, passes with findings/cf_length_overflow_fix.diff.
#[cfg(test)]
mod verif_cf_length_overflow {
    use super::*;

    fn s(b: &[u8]) -> PdfString { PdfString::new(b.into()) }

    fn dict(v: i32, r: u32, bits: u32, cf: Option<(CryptMethod, Option<u32>)>) -> CryptDict {
        let mut crypt_filters = HashMap::new();
        if let Some((method, length)) = cf {
            crypt_filters.insert(Name::from("StdCF"), CryptFilter {
                method, auth_event: AuthEvent::DocOpen, length, _other: Dictionary::new() });
        }
        CryptDict {
            o: s(&[0u8; 32]), u: s(&[0u8; 32]), r, p: -4, v, bits, crypt_filters,
            default_crypt_filter: cf.map(|_| Name::from("StdCF")),
            encrypt_metadata: true, oe: None, ue: None, _other: Dictionary::new(),
        }
    }

    fn no_panic<T>(what: &str, f: impl FnOnce() -> T + std::panic::UnwindSafe) {
        let r = std::panic::catch_unwind(f);
        assert!(r.is_ok(), "{}: panicked instead of returning a value or an error", what);
    }

    /// << /V 4 /CF << /StdCF << /CFM /AESV2 /Length 536870912 >> >> >> : `8 * n` overflows u32
    #[test]
    fn verif_hostile_cf_length_overflow() {
        no_panic("/CF Length 2^29", || Decoder::from_password(&dict(4, 4, 128, Some((CryptMethod::AESV2, Some(1 << 29)))), b"id", b"").map(|_| ()));
    }
}
