// Unit `decrypt` (C06, C14): Decoder::{key, decrypt} of pdf/src/crypt.rs against ISO 32000-1 7.6.2
// Algorithm 1 and ISO 32000-2 7.6.3.3 Algorithm 1.A. MD5 and AES-CBC are uninterpreted spec functions;
// RC4 is the spec function `rc4` of units/rc4 (shared include rc4/rc4_spec.rs), which proves the real Rc4::encrypt against it.
use vstd::prelude::*;
use std::collections::HashMap;
//@@ INCLUDE _common/error_macros.rs
verus! {
global size_of usize == 8;

//@@ PDFERROR
//@@ DEVIATIONS

// ---- environment: types copied from /repo (R2: fields pub, derives) ----
//@@ type ObjNr
//@@ type GenNr
//@@ struct PlainRef
//@@ enum CryptMethod
//@@ struct Decoder

// ---- primitives: MD5, SHA-2, AES uninterpreted (DESIGN 6/C06); RC4 defined (units/rc4) ----
pub uninterp spec fn md5_spec(input: Seq<u8>) -> Seq<u8>;
// RC4 is NOT uninterpreted: `rc4(key, data)` (KSA + PRGA, Schneier 17.1 / RFC 6229; encryption == decryption) is the spec function of
// units/rc4, shared through this include together with its proved lemmas (`lemma_rc4_commutes`, `lemma_rc4_involution`, ..).
// It is `#[verifier::opaque]`: the obligations below use it as a fixed function of (key, data) only.
//@@ INCLUDE rc4/rc4_spec.rs
/// AES-128 / AES-256 in CBC mode, the raw block decryption (no padding removed); None iff the data is not a whole number of
/// blocks. Uninterpreted (the `aes` / `cbc` crates). `aes256_cbc_nopad` is declared with the login spec below.
pub uninterp spec fn aes128_cbc_nopad(key: Seq<u8>, iv: Seq<u8>, ct: Seq<u8>) -> Option<Seq<u8>>;

// ---- the padding of ISO 32000-1 7.6.2 / ISO 32000-2 7.6.3.1 ("RFC 2898 / PKCS #5 padding": RFC 5652 6.3) -- DEFINED, not uninterpreted:
// "pad the data ... to a multiple of 16 bytes ... with n bytes of value n, 1 <= n <= 16: a message whose length is already a
// multiple of 16 gets a whole block of sixteen 0x10". Removing it: the last byte n says how many bytes go.
pub open spec fn pkcs7_n(p: Seq<u8>) -> int { if p.len() == 0 { 0 } else { p[p.len() - 1] as int } }
/// the pad length is one the padding rule can produce and fits the message
pub open spec fn pkcs7_len_ok(p: Seq<u8>) -> bool { 1 <= pkcs7_n(p) <= 16 && pkcs7_n(p) <= p.len() }
/// all n pad bytes have the value n
pub open spec fn pkcs7_valid(p: Seq<u8>) -> bool {
    pkcs7_len_ok(p) && forall|i: int| p.len() - pkcs7_n(p) <= i < p.len() ==> p[i] == pkcs7_n(p)
}
/// `strict`: a well-formed pad (what an encryptor that follows 7.6.2 produces) is removed, everything else is a failure.
/// `!strict` (TOL_PAD_BYTES_UNCHECKED): only the LAST byte is looked at, the other pad bytes are not compared.
/// The two agree on every message a conforming encryptor can produce (`lemma_pkcs7_modes_agree_on_valid`).
pub open spec fn pkcs7_unpad(p: Seq<u8>, strict: bool) -> Option<Seq<u8>> {
    if pkcs7_valid(p) || (!strict && pkcs7_len_ok(p)) { Some(p.subrange(0, p.len() - pkcs7_n(p))) } else { None }
}
pub proof fn lemma_pkcs7_modes_agree_on_valid(p: Seq<u8>)
    ensures pkcs7_valid(p) ==> pkcs7_unpad(p, true) == pkcs7_unpad(p, false),
            !pkcs7_len_ok(p) ==> pkcs7_unpad(p, true) is None && pkcs7_unpad(p, false) is None,
{}
pub open spec fn unpad_opt(o: Option<Seq<u8>>, strict: bool) -> Option<Seq<u8>> {
    match o { Some(p) => pkcs7_unpad(p, strict), None => None }
}
/// AES-CBC with the padding removed = raw CBC decryption, then `pkcs7_unpad`; None = not a whole number of blocks or bad padding.
pub open spec fn aes128_cbc_unpad(key: Seq<u8>, iv: Seq<u8>, ct: Seq<u8>, strict: bool) -> Option<Seq<u8>> { unpad_opt(aes128_cbc_nopad(key, iv, ct), strict) }
pub open spec fn aes256_cbc_unpad(key: Seq<u8>, iv: Seq<u8>, ct: Seq<u8>, strict: bool) -> Option<Seq<u8>> { unpad_opt(aes256_cbc_nopad(key, iv, ct), strict) }
pub open spec fn aes128_cbc_pkcs7(key: Seq<u8>, iv: Seq<u8>, ct: Seq<u8>) -> Option<Seq<u8>> { aes128_cbc_unpad(key, iv, ct, true) }
pub open spec fn aes256_cbc_pkcs7(key: Seq<u8>, iv: Seq<u8>, ct: Seq<u8>) -> Option<Seq<u8>> { aes256_cbc_unpad(key, iv, ct, true) }

// ---- spec, written from ISO 32000-1 7.6.2 "Algorithm 1" and ISO 32000-2 "Algorithm 1.A" ----
pub open spec fn pow256(i: int) -> int decreases i { if i <= 0 { 1 } else { 256 * pow256(i - 1) } }
/// "treating the object number and generation number as binary integers ... low-order byte first"
pub open spec fn le_byte(x: u64, i: int) -> u8 { ((x as int / pow256(i)) % 256) as u8 }
pub open spec fn le_bytes(x: u64, k: int) -> Seq<u8> { Seq::new(k as nat, |i: int| le_byte(x, i)) }
/// 0x73 0x41 0x6C 0x54
pub open spec fn salt() -> Seq<u8> { seq![0x73u8, 0x41u8, 0x6Cu8, 0x54u8] }

/// step b): "extend the original n-byte encryption key to n + 5 bytes by appending the low-order 3 bytes of the
/// object number and the low-order 2 bytes of the generation number in that order, low-order byte first. ...
/// If using the AES algorithm, extend the encryption key an additional 4 bytes by adding the value "sAlT""
pub open spec fn alg1_hash_input(file_key: Seq<u8>, id: PlainRef, aes: bool) -> Seq<u8> {
    file_key + le_bytes(id.id, 3) + le_bytes(id.gen, 2) + (if aes { salt() } else { Seq::<u8>::empty() })
}
/// steps c), d): "Use the first (n + 5) bytes, up to a maximum of 16, of the output from the MD5 hash as the key"
pub open spec fn alg1_object_key(file_key: Seq<u8>, id: PlainRef, aes: bool) -> Seq<u8> {
    let n = file_key.len() as int;
    md5_spec(alg1_hash_input(file_key, id, aes)).subrange(0, if n + 5 < 16 { n + 5 } else { 16 })
}
/// AES: "The block size parameter is 16 bytes, and the initialization vector is a 16-byte random number that is
/// stored as the first 16 bytes of the encrypted stream or string."
pub open spec fn iv_of(data: Seq<u8>) -> Seq<u8> { data.subrange(0, 16) }
pub open spec fn ct_of(data: Seq<u8>) -> Seq<u8> { data.subrange(16, data.len() as int) }

pub open spec fn is_decryption_failure(e: PdfError) -> bool {
    e is DecryptionFailure || (e matches PdfError::Try { source } && *source is DecryptionFailure)
}
/// the result `r` delivers exactly the outcome `o` (Some(plaintext) / None = decryption failure)
pub open spec fn delivers(r: Result<&[u8]>, o: Option<Seq<u8>>) -> bool {
    match o {
        Some(p) => r matches Ok(d) && d@ == p,
        None => r matches Err(e) && is_decryption_failure(e),
    }
}
/// ... `strict`, or -- on data whose pad bytes are not all equal, which no conforming encryptor produces -- `lenient`
/// (TOL_PAD_BYTES_UNCHECKED: C06 speaks of documents "protected by the standard security handler", i.e. conforming ciphertext)
pub open spec fn delivers_either(r: Result<&[u8]>, strict: Option<Seq<u8>>, lenient: Option<Seq<u8>>) -> bool {
    delivers(r, strict) || (TOL_PAD_BYTES_UNCHECKED() && delivers(r, lenient))
}

impl Decoder {
    /// C06 statement: "the strings of the encryption dictionary itself (and the metadata stream when metadata
    /// encryption is off) are returned unmodified"
    pub open spec fn exempt(&self, id: PlainRef) -> bool {
        self.encrypt_indirect_object == Some(id)
        || (!self.encrypt_metadata && self.metadata_indirect_object == Some(id))
    }
    /// the n-byte file encryption key of Algorithm 2 (n = Length/8 <= 16): the first n bytes of the stored buffer
    pub open spec fn file_key(&self) -> Seq<u8> { self.key@.subrange(0, self.key_size as int) }
    /// object invariant, established by Decoder::from_password (the only constructor call in /repo) on its RC4
    /// path: key buffer `vec![0; key_size.max(16)]`, method never `None`
    pub open spec fn wf(&self) -> bool {
        (self.key@.len() >= 16 || self.key@.len() >= self.key_size) && !(self.method is None)
    }
    /// Algorithm 1 (RC4 / AESV2) and Algorithm 1.A (AESV3) for data that is not exempt and not empty
    pub open spec fn iso_decrypt(&self, id: PlainRef, data: Seq<u8>) -> Option<Seq<u8>> { self.iso_decrypt_pad(id, data, true) }
    /// `strict`: see `pkcs7_unpad`
    pub open spec fn iso_decrypt_pad(&self, id: PlainRef, data: Seq<u8>, strict: bool) -> Option<Seq<u8>> {
        match self.method {
            CryptMethod::V2 => Some(rc4(alg1_object_key(self.file_key(), id, false), data)),
            CryptMethod::AESV2 =>
                if data.len() < 16 || self.key_size + 5 < 16 { None }
                else { aes128_cbc_unpad(alg1_object_key(self.file_key(), id, true), iv_of(data), ct_of(data), strict) },
            // Algorithm 1.A: "Use the 32-byte file encryption key for the AES-256 symmetric key algorithm" --
            // no per-object hashing; the IV is the first 16 bytes of the data
            CryptMethod::AESV3 =>
                if data.len() < 16 || self.key@.len() != 32 { None }
                else { aes256_cbc_unpad(self.key@, iv_of(data), ct_of(data), strict) },
            CryptMethod::None => None,
        }
    }
    /// what the implementation does with a key size the standard does not allow for MD5-derived keys (> 16 bytes):
    /// it uses the first 16 bytes (code-derived, see NOTES.md)
    pub open spec fn clamped(&self) -> Decoder {
        Decoder { key_size: 16, key: self.key, method: self.method, encrypt_indirect_object: self.encrypt_indirect_object,
                  metadata_indirect_object: self.metadata_indirect_object, encrypt_metadata: self.encrypt_metadata }
    }
}

// ---- lemmas ----
/// pointwise description of "buf[..m] is the Algorithm-1 hash input"
pub open spec fn layout_ok(buf: Seq<u8>, m: int, fk: Seq<u8>, id: PlainRef, aes: bool) -> bool {
    let n = fk.len() as int;
    m == n + 5 + (if aes { 4int } else { 0int }) && m <= buf.len()
    && (forall|i: int| 0 <= i < n ==> buf[i] == fk[i])
    && (forall|i: int| 0 <= i < 3 ==> buf[n + i] == le_byte(id.id, i))
    && (forall|i: int| 0 <= i < 2 ==> buf[n + 3 + i] == le_byte(id.gen, i))
    && (aes ==> (forall|i: int| 0 <= i < 4 ==> buf[n + 5 + i] == salt()[i]))
}
/// No `requires`: the lemma is an implication, so that a wrong buffer layout in the code surfaces at the
/// postcondition of decrypt (the hypothesis is simply not available) and never at the lemma call.
pub proof fn lemma_layout(buf: Seq<u8>, m: int, fk: Seq<u8>, id: PlainRef, aes: bool)
    ensures layout_ok(buf, m, fk, id, aes) ==> buf.subrange(0, m) == alg1_hash_input(fk, id, aes)
{
    let n = fk.len() as int;
    if layout_ok(buf, m, fk, id, aes) {
        assert forall|i: int| 0 <= i < m implies buf.subrange(0, m)[i] == alg1_hash_input(fk, id, aes)[i] by {
            if i < n {}
            else if i < n + 3 { assert(buf[n + (i - n)] == le_byte(id.id, i - n)); }
            else if i < n + 5 { assert(buf[n + 3 + (i - n - 3)] == le_byte(id.gen, i - n - 3)); }
            else { assert(buf[n + 5 + (i - n - 5)] == salt()[i - n - 5]); }
        }
        assert(buf.subrange(0, m) =~= alg1_hash_input(fk, id, aes));
    }
}

/// "sAlT" read as bytes is 0x73 0x41 0x6C 0x54 (and has 4 bytes: copy_from_slice length check)
pub proof fn lemma_salt_literal()
    ensures "sAlT"@.len() == 4, forall|i: int| 0 <= i < 4 ==> (#[trigger] "sAlT"@[i]) as u8 == salt()[i]
{
    reveal_strlit("sAlT");
    assert('s' as u8 == 0x73u8 && 'A' as u8 == 0x41u8 && 'l' as u8 == 0x6Cu8 && 'T' as u8 == 0x54u8);
}

// ---- L0 helpers (R7). Bodies of std helpers are the hoisted expression; helpers standing for third-party
//      primitives (md5, aes, cbc crates are not available to a single-file Verus run) carry the expression as a comment.
#[verifier::external_body]
fn hoist_min(a: usize, b: usize) -> (r: usize)
    ensures r == if a < b { a } else { b }
{ std::cmp::min(a, b) }

#[verifier::external_body]
fn hoist_copy(dst: &mut [u8], src: &[u8])
    requires old(dst)@.len() == src@.len()      // copy_from_slice panics on a length mismatch
    ensures final(dst)@ == src@
{ dst.copy_from_slice(src) }

/// trusted std: u64::to_le_bytes ("low-order byte first")
#[verifier::external_body]
fn hoist_to_le_bytes(x: u64) -> (r: [u8; 8])
    ensures r@ == le_bytes(x, 8)
{ x.to_le_bytes() }

/// b"..." byte-string literal, kept verbatim in the text as a str literal (Verus has no byte-string literals)
#[verifier::external_body]
fn hoist_bstr(s: &'static str) -> (r: &'static [u8])
    ensures r@.len() == s@.len(), forall|i: int| 0 <= i < s@.len() ==> r@[i] == s@[i] as u8,
            s@.len() == 0 ==> r@ == Seq::<u8>::empty()
{ s.as_bytes() }

#[verifier::external_body]
fn hoist_split_at_mut<'a>(data: &'a mut [u8], mid: usize) -> (r: (&'a mut [u8], &'a mut [u8]))
    requires mid <= old(data)@.len()            // split_at_mut panics otherwise
    ensures r.0@ == old(data)@.subrange(0, mid as int),
            r.1@ == old(data)@.subrange(mid as int, old(data)@.len() as int)
{ data.split_at_mut(mid) }

/// `*md5::compute(input)` (md5 crate) -- uninterpreted primitive
#[verifier::external_body]
fn hoist_md5(input: &[u8]) -> (r: [u8; 16])
    ensures r@ == md5_spec(input@)
{ unimplemented!() /* *md5::compute(input) */ }

/// callee Rc4::encrypt (pdf/src/crypt.rs), body not repeated here.
/// proved in units/rc4: Rc4::encrypt/is_rc4_in_place (+ panic_free, terminates) -- same `requires`
/// (`Rc4::new` asserts `!key.is_empty() && key.len() <= 256`) and the same `ensures`, text for text, over the same
/// spec function `rc4` (rc4/rc4_spec.rs).
pub struct Rc4 {}
impl Rc4 {
    #[verifier::external_body]
    pub fn encrypt(key: &[u8], data: &mut [u8])
        requires 1 <= key@.len() <= 256
        ensures final(data)@ == rc4(key@, old(data)@)
    { unimplemented!() }
}

/// cbc::Decryptor<aes::Aes128> / <aes::Aes256> -- uninterpreted primitives
#[verifier::external_body]
pub struct Aes128CbcDec {}
#[verifier::external_body]
pub struct Aes256CbcDec {}
impl Aes128CbcDec {
    pub uninterp spec fn key(&self) -> Seq<u8>;
    pub uninterp spec fn iv(&self) -> Seq<u8>;
    /// `cipher.decrypt_padded_mut::<Pkcs7>(buf).map_err(|_| PdfError::DecryptionFailure)`
    #[verifier::external_body]
    fn decrypt_padded_mut_pkcs7<'a>(self, buf: &'a mut [u8]) -> (r: Result<&'a [u8]>)
        ensures match aes128_cbc_pkcs7(self.key(), self.iv(), old(buf)@) {
            Some(p) => r matches Ok(d) && d@ == p,
            None => r matches Err(e) && e is DecryptionFailure }
    { unimplemented!() }
}
impl Aes256CbcDec {
    pub uninterp spec fn key(&self) -> Seq<u8>;
    pub uninterp spec fn iv(&self) -> Seq<u8>;
    #[verifier::external_body]
    fn decrypt_padded_mut_pkcs7<'a>(self, buf: &'a mut [u8]) -> (r: Result<&'a [u8]>)
        ensures match aes256_cbc_pkcs7(self.key(), self.iv(), old(buf)@) {
            Some(p) => r matches Ok(d) && d@ == p,
            None => r matches Err(e) && e is DecryptionFailure }
    { unimplemented!() }
    /// `cipher.decrypt_padded_mut::<NoPadding>(buf).map_err(|_| PdfError::DecryptionFailure)` (block_padding::NoPadding: the whole
    /// buffer is handed back; UnpadError iff it is not a whole number of blocks)
    #[verifier::external_body]
    fn decrypt_padded_mut_nopad<'a>(self, buf: &'a mut [u8]) -> (r: Result<&'a [u8]>)
        ensures match aes256_cbc_nopad(self.key(), self.iv(), old(buf)@) {
            Some(p) => r matches Ok(d) && d@ == p && p.len() == old(buf)@.len(),
            None => r matches Err(e) && e is DecryptionFailure }
    { unimplemented!() }
}
impl Aes128CbcDec {
    #[verifier::external_body]
    fn decrypt_padded_mut_nopad<'a>(self, buf: &'a mut [u8]) -> (r: Result<&'a [u8]>)
        ensures match aes128_cbc_nopad(self.key(), self.iv(), old(buf)@) {
            Some(p) => r matches Ok(d) && d@ == p && p.len() == old(buf)@.len(),
            None => r matches Err(e) && e is DecryptionFailure }
    { unimplemented!() }
}
// R7 helpers for a padding-removal helper of crypt.rs (optional item `pkcs7_helper`)
/// `(lo..hi).contains(x)`
#[verifier::external_body]
fn hoist_range_contains_usize(lo: usize, hi: usize, x: &usize) -> (r: bool) ensures r == (lo <= *x < hi) { (lo..hi).contains(x) }
/// `(lo..=hi).contains(x)`
#[verifier::external_body]
fn hoist_range_incl_contains_usize(lo: usize, hi: usize, x: &usize) -> (r: bool) ensures r == (lo <= *x <= hi) { (lo..=hi).contains(x) }
/// `s.last()`
#[verifier::external_body]
fn hoist_last(s: &[u8]) -> (r: Option<&u8>)
    ensures s@.len() == 0 ==> r is None, s@.len() > 0 ==> (r matches Some(b) && *b == s@[s@.len() - 1])
{ s.last() }
/// `&s[..n]`
#[verifier::external_body]
fn hoist_prefix(s: &[u8], n: usize) -> (r: &[u8]) requires n <= s@.len() ensures r@ == s@.subrange(0, n as int) { &s[..n] }
/// `Aes128CbcDec::new_from_slices(key, iv).map_err(|_| PdfError::DecryptionFailure)`
/// (cipher::KeyIvInit: InvalidLength iff the key is not 16 bytes or the iv is not one block)
#[verifier::external_body]
fn hoist_aes128_new(key: &[u8], iv: &[u8]) -> (r: Result<Aes128CbcDec>)
    ensures (key@.len() == 16 && iv@.len() == 16) ==> (r matches Ok(c) && c.key() == key@ && c.iv() == iv@),
            !(key@.len() == 16 && iv@.len() == 16) ==> (r matches Err(e) && e is DecryptionFailure)
{ unimplemented!() }
/// `Aes256CbcDec::new_from_slices(key, iv).map_err(|_| PdfError::DecryptionFailure)` (key must be 32 bytes)
#[verifier::external_body]
fn hoist_aes256_new(key: &[u8], iv: &[u8]) -> (r: Result<Aes256CbcDec>)
    ensures (key@.len() == 32 && iv@.len() == 16) ==> (r matches Ok(c) && c.key() == key@ && c.iv() == iv@),
            !(key@.len() == 32 && iv@.len() == 16) ==> (r matches Err(e) && e is DecryptionFailure)
{ unimplemented!() }


// =====================================================================================================
// Decoder::from_password: standard security handler, ISO 32000-1 7.6.3 / ISO 32000-2 7.6.4
// =====================================================================================================
// ---- environment ----
/// pdf::primitive::PdfString / Name: opaque, only their byte / character content is observed
#[verifier::external_body]
pub struct PdfString {}
impl PdfString {
    pub uninterp spec fn view(&self) -> Seq<u8>;
    #[verifier::external_body]
    pub fn as_bytes(&self) -> (r: &[u8]) ensures r@ == self.view() { unimplemented!() }
}
#[verifier::external_body]
pub struct Name {}
impl Name {
    pub uninterp spec fn view(&self) -> Seq<char>;
    #[verifier::external_body]
    pub fn as_str(&self) -> (r: &str) ensures r@ == self.view() { unimplemented!() }
}
//@@ enum AuthEvent
//@@ struct CryptFilter
//@@ struct CryptDict

/// content of the /CF dictionary: name -> crypt filter
pub uninterp spec fn cf_lookup(m: HashMap<Name, CryptFilter>, k: Seq<char>) -> Option<CryptFilter>;

// ---- the algorithms of 7.6.3.3 / 7.6.3.4, uninterpreted: their implementations (nested fns of from_password)
//      are abstract callees of this unit ----
/// Algorithm 2 steps a)-h): the MD5 output (16 bytes) from which the first n bytes are the file encryption key
pub uninterp spec fn alg2_hash(rev: u32, n: usize, o: Seq<u8>, p: i32, id: Seq<u8>, encrypt_metadata: bool, pass: Seq<u8>) -> Seq<u8>;
/// Algorithm 6 step b): /U equals the Algorithm-4 value (R2) / its first 16 bytes equal the Algorithm-5 value (R3, R4)
pub uninterp spec fn alg6_u_matches(rev: u32, u: Seq<u8>, id: Seq<u8>, key: Seq<u8>) -> bool;
/// Algorithm 3 steps a)-d) (= Algorithm 7 step a): the n-byte RC4 key derived from the owner password
pub uninterp spec fn alg3_owner_key(rev: u32, n: usize, pass: Seq<u8>) -> Seq<u8>;
pub uninterp spec fn utf8_spec(b: Seq<u8>) -> Option<Seq<char>>;
pub uninterp spec fn saslprep_spec(s: Seq<char>) -> Option<Seq<u8>>;
/// Algorithm 2.A step a): "generate the UTF-8 password from the Unicode input by processing it with SASLprep ...
/// truncate the UTF-8 representation to 127 bytes if it is longer"; None = not a UTF-8 string / prohibited output
pub open spec fn prep_utf8(pass: Seq<u8>) -> Option<Seq<u8>> {
    match utf8_spec(pass) {
        None => None,
        Some(cs) => match saslprep_spec(cs) {
            None => None,
            Some(b) => Some(if b.len() > 127 { b.subrange(0, 127) } else { b }),
        },
    }
}
pub uninterp spec fn sha256_spec(input: Seq<u8>) -> Seq<u8>;
/// Algorithm 2.B
pub uninterp spec fn alg2b_hash(pass: Seq<u8>, salt: Seq<u8>, udata: Seq<u8>) -> Seq<u8>;
/// AES-256, CBC, no padding; None iff the data is not a whole number of blocks
pub uninterp spec fn aes256_cbc_nopad(key: Seq<u8>, iv: Seq<u8>, ct: Seq<u8>) -> Option<Seq<u8>>;

pub open spec fn xor_key(k: Seq<u8>, c: u8) -> Seq<u8> { Seq::new(k.len(), |i: int| k[i] ^ c) }
/// Algorithm 7 step b) for R >= 3: "Do the following 20 times: Decrypt the value of the encryption dictionary's O
/// entry (first iteration) or the output from the previous iteration, using an RC4 encryption function with a
/// different encryption key at each iteration. The key shall be generated by taking the original key and performing
/// an XOR operation between each byte of the key and the single-byte value of the iteration counter (from 19 to 0)."
/// alg7_down(k, d, c) applies the counters c-1, c-2, ..., 0 in that order.
pub open spec fn alg7_down(k: Seq<u8>, d: Seq<u8>, c: int) -> Seq<u8> decreases c {
    if c <= 0 { d } else { alg7_down(k, rc4(xor_key(k, (c - 1) as u8), d), c - 1) }
}
/// Algorithm 7 step b): R2 "decrypt the value of the O entry using an RC4 encryption function with the key"
pub open spec fn alg7_user_password(rev: u32, k: Seq<u8>, o: Seq<u8>) -> Seq<u8> {
    if rev == 2 { rc4(k, o) } else { alg7_down(k, o, 20) }
}
/// the order the implementation uses: counters 0, 1, ..., c-1
pub open spec fn rounds_up(k: Seq<u8>, d: Seq<u8>, c: int) -> Seq<u8> decreases c {
    if c <= 0 { d } else { rc4(xor_key(k, (c - 1) as u8), rounds_up(k, d, c - 1)) }
}
// RC4 is a stream cipher (output = data XOR keystream(key)), hence two applications with different keys commute:
// `lemma_rc4_commutes(a, b, d)` of units/rc4 (rc4/rc4_spec.rs, PROVED there and re-checked in this file). Until units/rc4 existed
// this was a trusted statement about an uninterpreted function.
pub proof fn lemma_push(x: Seq<u8>, k: Seq<u8>, d: Seq<u8>, c: int)
    ensures rc4(x, alg7_down(k, d, c)) == alg7_down(k, rc4(x, d), c)
    decreases c
{
    if c > 0 {
        let y = xor_key(k, (c - 1) as u8);
        lemma_rc4_commutes(y, x, d);
        lemma_push(x, k, rc4(y, d), c - 1);
    }
}
pub proof fn lemma_up_is_down(k: Seq<u8>, d: Seq<u8>, c: int)
    ensures rounds_up(k, d, c) == alg7_down(k, d, c)
    decreases c
{
    if c > 0 {
        lemma_up_is_down(k, d, c - 1);
        lemma_push(xor_key(k, (c - 1) as u8), k, d, c - 1);
    }
}
pub proof fn lemma_xor_zero(k: Seq<u8>)
    ensures xor_key(k, 0u8) =~= k
{
    assert forall|i: int| 0 <= i < k.len() implies xor_key(k, 0u8)[i] == k[i] by {
        let b = k[i];
        assert(b ^ 0u8 == b) by (bit_vector);
    }
}

// ---- key-length and method selection, written from ISO 32000-1 Table 20 (V, Length, CF, StmF), Table 25 (CFM,
//      Length) and ISO 32000-2 7.6.5.1 ("the standard security handler expresses the Length entry in bytes") ----
pub open spec fn method_code(m: CryptMethod) -> int {
    match m { CryptMethod::None => 0, CryptMethod::V2 => 1, CryptMethod::AESV2 => 2, CryptMethod::AESV3 => 3 }
}
/// Some((key length in bits, method code)) for the encryption dictionaries the library accepts, else None
pub open spec fn iso_selection(dict: CryptDict) -> Option<(int, int)> {
    if dict.v == 1 { Some((40int, 1int)) }                           // "Algorithm 1 ... with an encryption key length of 40 bits"
    else if dict.v == 2 {                                           // "key lengths greater than 40 bits": /Length, a multiple of 8
        if dict.bits % 8 == 0 { Some((dict.bits as int, 1int)) } else { None }
    } else if 4 <= dict.v <= 6 {                                     // crypt filters: /StmF names an entry of /CF
        match dict.default_crypt_filter {
            None => None,
            Some(name) => match cf_lookup(dict.crypt_filters, name.view()) {
                None => None,
                Some(cf) => {
                    let bits = match cf.length { Some(n) => 8 * (n as int), None => dict.bits as int };
                    match cf.method {
                        CryptMethod::V2 => Some((bits, 1int)),
                        CryptMethod::AESV2 => Some((bits, 2int)),
                        CryptMethod::AESV3 => if dict.v == 5 { Some((bits, 3int)) } else { None },
                        CryptMethod::None => None,                  // Identity filter: not supported by the library
                    }
                }
            }
        }
    } else { None }
}

/// R2-R4: which file key (Algorithm-2 hash) opens the document with password `pass`, if any (Algorithms 6 and 7)
pub open spec fn rc4_login(dict: CryptDict, id: Seq<u8>, pass: Seq<u8>, n: usize) -> Option<Seq<u8>>
    recommends 1 <= n <= 16
{
    let rev = dict.r;
    let ku = alg2_hash(rev, n, dict.o.view(), dict.p, id, dict.encrypt_metadata, pass);
    if alg6_u_matches(rev, dict.u.view(), id, ku.subrange(0, n as int)) { Some(ku) }
    else {
        let user_pass = alg7_user_password(rev, alg3_owner_key(rev, n, pass), dict.o.view());
        let ko = alg2_hash(rev, n, dict.o.view(), dict.p, id, dict.encrypt_metadata, user_pass);
        if alg6_u_matches(rev, dict.u.view(), id, ko.subrange(0, n as int)) { Some(ko) } else { None }
    }
}
/// R5/R6 (Algorithm 2.A): the intermediate key and the wrapped file key chosen by the password, if any
pub open spec fn hash56(rev: u32, pass: Seq<u8>, salt: Seq<u8>, udata: Seq<u8>) -> Seq<u8> {
    if rev == 6 { alg2b_hash(pass, salt, udata) } else { sha256_spec(pass + salt + udata) }
}
pub open spec fn aes_login(dict: CryptDict, pw: Seq<u8>) -> Option<(Seq<u8>, Seq<u8>)>
    recommends dict.u.view().len() == 48 && dict.o.view().len() == 48 && dict.ue is Some && dict.oe is Some
{
    let rev = dict.r; let u = dict.u.view(); let o = dict.o.view(); let e = Seq::<u8>::empty();
    if hash56(rev, pw, u.subrange(32, 40), e) == u.subrange(0, 32) {
        Some((hash56(rev, pw, u.subrange(40, 48), e), dict.ue->0.view()))
    } else if hash56(rev, pw, o.subrange(32, 40), u) == o.subrange(0, 32) {
        Some((hash56(rev, pw, o.subrange(40, 48), u), dict.oe->0.view()))
    } else { None }
}
pub open spec fn is_invalid_password(e: PdfError) -> bool {
    e is InvalidPassword || (e matches PdfError::Try { source } && *source is InvalidPassword)
}
pub open spec fn zeros16() -> Seq<u8> { Seq::new(16, |i: int| 0u8) }
/// rounds_up in the implementation's order equals Algorithm 7 step b)
pub proof fn lemma_alg7(rev: u32, k: Seq<u8>, o: Seq<u8>, rounds: int)
    ensures rounds == (if rev == 2 { 1int } else { 20int }) ==> rounds_up(k, o, rounds) == alg7_user_password(rev, k, o)
{
    lemma_up_is_down(k, o, rounds);
    if rev == 2 && rounds == 1 {
        lemma_xor_zero(k);
        assert(alg7_down(k, rc4(xor_key(k, 0u8), o), 0) == rc4(xor_key(k, 0u8), o));
        assert(alg7_down(k, o, 1) == rc4(k, o));
    }
}
pub proof fn lemma_concat_empty(a: Seq<u8>)
    ensures Seq::<u8>::empty() + a =~= a, a + Seq::<u8>::empty() =~= a
{}
pub proof fn lemma_empty_literal()
    ensures ""@.len() == 0
{ reveal_strlit(""); }
pub open spec fn fresh_decoder(d: Decoder, dict: CryptDict) -> bool {
    d.encrypt_indirect_object is None && d.metadata_indirect_object is None && d.encrypt_metadata == dict.encrypt_metadata
}


// ---- the postconditions of from_password ----
pub open spec fn post_key_size_selection(dict: CryptDict, r: Result<Decoder>) -> bool {
    match r {
        Err(_) => true,
        Ok(d) => match iso_selection(dict) {
            None => false,
            Some(sel) => method_code(d.method) == sel.1
                && ((dict.r <= 4 && sel.0 <= u32::MAX) ==> d.key_size == sel.0 / 8)   // n = Length / 8
                && (dict.r >= 5 ==> d.key_size == 32),                                   // Algorithm 2.A: 32-byte file key
        },
    }
}
/// C06: "opening it with the correct user or owner password ...; a wrong password is rejected with an
/// invalid-password error" -- R2..R4, key length within the range of Table 20 (40..128 bits; 8..32 also covered)
pub open spec fn post_rc4_login(dict: CryptDict, id: Seq<u8>, pass: Seq<u8>, r: Result<Decoder>) -> bool {
    match iso_selection(dict) {
        None => true,
        Some(sel) => (2 <= dict.r <= 4 && 8 <= sel.0 <= 128) ==> {
            let n = (sel.0 / 8) as usize;
            match rc4_login(dict, id, pass, n) {
                Some(h) => r matches Ok(d) && d.key@.subrange(0, 16) == h && d.file_key() == h.subrange(0, n as int) && fresh_decoder(d, dict),
                None => r matches Err(e) && e is InvalidPassword,
            }
        },
    }
}
pub open spec fn aes_dict_ok(dict: CryptDict) -> bool {
    5 <= dict.r <= 6 && iso_selection(dict) is Some && dict.u.view().len() == 48 && dict.o.view().len() == 48
}
pub open spec fn post_aes_login(dict: CryptDict, pass: Seq<u8>, r: Result<Decoder>) -> bool {
    (aes_dict_ok(dict) && dict.ue is Some && dict.oe is Some) ==> match prep_utf8(pass) {
        None => r matches Err(e) && is_invalid_password(e),
        Some(pw) => match aes_login(dict, pw) {
            None => r matches Err(e) && is_invalid_password(e),
            Some(kw) => match aes256_cbc_nopad(kw.0, zeros16(), kw.1) {
                None => r matches Err(e) && is_invalid_password(e),
                // Table 21: "UE / OE: 32-byte string" -- anything else cannot hold a 32-byte file key
                Some(k) => if kw.1.len() == 32 { r matches Ok(d) && d.key@ == k && fresh_decoder(d, dict) } else { r is Err },
            },
        },
    }
}

// ---- abstract callees (nested fns of from_password, pdf/src/crypt.rs) with their L0 contracts ----
/// Algorithm 2; returns `vec![0; key_size.max(16)]` whose first 16 bytes are the hash
#[verifier::external_body]
fn key_derivation_user_password_rc4(revision: u32, key_size: usize, dict: &CryptDict, id: &[u8], pass: &[u8]) -> (r: Vec<u8>)
    ensures r@.len() == (if key_size > 16 { key_size } else { 16 }),
            r@.subrange(0, 16) == alg2_hash(revision, key_size, dict.o.view(), dict.p, id@, dict.encrypt_metadata, pass@)
{ unimplemented!() }
/// Algorithms 4/5 + comparison; reaches `Rc4::new(key)`: `assert!(!key.is_empty() && key.len() <= 256)`
#[verifier::external_body]
fn check_password_rc4(revision: u32, document_u: &[u8], id: &[u8], key: &[u8]) -> (r: bool)
    requires 1 <= key@.len() <= 256
    ensures r == alg6_u_matches(revision, document_u@, id@, key@)
{ unimplemented!() }
/// Algorithm 3 a)-d); `bail!("key size > 16")`
#[verifier::external_body]
fn key_derivation_owner_password_rc4(revision: u32, key_size: usize, pass: &[u8]) -> (r: Result<Vec<u8>>)
    ensures key_size > 16 ==> r is Err,
            key_size <= 16 ==> (r matches Ok(k) && k@.len() == key_size && k@ == alg3_owner_key(revision, key_size, pass@))
{ unimplemented!() }

// ---- L0 helpers (R7) of from_password ----
/// `m.get(k).ok_or_else(|| other!(..))`
#[verifier::external_body]
fn hoist_cf_get<'a>(m: &'a HashMap<Name, CryptFilter>, k: &str) -> (r: Result<&'a CryptFilter>)
    ensures match cf_lookup(*m, k@) { Some(cf) => r matches Ok(x) && *x == cf, None => r is Err }
{ unimplemented!() }
#[verifier::external_body]
fn hoist_range_incl_contains(lo: u32, hi: u32, x: &u32) -> (r: bool)
    ensures r == (lo <= *x <= hi)
{ (lo..=hi).contains(x) }
#[verifier::external_body]
fn hoist_to_vec(s: &[u8]) -> (r: Vec<u8>)
    ensures r@ == s@
{ s.to_vec() }
/// `for byte in key.iter_mut() { *byte ^= c; }`
#[verifier::external_body]
fn hoist_xor_all(key: &mut Vec<u8>, c: u8)
    ensures final(key)@ == xor_key(old(key)@, c)
{ for byte in key.iter_mut() { *byte ^= c; } }
#[verifier::external_body]
fn hoist_bytes_eq(a: &[u8], b: &[u8]) -> (r: bool)
    ensures r == (a@ == b@)
{ a == b }
/// `opt.ok_or_else(|| PdfError::MissingEntry { .. })`
#[verifier::external_body]
fn hoist_ok_or_missing<'a>(opt: Option<&'a PdfString>) -> (r: Result<&'a PdfString>)
    ensures match opt { Some(x) => r matches Ok(y) && *y == *x, None => r is Err }
{ unimplemented!() }
/// `String::from_utf8(pass.to_vec()).map_err(|_| PdfError::InvalidPassword)` then
/// `stringprep::saslprep(&s).map_err(|_| PdfError::InvalidPassword)`: the prepared password (a Cow<str>)
#[verifier::external_body]
pub struct Prepped {}
impl Prepped {
    pub uninterp spec fn view(&self) -> Seq<u8>;
    #[verifier::external_body]
    pub fn as_bytes(&self) -> (r: &[u8]) ensures r@ == self.view() { unimplemented!() }
}
#[verifier::external_body]
fn hoist_from_utf8(pass: &[u8]) -> (r: Result<String>)
    ensures match utf8_spec(pass@) { Some(cs) => r matches Ok(st) && st@ == cs, None => r matches Err(e) && e is InvalidPassword }
{ String::from_utf8(pass.to_vec()).map_err(|_| PdfError::InvalidPassword) }
#[verifier::external_body]
fn hoist_saslprep(s: &String) -> (r: Result<Prepped>)
    ensures match saslprep_spec(s@) { Some(b) => r matches Ok(p) && p.view() == b, None => r matches Err(e) && e is InvalidPassword }
{ unimplemented!() /* stringprep::saslprep(s).map_err(|_| PdfError::InvalidPassword) */ }
/// generic_array::GenericArray<u8, _> (32-byte digests / keys, 16-byte IV): opaque byte strings
#[verifier::external_body]
pub struct GenericArray {}
impl GenericArray {
    pub uninterp spec fn view(&self) -> Seq<u8>;
    #[verifier::external_body]
    pub fn as_slice(&self) -> (r: &[u8]) ensures r@ == self.view() { unimplemented!() }
    #[verifier::external_body]
    pub fn from_slice(s: &[u8]) -> (r: &GenericArray) ensures r.view() == s@ { unimplemented!() }
}
/// `<[u8; 32]>::into()` -> GenericArray
#[verifier::external_body]
fn hoist_ga_from_array(a: [u8; 32]) -> (r: GenericArray) ensures r.view() == a@ { unimplemented!() }
/// sha2::Sha256 with its feed as ghost state
#[verifier::external_body]
pub struct Sha256 {}
impl Sha256 {
    pub uninterp spec fn fed(&self) -> Seq<u8>;
    #[verifier::external_body]
    pub fn new() -> (r: Sha256) ensures r.fed() == Seq::<u8>::empty() { unimplemented!() }
    #[verifier::external_body]
    pub fn update(&mut self, data: &[u8]) ensures final(self).fed() == old(self).fed() + data@ { unimplemented!() }
    #[verifier::external_body]
    pub fn finalize(self) -> (r: GenericArray) ensures r.view() == sha256_spec(self.fed()) { unimplemented!() }
}
/// `Aes256CbcDec::new(key, iv).decrypt_padded_mut::<NoPadding>(buf).map_err(|_| PdfError::InvalidPassword)`
#[verifier::external_body]
fn hoist_aes256_nopad<'a>(key: &GenericArray, iv: &GenericArray, buf: &'a mut Vec<u8>) -> (r: Result<&'a [u8]>)
    ensures match aes256_cbc_nopad(key.view(), iv.view(), old(buf)@) {
        Some(p) => r matches Ok(d) && d@ == p && p.len() == old(buf)@.len(),
        None => r matches Err(e) && e is InvalidPassword }
{ unimplemented!() }
/// `<&[u8]>::into()` -> Vec<u8>
#[verifier::external_body]
fn hoist_vec_from_slice(s: &[u8]) -> (r: Vec<u8>) ensures r@ == s@ { s.into() }

impl Decoder {
    /// Algorithm 2.B (abstract callee; pdf/src/crypt.rs Decoder::revision_6_kdf)
    #[verifier::external_body]
    fn revision_6_kdf(password: &[u8], salt: &[u8], u: &[u8]) -> (r: [u8; 32])
        ensures r@ == alg2b_hash(password@, salt@, u@)
    { unimplemented!() }
//@@ Decoder::new
//@@ Decoder::from_password
//@@ Decoder::default
}

impl Decoder {
//@@ Decoder::key
//@@ Decoder::decrypt
}
// a free padding-removal helper of crypt.rs, if this tree has one (`fn NAME(x: &[u8]) -> Result<&[u8]>`): see unit.py
//@@ pkcs7_helper
}
fn main(){}
