//! REPRO for findings/strf_ignored.md: the generator of native_c06_bounded.rs with ONE change -- the V4 encryption dictionaries say
//! `/StmF /StdCF /StrF /Identity` and the strings of the document are left in the clear (streams still encrypted).
//! Place as pdf/tests/strf_ignored_repro.rs; `cargo test --offline -p pdf --test strf_ignored_repro` FAILS on /repo ebb87a5.
//! BOUNDED native stand-in for C06 (unit decrypt): documents protected by the standard security handler are BUILT FROM
//! SCRATCH here -- with an implementation of the handler written from ISO 32000-1 7.6 / ISO 32000-2 7.6 that shares no code
//! with pdf/src/crypt.rs (own RC4, own Algorithms 1, 1.A, 2, 2.A, 2.B, 3, 4, 5, 8, 9; MD5 / SHA-2 / the AES block cipher come from
//! the same crates.io libraries, used in the ENCRYPT direction) -- and read back through the public interface.
//!
//! Universe (stated again in unit.py `bound`):
//!   handlers   RC4-40 (V1 R2), RC4-128 (V2 R3), crypt filter RC4-128 (V4 R4 /CFM /V2), AESV2 (V4 R4), AESV3 (V5 R5), AESV3 (V5 R6)
//!   x password {user, owner}, two password pairs (empty user password / both non-empty)
//!   x /EncryptMetadata {true, false} for V4 and V5 (a /Metadata stream, cleartext in the file when false)
//!   x layout   {classic xref table, object numbers 1.. and one pair of objects with number 0x012345 / generations 2 and 1;
//!               xref stream + one object stream holding all non-stream objects}
//!   plaintexts every length 0..=33 (so 0, 16, 32 -- the whole-block-of-padding cases -- are in), as hex strings and literal strings
//!              in a dictionary, in an array, as stream data read by Stream::data and by PdfStream::raw_data; one ASCIIHex-filtered
//!              stream (decrypt, then filter; raw_data = the hex text)
//!   + a wrong password is InvalidPassword; the strings of the encryption dictionary read back unmodified.
use aes::cipher::block_padding::{NoPadding, Pkcs7};
use aes::cipher::{BlockEncryptMut, KeyIvInit};
use pdf::error::PdfError;
use pdf::file::FileOptions;
use pdf::object::{PlainRef, Resolve, Stream};
use pdf::primitive::Primitive;
use sha2::{Digest, Sha256, Sha384, Sha512};

const PAD: [u8; 32] = [
    0x28, 0xBF, 0x4E, 0x5E, 0x4E, 0x75, 0x8A, 0x41, 0x64, 0x00, 0x4E, 0x56, 0xFF, 0xFA, 0x01, 0x08,
    0x2E, 0x2E, 0x00, 0xB6, 0xD0, 0x68, 0x3E, 0x80, 0x2F, 0x0C, 0xA9, 0xFE, 0x64, 0x53, 0x69, 0x7A,
];
const ID0: &[u8] = b"\x9c\x01\x7e\x33\xa0\x5b\xd2\x48\x11\xf6\x0d\xe9\x72\x84\x3a\xc5";
const PERMS: i32 = -2364;

// ---- primitives ------------------------------------------------------------------------------------------------------
fn rc4(key: &[u8], data: &[u8]) -> Vec<u8> {
    let mut s = [0u8; 256];
    for (i, x) in s.iter_mut().enumerate() { *x = i as u8; }
    let mut j = 0u8;
    for i in 0..256 {
        j = j.wrapping_add(s[i]).wrapping_add(key[i % key.len()]);
        s.swap(i, j as usize);
    }
    let (mut i, mut j) = (0u8, 0u8);
    data.iter().map(|b| {
        i = i.wrapping_add(1);
        j = j.wrapping_add(s[i as usize]);
        s.swap(i as usize, j as usize);
        b ^ s[s[i as usize].wrapping_add(s[j as usize]) as usize]
    }).collect()
}
fn md5(parts: &[&[u8]]) -> [u8; 16] {
    let mut c = md5::Context::new();
    for p in parts { c.consume(p); }
    *c.compute()
}
fn sha256(parts: &[&[u8]]) -> Vec<u8> {
    let mut h = Sha256::new();
    for p in parts { h.update(p); }
    h.finalize().to_vec()
}
fn aes_cbc(key: &[u8], iv: &[u8], plain: &[u8], pad: bool) -> Vec<u8> {
    let mut buf = vec![0u8; plain.len() + 16];
    buf[..plain.len()].copy_from_slice(plain);
    macro_rules! run { ($c:ty) => {{
        let e = cbc::Encryptor::<$c>::new_from_slices(key, iv).unwrap();
        if pad { e.encrypt_padded_mut::<Pkcs7>(&mut buf, plain.len()).unwrap().to_vec() }
        else { e.encrypt_padded_mut::<NoPadding>(&mut buf, plain.len()).unwrap().to_vec() }
    }} }
    match key.len() { 16 => run!(aes::Aes128), 32 => run!(aes::Aes256), n => panic!("aes key of {} bytes", n) }
}
fn pad32(pw: &[u8]) -> [u8; 32] {
    let mut out = [0u8; 32];
    let n = pw.len().min(32);
    out[..n].copy_from_slice(&pw[..n]);
    out[n..].copy_from_slice(&PAD[..32 - n]);
    out
}
fn xor(k: &[u8], c: u8) -> Vec<u8> { k.iter().map(|b| b ^ c).collect() }

// ---- the standard security handler, encrypting side ------------------------------------------------------------------
#[derive(Clone, Copy, PartialEq, Debug)]
enum Kind { Rc4R2, Rc4R3, Rc4R4, Aes128R4, Aes256R5, Aes256R6 }
use Kind::*;
struct Handler { kind: Kind, key: Vec<u8>, dict: String, meta_encrypted: bool, o: Vec<u8>, u: Vec<u8> }

/// Algorithm 3 (O), Algorithm 2 (file key), Algorithms 4 / 5 (U) of ISO 32000-1
fn legacy(kind: Kind, user: &[u8], owner: &[u8], encrypt_metadata: bool) -> Handler {
    let (rev, n) = match kind { Rc4R2 => (2, 5), Rc4R3 => (3, 16), _ => (4, 16) };
    let mut h = md5(&[&pad32(if owner.is_empty() { user } else { owner })]);
    if rev >= 3 { for _ in 0..50 { h = md5(&[&h]); } }
    let okey = h[..n].to_vec();
    let mut o = rc4(&okey, &pad32(user));
    if rev >= 3 { for i in 1..=19u8 { o = rc4(&xor(&okey, i), &o); } }
    let ff = [0xffu8; 4];
    let mut parts: Vec<&[u8]> = Vec::new();
    let pu = pad32(user);
    let p = PERMS.to_le_bytes();
    parts.extend_from_slice(&[&pu, &o, &p, ID0]);
    if rev >= 4 && !encrypt_metadata { parts.push(&ff); }
    let mut k = md5(&parts);
    if rev >= 3 { for _ in 0..50 { k = md5(&[&k[..n]]); } }
    let key = k[..n].to_vec();
    let u = if rev == 2 { rc4(&key, &PAD) } else {
        let mut u = rc4(&key, &md5(&[&PAD, ID0]));
        for i in 1..=19u8 { u = rc4(&xor(&key, i), &u); }
        u.extend_from_slice(b"arbitrary padding");   // "followed by 16 bytes of arbitrary padding"
        u.truncate(32);
        u
    };
    let em = if encrypt_metadata { "" } else { " /EncryptMetadata false" };
    let dict = match kind {
        Rc4R2 => format!("<< /Filter /Standard /V 1 /R 2 /P {} /O {} /U {} >>", PERMS, hex(&o), hex(&u)),
        Rc4R3 => format!("<< /Filter /Standard /V 2 /R 3 /Length 128 /P {} /O {} /U {} >>", PERMS, hex(&o), hex(&u)),
        _ => format!("<< /Filter /Standard /V 4 /R 4 /Length 128 /P {} /CF << /StdCF << /AuthEvent /DocOpen /CFM /{} /Length 16 >> >> \
                      /StmF /StdCF /StrF /Identity{} /O {} /U {} >>", PERMS, if kind == Rc4R4 { "V2" } else { "AESV2" }, em, hex(&o), hex(&u)),
    };
    Handler { kind, key, dict, meta_encrypted: encrypt_metadata, o, u }
}
/// Algorithm 2.B of ISO 32000-2 (revision 6); revision 5 uses the plain SHA-256 of the same input
fn hash_r56(kind: Kind, pw: &[u8], salt: &[u8], udata: &[u8]) -> Vec<u8> {
    let mut k = sha256(&[pw, salt, udata]);
    if kind == Aes256R5 { return k; }
    let mut round = 0usize;
    loop {
        let mut k1 = Vec::new();
        for _ in 0..64 { k1.extend_from_slice(pw); k1.extend_from_slice(&k); k1.extend_from_slice(udata); }
        let e = aes_cbc(&k[..16], &k[16..32], &k1, false);
        let m = e[..16].iter().map(|b| *b as u32).sum::<u32>() % 3;
        k = match m { 0 => Sha256::digest(&e).to_vec(), 1 => Sha384::digest(&e).to_vec(), _ => Sha512::digest(&e).to_vec() };
        round += 1;
        if round >= 64 && (*e.last().unwrap() as usize) + 32 <= round { break; }
    }
    k.truncate(32);
    k
}
/// Algorithms 8, 9 (and 10 for /Perms) of ISO 32000-2
fn modern(kind: Kind, user: &[u8], owner: &[u8], encrypt_metadata: bool) -> Handler {
    let key: Vec<u8> = (0..32u32).map(|i| (i * 73 + 19 + user.len() as u32) as u8).collect();
    let (uvs, uks, ovs, oks) = (b"\x01uVs\xff\x00ab", b"uKs\x80\x81\x82\x83\x84", b"oV\x00\x00\x00\x00s\x07", b"\xfe\xfdoKs\x10\x11\x12");
    let z = [0u8; 16];
    let mut u = hash_r56(kind, user, uvs, b"");
    u.extend_from_slice(uvs); u.extend_from_slice(uks);
    let ue = aes_cbc(&hash_r56(kind, user, uks, b""), &z, &key, false);
    let mut o = hash_r56(kind, owner, ovs, &u);
    o.extend_from_slice(ovs); o.extend_from_slice(oks);
    let oe = aes_cbc(&hash_r56(kind, owner, oks, &u), &z, &key, false);
    let mut perms = Vec::new();
    perms.extend_from_slice(&PERMS.to_le_bytes());
    perms.extend_from_slice(&[0xff; 4]);
    perms.push(if encrypt_metadata { b'T' } else { b'F' });
    perms.extend_from_slice(b"adb\x31\x41\x59\x26");
    let perms = aes_cbc(&key, &z, &perms, false);   // one block: CBC with a zero IV == ECB
    let em = if encrypt_metadata { "" } else { " /EncryptMetadata false" };
    let dict = format!("<< /Filter /Standard /V 5 /R {} /Length 256 /P {} /CF << /StdCF << /AuthEvent /DocOpen /CFM /AESV3 /Length 32 >> >> \
                        /StmF /StdCF /StrF /StdCF{} /O {} /U {} /OE {} /UE {} /Perms {} >>",
                       if kind == Aes256R5 { 5 } else { 6 }, PERMS, em, hex(&o), hex(&u), hex(&oe), hex(&ue), hex(&perms));
    Handler { kind, key, dict, meta_encrypted: encrypt_metadata, o, u }
}
impl Handler {
    fn new(kind: Kind, user: &[u8], owner: &[u8], em: bool) -> Handler {
        match kind { Aes256R5 | Aes256R6 => modern(kind, user, owner, em), _ => legacy(kind, user, owner, em) }
    }
    /// Algorithm 1 / 1.A
    fn encrypt(&self, id: u64, gen: u64, salt: usize, plain: &[u8]) -> Vec<u8> {
        let iv: Vec<u8> = (0..16).map(|i| (salt * 29 + i * 11 + id as usize + 5) as u8).collect();
        let aes = |k: &[u8]| { let mut out = iv.clone(); out.extend_from_slice(&aes_cbc(k, &iv, plain, true)); out };
        match self.kind {
            Aes256R5 | Aes256R6 => aes(&self.key),
            Aes128R4 => aes(&md5(&[&self.key, &id.to_le_bytes()[..3], &gen.to_le_bytes()[..2], b"sAlT"])),
            _ => {
                let k = md5(&[&self.key, &id.to_le_bytes()[..3], &gen.to_le_bytes()[..2]]);
                rc4(&k[..(self.key.len() + 5).min(16)], plain)
            }
        }
    }
}

// ---- the documents ---------------------------------------------------------------------------------------------------
fn hex(b: &[u8]) -> String { let mut s = String::from("<"); for x in b { s.push_str(&format!("{:02x}", x)); } s.push('>'); s }
fn literal(b: &[u8]) -> Vec<u8> {
    let mut s = vec![b'('];
    for &x in b {
        match x { b'(' | b')' | b'\\' => { s.push(b'\\'); s.push(x); } b'\r' => s.extend_from_slice(b"\\r"), b'\n' => s.extend_from_slice(b"\\n"), _ => s.push(x) }
    }
    s.push(b')');
    s
}
fn plaintext(len: usize, salt: usize) -> Vec<u8> { (0..len).map(|i| (i * 37 + salt * 101 + 13) as u8).collect() }
const MAXLEN: usize = 33;
const STRINGS: u64 = 4;          // dictionary of strings
const ARRAY: u64 = 5;            // array of strings
const FIRST_STREAM: u64 = 6;     // 6 ..= 6 + MAXLEN: streams, plaintext length = nr - 6
const HEXSTREAM: u64 = FIRST_STREAM + MAXLEN as u64 + 1;
const META: u64 = HEXSTREAM + 1;
const ENCRYPT: u64 = META + 1;
const BIG: u64 = 0x012345;       // table layout only: (BIG, gen 2) a dictionary with a string, (BIG + 1, gen 1) a stream
const XMP: &[u8] = b"<?xpacket begin='' id='W5M0MpCehiHzreSzNTczkc9d'?><x:xmpmeta xmlns:x='adobe:ns:meta/'></x:xmpmeta><?xpacket end='w'?>";
const HEXPLAIN: &[u8] = b"q 1 0 0 1 10 10 cm BT /F1 9 Tf (text) Tj ET Q";
fn hextext() -> Vec<u8> { let mut s = hex(HEXPLAIN).into_bytes(); s.remove(0); s }

/// `strings == None`: the object lives in an object stream, its strings are not encrypted on their own (7.6.2)
fn string_dict(h: Option<&Handler>, id: u64, gen: u64) -> Vec<u8> {
    let mut d = b"<<".to_vec();
    for len in 0..=MAXLEN {
        let p = plaintext(len, len);
        let c = match h { Some(h) if h.kind != Aes128R4 && h.kind != Rc4R4 => h.encrypt(id, gen, len, &p), _ => p };   // /StrF /Identity: strings in the clear
        d.extend_from_slice(format!(" /S{} ", len).as_bytes());
        if len % 3 == 1 { d.extend_from_slice(&literal(&c)); } else { d.extend_from_slice(hex(&c).as_bytes()); }
    }
    d.extend_from_slice(b" >>");
    d
}
fn string_array(h: Option<&Handler>, id: u64, gen: u64) -> Vec<u8> {
    let mut d = b"[".to_vec();
    for len in 0..=MAXLEN {
        let p = plaintext(len, 50 + len);
        let c = match h { Some(h) if h.kind != Aes128R4 && h.kind != Rc4R4 => h.encrypt(id, gen, 50 + len, &p), _ => p };
        d.push(b' ');
        if len % 3 == 2 { d.extend_from_slice(&literal(&c)); } else { d.extend_from_slice(hex(&c).as_bytes()); }
    }
    d.extend_from_slice(b" ]");
    d
}
fn stream_obj(extra: &str, data: &[u8]) -> Vec<u8> {
    let mut b = format!("<< /Length {}{} >>\nstream\n", data.len(), extra).into_bytes();
    b.extend_from_slice(data);
    b.extend_from_slice(b"\nendstream");
    b
}
/// the stream objects, the same in both layouts: (nr, gen, body)
fn stream_objects(h: &Handler) -> Vec<(u64, u64, Vec<u8>)> {
    let mut v = Vec::new();
    for len in 0..=MAXLEN {
        let nr = FIRST_STREAM + len as u64;
        v.push((nr, 0, stream_obj("", &h.encrypt(nr, 0, 100 + len, &plaintext(len, 100 + len)))));
    }
    v.push((HEXSTREAM, 0, stream_obj(" /Filter /ASCIIHexDecode", &h.encrypt(HEXSTREAM, 0, 7, &hextext()))));
    let meta = if h.meta_encrypted { h.encrypt(META, 0, 9, XMP) } else { XMP.to_vec() };
    v.push((META, 0, stream_obj(" /Type /Metadata /Subtype /XML", &meta)));
    v.push((ENCRYPT, 0, h.dict.clone().into_bytes()));
    v
}
const CATALOG: &str = "<< /Type /Catalog /Pages 2 0 R /Metadata 42 0 R >>";
fn catalog() -> Vec<u8> { CATALOG.replace("42", &META.to_string()).into_bytes() }

fn build_table(h: &Handler) -> Vec<u8> {
    let mut objs: Vec<(u64, u64, Vec<u8>)> = vec![
        (1, 0, catalog()),
        (2, 0, b"<< /Type /Pages /Kids [3 0 R] /Count 1 >>".to_vec()),
        (3, 0, b"<< /Type /Page /Parent 2 0 R /MediaBox [0 0 100 100] >>".to_vec()),
        (STRINGS, 0, string_dict(Some(h), STRINGS, 0)),
        (ARRAY, 0, string_array(Some(h), ARRAY, 0)),
    ];
    objs.extend(stream_objects(h));
    objs.push((BIG, 2, string_dict(Some(h), BIG, 2)));
    objs.push((BIG + 1, 1, stream_obj("", &h.encrypt(BIG + 1, 1, 3, &plaintext(32, 3)))));
    let mut out = b"%PDF-1.7\n%\xe2\xe3\xcf\xd3\n".to_vec();
    let mut offs = Vec::new();
    for (nr, gen, body) in &objs {
        offs.push(out.len());
        out.extend_from_slice(format!("{} {} obj\n", nr, gen).as_bytes());
        out.extend_from_slice(body);
        out.extend_from_slice(b"\nendobj\n");
    }
    let xref = out.len();
    let low = objs.len() - 2;
    out.extend_from_slice(format!("xref\n0 {}\n0000000000 65535 f \n", low + 1).as_bytes());
    for (i, off) in offs.iter().enumerate() {
        if i == low { out.extend_from_slice(format!("{} 2\n", BIG).as_bytes()); }
        out.extend_from_slice(format!("{:010} {:05} n \n", off, objs[i].1).as_bytes());
    }
    out.extend_from_slice(format!("trailer\n<< /Size {} /Root 1 0 R /Encrypt {} 0 R /ID [{} {}] >>\nstartxref\n{}\n%%EOF\n",
                                  BIG + 2, ENCRYPT, hex(ID0), hex(b"second id"), xref).as_bytes());
    out
}

fn build_xref_stream(h: &Handler) -> Vec<u8> {
    // object stream OBJSTM holds objects 1..=5 (no streams, not the encryption dictionary); it is itself an encrypted stream
    let objstm_nr = ENCRYPT + 1;
    let xref_nr = ENCRYPT + 2;
    let members: Vec<(u64, Vec<u8>)> = vec![
        (1, catalog()),
        (2, b"<< /Type /Pages /Kids [3 0 R] /Count 1 >>".to_vec()),
        (3, b"<< /Type /Page /Parent 2 0 R /MediaBox [0 0 100 100] >>".to_vec()),
        (STRINGS, string_dict(None, STRINGS, 0)),
        (ARRAY, string_array(None, ARRAY, 0)),
    ];
    let (mut head, mut body) = (String::new(), Vec::new());
    for (nr, b) in &members {
        head.push_str(&format!("{} {} ", nr, body.len()));
        body.extend_from_slice(b);
        body.push(b'\n');
    }
    let mut content = head.clone().into_bytes();
    content.extend_from_slice(&body);
    let objstm = stream_obj(&format!(" /Type /ObjStm /N {} /First {}", members.len(), head.len()), &h.encrypt(objstm_nr, 0, 1, &content));
    let mut objs = stream_objects(h);
    objs.push((objstm_nr, 0, objstm));
    let mut out = b"%PDF-1.7\n%\xe2\xe3\xcf\xd3\n".to_vec();
    // entries by object number: 0 free, 1..=5 compressed, the rest at their offsets
    let mut entries: Vec<[u64; 3]> = vec![[0, 0, 65535]];
    for (i, _) in members.iter().enumerate() { entries.push([2, objstm_nr, i as u64]); }
    for (nr, gen, b) in &objs {
        assert_eq!(*nr as usize, entries.len());
        entries.push([1, out.len() as u64, *gen]);
        out.extend_from_slice(format!("{} {} obj\n", nr, gen).as_bytes());
        out.extend_from_slice(b);
        out.extend_from_slice(b"\nendobj\n");
    }
    let xref = out.len();
    entries.push([1, xref as u64, 0]);
    let mut table = Vec::new();
    for e in &entries {
        table.push(e[0] as u8);
        table.extend_from_slice(&(e[1] as u32).to_be_bytes());
        table.extend_from_slice(&(e[2] as u16).to_be_bytes());
    }
    // the cross-reference stream is never encrypted (7.5.8.2)
    out.extend_from_slice(format!("{} 0 obj\n", xref_nr).as_bytes());
    out.extend_from_slice(&stream_obj(&format!(" /Type /XRef /W [1 4 2] /Size {} /Root 1 0 R /Encrypt {} 0 R /ID [{} {}]",
                                               entries.len(), ENCRYPT, hex(ID0), hex(ID0)), &table));
    out.extend_from_slice(format!("\nendobj\nstartxref\n{}\n%%EOF\n", xref).as_bytes());
    out
}

// ---- reading back ----------------------------------------------------------------------------------------------------
fn show(d: &[u8]) -> String { format!("{} bytes {:02x?}", d.len(), &d[..d.len().min(20)]) }

fn check(name: &str, h: &Handler, file_bytes: Vec<u8>, table_layout: bool, password: &[u8], fails: &mut Vec<String>) {
    let file = match FileOptions::uncached().password(password).load(file_bytes) {
        Ok(f) => f,
        Err(e) => { fails.push(format!("{}: cannot open with the correct password {:?}: {}", name, String::from_utf8_lossy(password), e)); return; }
    };
    let r = file.resolver();
    let log = std::cell::RefCell::new(Vec::<String>::new());
    let bad = |what: String, got: Result<Vec<u8>, String>, want: &[u8]| match got {
        Ok(d) if d == want => {}
        Ok(d) => log.borrow_mut().push(format!("{}: {}: got {}, want {}", name, what, show(&d), show(want))),
        Err(e) => log.borrow_mut().push(format!("{}: {}: {} (want {})", name, what, e, show(want))),
    };
    let string_of = |p: Option<&Primitive>| -> Result<Vec<u8>, String> {
        match p { Some(p) => p.as_string().map(|s| s.as_bytes().to_vec()).map_err(|e| e.to_string()), None => Err("entry missing".into()) }
    };
    // strings in a dictionary / in an array
    let mut dicts = vec![(STRINGS, 0u64)];
    if table_layout { dicts.push((BIG, 2)); }
    for (id, gen) in dicts {
        match r.resolve(PlainRef { id, gen }) {
            Ok(Primitive::Dictionary(d)) => for len in 0..=MAXLEN {
                bad(format!("string /S{} of object {} {}", len, id, gen), string_of(d.get(&format!("S{}", len))), &plaintext(len, len));
            },
            other => log.borrow_mut().push(format!("{}: object {} {} does not read as a dictionary: {:?}", name, id, gen, other.map(|p| p.get_debug_name()))),
        }
    }
    match r.resolve(PlainRef { id: ARRAY, gen: 0 }) {
        Ok(Primitive::Array(a)) if a.len() == MAXLEN + 1 => for len in 0..=MAXLEN {
            bad(format!("string {} of the array object", len), string_of(a.get(len)), &plaintext(len, 50 + len));
        },
        other => log.borrow_mut().push(format!("{}: the array object does not read as an array of {}: {:?}", name, MAXLEN + 1, other.map(|p| p.get_debug_name()))),
    }
    // streams: decoded data and raw data
    let mut streams: Vec<(u64, u64, Vec<u8>, Vec<u8>)> = (0..=MAXLEN).map(|len| {
        let p = plaintext(len, 100 + len);
        (FIRST_STREAM + len as u64, 0, p.clone(), p)
    }).collect();
    streams.push((HEXSTREAM, 0, HEXPLAIN.to_vec(), hextext()));
    streams.push((META, 0, XMP.to_vec(), XMP.to_vec()));
    if table_layout { streams.push((BIG + 1, 1, plaintext(32, 3), plaintext(32, 3))); }
    for (id, gen, decoded, raw) in streams {
        for pass in 0..2 {   // twice: the second read must answer the same (uncached options, but still)
            match r.resolve(PlainRef { id, gen }) {
                Ok(Primitive::Stream(s)) => {
                    bad(format!("raw_data() of stream {} {} (read {})", id, gen, pass), s.raw_data(&r).map(|d| d.to_vec()).map_err(|e| e.to_string()), &raw);
                    let data = Stream::<()>::from_stream(s, &r).map_err(|e| e.to_string()).and_then(|s| s.data(&r).map(|d| d.to_vec()).map_err(|e| e.to_string()));
                    bad(format!("data() of stream {} {} (read {})", id, gen, pass), data, &decoded);
                }
                other => log.borrow_mut().push(format!("{}: object {} {} does not read as a stream: {:?}", name, id, gen, other.map(|p| p.get_debug_name()))),
            }
        }
    }
    // the typed way to the metadata stream
    match file.get_root().metadata {
        Some(ref m) => {
            let _ = m;   // (typed field: present; its bytes were compared above through object META)
        }
        None => log.borrow_mut().push(format!("{}: the catalog has lost /Metadata", name)),
    }
    // "the strings of the encryption dictionary itself ... are returned unmodified"
    match r.resolve(PlainRef { id: ENCRYPT, gen: 0 }) {
        Ok(Primitive::Dictionary(d)) => {
            bad("/O of the encryption dictionary".into(), string_of(d.get("O")), &h.o);
            bad("/U of the encryption dictionary".into(), string_of(d.get("U")), &h.u);
        }
        other => log.borrow_mut().push(format!("{}: the encryption dictionary does not read as a dictionary: {:?}", name, other.map(|p| p.get_debug_name()))),
    }
    fails.extend(log.into_inner());
}

fn is_invalid_password(e: &PdfError) -> bool {
    match e {
        PdfError::InvalidPassword => true,
        PdfError::Try { source, .. } => is_invalid_password(source),
        _ => false,
    }
}

fn run(kinds: &[Kind]) {
    let mut fails = Vec::new();
    let mut n = 0;
    for &kind in kinds {
        for (user, owner) in [(&b""[..], &b"owner"[..]), (&b"user pw"[..], &b"The Owner Password 1234567890 longer than 32 bytes"[..])] {
            let variants: &[bool] = match kind { Rc4R2 | Rc4R3 => &[true], _ => &[true, false] };
            for &em in variants {
                let h = Handler::new(kind, user, owner, em);
                for table in [true, false] {
                    let bytes = if table { build_table(&h) } else { build_xref_stream(&h) };
                    for (who, pw) in [("user", user), ("owner", owner)] {
                        let name = format!("{:?} EncryptMetadata={} {} user={:?} opened with the {} password", kind, em,
                                           if table { "xref table" } else { "xref stream + object stream" }, String::from_utf8_lossy(user), who);
                        check(&name, &h, bytes.clone(), table, pw, &mut fails);
                        n += 1;
                    }
                    match FileOptions::uncached().password(b"not the password").load(bytes.clone()) {
                        Err(e) if is_invalid_password(&e) => {}
                        Err(e) => fails.push(format!("{:?} table={}: a wrong password is refused with {:?}, not InvalidPassword", kind, table, e)),
                        Ok(_) => fails.push(format!("{:?} table={}: a wrong password opens the document", kind, table)),
                    }
                }
            }
        }
    }
    eprintln!("{} documents read back", n);
    assert!(fails.is_empty(), "{} mismatches, the first 12:\n{}", fails.len(), fails.iter().take(12).cloned().collect::<Vec<_>>().join("\n"));
}

#[test] fn strf_identity_rc4_crypt_filter() { run(&[Rc4R4]); }
#[test] fn strf_identity_aesv2_crypt_filter() { run(&[Aes128R4]); }
