    pub mod primitive {
        use vstd::prelude::*;
        use super::error::*;
        use super::object::PlainRef;
        use super::object::RcRef;

        // ---- env types (not under proof): value model of the crate's primitives -------------------------------
        pub struct SmallString { pub chars: Ghost<Seq<char>> }
        impl SmallString {
            pub open spec fn view(&self) -> Seq<char> { self.chars@ }
            #[verifier::external_body]
            pub fn as_str(&self) -> (r: &str) ensures r@ == self@ { unimplemented!() }
        }
        impl From<&str> for SmallString {
            #[verifier::external_body]
            fn from(s: &str) -> (r: SmallString) ensures r == (SmallString { chars: Ghost(s@) }) { unimplemented!() }
        }
        pub struct Name(pub SmallString);
        pub struct PdfString { pub data: Ghost<Seq<u8>> }
        pub struct PdfStream { pub info: Dictionary, pub data: Ghost<Seq<u8>> }
        pub enum Primitive {
            Null,
            Integer(i32),
            Number(f32),
            Boolean(bool),
            String(PdfString),
            Stream(PdfStream),
            Dictionary(Dictionary),
            Array(Vec<Primitive>),
            Reference(PlainRef),
            Name(SmallString),
        }
        impl Primitive {
            pub open spec fn debug_name(self) -> &'static str {
                match self {
                    Primitive::Null => "Null", Primitive::Integer(..) => "Integer", Primitive::Number(..) => "Number",
                    Primitive::Boolean(..) => "Boolean", Primitive::String(..) => "String", Primitive::Stream(..) => "Stream",
                    Primitive::Dictionary(..) => "Dictionary", Primitive::Array(..) => "Array",
                    Primitive::Reference(..) => "Reference", Primitive::Name(..) => "Name",
                }
            }
            // primitive.rs:560 (`unexpected_primitive!(Name, ..)` for anything but a name)
            #[verifier::external_body]
            pub fn as_name(&self) -> (r: Result<&str>)
                ensures match *self {
                    Primitive::Name(s) => r matches Ok(n) && n@ == s@,
                    q => r == Err::<&str, PdfError>(PdfError::UnexpectedPrimitive { expected: "Name", found: q.debug_name() }),
                }
            { unimplemented!() }
            #[verifier::external_body]
            pub fn get_debug_name(&self) -> (r: &'static str) ensures r == self.debug_name() { unimplemented!() }
        }
        impl<T> From<RcRef<T>> for Primitive {
            #[verifier::external_body]
            fn from(value: RcRef<T>) -> (r: Primitive) ensures r == Primitive::Reference(value.inner) { unimplemented!() }
        }

        // ---- abstract Dictionary: ghost Map<Name, Primitive>; the six operations the expansions use are env stubs
        //      with IndexMap semantics (trusted; order of entries is not modelled) ------------------------------
        pub type DMap = Map<Seq<char>, Primitive>;
        // (extension for `expansions_all`) removal / insertion of an entry as *closed* spec functions with their pointwise
        // characterisation broadcast -- the same facts as vstd's Map::remove / Map::insert (lemma_del_def / lemma_ins_def), without
        // the set-level axioms (dom() as a finite Set: remove / insert / len / finite) that fire on every pair (prefix, key) of a
        // 20-entry reader and made the derived readers of the large models run into the resource limit
        pub closed spec fn del(m: DMap, k: Seq<char>) -> DMap { m.remove(k) }
        pub closed spec fn ins(m: DMap, k: Seq<char>, v: Primitive) -> DMap { m.insert(k, v) }
        pub broadcast proof fn lemma_del_dom(m: DMap, k: Seq<char>, j: Seq<char>)
            ensures #[trigger] del(m, k).dom().contains(j) <==> (j != k && m.dom().contains(j))
        {}
        pub broadcast proof fn lemma_del_index(m: DMap, k: Seq<char>, j: Seq<char>)
            ensures j != k ==> #[trigger] del(m, k)[j] == m[j]
        {}
        pub broadcast proof fn lemma_ins_dom(m: DMap, k: Seq<char>, v: Primitive, j: Seq<char>)
            ensures #[trigger] ins(m, k, v).dom().contains(j) <==> (j == k || m.dom().contains(j))
        {}
        pub broadcast proof fn lemma_ins_index(m: DMap, k: Seq<char>, v: Primitive, j: Seq<char>)
            ensures #[trigger] ins(m, k, v)[j] == (if j == k { v } else { m[j] })
        {}
        pub proof fn lemma_del_def(m: DMap, k: Seq<char>) ensures del(m, k) == m.remove(k) {}
        pub proof fn lemma_ins_def(m: DMap, k: Seq<char>, v: Primitive) ensures ins(m, k, v) == m.insert(k, v) {}
        pub broadcast group group_dict { lemma_del_dom, lemma_del_index, lemma_ins_dom, lemma_ins_index }
        pub struct Dictionary { pub m: Ghost<DMap> }
        pub uninterp spec fn as_name_err(p: Primitive) -> PdfError;
        pub open spec fn expect_spec(m: DMap, typ: &'static str, key: Seq<char>, value: Seq<char>, required: bool) -> Result<()> {
            if m.dom().contains(key) {
                match m[key] {
                    Primitive::Name(s) => if s@ == value { Ok(()) } else { Err(PdfError::KeyValueMismatch) },
                    p => Err(as_name_err(p)),
                }
            } else if required { Err(PdfError::MissingEntry { typ: typ }) } else { Ok(()) }
        }
        impl Dictionary {
            pub open spec fn view(&self) -> DMap { self.m@ }
            #[verifier::external_body]
            pub fn new() -> (r: Dictionary) ensures r@ == Map::<Seq<char>, Primitive>::empty() { unimplemented!() }
            #[verifier::external_body]
            pub fn insert(&mut self, key: &str, val: Primitive) -> (r: Option<Primitive>)
                ensures final(self)@ == ins(old(self)@, key@, val),
                    r == (if old(self)@.dom().contains(key@) { Some(old(self)@[key@]) } else { None::<Primitive> })
            { unimplemented!() }
            #[verifier::external_body]
            pub fn remove(&mut self, key: &str) -> (r: Option<Primitive>)
                ensures final(self)@ == del(old(self)@, key@),
                    r == (if old(self)@.dom().contains(key@) { Some(old(self)@[key@]) } else { None::<Primitive> })
            { unimplemented!() }
            #[verifier::external_body]
            pub fn get(&self, key: &str) -> (r: Option<&Primitive>)
                ensures r == (if self@.dom().contains(key@) { Some(&self@[key@]) } else { None::<&Primitive> })
            { unimplemented!() }
            #[verifier::external_body]
            pub fn expect(&self, typ: &'static str, key: &str, value: &str, required: bool) -> (r: Result<()>)
                ensures r == expect_spec(self@, typ, key@, value@, required)
            { unimplemented!() }
        }
        impl Clone for Dictionary {
            #[verifier::external_body]
            fn clone(&self) -> (r: Dictionary) ensures r@ == self@ { unimplemented!() }
        }
    }
    pub mod object {
        use vstd::prelude::*;
        use super::error::*;
        use super::primitive::*;

        #[derive(Clone, Copy)]
        pub struct PlainRef { pub id: u64, pub gen: u64 }
        pub struct RcRef<T> { pub inner: PlainRef, pub data: Ghost<T> }
        // what a `Resolve` can see: the stored object behind every reference (or the error of looking it up)
        pub struct Store { pub objs: Map<PlainRef, Result<Primitive>> }
        pub trait Resolve {
            spec fn store(&self) -> Store;
        }
        pub open spec fn submap(a: Map<PlainRef, Primitive>, b: Map<PlainRef, Primitive>) -> bool {
            forall|r: PlainRef| #![trigger a.dom().contains(r)] a.dom().contains(r) ==> b.dom().contains(r) && b[r] == a[r]
        }
        pub trait Updater: Sized {
            spec fn created(&self) -> Map<PlainRef, Primitive>;
            // the crate's `create<T: ObjectWrite>(&mut self, obj: T)`; the expansions instantiate it at T = Primitive only
            // (a generic T here would make the trait declarations cyclic for Verus)
            fn create(&mut self, obj: Primitive) -> (r: Result<RcRef<Primitive>>)
                ensures
                    r is Err ==> final(self).created() == old(self).created(),
                    r matches Ok(rc) ==> !old(self).created().dom().contains(rc.inner)
                        && final(self).created() == old(self).created().insert(rc.inner, obj)
                        && final(self).created().dom().contains(rc.inner) && final(self).created()[rc.inner] == obj;
        }
        // abstract field codecs: a reader is a function of the primitive and the store, a writer a function of the value
        pub trait Object: Sized {
            spec fn reads(p: Primitive, st: Store) -> Result<Self>;
            fn from_primitive<R: Resolve>(p: Primitive, resolve: &R) -> (r: Result<Self>)
                ensures r == Self::reads(p, resolve.store());
        }
        pub trait ObjectWrite: Sized {
            spec fn writes(&self) -> Primitive;
            spec fn wfail(&self) -> bool;
            fn to_primitive<U: Updater>(&self, update: &mut U) -> (r: Result<Primitive>)
                ensures
                    r matches Ok(p) ==> p == self.writes(),
                    r is Err ==> self.wfail(),
                    submap(old(update).created(), final(update).created());
        }
    }
