#!/usr/bin/env python3
"""Generator for the units `expansions_all_<x>`  (run by hand:  python3 units/expansions_all/gen.py).

Input : the struct / enum DECLARATIONS of /repo/pdf/src/**/*.rs that derive `Object` / `ObjectWrite` through pdf_derive,
        with their `#[pdf(..)]` attributes (parse_models.py).  The attribute table is the specification.
Output: units/expansions_all_<x>/{unit.py, unit.rs, models.rs, NOTES.md, mutants/}  -- what the framework runs.
        The program under verification is the compiler's macro EXPANSION (`file: 'expanded:pdf'`); this generator never reads it.

Per model it emits (naming as in units/expansions):
  <p>_base / <p>_dict / <p>_known / <p>_read      the declarative whole-dictionary writer / reader models
  contracts  rd_model (from_dict), wr_model + wr_ok (to_dict), wr_frame (indirect entries)
  lemmas     lemma_<p>_roundtrip, _roundtrip_weak (C15 sentence 1), _preserves (C15 sentence 2, catch-all models),
             _absent, _failing (C18), _type_checked
"""
import os
import re
import sys
import shutil

HERE = os.path.dirname(os.path.abspath(__file__))
sys.path.insert(0, HERE)
import parse_models  # noqa: E402

UNITS_DIR = os.environ.get('EXPALL_OUT') or os.path.dirname(HERE)     # EXPALL_OUT: dry run into another directory
# models whose functions ALSO count for a further property (same obligations, no contract changed).
# C10 (documents built from scratch reload equal; mechanism "derived dictionary writers incl. indirect fields"): the derived
# models a document produced by pdf/src/build.rs goes through -- page tree, catalog, info dictionary, page resources, fonts.
EXTRA_PROPS = {'C10': ['Catalog', 'PageTree', 'Page', 'Resources', 'GraphicsStateParameters', 'InfoDict', 'Trapped',
                       'FontType', 'TFont', 'Type0Font', 'CIDFont', 'FontDescriptor', 'FontStretch']}
MAX_COST = int(os.environ.get('EXPALL_MAX_COST', '95'))     # budget per unit (sum of model costs), keeps a Verus run < ~60 s


class Unsupported(Exception):
    pass


# ------------------------------------------------------------------------------------------------ types
def tokenize_ty(s):
    toks = re.findall(r"[A-Za-z_][A-Za-z0-9_]*|::|'[a-z_]+|[<>(),\[\];&]|\d+", s)
    if ''.join(toks) != re.sub(r'\s+', '', s):
        raise Unsupported('type syntax %r' % s)
    return toks


def parse_ty(s):
    toks = tokenize_ty(s)
    pos = [0]

    def peek():
        return toks[pos[0]] if pos[0] < len(toks) else None

    def eat(t=None):
        x = peek()
        if t is not None and x != t:
            raise Unsupported('type syntax %r (expected %s)' % (s, t))
        pos[0] += 1
        return x

    def ty():
        x = peek()
        if x == '(':
            eat('(')
            el = []
            while peek() != ')':
                el.append(ty())
                if peek() == ',':
                    eat(',')
            eat(')')
            return ('tuple', el)
        if x is None or not re.match(r'[A-Za-z_]', x):
            raise Unsupported('type syntax %r' % s)
        name = eat()
        while peek() == '::':
            eat('::')
            name = eat()          # only the last path segment matters for the env
        args = []
        if peek() == '<':
            eat('<')
            while peek() != '>':
                args.append(ty())
                if peek() == ',':
                    eat(',')
            eat('>')
        return ('path', name, args)
    t = ty()
    if pos[0] != len(toks):
        raise Unsupported('type syntax %r' % s)
    return t


def ty_rust(t):
    if t[0] == 'tuple':
        return '(' + ', '.join(ty_rust(e) for e in t[1]) + ')'
    return t[1] + (('<' + ', '.join(ty_rust(a) for a in t[2]) + '>') if t[2] else '')


def ty_stringify(t):
    """what `stringify!(#ty)` yields for a type handed over by a proc macro (token stream printing of rustc):
    tokens separated by one blank, none after `(` / before `)`, none before a `,` that follows a non-punctuation token"""
    toks = re.findall(r'[A-Za-z_][A-Za-z0-9_]*|[<>(),]', ty_rust(t))
    out = ''
    prev = None
    for tk in toks:
        if prev is None or prev == '(' or tk == ')':
            out += tk
        elif tk == ',' and prev not in '<>':
            out += tk
        else:
            out += ' ' + tk
        prev = tk
    return out


def ty_paths(t, acc):
    if t[0] == 'tuple':
        for e in t[1]:
            ty_paths(e, acc)
    else:
        acc.setdefault(t[1], set()).add(len(t[2]))
        for a in t[2]:
            ty_paths(a, acc)
    return acc


# names that env_pdf.rs / env_codecs.rs (the shared env) or std provide, with a codec
ENV_TYPES = {'i32': 0, 'u32': 0, 'usize': 0, 'bool': 0, 'f32': 0, 'Vec': 1, 'Option': 1, 'Box': 1, 'Name': 0, 'PdfString': 0,
             'Dictionary': 0, 'Primitive': 0, 'RcRef': 1, 'HashMap': 2, 'Ref': 1, 'MaybeRef': 1, 'Lazy': 1, 'Stream': 1,
             'NameTree': 1, 'NumberTree': 1}
NEVER_NULL = {'i32', 'Name', 'PdfString', 'Dictionary', 'RcRef'}     # env codecs whose `writes` is a concrete non-Null form


def snake(name):
    return re.sub(r'(?<=[a-z0-9])(?=[A-Z])|(?<=[A-Z])(?=[A-Z][a-z])', '_', name).lower()


def slit(s):
    return '"%s"@' % s.replace('\\', '\\\\').replace('"', '\\"')


def rlit(s):
    return '"%s"' % s.replace('\\', '\\\\').replace('"', '\\"')


def lits_facts(keys):
    """ghost facts that make the key literals pairwise distinct (length, or first differing character)"""
    keys = list(dict.fromkeys(keys))
    out = ['reveal_strlit(%s);' % rlit(k) for k in keys]
    facts = set()
    for k in keys:
        facts.add('%s.len() == %d' % (slit(k), len(k)))
    for a in keys:
        for b in keys:
            if a < b and len(a) == len(b):
                i = [j for j in range(len(a)) if a[j] != b[j]][0]
                facts.add("%s[%d] == '%s'" % (slit(a), i, a[i]))
                facts.add("%s[%d] == '%s'" % (slit(b), i, b[i]))
    for f in sorted(facts):
        out.append('assert(%s);' % f)
    return ' '.join(out)


# ------------------------------------------------------------------------------------------------ model analysis
def analyse(mo):
    """attach the derived view of a model; raise Unsupported with the reason when the generator does not model it"""
    if mo['unknown_gattrs']:
        raise Unsupported('attribute form #[pdf(%s)] not modelled' % mo['unknown_gattrs'])
    mo['p'] = snake(mo['name'])
    gen = mo['generics']
    mo['tparams'] = [g.strip().split(':')[0].strip() for g in gen.strip('<>').split(',')] if gen else []
    if any(g.startswith("'") for g in mo['tparams']):
        raise Unsupported('lifetime parameters')
    if mo['kind'] == 'enum':
        if mo['tparams']:
            raise Unsupported('generic enum')
        if mo['is_stream']:
            if mo['writer']:
                raise Unsupported('ObjectWrite derive on a stream enum (the derive has no such form)')
            for v in mo['members']:
                if v['unknown'] or v['key'] or v['default'] or v['skip'] or v['indirect'] or v['other'] or v['discr']:
                    raise Unsupported('variant attribute form not modelled: %r' % v['attrs'])
                if v['payload'] is None or not v['payload'].startswith('('):
                    raise Unsupported('stream enum variant %s without exactly one unnamed field (the derive panics)' % v['ident'])
                v['t'] = parse_ty(v['payload'][1:-1].strip().rstrip(','))
                if v['t'][0] != 'path' or v['t'][2]:
                    raise Unsupported('stream enum variant payload %s (the derive emits `#ty::from_primitive`, a plain path only)' % v['payload'])
                v['pdfname'] = v['name_attr'] if v['name_attr'] is not None else v['ident']
            mo['ekind'] = 'stream'
            mo['nfn'] = 1
            mo['cost'] = 2
            return
        nd = [v for v in mo['members'] if v['discr'] is not None]
        if nd:
            if len(nd) != len(mo['members']):
                raise Unsupported('mixed discriminants (the derive panics)')
            for v in mo['members']:
                if not re.match(r'^-?\d+$', v['discr']):
                    raise Unsupported('discriminant expression %r' % v['discr'])
                if v['payload']:
                    raise Unsupported('integer enum variant with payload')
            mo['ekind'] = 'int'
        else:
            others = [v for v in mo['members'] if v['other']]
            if len(others) > 1:
                raise Unsupported('more than one `other` variant (the derive panics)')
            for v in mo['members']:
                if v['other']:
                    if v['payload'] is None or re.sub(r'\s', '', v['payload']) != '(String)':
                        raise Unsupported('`other` variant payload %r' % v['payload'])
                elif v['payload']:
                    raise Unsupported('name enum variant %s with payload' % v['ident'])
                if v['unknown'] or v['key'] or v['default'] or v['skip'] or v['indirect']:
                    raise Unsupported('variant attribute form not modelled: %r' % v['attrs'])
            mo['ekind'] = 'name_other' if others else 'name'
            for v in mo['members']:
                v['pdfname'] = v['name_attr'] if v['name_attr'] is not None else v['ident']
        mo['nfn'] = int(mo['reader']) + int(mo['writer'])
        mo['cost'] = 1 + len(mo['members']) // 12
        return
    # ---- struct
    if mo['is_stream']:
        raise Unsupported('stream struct (`is_stream`)')
    fields = []
    other = None
    for f in mo['members']:
        if f['unknown'] or f['name_attr'] is not None:
            raise Unsupported('field attribute form not modelled: %r' % f['attrs'])
        if f['skip']:
            # the derive emits no `let` for a skipped field but still names it in the constructor: such a struct does not
            # compile (no model in the crate uses `skip`)
            raise Unsupported('`skip` field (no defined reader meaning: the derived reader does not compile)')
        if f['other']:
            if other is not None:
                raise Unsupported('two `other` fields')
            if f['ty'] != 'Dictionary':
                raise Unsupported('`other` field of type %s' % f['ty'])
            other = f['ident']
            continue
        if f['key'] is None:
            raise Unsupported('field %s without key (the derive panics)' % f['ident'])
        f['t'] = parse_ty(f['ty'])
        f['is_option'] = f['t'][0] == 'path' and f['t'][1] == 'Option'
        if f['default'] is not None:
            f['dflt'] = classify_default(f)
        fields.append(f)
    mo['fields'] = fields
    mo['other'] = other
    # the reader model is a FUNCTION of (dictionary, store); a relation on the result only where a default builds a Vec
    mo['rel'] = any(f['default'] is not None and f['dflt'][0] == 'vec2' for f in fields)
    members = [f for f in mo['members'] if not f['skip']]
    if other is not None and members[-1]['ident'] != other:
        raise Unsupported('`other` field is not the last field (the derived reader moves the dictionary before the later fields are read)')
    mo['indirect'] = [f for f in fields if f['indirect']]
    if mo['indirect'] and not mo['writer']:
        pass
    mo['nfn'] = int(mo['reader']) + int(mo['writer'])
    mo['cost'] = 2 + len(fields)
    # keys: Type / checks / fields
    keys = []
    if mo['type_name'] is not None:
        keys.append('Type')
    keys += [k for k, _ in mo['checks']]
    keys += [f['key'] for f in fields]
    mo['keys'] = keys
    mo['dup_keys'] = sorted({k for k in keys if keys.count(k) > 1})


def classify_default(f):
    d = f['default'].strip()
    ty = ty_rust(f['t'])
    if re.match(r'^\d+$', d) and ty in ('i32', 'u32', 'usize'):
        return ('lit', d + ty)
    if d in ('true', 'false') and ty == 'bool':
        return ('lit', d)
    if re.match(r'^\d+\.\d*$', d) and ty == 'f32':
        return ('lit', (d + '0' if d.endswith('.') else d) + 'f32')
    if re.match(r'^[A-Z][A-Za-z0-9_]*::[A-Z][A-Za-z0-9_]*$', d):
        return ('path', d, d.split('::')[0])
    mv = re.match(r'^vec!\[\s*([A-Za-z0-9_]+)\s*,\s*([A-Za-z0-9_]+)\s*\]$', d)
    if mv and f['t'][1] == 'Vec' and ty_rust(f['t'][2][0]) == 'u32':
        return ('vec2', mv.group(1), mv.group(2), 'u32')
    raise Unsupported('default expression %r on a field of type %s' % (d, ty))


# ------------------------------------------------------------------------------------------------ spec text: structs
def G(mo, bound=None):
    """generic parameter list of spec fns / lemmas of a generic model"""
    if not mo['tparams']:
        return ''
    b = (': ' + bound) if bound else ''
    return '<' + ', '.join(t + b for t in mo['tparams']) + '>'


def MT(mo):
    return mo['name'] + (('<' + ', '.join(mo['tparams']) + '>') if mo['tparams'] else '')


def TF(mo):
    return ('::<' + ', '.join(mo['tparams']) + '>') if mo['tparams'] else ''


def rd_call(mo, f):
    ty = ty_rust(f['t'])
    if f['default'] is not None:
        return 'rd_default::<%s>(m, %s, %s, %s, st)' % (ty, slit(f['key']), rlit(mo['name']), rlit(f['ident']))
    return 'rd_plain::<%s>(m, %s, %s, %s, %s, st)' % (ty, slit(f['key']), rlit(ty_stringify(f['t'])), rlit(f['ident']), rlit(mo['name']))


def dflt_spec(mo, f, val, prefix='f_'):
    """`x.<field>` relation to the declared default when the entry is absent"""
    d = f['dflt']
    if d[0] == 'lit':
        return '%s == %s' % (val, d[1])
    if d[0] == 'path':
        return '%s == %s' % (val, d[1])
    if d[0] == 'vec2':
        names = {g['ident'] for g in mo['fields']}
        el = [(prefix + a) if a in names else (a + d[3]) for a in (d[1], d[2])]
        return '%s@ == seq![%s, %s]' % (val, el[0], el[1])
    raise AssertionError


def checks_of(mo):
    out = []
    if mo['type_name'] is not None:
        out.append(('Type', mo['type_name'], mo['type_required']))
    out += [(k, v, True) for k, v in mo['checks']]
    return out


def struct_specs(mo):
    p, M, name = mo['p'], MT(mo), mo['name']
    gO, gW, gB = G(mo, 'Object'), G(mo, 'ObjectWrite'), G(mo, 'Object + ObjectWrite')
    tf = TF(mo)
    F = mo['fields']
    out = []
    errR = 'Err(e__) => r == Err::<%s, PdfError>(e__)' % M
    # ---- reader model
    if mo['other']:
        known = ' || '.join('k == %s' % slit(f['key']) for f in F) or 'false'
        out.append('pub open spec fn %s_known(k: Seq<char>) -> bool {\n    %s\n}' % (p, known))
    if mo['other'] and not mo['rel']:
        un = 'm'
        for f in F:
            un = 'del(%s, %s)' % (un, slit(f['key']))
        out.append('// the catch-all: the input without the recognised keys (lemma_%s_unknown: exactly the entries whose key is not recognised)\n'
                   'pub open spec fn %s_unknown(m: DMap) -> DMap {\n    %s\n}' % (p, p, un))
    if mo['reader'] and not mo['rel']:
        errF = 'Err(e__) => Err(e__)'
        lines = []
        for k, v, req in checks_of(mo):
            lines.append('    match expect_spec(m, %s, %s, %s, %s) { %s, Ok(_) =>' % (rlit(name), slit(k), slit(v), 'true' if req else 'false', errF))
        for f in F:
            lines.append('    match %s { %s, Ok(f_%s) =>' % (rd_call(mo, f), errF, f['ident']))
        inits = []
        for f in F:
            if f['default'] is not None:
                inits.append('%s: or_default(f_%s, %s)' % (f['ident'], f['ident'], f['dflt'][1]))
            else:
                inits.append('%s: f_%s' % (f['ident'], f['ident']))
        if mo['other']:
            inits.append('%s: Dictionary { m: Ghost(%s_unknown(m)) }' % (mo['other'], p))
        body = '\n'.join(lines) + '\n        Ok(%s { %s })\n    ' % (name, ', '.join(inits)) + '}' * len(lines)
        out.append('pub open spec fn %s_read%s(m: DMap, st: Store) -> Result<%s> {\n%s\n}' % (p, gO, M, body))
    if mo['reader'] and mo['rel']:
        lines = []
        for k, v, req in checks_of(mo):
            lines.append('    match expect_spec(m, %s, %s, %s, %s) { %s, Ok(_) =>' % (rlit(name), slit(k), slit(v), 'true' if req else 'false', errR))
        for f in F:
            lines.append('    match %s { %s, Ok(f_%s) =>' % (rd_call(mo, f), errR, f['ident']))
        res = ['r matches Ok(x)']
        for f in F:
            if f['default'] is not None:
                res.append('(match f_%s { Some(v__) => x.%s == v__, None => %s })' % (f['ident'], f['ident'], dflt_spec(mo, f, 'x.' + f['ident'])))
            else:
                res.append('x.%s == f_%s' % (f['ident'], f['ident']))
        if mo['other']:
            raise Unsupported('Vec-valued default together with a catch-all')
        nclose = len(lines)
        body = '\n'.join(lines) + '\n        ' + '\n            && '.join(res) + '\n    ' + '}' * nclose
        out.append('pub open spec fn %s_read%s(m: DMap, st: Store, r: Result<%s>) -> bool {\n%s\n}' % (p, gO, M, body))
    if mo['reader']:
        # prefix-success predicate used by lemma_<p>_failing
        lines = ['    &&& %s is Ok' % ('expect_spec(m, %s, %s, %s, %s)' % (rlit(name), slit(k), slit(v), 'true' if req else 'false'))
                 for k, v, req in checks_of(mo)]
        for i, f in enumerate(F):
            lines.append('    &&& (i > %d ==> %s is Ok)' % (i, rd_call(mo, f)))
        if not lines:
            lines = ['    true']
        out.append('pub open spec fn %s_ok_before%s(m: DMap, st: Store, i: int) -> bool {\n%s\n}' % (p, gO, '\n'.join(lines)))
    # ---- writer model
    if mo['writer']:
        base = ('x.%s@' % mo['other']) if mo['other'] else 'Map::<Seq<char>, Primitive>::empty()'
        for k, v, _req in checks_of(mo):
            base = 'ins(%s, %s, nm(%s))' % (base, slit(k), slit(v))
        out.append('pub open spec fn %s_base%s(x: %s) -> DMap {\n    %s\n}' % (p, gW, M, base))
        # the model is built entry by entry (`<p>_dict_<i>` = the first i declared entries on top of the base): the R1 step
        # assertions injected into to_dict name these prefixes, which keeps the proof linear in the number of entries.
        # An `indirect` entry holds a value `v_<field>` that is a parameter of the model (constrained by <p>_ind_<field>).
        vp, va = ind_params(mo), ind_args(mo, 'v_%s')
        prev = '%s_base(x)' % p
        for i, f in enumerate(F):
            nm_ = '%s_dict' % p if i == len(F) - 1 else '%s_dict_%d' % (p, i + 1)
            val = ('v_%s' % f['ident']) if f['indirect'] else ('x.%s.writes()' % f['ident'])
            out.append('pub open spec fn %s%s(x: %s%s) -> DMap { put(%s, %s, %s) }' % (nm_, gW, M, vp, prev, slit(f['key']), val))
            prev = '%s(x%s)' % (nm_, va)
        if not F:
            out.append('pub open spec fn %s_dict%s(x: %s%s) -> DMap { %s }' % (p, gW, M, vp, prev))
        if mo['indirect']:
            for f in mo['indirect']:
                k = slit(f['key'])
                out.append('// an `indirect` entry: the field\'s primitive form is stored as a new object through the Updater and the entry holds the\n'
                           '// reference to it (unless the form already is a reference; a Null form writes no entry): `v` is the value of the entry\n'
                           'pub open spec fn %s_ind_%s%s(x: %s, v: Primitive, c0: Map<PlainRef, Primitive>, c1: Map<PlainRef, Primitive>) -> bool {\n'
                           '    match x.%s.writes() {\n'
                           '        Primitive::Null => v is Null,\n'
                           '        Primitive::Reference(rf) => v == Primitive::Reference(rf),\n'
                           '        p__ => v matches Primitive::Reference(rf) && !c0.dom().contains(rf) && c1.dom().contains(rf) && c1[rf] == p__,\n'
                           '    }\n}' % (p, f['ident'], gW, M, f['ident']))
                out.append('pub open spec fn %s_indval_%s%s(x: %s, d: DMap) -> Primitive {\n    if x.%s.writes() is Null { Primitive::Null } else { d[%s] }\n}'
                           % (p, f['ident'], gW, M, f['ident'], k))
            vals = ind_args(mo, p + '_indval_%s(x, d)')
            cl = ['    &&& d =~= %s_dict(x%s)' % (p, vals)]
            cl += ['    &&& %s_ind_%s(x, %s_indval_%s(x, d), c0, c1)' % (p, f['ident'], p, f['ident']) for f in mo['indirect']]
            cl.append('    &&& submap(c0, c1)')
            out.append('pub open spec fn %s_written%s(x: %s, d: DMap, c0: Map<PlainRef, Primitive>, c1: Map<PlainRef, Primitive>) -> bool {\n%s\n}'
                       % (p, gW, M, '\n'.join(cl)))
    return '\n'.join(out)


def ind_params(mo):
    return ''.join(', v_%s: Primitive' % f['ident'] for f in mo['indirect'])


def ind_args(mo, fmt):
    return ''.join(', ' + (fmt % f['ident']) for f in mo['indirect'])


def RD(mo, m, r):
    """`r` is what the reader model yields on dictionary `m` (store `st`)"""
    if mo['rel']:
        return '%s_read(%s, st, %s)' % (mo['p'], m, r)
    return '%s == %s_read%s(%s, st)' % (r, mo['p'], TF(mo), m)


def struct_impl_block(mo):
    out = []
    name = mo['name']
    tp = ', '.join(mo['tparams'])
    if mo['reader']:
        out.append('impl%s %s {\n//@@ %s::from_dict\n}' % (('<' + ', '.join(t + ': Object' for t in mo['tparams']) + '>') if tp else '', MT(mo), name))
    if mo['writer']:
        out.append('impl%s %s {\n//@@ %s::to_dict\n}' % (('<' + ', '.join(t + ': ObjectWrite' for t in mo['tparams']) + '>') if tp else '', MT(mo), name))
    return '\n'.join(out)


def struct_lemmas(mo):
    p, M, name = mo['p'], MT(mo), mo['name']
    gO, gB = G(mo, 'Object'), G(mo, 'Object + ObjectWrite')
    F = mo['fields']
    facts = 'broadcast use dictmodel::group_all; ' + lits_facts(mo['keys'])
    out = []
    if mo['other'] and not mo['rel']:
        out.append('// the catch-all holds exactly the entries of the input that are not recognised keys, values unchanged\n'
                   'pub proof fn lemma_%s_unknown(m: DMap)\n    ensures\n'
                   '        forall|k: Seq<char>| #![trigger %s_unknown(m).dom().contains(k)] %s_unknown(m).dom().contains(k) <==> (m.dom().contains(k) && !%s_known(k)),\n'
                   '        forall|k: Seq<char>| #![trigger %s_unknown(m)[k]] %s_unknown(m).dom().contains(k) ==> %s_unknown(m)[k] == m[k],\n'
                   '{\n    broadcast use dictmodel::group_all;\n}' % (p, p, p, p, p, p, p))
    if mo['reader']:
        # ---- C18: absent optional key == None; absent defaulted key == the declared default
        ens = []
        for f in F:
            if f['default'] is not None and f['dflt'][0] != 'vec2':
                ens.append('!m.dom().contains(%s) ==> %s' % (slit(f['key']), dflt_spec(mo, f, 'r->Ok_0.' + f['ident'])))
            elif f['default'] is None and f['is_option']:
                ens.append('!m.dom().contains(%s) ==> r->Ok_0.%s is None' % (slit(f['key']), f['ident']))
        if ens:
            out.append('// C18: an absent optional key is read from Null, i.e. as None -- whatever the store holds; an absent defaulted key\n'
                       '// takes the declared default\n'
                       'pub proof fn lemma_%s_absent%s(m: DMap, st: Store, r: Result<%s>)\n    requires %s, r is Ok,\n    ensures\n        %s,\n{}'
                       % (p, gO, M, RD(mo, 'm', 'r'), ',\n        '.join(ens)))
        # ---- C18: a failing present entry is FromPrimitive{typ, field, source}; an unreadable absent one MissingEntry{typ}
        ens = []
        for i, f in enumerate(F):
            ty = ty_rust(f['t'])
            k = slit(f['key'])
            typ = rlit(name) if f['default'] is not None else rlit(ty_stringify(f['t']))
            ens.append('%s_ok_before%s(m, st, %d) && m.dom().contains(%s) && <%s>::reads(m[%s], st) is Err ==>\n'
                       '            r == Err::<%s, PdfError>(PdfError::FromPrimitive { typ: %s, field: %s, source: Box::new(<%s>::reads(m[%s], st)->Err_0) })'
                       % (p, TF(mo), i, k, ty, k, M, typ, rlit(f['ident']), ty, k))
            if f['default'] is None and not f['is_option']:
                ens.append('%s_ok_before%s(m, st, %d) && !m.dom().contains(%s) && <%s>::reads(Primitive::Null, st) is Err ==>\n'
                           '            r == Err::<%s, PdfError>(PdfError::MissingEntry { typ: %s })' % (p, TF(mo), i, k, ty, M, rlit(name)))
        if ens:
            out.append('// C18: the first failing entry decides the result: FromPrimitive{typ, field, source} for a present entry, MissingEntry{typ}\n'
                       '// for an absent one whose type cannot be read from Null; never a panic (panic_free of from_dict)\n'
                       'pub proof fn lemma_%s_failing%s(m: DMap, st: Store, r: Result<%s>)\n    requires %s,\n    ensures\n        %s,\n{}'
                       % (p, gO, M, RD(mo, 'm', 'r'), ',\n        '.join(ens)))
        # ---- type tag / checks
        ens = []
        for k, v, req in checks_of(mo):
            if req:
                ens.append('m.dom().contains(%s) && m[%s] == nm(%s)' % (slit(k), slit(k), slit(v)))
            else:
                ens.append('m.dom().contains(%s) ==> m[%s] == nm(%s)' % (slit(k), slit(k), slit(v)))
        if ens:
            out.append('// type tag checked: an accepted dictionary carries the declared tag (an optional tag `X?` may be absent, not different)\n'
                       'pub proof fn lemma_%s_type_checked%s(m: DMap, st: Store, r: Result<%s>)\n    requires %s, r is Ok,\n    ensures\n        %s,\n{}'
                       % (p, gO, M, RD(mo, 'm', 'r'), ',\n        '.join(ens)))
    if mo['reader'] and mo['writer']:
        o = mo['other']
        nonnull = []
        for f in F:
            if f['default'] is not None and not (f['t'][0] == 'path' and f['t'][1] in NEVER_NULL):
                nonnull.append('!(x.%s.writes() is Null)' % f['ident'])
        okeys = ['!x.%s@.dom().contains(%s)' % (o, slit(f['key'])) for f in F] if o else []
        ind = mo['indirect']
        vp, va = ind_params(mo), ind_args(mo, 'v_%s')
        Dx = '%s_dict(x%s)' % (p, va)
        # ---- helper: what a look-up of each declared key in the written dictionary yields (one chain walk per key)
        lk = []
        for k, v, _req in checks_of(mo):
            lk.append('%s.dom().contains(%s) && %s[%s] == nm(%s)' % (Dx, slit(k), Dx, slit(k), slit(v)))
        for f in F:
            k = slit(f['key'])
            val = ('v_%s' % f['ident']) if f['indirect'] else ('x.%s.writes()' % f['ident'])
            lk.append('%s.dom().contains(%s) <==> !(%s is Null)' % (Dx, k, val))
            lk.append('!(%s is Null) ==> %s[%s] == %s' % (val, Dx, k, val))
        if lk:
            out.append('// the written dictionary, key by key: a declared entry is present iff the field\'s primitive form is not Null\n'
                       'pub proof fn lemma_%s_dict_lookup%s(x: %s%s)\n%s    ensures\n        %s,\n{\n    %s\n}'
                       % (p, G(mo, 'ObjectWrite'), M, vp, ('    requires\n        %s,\n' % ',\n        '.join(okeys)) if okeys else '', ',\n        '.join(lk), facts))
        if o:
            out.append('// ... and what remains of it when the recognised keys are taken out again is the base (catch-all + tags)\n'
                       'pub proof fn lemma_%s_unknown_dict%s(x: %s%s)\n%s    ensures %s_unknown(%s) =~= %s_base(x)\n{\n    %s lemma_%s_unknown(%s);\n}'
                       % (p, G(mo, 'ObjectWrite'), M, vp, ('    requires\n        %s,\n' % ',\n        '.join(okeys)) if okeys else '', p, Dx, p, facts, p, Dx))
        for weak in ((False, True) if not ind else (False,)):
            hyp = ['%s(x.%s, st)' % ('rt_weak' if weak else 'rt_strong', f['ident']) for f in F]
            body = []
            if ind:
                # through the indirect entry: the store a later reader resolves against holds what the updater created, and the
                # field's reader looks through a reference (hypotheses on the environment / the abstract codec)
                hyp += ['!(x.%s.writes() is Reference)' % f['ident'] for f in ind]
                for f in ind:
                    ty = ty_rust(f['t'])
                    hyp.append('forall|rf: PlainRef| #![trigger c1[rf]] c1.dom().contains(rf) && !c0.dom().contains(rf) ==>\n'
                               '            <%s>::reads(Primitive::Reference(rf), st) == <%s>::reads(c1[rf], st)' % (ty, ty))
                req = ['%s_written(x, d, c0, c1)' % p] + hyp + nonnull + okeys + [RD(mo, 'd', 'r')]
                for f in ind:
                    body.append('let v_%s = %s_indval_%s(x, d);' % (f['ident'], p, f['ident']))
                body.append('assert(d == %s);' % Dx)
                D = 'd'
            else:
                req = hyp + nonnull + okeys + [RD(mo, Dx, 'r')]
                D = Dx
            if lk:
                body.append('lemma_%s_dict_lookup(x%s);' % (p, va))
            # one assertion per field: joins the two cases "form is Null -> entry absent -> read from Null" and "entry present"
            for f in F:
                ty = ty_rust(f['t'])
                call = rd_call(mo, f).replace('(m, ', '(%s, ' % D, 1)
                if not weak:
                    if f['default'] is None:
                        body.append('assert(%s == Ok::<%s, PdfError>(x.%s));' % (call, ty, f['ident']))
                    else:
                        body.append('assert(%s == Ok::<Option<%s>, PdfError>(Some(x.%s)));' % (call, ty, f['ident']))
                else:
                    if f['default'] is None:
                        body.append('assert(%s matches Ok(v__) && v__.writes() == x.%s.writes());' % (call, f['ident']))
                    else:
                        body.append('assert(%s matches Ok(Some(v__)) && v__.writes() == x.%s.writes());' % (call, f['ident']))
            if o:
                body.append('lemma_%s_unknown_dict(x%s);' % (p, va))
            if weak:
                ens = 'r matches Ok(x2) && %s_dict(x2) =~= %s_dict(x)' % (p, p)
                body.append('let x2 = r->Ok_0;')
                if o:
                    body.append('assert(%s_base(x2) =~= %s_base(x)) by { broadcast use dictmodel::group_all; }' % (p, p))
                for i, f in enumerate(F):
                    nm_ = '%s_dict' % p if i == len(F) - 1 else '%s_dict_%d' % (p, i + 1)
                    body.append('assert(%s(x2) == %s(x));' % (nm_, nm_))
            else:
                eqs = ['x2.%s == x.%s' % (f['ident'], f['ident']) for f in F]
                if o:
                    eqs.append('x2.%s@ =~= %s_base(x)' % (o, p))
                ens = 'r matches Ok(x2)' + ''.join(' && ' + e for e in eqs)
            cm = ('// C15 sentence 1 (weak form, the property\'s own): write -> read -> write reproduces the first dictionary'
                  if weak else '// C15 sentence 1: reading back what was written yields the value (field codecs round-trip)')
            if ind:
                cm += ('\n// -- through the indirect entry: the store a later reader resolves against holds what the updater created, and the\n'
                       '// field\'s reader looks through a reference (hypotheses on the environment / the abstract codec)')
            if o:
                cm += '\n// (hypothesis: the catch-all of the value holds no recognised key -- true of every value from_dict returns, see %s_read)' % p
            sig = ('x: %s, d: DMap, c0: Map<PlainRef, Primitive>, c1: Map<PlainRef, Primitive>, st: Store, r: Result<%s>' % (M, M)) if ind else ('x: %s, st: Store, r: Result<%s>' % (M, M))
            out.append('%s\npub proof fn lemma_%s_roundtrip%s%s(%s)\n    requires\n        %s,\n    ensures %s\n{\n    %s\n}'
                       % (cm, p, '_weak' if weak else '', gB, sig, ',\n        '.join(req), ens, '\n    '.join(body)))
        if o and not mo['indirect']:
            # ---- C15 sentence 2
            cl = ['forall|k: Seq<char>| #![trigger m.dom().contains(k)] m.dom().contains(k) && !%s_known(k) ==> out.dom().contains(k) && out[k] == m[k]' % p]
            for f in F:
                ty = ty_rust(f['t'])
                k = slit(f['key'])
                cl.append('m.dom().contains(%s) ==> <%s>::reads(m[%s], st) == Ok::<%s, PdfError>(x.%s)\n'
                          '                && (!(x.%s.writes() is Null) ==> out.dom().contains(%s) && out[%s] == x.%s.writes())'
                          % (k, ty, k, ty, f['ident'], f['ident'], k, k, f['ident']))
            may = [slit(f['key']) for f in F if not f['is_option']]
            cl.append('forall|k: Seq<char>| #![trigger out.dom().contains(k)] out.dom().contains(k) ==> m.dom().contains(k)'
                      + ''.join(' || k == %s' % slit(k) for k, _v, _r in checks_of(mo)) + ''.join(' || k == %s' % k for k in may))
            out.append('// C15 sentence 2: every entry of an accepted input survives read + write: unrecognised entries verbatim, a recognised\n'
                       '// entry as `writes(reads(entry))` (dropped only if that is Null); nothing is invented except the tags and entries of\n'
                       '// non-optional fields (readable from Null / defaulted)\n'
                       'pub proof fn lemma_%s_preserves%s(m: DMap, st: Store, r: Result<%s>)\n    requires %s, r is Ok,\n    ensures ({\n'
                       '        let x = r->Ok_0; let out = %s_dict(x);\n        &&& %s\n    })\n{\n    %s\n}'
                       % (p, gB, M, RD(mo, 'm', 'r'), p, '\n        &&& '.join(cl), facts + ' lemma_%s_unknown(m);' % p))
    return '\n'.join(out)


# ------------------------------------------------------------------------------------------------ spec text: enums
def enum_specs(mo):
    p, E = mo['p'], mo['name']
    V = mo['members']
    out = []
    if mo['ekind'] == 'stream':
        lines = ['    match <PdfStream as Object>::reads(p, st) { Err(e__) => Err(e__), Ok(stream) =>']
        if mo['type_name'] is not None:
            lines.append('    match expect_spec(stream.info@, %s, "Type"@, %s, %s) { Err(e__) => Err(e__), Ok(_) =>'
                         % (rlit(E), slit(mo['type_name']), 'true' if mo['type_required'] else 'false'))
        chain = ' else '.join('if s@ == %s { match <%s as Object>::reads(Primitive::Stream(stream), st) { Err(e__) => Err(e__), Ok(v__) => Ok(%s::%s(v__)) } }'
                              % (slit(v['pdfname']), ty_rust(v['t']), E, v['ident']) for v in V)
        body = ('\n'.join(lines) + '\n    if !stream.info@.dom().contains("Subtype"@) { Err(PdfError::MissingEntry { typ: %s }) } else {\n'
                '    match stream.info@["Subtype"@] {\n        Primitive::Name(s) =>\n            %s\n            else { Err(PdfError::UnknownVariant { id: %s }) },\n'
                '        q__ => Err(PdfError::UnexpectedPrimitive { expected: "Name", found: q__.debug_name() }),\n    }}\n    ' % (rlit(E), chain.replace(' else if', '\n            else if'), rlit(E))
                + '}' * len(lines))
        return ('// a stream whose dictionary names the variant under /Subtype; the variant reader gets the whole stream\n'
                'pub open spec fn %s_reads(p: Primitive, st: Store) -> Result<%s> {\n%s\n}' % (p, E, body))
    if mo['ekind'] == 'int':
        arms = ', '.join('%s::%s => %s' % (E, v['ident'], v['discr']) for v in V)
        out.append('pub open spec fn %s_int(c: %s) -> i32 { match c { %s } }' % (p, E, arms))
        chain = ' else '.join('if i == %s { Ok(%s::%s) }' % (v['discr'], E, v['ident']) for v in V)
        out.append('pub open spec fn %s_reads(p: Primitive) -> Result<%s> {\n    match p {\n        Primitive::Integer(i) => %s else { Err(PdfError::UnknownVariant { id: %s }) },\n'
                   '        _ => Err(PdfError::UnexpectedPrimitive { expected: "Integer", found: p.debug_name() }),\n    }\n}' % (p, E, chain, rlit(E)))
    elif mo['ekind'] == 'name':
        arms = ', '.join('%s::%s => %s' % (E, v['ident'], slit(v['pdfname'])) for v in V)
        out.append('pub open spec fn %s_name(c: %s) -> Seq<char> {\n    match c { %s }\n}' % (p, E, arms))
        chain = ' else '.join('if s@ == %s { Ok(%s::%s) }' % (slit(v['pdfname']), E, v['ident']) for v in V)
        out.append('pub open spec fn %s_reads(p: Primitive) -> Result<%s> {\n    match p {\n        Primitive::Name(s) => %s else { Err(PdfError::UnknownVariant { id: %s }) },\n'
                   '        _ => Err(PdfError::UnexpectedPrimitive { expected: "Name", found: p.debug_name() }),\n    }\n}' % (p, E, chain, rlit(E)))
    else:
        ov = [v for v in V if v['other']][0]
        arms = ', '.join(('%s::%s(n) => n@' % (E, v['ident'])) if v['other'] else ('%s::%s => %s' % (E, v['ident'], slit(v['pdfname']))) for v in V)
        out.append('pub open spec fn %s_name(c: %s) -> Seq<char> {\n    match c { %s }\n}' % (p, E, arms))
        chain = ' else '.join('if s@ == %s { r == Ok::<%s, PdfError>(%s::%s) }' % (slit(v['pdfname']), E, E, v['ident']) for v in V if not v['other'])
        out.append('// the `other` variant keeps any unlisted name verbatim (a relation: a String has no spec constructor)\n'
                   'pub open spec fn %s_reads(p: Primitive, r: Result<%s>) -> bool {\n    match p {\n        Primitive::Name(s) => %s else { r matches Ok(%s::%s(n)) && n@ == s@ },\n'
                   '        _ => r == Err::<%s, PdfError>(PdfError::UnexpectedPrimitive { expected: "Name", found: p.debug_name() }),\n    }\n}'
                   % (p, E, chain, E, ov['ident'], E))
    return '\n'.join(out)


def enum_impls(mo):
    p, E = mo['p'], mo['name']
    out = ['impl %s {' % E]
    if mo['reader']:
        out.append('//@@ %s::from_primitive' % E)
    if mo['writer']:
        out.append('//@@ %s::to_primitive' % E)
    out.append('}')
    # the codec of the enum as a FIELD type of the struct models of this unit: the trait impl forwards to the extracted
    # functions (proved, not trusted); an enum with an `other(String)` variant has a relational reader -> abstract there
    if mo['ekind'] == 'stream':
        out.append('impl Object for %s {\n    open spec fn reads(p: Primitive, st: Store) -> Result<%s> { %s_reads(p, st) }\n'
                   '    fn from_primitive<R: Resolve>(p: Primitive, resolve: &R) -> Result<Self> { %s::from_primitive(p, resolve) }\n}' % (E, E, p, E))
    elif mo['ekind'] in ('int', 'name'):
        if mo['reader']:
            out.append('impl Object for %s {\n    open spec fn reads(p: Primitive, st: Store) -> Result<%s> { %s_reads(p) }\n'
                       '    fn from_primitive<R: Resolve>(p: Primitive, resolve: &R) -> Result<Self> { %s::from_primitive(p, resolve) }\n}' % (E, E, p, E))
        if mo['writer']:
            w = 'Primitive::Integer(%s_int(*self))' % p if mo['ekind'] == 'int' else 'nm(%s_name(*self))' % p
            out.append('impl ObjectWrite for %s {\n    open spec fn writes(&self) -> Primitive { %s }\n    open spec fn wfail(&self) -> bool { false }\n'
                       '    fn to_primitive<U: Updater>(&self, update: &mut U) -> Result<Primitive> { %s::to_primitive(self, update) }\n}' % (E, w, E))
    else:
        out.append(abs_impl(E, ''))
    return '\n'.join(out)


def enum_lemmas(mo):
    p, E = mo['p'], mo['name']
    if not (mo['reader'] and mo['writer']):
        return ''
    if mo['ekind'] == 'int':
        return ('// C15: every variant survives write + read (fails if two variants share a discriminant)\n'
                'pub proof fn lemma_%s_roundtrip(c: %s, st: Store)\n    ensures rt_strong(c, st)\n{}' % (p, E))
    names = [v['pdfname'] for v in mo['members'] if not v['other']]
    if mo['ekind'] == 'name':
        return ('// C15: every variant survives write + read (fails if two variants share a name)\n'
                'pub proof fn lemma_%s_roundtrip(c: %s, st: Store)\n    ensures rt_strong(c, st)\n{\n    %s\n}' % (p, E, lits_facts(names)))
    ov = [v for v in mo['members'] if v['other']][0]
    return ('// C15 (weak form): what is read back from a written name writes the same name again.  The strong form holds for the listed\n'
            '// variants and for an `other` value that is not a listed name (`%s::%s("<listed>")` reads back as the listed variant).\n'
            'pub proof fn lemma_%s_roundtrip(c: %s, r: Result<%s>)\n    requires %s_reads(nm(%s_name(c)), r),\n'
            '    ensures r matches Ok(c2) && %s_name(c2) == %s_name(c),\n        !(c is %s) ==> r == Ok::<%s, PdfError>(c),\n{\n    %s\n}'
            % (E, ov['ident'], p, E, E, p, p, p, p, ov['ident'], E, lits_facts(names)))


def abs_impl(ty, gen, write_only=False, read_only=False):
    out = ''
    if not write_only:
        out += ('impl%s Object for %s {\n    open spec fn reads(p: Primitive, st: Store) -> Result<%s> { abs_reads::<%s>(p, st) }\n'
                '    #[verifier::external_body]\n    fn from_primitive<R: Resolve>(p: Primitive, resolve: &R) -> Result<Self> { unimplemented!() }\n}\n' % (gen, ty, ty, ty))
    if not read_only:
        out += ('impl%s ObjectWrite for %s {\n    open spec fn writes(&self) -> Primitive { abs_writes::<%s>(*self) }\n'
                '    open spec fn wfail(&self) -> bool { abs_wfail::<%s>(*self) }\n'
                '    #[verifier::external_body]\n    fn to_primitive<U: Updater>(&self, update: &mut U) -> Result<Primitive> { unimplemented!() }\n}\n' % (gen, ty, ty, ty))
    return out.rstrip('\n')


# ------------------------------------------------------------------------------------------------ unit.py text
UNIT_PY_HEAD = r'''# GENERATED by units/expansions_all/gen.py -- do not edit, re-run the generator.
X = 'expanded:pdf'
RT = ['C15']
RD = ['C18', 'C15']


def lits(*keys):
    """R1 ghost block: facts that make the key literals pairwise distinct (length, or first differing character)."""
    keys = list(dict.fromkeys(keys))
    out = []
    facts = set()
    for k in keys:
        out.append('reveal_strlit("%s");' % k)
        facts.add('"%s"@.len() == %d' % (k, len(k)))
    for a in keys:
        for b in keys:
            if a < b and len(a) == len(b):
                i = [j for j in range(len(a)) if a[j] != b[j]][0]
                facts.add('"%s"@[%d] == \'%s\'' % (a, i, a[i]))
                facts.add('"%s"@[%d] == \'%s\'' % (b, i, b[i]))
    for f in sorted(facts):
        out.append('assert(%s);' % f)
    return 'proof { ' + ' '.join(out) + ' }'


def body_start(text):
    # R1: ghost block at the very start of the body
    return {'rule': 'R1', 'regex': r'\A\s*\{', 'replace': '{ ' + text}


# R1: the closure handed to `map_err` gets its own text as `ensures` (a closure without a contract is opaque to Verus);
# the back-reference keeps the closure body verbatim, Verus checks it against the generated ensures.
MAP_ERR = {'rule': 'R1', 'count': '*',
           'regex': r'map_err\(\|e\|\s*(pdf::error::PdfError::FromPrimitive\s*\{[^{}]*\})\)',
           'replace': r'map_err(|e: pdf::error::PdfError| -> (r__: pdf::error::PdfError) ensures r__ == (\1) { \1 })'}
# R3: `MissingEntry.field` is a String payload, dropped in the PdfError twin
MISSING = {'rule': 'R3', 'count': '*', 'regex': r'field:\s*String::from\("\w+"\),', 'replace': ''}
# R2: trait dispatch dropped (the method is emitted as an inherent fn)
PUBFN = {'where': 'sig', 'rule': 'R2', 'regex': r'\Afn ', 'replace': 'pub fn '}
# R7: `vec![a, b]` as expanded by the compiler (allocator intrinsics) -> helper whose body is `vec![a, b]`
VEC2 = {'rule': 'R7', 'count': '*',
        'regex': r'::alloc::boxed::box_assume_init_into_vec_unsafe\(::alloc::intrinsics::write_box_via_move\(::alloc::boxed::Box::new_uninit\(\),\s*\[([^,\[\]]+),\s*([^,\[\]]+)\]\)\)',
        'replace': r'hoist_vec2(\1, \2)'}


def step(anchor, fact, label, before=False):
    """R1: a labelled ghost assertion after (or before) the anchored statement: one step of the model; '*' so that a derive
    that lost the statement still reaches the verifier (the postcondition) instead of stopping at the anchor"""
    a = 'proof { assert(' + fact.replace('\\', '\\\\') + '); //@L ' + label + '\n }'
    return {'rule': 'R1', 'count': '*', 'regex': '(' + anchor + ')', 'replace': (a + r' \1') if before else (r'\1 ' + a)}


def wstep(key, facts):
    # after the block that writes entry `key`
    return [step(r'dict\.insert\("%s",\s*val2\);\s*\}' % key, f, 'wr_model') for f in facts]


def rstep(nxt, fact):
    # before the statement that follows the field's `let` (the next field's `let` or the final constructor): what the field was
    # read as, in terms of the ORIGINAL dictionary d0__ -- joins the 2 non-failing paths through the field's match
    return step(nxt, fact, 'rd_model', before=True)


def impl_hdr(trait, ty, bound):
    # `impl pdf::object::FromDict for X` / `impl<T: pdf::object::Object> pdf::object::FromDict for Files<T>`
    return r'^impl(<[^>]*>)? pdf::object::%s for %s(<[^>]*>)?$' % (trait, ty)


def from_dict(ty, mod, keys, ensures, extra=()):
    # the function-shaped model `r == <p>_read(dict@, store)` is ONE term for all 2n+1 exits of the body; closed `del` with its two
    # broadcast facts; one R1 step assertion per field (rstep) -- measured: without them the 16-entry models with a catch-all run
    # into the resource limit, with them every reader takes 0.5 .. 4 s
    return {'kind': 'fn', 'file': X, 'container': mod + [impl_hdr('FromDict', ty, 'Object')], 'name': 'from_dict',
            'props': RD, 'ensures': ensures,
            'rewrites': [PUBFN, body_start('broadcast use dictmodel::group_all; let ghost d0__ = dict@; ' + lits(*keys)), MAP_ERR, MISSING] + list(extra)}


def to_dict(ty, mod, keys, ensures, extra=()):
    return {'kind': 'fn', 'file': X, 'container': mod + [impl_hdr('ToDict', ty, 'ObjectWrite')], 'name': 'to_dict',
            'props': RT, 'ensures': ensures,
            'rewrites': [PUBFN, body_start('broadcast use dictmodel::group_all; ' + lits(*keys))] + list(extra)}


def decl(kind, ty, mod, priv=False, pubfields=(), ndiscr=0):
    rw = []
    if priv:
        rw.append({'rule': 'R2', 'regex': r'\A%s ' % kind, 'replace': 'pub %s ' % kind})
    for n in pubfields:
        rw.append({'rule': 'R2', 'regex': r'(?<!pub )\b%s\s*:' % n, 'replace': 'pub %s:' % n})
    if ndiscr:
        # R2: explicit discriminants dropped from the declaration (their values are in the model `<p>_int`)
        rw.append({'rule': 'R2', 'regex': r'\s*=\s*-?\d+', 'replace': '', 'count': ndiscr})
    return {'kind': 'decl', 'file': X, 'container': mod, 'header': r'^(pub )?%s %s(<[^>]*>)?$' % (kind, ty), 'rewrites': rw}


def enum_fn(ty, mod, trait, name, props, ensures, extra=()):
    return {'kind': 'fn', 'file': X, 'container': mod + [r'^impl pdf::object::%s for %s$' % (trait, ty)], 'name': name,
            'props': props, 'ensures': ensures, 'rewrites': [PUBFN] + list(extra)}


RESOLVE = {'where': 'sig', 'rule': 'R2', 'find': '_resolve', 'replace': 'resolve_'}


# R9: `match name.as_str() { "lit" => Ok(V), ..., s => .. }` -> if-chain over str_eq (string-literal patterns have no
# meaning in Verus); R3: the String payload `name:` of UnknownVariant is dropped
def r9_name_enum(names, other=False):
    # both shapes of the last arm are rewritten with count '*': a derive that emits the other one (an `other` variant
    # ignored / invented) must reach the verifier, not stop at the anchor
    return [
        {'rule': 'R9', 'find': 'match name.as_str() {', 'replace': '{ let s__ = name.as_str(); ' + lits(*names)},
        {'rule': 'R9', 'count': len(names), 'regex': r'"([^"]+)"\s*=>\s*(Ok\([A-Za-z0-9_:]+\)),', 'replace': r'if str_eq(s__, "\1") { \2 } else'},
        {'rule': 'R9', 'count': '*', 'regex': r'\bs\s*=>\s*(Ok\([A-Za-z0-9_:]+\(s\.to_string\(\)\)\)),', 'replace': r'{ let s = s__; \1 }'},
        {'rule': 'R3', 'count': '*', 'regex': r'name:\s*s\.to_string\(\),', 'replace': ''},
        {'rule': 'R9', 'count': '*', 'regex': r'\bs\s*=>\s*(Err\(pdf::error::PdfError::UnknownVariant\s*\{[^{}]*\}\)),', 'replace': r'{ let s = s__; \1 }'},
    ]


INT_NAME = {'rule': 'R3', 'find': 'name: i.to_string(),', 'replace': ''}


# stream enum: R9 `match subty { "PS" => Ok(V(T::from_primitive(Primitive::Stream(stream), resolve)?)), .., s => Err(..) }` -> if-chain;
# R3 the String payloads `field: "Subtype".into()` (MissingEntry) and `name: s.into()` (UnknownVariant) are dropped
def r9_stream_enum(names):
    return [
        {'rule': 'R3', 'count': '*', 'regex': r'field:\s*"Subtype"\.into\(\),', 'replace': ''},
        {'rule': 'R3', 'count': '*', 'regex': r'name:\s*s\.into\(\),', 'replace': ''},
        {'rule': 'R9', 'find': 'match subty {', 'replace': '{ let s__ = subty; ' + lits(*(list(names) + ['Subtype', 'Type']))},
        {'rule': 'R9', 'count': len(names),
         'regex': r'"([^"]+)"\s*=>\s*(Ok\(\w+::\w+\(\w+::from_primitive\(pdf::primitive::Primitive::Stream\(stream\),\s*resolve\)\?\)\)),',
         'replace': r'if str_eq(s__, "\1") { \2 } else'},
        {'rule': 'R9', 'regex': r'\bs\s*=>\s*(Err\(pdf::error::PdfError::UnknownVariant\s*\{[^{}]*\}\)),', 'replace': r'{ let s = s__; \1 }'},
    ]
'''


def mod_path(mo):
    rel = mo['file'][len('pdf/src/'):-3]
    return [r'^(pub )?mod %s$' % seg for seg in rel.split('/') if seg != 'mod']


def unit_py(uname, models, decl_only):
    L = [UNIT_PY_HEAD]
    items = []
    for mo in decl_only:
        nd = len(mo['members']) if (mo['kind'] == 'enum' and any(v['discr'] for v in mo['members'])) else 0
        items.append("  'enum %s': decl('enum', %r, %r, priv=%r, ndiscr=%d)," % (mo['name'], mo['name'], mod_path(mo), not mo['pub'], nd))
    for mo in models:
        n = mo['name']
        mod = mod_path(mo)
        if mo['kind'] == 'struct':
            priv_fields = [f['ident'] for f in mo['members'] if not f['pub']]
            items.append("  'struct %s': decl('struct', %r, %r, priv=%r, pubfields=%r)," % (n, n, mod, not mo['pub'], priv_fields))
            keys = mo['keys']
            tf = TF(mo)
            p = mo['p']
            if mo['reader']:
                ex = ['VEC2'] if any(f['default'] is not None and f['dflt'][0] == 'vec2' for f in mo['fields']) else []
                # R1 step assertions: what field i was read as, in terms of the ORIGINAL dictionary d0__
                order = [f for f in mo['members'] if not f['skip']]
                for i, f in enumerate(order):
                    if f['other']:
                        continue
                    nxt = (r'\blet\s+%s\s*=' % order[i + 1]['ident']) if i + 1 < len(order) else (r'\bOk\(%s\s*\{' % n)
                    call = rd_call(mo, f).replace('(m, ', '(d0__, ', 1)
                    assert call.endswith(', st)')
                    call = call[:-len('st)')] + 'resolve.store())'
                    if f['default'] is None:
                        fact = '%s == Ok::<%s, PdfError>(%s)' % (call, ty_rust(f['t']), f['ident'])
                    elif f['dflt'][0] == 'vec2':
                        fact = '%s matches Ok(o__) && (match o__ { Some(v__) => %s == v__, None => %s })' % (call, f['ident'], dflt_spec(mo, f, f['ident'], prefix=''))
                    else:
                        fact = '%s matches Ok(o__) && %s == or_default(o__, %s)' % (call, f['ident'], f['dflt'][1])
                    ex.append('rstep(r"%s", %r)' % (nxt, fact))
                rdm = ('%s_read%s(dict@, resolve.store(), r)' if mo['rel'] else 'r == %s_read%s(dict@, resolve.store())') % (p, tf)
                items.append("  '%s::from_dict': from_dict(%r, %r, %r, [\n      ('rd_model', %r)], extra=[\n      %s]),"
                             % (n, n, mod, keys, rdm, ',\n      '.join(ex)))
            if mo['writer']:
                F = mo['fields']
                wf = ' || '.join('self.%s.wfail()' % f['ident'] for f in F)
                steps = []
                va = ind_args(mo, 'v_%s__')
                if not mo['indirect']:
                    ens = [('wr_ok', ('r is Err ==> ' + wf) if F else 'r is Ok'),
                           ('wr_model', 'r matches Ok(d) ==> d@ =~= %s_dict%s(*self)' % (p, tf))]
                else:
                    ens = [('wr_model', 'r matches Ok(d) ==> %s_written%s(*self, d@, old(updater).created(), final(updater).created())' % (p, tf)),
                           ('wr_frame', 'submap(old(updater).created(), final(updater).created())')]
                seen = []
                for i, f in enumerate(F):
                    nm_ = '%s_dict' % p if i == len(F) - 1 else '%s_dict_%d' % (p, i + 1)
                    if f['indirect']:
                        seen.append(f)
                        # ghost copy of the value written under the indirect key
                        steps.append("[{'rule': 'R1', 'count': '*', 'regex': r'(dict\\.insert\\(\"%s\",\\s*val2\\);)', 'replace': r'proof { v_%s__ = val2; } \\1'}]" % (f['key'], f['ident']))
                    facts = ['dict@ =~= %s(*self%s)' % (nm_, va)]
                    if mo['indirect']:
                        facts.append('submap(old(updater).created(), updater.created())')
                        facts += ['%s_ind_%s(*self, v_%s__, old(updater).created(), updater.created())' % (p, g['ident'], g['ident']) for g in seen]
                    steps.append('wstep(%r, %r)' % (f['key'], facts))
                if mo['indirect']:
                    fin = ['%s_indval_%s(*self, dict@) == v_%s__' % (p, g['ident'], g['ident']) for g in mo['indirect']]
                    steps.append("[step(r'\\bOk\\(dict\\)', %r, 'wr_model', before=True)]" % ' && '.join(fin))
                    steps.append("[body_start(%r)]" % ' '.join('let ghost mut v_%s__ = pdf::primitive::Primitive::Null;' % g['ident'] for g in mo['indirect']))
                extra = (', extra=' + ' + '.join(steps)) if steps else ''
                items.append("  '%s::to_dict': to_dict(%r, %r, %r, %r%s)," % (n, n, mod, keys, ens, extra))
        else:
            nd = len(mo['members']) if mo['ekind'] == 'int' else 0
            p = mo['p']
            items.append("  'enum %s': decl('enum', %r, %r, priv=%r, ndiscr=%d)," % (n, n, mod, not mo['pub'], nd))
            names = [v['pdfname'] for v in mo['members'] if not v.get('other')] if mo['ekind'] != 'int' else []
            if mo['ekind'] == 'stream':
                items.append("  '%s::from_primitive': enum_fn(%r, %r, 'Object', 'from_primitive', RD, [\n      ('rd_model', 'r == %s_reads(p, resolve.store())')], extra=r9_stream_enum(%r)),"
                             % (n, n, mod, p, [v['pdfname'] for v in mo['members']]))
                continue
            if mo['reader']:
                if mo['ekind'] == 'int':
                    items.append("  '%s::from_primitive': enum_fn(%r, %r, 'Object', 'from_primitive', RD, [\n      ('rd_model', 'r == %s_reads(p)')], extra=[RESOLVE, INT_NAME]),"
                                 % (n, n, mod, p))
                elif mo['ekind'] == 'name':
                    items.append("  '%s::from_primitive': enum_fn(%r, %r, 'Object', 'from_primitive', RD, [\n      ('rd_model', 'r == %s_reads(p)')], extra=[RESOLVE] + r9_name_enum(%r)),"
                                 % (n, n, mod, p, names))
                else:
                    items.append("  '%s::from_primitive': enum_fn(%r, %r, 'Object', 'from_primitive', RD, [\n      ('rd_model', '%s_reads(p, r)')], extra=[RESOLVE] + r9_name_enum(%r, other=True)),"
                                 % (n, n, mod, p, names))
            if mo['writer']:
                if mo['ekind'] == 'int':
                    ens = [('wr_model', 'r == Ok::<Primitive, PdfError>(Primitive::Integer(%s_int(*self)))' % p)]
                    extra = ''
                else:
                    ens = [('wr_model', 'r == Ok::<Primitive, PdfError>(nm(%s_name(*self)))' % p)]
                    extra = ''
                ens.append(('wr_frame', 'final(update).created() == old(update).created()'))
                items.append("  '%s::to_primitive': enum_fn(%r, %r, 'ObjectWrite', 'to_primitive', RT, %r%s)," % (n, n, mod, ens, extra))
    L.append("UNIT = {\n 'name': %r,\n 'doc': 'pdf_derive expansions of %d derived models against their attribute tables (generated, see units/expansions_all)',\n"
             " 'timeout': 900,\n 'items': {\n%s\n },\n}\n" % (uname, len(models), '\n'.join(items)))
    for prop, names in sorted(EXTRA_PROPS.items()):
        mine = [mo['name'] for mo in models if mo['name'] in names]
        if mine:
            L.append("# %s: the functions of these models also count for %s (see EXTRA_PROPS in gen.py)\n"
                     "for k__, it__ in UNIT['items'].items():\n"
                     "    if it__['kind'] == 'fn' and k__.split('::')[0] in %r:\n"
                     "        it__['props'] = list(it__['props']) + [%r]\n" % (prop, prop, mine, prop))
    return '\n'.join(L)


# ------------------------------------------------------------------------------------------------ unit.rs / models.rs
def unit_rs(uname, models, decl_only):
    L = ['// GENERATED by units/expansions_all/gen.py -- do not edit, re-run the generator.',
         '// Unit `%s` (C15, C18): pdf_derive expansions against the attribute tables of %d derived models.' % (uname, len(models)),
         '// Layering, env and naming as in units/expansions (see units/expansions_all/NOTES.md).',
         'use vstd::prelude::*;', 'verus! {', 'global size_of usize == 8;', '',
         'pub mod pdf {', '    use vstd::prelude::*;', '    pub mod error {', '        use vstd::prelude::*;', '//@@ PDFERROR', '    }',
         '//@@ INCLUDE expansions_all/env_pdf.rs', '}',
         '//@@ INCLUDE expansions_all/env_codecs.rs',
         '//@@ INCLUDE %s/models.rs' % uname, '']
    for mo in decl_only:
        L.append('// declaration only (its variants are named by a `default = ".."` of a model of this unit); codec abstract')
        L.append('//@@ enum %s' % mo['name'])
        L.append(abs_impl(mo['name'], ''))
    for mo in models:
        L.append('// ' + '=' * 116)
        if mo['kind'] == 'struct':
            at = []
            for k, v, req in checks_of(mo):
                at.append('%s="%s%s"' % (k, v, '' if req else '?'))
            L.append('// %s (%s:%d)%s' % (mo['name'], mo['file'], mo['line'], ('  #[pdf(' + ', '.join(at) + ')]') if at else ''))
            for f in mo['members']:
                a = ', '.join('%s%s' % (n, '' if v is None else '=%s' % rlit(v[1])) for n, v in f['attrs'])
                L.append('//     #[pdf(%s)] %s: %s' % (a, f['ident'], f['ty']))
            L.append('//@@ struct %s' % mo['name'])
            if mo['name'] in mo.get('_needs_codec', ()):
                pass
            L.append(struct_specs(mo))
            L.append(struct_impl_block(mo))
            L.append(struct_lemmas(mo))
        else:
            L.append('// %s (%s:%d)  %s enum' % (mo['name'], mo['file'], mo['line'], {'int': 'integer', 'name': 'name', 'name_other': 'name (with `other`)', 'stream': 'stream'}[mo['ekind']]))
            L.append('//@@ enum %s' % mo['name'])
            L.append(enum_specs(mo))
            L.append(enum_impls(mo))
            L.append(enum_lemmas(mo))
    L += ['}', 'fn main(){}', '']
    return '\n'.join(L)


def models_rs(uname, models, decl_only, all_models):
    """stand-ins (opaque value + abstract codec) for every field type that neither the shared env nor this unit defines, and
    abstract codecs for the struct models of this unit where they occur as field types"""
    used = {}
    for mo in models:
        if mo['kind'] == 'struct':
            for f in mo['fields']:
                ty_paths(f['t'], used)
        elif mo.get('ekind') == 'stream':
            for v in mo['members']:
                ty_paths(v['t'], used)
    here = {mo['name']: mo for mo in models}
    here_decl = {mo['name'] for mo in decl_only}
    L = ['// GENERATED by units/expansions_all/gen.py: field types of unit `%s` that are not under proof here (trusted env:' % uname,
         '// an opaque value and "the reader is a function of (primitive, store), the writer a function of the value").']
    tparams = set()
    for mo in models:
        tparams.update(mo.get('tparams', []))
    for name in sorted(used):
        ar = sorted(used[name])
        if name in tparams:
            continue
        if name in ENV_TYPES:
            if ar != [ENV_TYPES[name]]:
                raise Unsupported('arity of %s' % name)
            continue
        if name in here_decl:
            continue
        if name in here:
            mo = here[name]
            if mo['kind'] == 'struct':
                tp = mo['tparams']
                L.append('// `%s` is a model of this unit; as a FIELD type its codec is abstract like every other field codec' % name)
                L.append(abs_impl(MT(mo), ('<' + ', '.join(tp) + '>') if tp else ''))
            continue
        if len(ar) != 1:
            raise Unsupported('stand-in %s used with arities %s' % (name, ar))
        n = ar[0]
        if n == 0:
            L.append('pub struct %s { pub g: Ghost<int> }' % name)
            L.append(abs_impl(name, ''))
        else:
            ps = ['T%d' % i for i in range(n)]
            L.append('#[verifier::external_body]\n' + ''.join('#[verifier::accept_recursive_types(%s)]\n' % q for q in ps)
                     + 'pub struct %s<%s> { _p: core::marker::PhantomData<(%s,)> }' % (name, ', '.join(ps), ', '.join(ps)))
            L.append(abs_impl('%s<%s>' % (name, ', '.join(ps)), '<%s>' % ', '.join(ps)))
    return '\n'.join(L) + '\n'


# ------------------------------------------------------------------------------------------------ mutants
def _is_struct(mo):
    return mo['kind'] == 'struct'


def _name_enum(mo):
    return mo['kind'] == 'enum' and mo['ekind'] in ('name', 'name_other')


# master diffs in units/expansions_all/mutants/ (all patch pdf_derive/src/lib.rs); per mutant: which models it affects and the
# obligation that must fail there.  The first 8 are the mutants of units/expansions.
MUTANTS = {
    'writer_skips_option_fields': (lambda mo: _is_struct(mo) and mo['writer'] and any(f['is_option'] for f in mo['fields']), '%s::to_dict/wr_model'),
    'reader_wrong_key': (lambda mo: _is_struct(mo) and mo['reader'] and any(f['default'] is None and f['key'] != f['ident'] for f in mo['fields']), '%s::from_dict/rd_model'),
    'default_not_applied': (lambda mo: _is_struct(mo) and mo['reader'] and any(f['default'] is not None for f in mo['fields']), '%s::from_dict/rd_model'),
    'catch_all_dropped': (lambda mo: _is_struct(mo) and mo['reader'] and mo['other'], '%s::from_dict/rd_model'),
    'type_tag_not_written': (lambda mo: _is_struct(mo) and mo['writer'] and mo['type_name'] is not None, '%s::to_dict/wr_model'),
    'type_tag_not_checked': (lambda mo: _is_struct(mo) and mo['reader'] and mo['type_name'] is not None and mo['type_required'], '%s::from_dict/rd_model'),
    'name_enum_writer_uses_variant_ident': (lambda mo: _name_enum(mo) and mo['writer'], '%s::to_primitive/wr_model'),
    'indirect_ignored': (lambda mo: _is_struct(mo) and mo['writer'] and mo['indirect'], '%s::to_dict/wr_model'),
    # new in this wave
    'optional_type_tag_required': (lambda mo: _is_struct(mo) and mo['reader'] and mo['type_name'] is not None and not mo['type_required'], '%s::from_dict/rd_model'),
    'int_enum_written_as_name': (lambda mo: mo['kind'] == 'enum' and mo['ekind'] == 'int' and mo['writer'], '%s::to_primitive/wr_model'),
    'check_entries_not_written': (lambda mo: _is_struct(mo) and mo['writer'] and mo['checks'], '%s::to_dict/wr_model'),
    'name_enum_other_ignored': (lambda mo: mo['kind'] == 'enum' and mo['ekind'] == 'name_other' and mo['reader'], '%s::from_primitive/rd_model'),
}


def write_mutants(udir, models):
    mdir = os.path.join(udir, 'mutants')
    if os.path.isdir(mdir):
        shutil.rmtree(mdir)
    os.makedirs(mdir)
    table = []
    for name, (pred, ob) in MUTANTS.items():
        hit = [mo for mo in models if pred(mo)]
        if not hit:
            continue          # the mutant changes no expansion of this unit: it would (rightly) verify here
        body = open(os.path.join(HERE, 'mutants', name + '.diff')).read()
        with open(os.path.join(mdir, name + '.diff'), 'w') as f:
            for mo in hit:
                f.write('# expect: %s\n' % (ob % mo['name']))
            f.write(body)
        table.append((name, [ob % mo['name'] for mo in hit]))
    return table


# ------------------------------------------------------------------------------------------------ driver
def partition(models):
    """source order, budget MAX_COST per unit; an enum named by a default expression stays with (or is declared in) the unit"""
    units, cur, cost = [], [], 0
    for mo in models:
        if cur and cost + mo['cost'] > MAX_COST:
            units.append(cur)
            cur, cost = [], 0
        cur.append(mo)
        cost += mo['cost']
    if cur:
        units.append(cur)
    return units


def main():
    models = parse_models.parse_repo()
    covered, skipped = [], []
    for mo in models:
        try:
            analyse(mo)
            covered.append(mo)
        except Unsupported as ex:
            skipped.append((mo, str(ex)))
    byname = {mo['name']: mo for mo in covered}
    units = partition(covered)
    letters = 'abcdefghijklmnopqrstuvwxyz'
    report = []
    mutant_tables = {}
    for ui, ms in enumerate(units):
        uname = 'expansions_all_' + letters[ui]
        names = {mo['name'] for mo in ms}
        decl_only = []
        for mo in ms:
            if mo['kind'] == 'struct':
                for f in mo['fields']:
                    if f['default'] is not None and f['dflt'][0] == 'path' and f['dflt'][2] not in names:
                        dm = byname.get(f['dflt'][2])
                        if dm is None:
                            raise SystemExit('default of %s.%s names %s, not a derived enum' % (mo['name'], f['ident'], f['dflt'][2]))
                        if dm not in decl_only:
                            decl_only.append(dm)
        d = os.path.join(UNITS_DIR, uname)
        os.makedirs(os.path.join(d, 'mutants'), exist_ok=True)
        open(os.path.join(d, 'unit.py'), 'w').write(unit_py(uname, ms, decl_only))
        open(os.path.join(d, 'unit.rs'), 'w').write(unit_rs(uname, ms, decl_only))
        open(os.path.join(d, 'models.rs'), 'w').write(models_rs(uname, ms, decl_only, covered))
        mtab = write_mutants(d, ms)
        with open(os.path.join(d, 'NOTES.md'), 'w') as f:
            f.write('# Unit `%s` (GENERATED by units/expansions_all/gen.py)\n\n' % uname)
            f.write('One of the units that put **every** pdf_derive `Object` / `ObjectWrite` expansion of the crate under its attribute table (C15, C18).\n'
                    'Contract shape, rewrites, trusted env, preconditions (none), findings (none), mutants and benign edits: see\n'
                    '`units/expansions_all/NOTES.md`; the model -> unit table is `units/expansions_all/COVERAGE.txt`.\n\n'
                    '## Functions under contract (all extracted from `expanded:pdf`)\n\n| model | declared at | functions | obligations |\n|---|---|---|---|\n')
            for mo in ms:
                if mo['kind'] == 'struct':
                    fns, obs = [], []
                    if mo['reader']:
                        fns.append('from_dict')
                        obs.append('rd_model, panic_free, proof_steps')
                    if mo['writer']:
                        fns.append('to_dict')
                        obs.append(('wr_model, wr_frame' if mo['indirect'] else 'wr_ok, wr_model') + ', panic_free, proof_steps')
                else:
                    fns, obs = [], []
                    if mo['reader']:
                        fns.append('from_primitive')
                        obs.append('rd_model, panic_free' + (', proof_steps' if mo['ekind'] != 'int' else ''))
                    if mo['writer']:
                        fns.append('to_primitive')
                        obs.append('wr_model, wr_frame, panic_free')
                f.write('| `%s` | %s:%d | %s | %s |\n' % (MT(mo), mo['file'], mo['line'], ', '.join('`%s`' % x for x in fns), ' / '.join(obs)))
            for prop_, names_ in sorted(EXTRA_PROPS.items()):
                mine_ = [mo['name'] for mo in ms if mo['name'] in names_]
                if mine_:
                    f.write('\nAlso counted for **%s** (`EXTRA_PROPS` in gen.py; same obligations, no contract changed): %s.\n'
                            % (prop_, ', '.join('`%s`' % x for x in mine_)))
            f.write('\nLemmas (template, per model): `_unknown`, `_absent`, `_failing`, `_type_checked`, `_dict_lookup`, `_unknown_dict`, `_roundtrip`, `_roundtrip_weak`, `_preserves` as applicable.\n')
            f.write('\n## Trusted in this unit beyond the shared env\nOpaque stand-ins with abstract codecs (models.rs): ')
            f.write(', '.join(sorted(set(re.findall(r'^pub struct (\w+)', models_rs(uname, ms, decl_only, covered), re.M)))) or 'none')
            f.write('.\n\n## Mutants\n' + ''.join('* `%s`: %s\n' % (n_, ', '.join('`%s`' % o for o in obs_)) for n_, obs_ in mtab))
        nfn = sum(mo['nfn'] for mo in ms)
        report.append((uname, ms, nfn))
        mutant_tables[uname] = mtab
    # remove stale units of an earlier partition
    for dn in sorted(os.listdir(UNITS_DIR)):
        if re.match(r'^expansions_all_[a-z]$', dn) and dn not in [r[0] for r in report]:
            shutil.rmtree(os.path.join(UNITS_DIR, dn))
    with open(os.path.join(HERE, 'COVERAGE.txt'), 'w') as f:
        f.write('# GENERATED by gen.py: derived models of /repo/pdf/src and the unit that covers them\n')
        for uname, ms, nfn in report:
            f.write('\n%s  (%d models, %d functions, cost %d)\n' % (uname, len(ms), nfn, sum(m['cost'] for m in ms)))
            for mo in ms:
                forms = []
                if mo['kind'] == 'struct':
                    if mo['type_name'] is not None:
                        forms.append('Type=%s%s' % (mo['type_name'], '' if mo['type_required'] else '?'))
                    forms += ['%s=%s' % c for c in mo['checks']]
                    nd = sum(1 for f_ in mo['fields'] if f_['default'] is not None)
                    if nd:
                        forms.append('%d default' % nd)
                    if mo['other']:
                        forms.append('other')
                    if mo['indirect']:
                        forms.append('indirect')
                    if mo['tparams']:
                        forms.append('generic')
                    if mo['dup_keys']:
                        forms.append('DUPLICATE KEYS %s' % mo['dup_keys'])
                    what = '%d fields' % len(mo['fields'])
                else:
                    what = '%s enum, %d variants' % (mo['ekind'], len(mo['members']))
                    if mo['ekind'] == 'stream' and mo['type_name'] is not None:
                        forms.append('Type=%s%s' % (mo['type_name'], '' if mo['type_required'] else '?'))
                fns = ('from_dict' if mo['kind'] == 'struct' else 'from_primitive') if mo['reader'] else ''
                fns += (('+' if fns else '') + ('to_dict' if mo['kind'] == 'struct' else 'to_primitive')) if mo['writer'] else ''
                f.write('  %-30s %-28s %-22s %s  %s\n' % (mo['name'], '%s:%d' % (mo['file'][8:], mo['line']), what, fns, ', '.join(forms)))
        f.write('\nMUTANTS (units/<unit>/mutants/*.diff) and the obligations that must fail\n')
        for uname, _ms, _n in report:
            for name, obs in mutant_tables[uname]:
                f.write('  %-18s %-38s %s\n' % (uname, name, ' '.join(obs)))
        f.write('\nNOT COVERED\n')
        for mo, why in skipped:
            f.write('  %-30s %-28s %s\n' % (mo['name'], '%s:%d' % (mo['file'][8:], mo['line']), why))
    for uname, ms, nfn in report:
        print('%s: %d models, %d functions, cost %d: %s' % (uname, len(ms), nfn, sum(m['cost'] for m in ms), ' '.join(m['name'] for m in ms)))
    for mo, why in skipped:
        print('NOT COVERED %s: %s' % (mo['name'], why))


if __name__ == '__main__':
    main()
