"""Parser for the declarations that derive `Object` / `ObjectWrite` through pdf_derive.

Reads /repo/pdf/src/**/*.rs (or $VERIF_REPO) and returns, per model, the DECLARATIVE table the derive is documented to
implement (pdf_derive/src/lib.rs, FieldAttrs / GlobalAttrs):

  struct:  global  Type = "X" | "X?"  (optional tag), extra checks  Key = "Value",  is_stream
           field   key = "K", default = "EXPR", other, indirect, skip
  enum:    all variants with a discriminant  -> integer enum
           otherwise name enum, variant  name = "N", other (one unnamed String field)
           is_stream -> stream enum (variants hold one unnamed field)

Nothing here looks at the macro expansion.
"""
import os
import re
import sys

sys.path.insert(0, '/verif')
from vlib import rscan  # noqa: E402

REPO = os.environ.get('VERIF_REPO', '/repo')


def split_top(text, sep=','):
    """split at depth-0 separators (brackets (), [], {}, <> and string literals respected)"""
    out, depth, cur, i, n = [], 0, [], 0, len(text)
    while i < n:
        c = text[i]
        if c == '"':
            j = i + 1
            while j < n and text[j] != '"':
                if text[j] == '\\':
                    j += 1
                j += 1
            cur.append(text[i:j + 1])
            i = j + 1
            continue
        if c in '([{<':
            depth += 1
        elif c in ')]}':
            depth -= 1
        elif c == '>' and not (i > 0 and text[i - 1] in '-='):
            depth -= 1
        if c == sep and depth == 0:
            out.append(''.join(cur))
            cur = []
        else:
            cur.append(c)
        i += 1
    if ''.join(cur).strip():
        out.append(''.join(cur))
    return out


def parse_pdf_attr(inner):
    """`key = "K", default = "..", other` -> list of (name, value|None)"""
    res = []
    for part in split_top(inner):
        part = part.strip()
        if not part:
            continue
        m = re.match(r'^([A-Za-z_][A-Za-z0-9_:]*)\s*(?:=\s*(.*))?$', part, re.S)
        if not m:
            raise ValueError('cannot parse #[pdf(%s)]' % inner)
        name, val = m.group(1), m.group(2)
        if val is not None:
            val = val.strip()
            ms = re.match(r'^"((?:[^"\\]|\\.)*)"$', val, re.S)
            if ms:
                val = ('str', bytes(ms.group(1), 'utf-8').decode('unicode_escape'))
            else:
                val = ('lit', val)
        res.append((name, val))
    return res


def leading_attrs(src, m, i, hi):
    """collect `#[..]` attributes starting at i (skipping whitespace/comments); returns (attrs, next index)"""
    attrs = []
    while i < hi:
        if not m[i] or src[i].isspace():
            i += 1
            continue
        if src[i] == '#':
            j = i + 1
            while j < hi and src[j].isspace():
                j += 1
            if j < hi and src[j] == '[':
                e = rscan.match_close(src, m, j)
                attrs.append(src[j + 1:e])
                i = e + 1
                continue
        break
    return attrs, i


def strip_comments(text):
    m = rscan.code_mask(text)
    out, i, n = [], 0, len(text)
    while i < n:
        if not m[i] and text.startswith('//', i):
            j = text.find('\n', i)
            i = n if j < 0 else j
            continue
        if not m[i] and text.startswith('/*', i):
            depth = 0
            while i < n:
                if text.startswith('/*', i):
                    depth += 1
                    i += 2
                elif text.startswith('*/', i):
                    depth -= 1
                    i += 2
                    if depth == 0:
                        break
                else:
                    i += 1
            continue
        out.append(text[i])
        i += 1
    return ''.join(out)


def pdf_attrs(attrs):
    out = []
    for a in attrs:
        a = a.strip()
        mm = re.match(r'^pdf\s*\((.*)\)$', a, re.S)
        if mm:
            out.extend(parse_pdf_attr(mm.group(1)))
    return out


def parse_file(path, rel):
    src = open(path, encoding='utf-8').read()
    m = rscan.code_mask(src)
    models = []
    for dm in re.finditer(r'#\s*\[\s*derive\s*\(', src):
        if not m[dm.start()]:
            continue
        attrs, i = leading_attrs(src, m, dm.start(), len(src))
        derives = set()
        for a in attrs:
            mm = re.match(r'^\s*derive\s*\((.*)\)\s*$', a, re.S)
            if mm:
                derives.update(x.strip() for x in mm.group(1).split(','))
        if not ({'Object', 'ObjectWrite'} & derives):
            continue
        # only the FIRST derive attribute of an item starts it
        hm = re.compile(r'\s*(pub(?:\([^)]*\))?\s+)?(struct|enum)\s+([A-Za-z_][A-Za-z0-9_]*)\s*(<[^{]*?>)?\s*(where[^{]*)?\{').match(src, i)
        if not hm:
            raise ValueError('%s: cannot parse item after derive at offset %d: %r' % (rel, i, src[i:i + 80]))
        if any(mo['name'] == hm.group(3) and mo['file'] == rel for mo in models):
            continue
        ob = hm.end() - 1
        cb = rscan.match_close(src, m, ob)
        body = src[ob + 1:cb]
        line = src.count('\n', 0, hm.start(3)) + 1
        model = {'name': hm.group(3), 'kind': hm.group(2), 'file': rel, 'line': line, 'pub': bool(hm.group(1)),
                 'generics': (hm.group(4) or '').strip(), 'derives': derives,
                 'reader': 'Object' in derives, 'writer': 'ObjectWrite' in derives,
                 'gattrs': pdf_attrs(attrs)}
        # ---- global attributes (GlobalAttrs::from_ast)
        model['type_name'] = None
        model['type_required'] = False
        model['checks'] = []
        model['is_stream'] = False
        model['unknown_gattrs'] = []
        for name, val in model['gattrs']:
            if name == 'Type':
                if val is None or val[0] != 'str':
                    model['unknown_gattrs'].append((name, val))
                    continue
                v = val[1]
                if v.endswith('?'):
                    model['type_name'], model['type_required'] = v[:-1], False
                else:
                    model['type_name'], model['type_required'] = v, True
            elif name == 'is_stream':
                model['is_stream'] = True
            elif val is not None and val[0] == 'str':
                model['checks'].append((name, val[1]))
            else:
                model['unknown_gattrs'].append((name, val))
        # ---- members
        bm = rscan.code_mask(body)
        members = []
        j = 0
        # split at depth-0 commas of the code mask
        parts, depth, last = [], 0, 0
        for k, ch in enumerate(body):
            if not bm[k]:
                continue
            if ch in '([{':
                depth += 1
            elif ch in ')]}':
                depth -= 1
            elif ch == '<':
                depth += 1
            elif ch == '>' and not (k > 0 and body[k - 1] in '-='):
                depth -= 1
            elif ch == ',' and depth == 0:
                parts.append(body[last:k])
                last = k + 1
        parts.append(body[last:])
        for p in parts:
            pm = rscan.code_mask(p)
            fattrs, k = leading_attrs(p, pm, 0, len(p))
            rest = strip_comments(p[k:]).strip()
            if not rest:
                continue
            fa = pdf_attrs(fattrs)
            fd = {'attrs': fa, 'key': None, 'default': None, 'name_attr': None, 'skip': False, 'other': False,
                  'indirect': False, 'unknown': []}
            for name, val in fa:
                if name == 'key' and val and val[0] == 'str':
                    fd['key'] = val[1]
                elif name == 'default' and val and val[0] == 'str':
                    fd['default'] = val[1]
                elif name == 'name' and val and val[0] == 'str':
                    fd['name_attr'] = val[1]
                elif name in ('skip', 'other', 'indirect') and val is None:
                    fd[name] = True
                else:
                    fd['unknown'].append((name, val))
            if model['kind'] == 'struct':
                fm = re.match(r'^(pub(?:\([^)]*\))?\s+)?([A-Za-z_][A-Za-z0-9_]*)\s*:\s*(.*)$', rest, re.S)
                if not fm:
                    raise ValueError('%s: %s: cannot parse field %r' % (rel, model['name'], rest))
                fd['pub'] = bool(fm.group(1))
                fd['ident'] = fm.group(2)
                fd['ty'] = ' '.join(fm.group(3).split())
            else:
                vm = re.match(r'^([A-Za-z_][A-Za-z0-9_]*)\s*(\(.*\)|\{.*\})?\s*(?:=\s*(.*))?$', rest, re.S)
                if not vm:
                    raise ValueError('%s: %s: cannot parse variant %r' % (rel, model['name'], rest))
                fd['ident'] = vm.group(1)
                fd['payload'] = vm.group(2)
                fd['discr'] = vm.group(3).strip() if vm.group(3) else None
            members.append(fd)
        model['members'] = members
        models.append(model)
    return models


def parse_repo(repo=None):
    repo = repo or REPO
    root = os.path.join(repo, 'pdf/src')
    out = []
    for dp, dn, fn in sorted(os.walk(root)):
        dn.sort()
        for f in sorted(fn):
            if f.endswith('.rs'):
                p = os.path.join(dp, f)
                out.extend(parse_file(p, os.path.relpath(p, repo)))
    return out


if __name__ == '__main__':
    for mo in parse_repo():
        flags = []
        if mo['type_name'] is not None:
            flags.append('Type=%s%s' % (mo['type_name'], '' if mo['type_required'] else '?'))
        flags += ['%s=%s' % c for c in mo['checks']]
        if mo['is_stream']:
            flags.append('is_stream')
        if mo['unknown_gattrs']:
            flags.append('UNKNOWN%r' % mo['unknown_gattrs'])
        print('%s %s%s  %s:%d  R=%d W=%d  %s' % (mo['kind'], mo['name'], mo['generics'], mo['file'], mo['line'],
                                                 mo['reader'], mo['writer'], ' '.join(flags)))
        for f in mo['members']:
            if mo['kind'] == 'struct':
                fl = [x for x in ('skip', 'other', 'indirect') if f[x]]
                print('    %-22s %-40s key=%s%s%s%s' % (f['ident'], f['ty'], f['key'],
                      (' default=' + f['default']) if f['default'] is not None else '', (' ' + ' '.join(fl)) if fl else '',
                      (' UNKNOWN%r' % f['unknown']) if f['unknown'] else ''))
            else:
                print('    %-22s payload=%s discr=%s name=%s%s' % (f['ident'], f['payload'], f['discr'], f['name_attr'],
                      ' other' if f['other'] else ''))
