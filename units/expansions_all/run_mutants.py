#!/usr/bin/env python3
"""Self-test of the units expansions_all_<x> (run by hand from /verif:  python3 units/expansions_all/run_mutants.py [mutant ...]).

Like `bin/mutants <unit>` for each of the generated units, but (1) every mutant is applied to ONE scratch copy that all units
are run against (one macro expansion per mutant instead of one per unit and mutant), and (2) stricter: the mutant must be
rejected at EVERY obligation named by a `# expect:` line of units/<unit>/mutants/<mutant>.diff (one line per affected model),
not just at one of them.  Exit code 0 iff all are."""
import glob
import os
import re
import shutil
import subprocess
import sys
import tempfile
import time

sys.path.insert(0, '/verif')
from vlib import assemble, check, findings  # noqa: E402

HERE = os.path.dirname(os.path.abspath(__file__))
units = sorted(d for d in os.listdir(check.UNITS) if re.match(r'^expansions_all_[a-z]$', d))
only = sys.argv[1:]
bad = 0
fl = findings.load()
for diff in sorted(glob.glob(os.path.join(HERE, 'mutants', '*.diff'))):
    name = os.path.basename(diff)[:-5]
    if only and name not in only:
        continue
    scr = tempfile.mkdtemp(prefix='verif_mut_')
    try:
        subprocess.run(['rsync', '-a', '--exclude', 'target', '--exclude', '.git', '--exclude', 'files', '/repo/', scr + '/'], check=True)
        p = subprocess.run(['patch', '-p1', '-s', '-i', diff], cwd=scr, capture_output=True, text=True)
        if p.returncode != 0:
            print('MUTANT %s: patch does not apply: %s' % (name, p.stdout + p.stderr))
            bad += 1
            continue
        assemble.REPO = scr
        assemble.reset_cache()
        for u in units:
            ud = os.path.join(check.UNITS, u, 'mutants', name + '.diff')
            if not os.path.exists(ud):
                continue
            expect = [e.strip() for e in re.findall(r'^# expect: (.*)$', open(ud).read(), re.M)]
            work = tempfile.mkdtemp(prefix='verif_mutw_')
            t0 = time.time()
            r = check.run_unit(u, os.path.join(check.UNITS, u), findings.deviations_for(u, fl), 'quick', 0, work)
            shutil.rmtree(work, ignore_errors=True)
            failed = [o['id'] for o in r['obligations'] if o['status'] == 'failed']
            undec = [o['id'] for o in r['obligations'] if o['status'] == 'undecided']
            missing = [e for e in expect if not any(f.endswith('/' + e) for f in failed)]
            extra = [f for f in failed if not any(f.endswith('/' + e) for e in expect)]
            verdict = 'REJECTED' if failed and not missing else ('PARTLY REJECTED' if failed else ('UNDECIDED' if r['status'] == 'undecided' else 'VERIFIED'))
            if verdict != 'REJECTED':
                bad += 1
            print('MUTANT %-38s %-18s %-15s %3d/%d expected obligations failed%s%s%s  [%ds]' % (
                name, u, verdict, len(expect) - len(missing), len(expect),
                ('; NOT failed: ' + ', '.join(missing)) if missing else '',
                ('; also failed: ' + ', '.join(x.split('/', 1)[1] for x in extra)) if extra else '',
                ('; undecided: ' + ', '.join(x.split('/', 1)[1] for x in undec)) if undec else '', time.time() - t0))
            if r['status'] == 'undecided' and not failed:
                print('   notes: ' + ' | '.join(n[:300] for n in r['notes']))
            sys.stdout.flush()
    finally:
        shutil.rmtree(scr, ignore_errors=True)
assemble.REPO = '/repo'
sys.exit(1 if bad else 0)
