use pdf::error::*;
use pdf::primitive::*;
use pdf::object::*;

// ---- abstract codecs of the field types used by the models (env stubs, trusted: L0 "is a function") ----------
pub uninterp spec fn i32_reads(p: Primitive, st: Store) -> Result<i32>;
impl Object for i32 {
    open spec fn reads(p: Primitive, st: Store) -> Result<i32> { i32_reads(p, st) }
    #[verifier::external_body]
    fn from_primitive<R: Resolve>(p: Primitive, resolve: &R) -> Result<Self> { unimplemented!() }
}
impl ObjectWrite for i32 {
    open spec fn writes(&self) -> Primitive { Primitive::Integer(*self) }
    open spec fn wfail(&self) -> bool { false }
    #[verifier::external_body]
    fn to_primitive<U: Updater>(&self, update: &mut U) -> Result<Primitive> { unimplemented!() }
}
pub uninterp spec fn u32_reads(p: Primitive, st: Store) -> Result<u32>;
pub uninterp spec fn u32_writes(x: u32) -> Primitive;
impl Object for u32 {
    open spec fn reads(p: Primitive, st: Store) -> Result<u32> { u32_reads(p, st) }
    #[verifier::external_body]
    fn from_primitive<R: Resolve>(p: Primitive, resolve: &R) -> Result<Self> { unimplemented!() }
}
impl ObjectWrite for u32 {
    open spec fn writes(&self) -> Primitive { u32_writes(*self) }
    open spec fn wfail(&self) -> bool { false }
    #[verifier::external_body]
    fn to_primitive<U: Updater>(&self, update: &mut U) -> Result<Primitive> { unimplemented!() }
}
pub uninterp spec fn usize_reads(p: Primitive, st: Store) -> Result<usize>;
pub uninterp spec fn usize_writes(x: usize) -> Primitive;
impl Object for usize {
    open spec fn reads(p: Primitive, st: Store) -> Result<usize> { usize_reads(p, st) }
    #[verifier::external_body]
    fn from_primitive<R: Resolve>(p: Primitive, resolve: &R) -> Result<Self> { unimplemented!() }
}
impl ObjectWrite for usize {
    open spec fn writes(&self) -> Primitive { usize_writes(*self) }
    open spec fn wfail(&self) -> bool { false }
    #[verifier::external_body]
    fn to_primitive<U: Updater>(&self, update: &mut U) -> Result<Primitive> { unimplemented!() }
}
pub uninterp spec fn vec_reads<T>(p: Primitive, st: Store) -> Result<Vec<T>>;
pub uninterp spec fn vec_writes<T>(x: Vec<T>) -> Primitive;
pub uninterp spec fn vec_wfail<T>(x: Vec<T>) -> bool;
impl<T: Object> Object for Vec<T> {
    open spec fn reads(p: Primitive, st: Store) -> Result<Vec<T>> { vec_reads::<T>(p, st) }
    #[verifier::external_body]
    fn from_primitive<R: Resolve>(p: Primitive, resolve: &R) -> Result<Self> { unimplemented!() }
}
impl<T: ObjectWrite> ObjectWrite for Vec<T> {
    open spec fn writes(&self) -> Primitive { vec_writes::<T>(*self) }
    open spec fn wfail(&self) -> bool { vec_wfail::<T>(*self) }
    #[verifier::external_body]
    fn to_primitive<U: Updater>(&self, update: &mut U) -> Result<Primitive> { unimplemented!() }
}
// Option<T>: `Null` reads as `None` (object/mod.rs:740) and `None` writes `Null` (object/mod.rs:758); what the reader
// does with a non-null primitive (tolerant mode, dangling references) belongs to the option-reader unit.
pub uninterp spec fn opt_reads_nonnull<T>(p: Primitive, st: Store) -> Result<Option<T>>;
impl<T: Object> Object for Option<T> {
    open spec fn reads(p: Primitive, st: Store) -> Result<Option<T>> {
        if p is Null { Ok(None) } else { opt_reads_nonnull::<T>(p, st) }
    }
    #[verifier::external_body]
    fn from_primitive<R: Resolve>(p: Primitive, resolve: &R) -> Result<Self> { unimplemented!() }
}
impl<T: ObjectWrite> ObjectWrite for Option<T> {
    open spec fn writes(&self) -> Primitive { match *self { None => Primitive::Null, Some(t) => t.writes() } }
    open spec fn wfail(&self) -> bool { match *self { None => false, Some(t) => t.wfail() } }
    #[verifier::external_body]
    fn to_primitive<U: Updater>(&self, update: &mut U) -> Result<Primitive> { unimplemented!() }
}
pub uninterp spec fn name_reads(p: Primitive, st: Store) -> Result<Name>;
impl Object for Name {
    open spec fn reads(p: Primitive, st: Store) -> Result<Name> { name_reads(p, st) }
    #[verifier::external_body]
    fn from_primitive<R: Resolve>(p: Primitive, resolve: &R) -> Result<Self> { unimplemented!() }
}
impl ObjectWrite for Name {
    open spec fn writes(&self) -> Primitive { Primitive::Name(self.0) }
    open spec fn wfail(&self) -> bool { false }
    #[verifier::external_body]
    fn to_primitive<U: Updater>(&self, update: &mut U) -> Result<Primitive> { unimplemented!() }
}
pub uninterp spec fn pdfstring_reads(p: Primitive, st: Store) -> Result<PdfString>;
impl Object for PdfString {
    open spec fn reads(p: Primitive, st: Store) -> Result<PdfString> { pdfstring_reads(p, st) }
    #[verifier::external_body]
    fn from_primitive<R: Resolve>(p: Primitive, resolve: &R) -> Result<Self> { unimplemented!() }
}
impl ObjectWrite for PdfString {
    open spec fn writes(&self) -> Primitive { Primitive::String(*self) }
    open spec fn wfail(&self) -> bool { false }
    #[verifier::external_body]
    fn to_primitive<U: Updater>(&self, update: &mut U) -> Result<Primitive> { unimplemented!() }
}
pub uninterp spec fn dict_reads(p: Primitive, st: Store) -> Result<Dictionary>;
impl Object for Dictionary {
    open spec fn reads(p: Primitive, st: Store) -> Result<Dictionary> { dict_reads(p, st) }
    #[verifier::external_body]
    fn from_primitive<R: Resolve>(p: Primitive, resolve: &R) -> Result<Self> { unimplemented!() }
}
impl ObjectWrite for Dictionary {
    open spec fn writes(&self) -> Primitive { Primitive::Dictionary(*self) }
    open spec fn wfail(&self) -> bool { false }
    #[verifier::external_body]
    fn to_primitive<U: Updater>(&self, update: &mut U) -> Result<Primitive> { unimplemented!() }
}
impl Object for Primitive {
    open spec fn reads(p: Primitive, st: Store) -> Result<Primitive> { Ok(p) }
    #[verifier::external_body]
    fn from_primitive<R: Resolve>(p: Primitive, resolve: &R) -> Result<Self> { unimplemented!() }
}
impl ObjectWrite for Primitive {
    open spec fn writes(&self) -> Primitive { *self }
    open spec fn wfail(&self) -> bool { false }
    #[verifier::external_body]
    fn to_primitive<U: Updater>(&self, update: &mut U) -> Result<Primitive> { unimplemented!() }
}
pub uninterp spec fn rcref_reads<T>(p: Primitive, st: Store) -> Result<RcRef<T>>;
impl<T: Object> Object for RcRef<T> {
    open spec fn reads(p: Primitive, st: Store) -> Result<RcRef<T>> { rcref_reads::<T>(p, st) }
    #[verifier::external_body]
    fn from_primitive<R: Resolve>(p: Primitive, resolve: &R) -> Result<Self> { unimplemented!() }
}
impl<T> ObjectWrite for RcRef<T> {
    open spec fn writes(&self) -> Primitive { Primitive::Reference(self.inner) }
    open spec fn wfail(&self) -> bool { false }
    #[verifier::external_body]
    fn to_primitive<U: Updater>(&self, update: &mut U) -> Result<Primitive> { unimplemented!() }
}
// ---- extension for `expansions_all`: one family of uninterpreted codecs for every other field type ("the reader is a
//      function of the primitive and the store, the writer a function of the value"), instantiated per type
pub uninterp spec fn abs_reads<T>(p: Primitive, st: Store) -> Result<T>;
pub uninterp spec fn abs_writes<T>(x: T) -> Primitive;
pub uninterp spec fn abs_wfail<T>(x: T) -> bool;
impl Object for bool {
    open spec fn reads(p: Primitive, st: Store) -> Result<bool> { abs_reads::<bool>(p, st) }
    #[verifier::external_body]
    fn from_primitive<R: Resolve>(p: Primitive, resolve: &R) -> Result<Self> { unimplemented!() }
}
impl ObjectWrite for bool {
    open spec fn writes(&self) -> Primitive { abs_writes::<bool>(*self) }
    open spec fn wfail(&self) -> bool { abs_wfail::<bool>(*self) }
    #[verifier::external_body]
    fn to_primitive<U: Updater>(&self, update: &mut U) -> Result<Primitive> { unimplemented!() }
}
impl Object for f32 {
    open spec fn reads(p: Primitive, st: Store) -> Result<f32> { abs_reads::<f32>(p, st) }
    #[verifier::external_body]
    fn from_primitive<R: Resolve>(p: Primitive, resolve: &R) -> Result<Self> { unimplemented!() }
}
impl ObjectWrite for f32 {
    open spec fn writes(&self) -> Primitive { abs_writes::<f32>(*self) }
    open spec fn wfail(&self) -> bool { abs_wfail::<f32>(*self) }
    #[verifier::external_body]
    fn to_primitive<U: Updater>(&self, update: &mut U) -> Result<Primitive> { unimplemented!() }
}
impl Object for () {
    open spec fn reads(p: Primitive, st: Store) -> Result<()> { abs_reads::<()>(p, st) }
    #[verifier::external_body]
    fn from_primitive<R: Resolve>(p: Primitive, resolve: &R) -> Result<Self> { unimplemented!() }
}
impl ObjectWrite for () {
    open spec fn writes(&self) -> Primitive { abs_writes::<()>(*self) }
    open spec fn wfail(&self) -> bool { abs_wfail::<()>(*self) }
    #[verifier::external_body]
    fn to_primitive<U: Updater>(&self, update: &mut U) -> Result<Primitive> { unimplemented!() }
}
impl<T> Object for Box<T> {
    open spec fn reads(p: Primitive, st: Store) -> Result<Box<T>> { abs_reads::<Box<T>>(p, st) }
    #[verifier::external_body]
    fn from_primitive<R: Resolve>(p: Primitive, resolve: &R) -> Result<Self> { unimplemented!() }
}
impl<T> ObjectWrite for Box<T> {
    open spec fn writes(&self) -> Primitive { abs_writes::<Box<T>>(*self) }
    open spec fn wfail(&self) -> bool { abs_wfail::<Box<T>>(*self) }
    #[verifier::external_body]
    fn to_primitive<U: Updater>(&self, update: &mut U) -> Result<Primitive> { unimplemented!() }
}
impl<A, B> Object for (A, B) {
    open spec fn reads(p: Primitive, st: Store) -> Result<(A, B)> { abs_reads::<(A, B)>(p, st) }
    #[verifier::external_body]
    fn from_primitive<R: Resolve>(p: Primitive, resolve: &R) -> Result<Self> { unimplemented!() }
}
impl<A, B> ObjectWrite for (A, B) {
    open spec fn writes(&self) -> Primitive { abs_writes::<(A, B)>(*self) }
    open spec fn wfail(&self) -> bool { abs_wfail::<(A, B)>(*self) }
    #[verifier::external_body]
    fn to_primitive<U: Updater>(&self, update: &mut U) -> Result<Primitive> { unimplemented!() }
}
impl Object for PdfStream {
    open spec fn reads(p: Primitive, st: Store) -> Result<PdfStream> { abs_reads::<PdfStream>(p, st) }
    #[verifier::external_body]
    fn from_primitive<R: Resolve>(p: Primitive, resolve: &R) -> Result<Self> { unimplemented!() }
}
// stand-in for the crate's `HashMap<K, V>` (opaque value, abstract codec)
#[verifier::external_body]
#[verifier::accept_recursive_types(K)]
#[verifier::accept_recursive_types(V)]
pub struct HashMap<K, V> { _p: core::marker::PhantomData<(K, V)> }
impl<K, V> Object for HashMap<K, V> {
    open spec fn reads(p: Primitive, st: Store) -> Result<HashMap<K, V>> { abs_reads::<HashMap<K, V>>(p, st) }
    #[verifier::external_body]
    fn from_primitive<R: Resolve>(p: Primitive, resolve: &R) -> Result<Self> { unimplemented!() }
}
impl<K, V> ObjectWrite for HashMap<K, V> {
    open spec fn writes(&self) -> Primitive { abs_writes::<HashMap<K, V>>(*self) }
    open spec fn wfail(&self) -> bool { abs_wfail::<HashMap<K, V>>(*self) }
    #[verifier::external_body]
    fn to_primitive<U: Updater>(&self, update: &mut U) -> Result<Primitive> { unimplemented!() }
}
// stand-in for the crate's `Ref<T>` (opaque value, abstract codec)
#[verifier::external_body]
#[verifier::accept_recursive_types(T)]
pub struct Ref<T> { _p: core::marker::PhantomData<T> }
impl<T> Object for Ref<T> {
    open spec fn reads(p: Primitive, st: Store) -> Result<Ref<T>> { abs_reads::<Ref<T>>(p, st) }
    #[verifier::external_body]
    fn from_primitive<R: Resolve>(p: Primitive, resolve: &R) -> Result<Self> { unimplemented!() }
}
impl<T> ObjectWrite for Ref<T> {
    open spec fn writes(&self) -> Primitive { abs_writes::<Ref<T>>(*self) }
    open spec fn wfail(&self) -> bool { abs_wfail::<Ref<T>>(*self) }
    #[verifier::external_body]
    fn to_primitive<U: Updater>(&self, update: &mut U) -> Result<Primitive> { unimplemented!() }
}
// stand-in for the crate's `MaybeRef<T>` (opaque value, abstract codec)
#[verifier::external_body]
#[verifier::accept_recursive_types(T)]
pub struct MaybeRef<T> { _p: core::marker::PhantomData<T> }
impl<T> Object for MaybeRef<T> {
    open spec fn reads(p: Primitive, st: Store) -> Result<MaybeRef<T>> { abs_reads::<MaybeRef<T>>(p, st) }
    #[verifier::external_body]
    fn from_primitive<R: Resolve>(p: Primitive, resolve: &R) -> Result<Self> { unimplemented!() }
}
impl<T> ObjectWrite for MaybeRef<T> {
    open spec fn writes(&self) -> Primitive { abs_writes::<MaybeRef<T>>(*self) }
    open spec fn wfail(&self) -> bool { abs_wfail::<MaybeRef<T>>(*self) }
    #[verifier::external_body]
    fn to_primitive<U: Updater>(&self, update: &mut U) -> Result<Primitive> { unimplemented!() }
}
// stand-in for the crate's `Lazy<T>` (opaque value, abstract codec)
#[verifier::external_body]
#[verifier::accept_recursive_types(T)]
pub struct Lazy<T> { _p: core::marker::PhantomData<T> }
impl<T> Object for Lazy<T> {
    open spec fn reads(p: Primitive, st: Store) -> Result<Lazy<T>> { abs_reads::<Lazy<T>>(p, st) }
    #[verifier::external_body]
    fn from_primitive<R: Resolve>(p: Primitive, resolve: &R) -> Result<Self> { unimplemented!() }
}
impl<T> ObjectWrite for Lazy<T> {
    open spec fn writes(&self) -> Primitive { abs_writes::<Lazy<T>>(*self) }
    open spec fn wfail(&self) -> bool { abs_wfail::<Lazy<T>>(*self) }
    #[verifier::external_body]
    fn to_primitive<U: Updater>(&self, update: &mut U) -> Result<Primitive> { unimplemented!() }
}
// stand-in for the crate's `Stream<T>` (opaque value, abstract codec)
#[verifier::external_body]
#[verifier::accept_recursive_types(T)]
pub struct Stream<T> { _p: core::marker::PhantomData<T> }
impl<T> Object for Stream<T> {
    open spec fn reads(p: Primitive, st: Store) -> Result<Stream<T>> { abs_reads::<Stream<T>>(p, st) }
    #[verifier::external_body]
    fn from_primitive<R: Resolve>(p: Primitive, resolve: &R) -> Result<Self> { unimplemented!() }
}
impl<T> ObjectWrite for Stream<T> {
    open spec fn writes(&self) -> Primitive { abs_writes::<Stream<T>>(*self) }
    open spec fn wfail(&self) -> bool { abs_wfail::<Stream<T>>(*self) }
    #[verifier::external_body]
    fn to_primitive<U: Updater>(&self, update: &mut U) -> Result<Primitive> { unimplemented!() }
}
// stand-in for the crate's `NameTree<T>` (opaque value, abstract codec)
#[verifier::external_body]
#[verifier::accept_recursive_types(T)]
pub struct NameTree<T> { _p: core::marker::PhantomData<T> }
impl<T> Object for NameTree<T> {
    open spec fn reads(p: Primitive, st: Store) -> Result<NameTree<T>> { abs_reads::<NameTree<T>>(p, st) }
    #[verifier::external_body]
    fn from_primitive<R: Resolve>(p: Primitive, resolve: &R) -> Result<Self> { unimplemented!() }
}
impl<T> ObjectWrite for NameTree<T> {
    open spec fn writes(&self) -> Primitive { abs_writes::<NameTree<T>>(*self) }
    open spec fn wfail(&self) -> bool { abs_wfail::<NameTree<T>>(*self) }
    #[verifier::external_body]
    fn to_primitive<U: Updater>(&self, update: &mut U) -> Result<Primitive> { unimplemented!() }
}
// stand-in for the crate's `NumberTree<T>` (opaque value, abstract codec)
#[verifier::external_body]
#[verifier::accept_recursive_types(T)]
pub struct NumberTree<T> { _p: core::marker::PhantomData<T> }
impl<T> Object for NumberTree<T> {
    open spec fn reads(p: Primitive, st: Store) -> Result<NumberTree<T>> { abs_reads::<NumberTree<T>>(p, st) }
    #[verifier::external_body]
    fn from_primitive<R: Resolve>(p: Primitive, resolve: &R) -> Result<Self> { unimplemented!() }
}
impl<T> ObjectWrite for NumberTree<T> {
    open spec fn writes(&self) -> Primitive { abs_writes::<NumberTree<T>>(*self) }
    open spec fn wfail(&self) -> bool { abs_wfail::<NumberTree<T>>(*self) }
    #[verifier::external_body]
    fn to_primitive<U: Updater>(&self, update: &mut U) -> Result<Primitive> { unimplemented!() }
}
// R7 helper: `vec![0, size]` (the compiler expands the macro into allocator intrinsics Verus cannot read)
#[verifier::external_body]
fn hoist_vec2(a: u32, b: u32) -> (r: Vec<u32>) ensures r@ == seq![a, b] { vec![a, b] }
// R9 helper: string equality (L0)
#[verifier::external_body]
fn str_eq(a: &str, b: &str) -> (r: bool) ensures r == (a@ == b@) { a == b }

// ---- the derive's documented meaning of the field attributes, as spec combinators --------------------------------
// writer: an entry is written under its key unless the field's primitive form is Null
// (same definition as in units/expansions; here *closed*, with its pointwise characterisation broadcast: the `if` on the Null test
// makes the solver split once per entry and per looked-up key, which is exponential in the 10..21-entry models of this wave)
pub mod dictmodel {
    use vstd::prelude::*;
    use super::pdf::primitive::*;
    broadcast use super::pdf::primitive::group_dict;
    pub closed spec fn put(m: DMap, k: Seq<char>, v: Primitive) -> DMap { if v is Null { m } else { ins(m, k, v) } }
    pub broadcast proof fn lemma_put_dom(m: DMap, k: Seq<char>, v: Primitive, j: Seq<char>)
        ensures #[trigger] put(m, k, v).dom().contains(j) <==> ((j == k && !(v is Null)) || m.dom().contains(j))
    {}
    pub broadcast proof fn lemma_put_index(m: DMap, k: Seq<char>, v: Primitive, j: Seq<char>)
        ensures #[trigger] put(m, k, v)[j] == (if j == k && !(v is Null) { v } else { m[j] })
    {}
    pub proof fn lemma_put_def(m: DMap, k: Seq<char>, v: Primitive)
        ensures put(m, k, v) == (if v is Null { m } else { m.insert(k, v) })
    { lemma_ins_def(m, k, v); }
    pub broadcast group group_put { lemma_put_dom, lemma_put_index }
    // everything about entries: used by `broadcast use dictmodel::group_all;` at the top of writer bodies and lemmas.  NOT switched on
    // in reader bodies: there every look-up through the chain of `remove`s is stated once, up front (see `chain` in unit.py) --
    // with the axioms on, the solver re-derives the whole chain in the context of each of the 2n+1 exits of a reader
    pub broadcast group group_all { group_put, super::pdf::primitive::group_dict }
}
pub use dictmodel::put;
pub open spec fn nm(s: Seq<char>) -> Primitive { Primitive::Name(SmallString { chars: Ghost(s) }) }
// reader, plain `#[pdf(key=K)]` field: the entry, or Null when the key is absent; a failing present entry is
// FromPrimitive{field}; an absent entry whose type cannot be read from Null is MissingEntry
pub open spec fn rd_plain<T: Object>(m: DMap, k: Seq<char>, tyname: &'static str, field: &'static str, typ: &'static str, st: Store) -> Result<T> {
    if m.dom().contains(k) {
        match T::reads(m[k], st) {
            Ok(v) => Ok(v),
            Err(e) => Err(PdfError::FromPrimitive { typ: tyname, field: field, source: Box::new(e) }),
        }
    } else {
        match T::reads(Primitive::Null, st) {
            Ok(v) => Ok(v),
            Err(_) => Err(PdfError::MissingEntry { typ: typ }),
        }
    }
}
// reader, `#[pdf(key=K, default=D)]` field: Some(entry) or None (= take the default)
pub open spec fn rd_default<T: Object>(m: DMap, k: Seq<char>, typ: &'static str, field: &'static str, st: Store) -> Result<Option<T>> {
    if m.dom().contains(k) {
        match T::reads(m[k], st) {
            Ok(v) => Ok(Some(v)),
            Err(e) => Err(PdfError::FromPrimitive { typ: typ, field: field, source: Box::new(e) }),
        }
    } else { Ok(None) }
}
pub open spec fn or_default<T>(o: Option<T>, d: T) -> T { match o { Some(v) => v, None => d } }
// codec hypotheses used by the lemmas
pub open spec fn rt_weak<T: Object + ObjectWrite>(t: T, st: Store) -> bool {
    T::reads(t.writes(), st) matches Ok(t2) && t2.writes() == t.writes()
}
pub open spec fn rt_strong<T: Object + ObjectWrite>(t: T, st: Store) -> bool { T::reads(t.writes(), st) == Ok::<T, PdfError>(t) }

