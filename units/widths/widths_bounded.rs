
// BOUNDED native stand-in for the width table (C19): `Widths::{get, new, set, _set}` on the real struct (appended to pdf/src/font.rs,
// because the fields and the constructor are private) and `Font::widths` + `Widths::get` through the public API.
//
// Universe
//   (1) tables laid out directly: first_char in {0, 1, 32, 255} x length 0..=4 x default in {0, 1000}; entry i = 100 + 7 i (all different from
//       both defaults); queried for EVERY code 0..=300 and for 65535, usize::MAX;
//   (2) the same tables built with `Widths::new(default)` + `set(code, w)` in EVERY insertion order of their codes (<= 24 orders), and with one
//       gap (a code two above the table) -- all five growth cases of `_set`; queried for every code 0..=300;
//   (3) simple fonts `/FirstChar f /Widths [..]` for f in {0, 1, 32, 255}, 0..=4 widths, through parse + Font::from_primitive + Font::widths;
//   (4) composite fonts (CIDFontType2) whose /W arrays have lowest code 20 / 0 / 1, both group forms, groups out of order, /DW present (750)
//       and absent (ISO default 1000); queried for every code 0..=300.
// Expected value, from the property statement: the entry at code - first_char inside the table, the default outside (below AND above).
#[cfg(test)]
mod verif_widths_bounded {
    use super::*;
    use crate::object::NoResolve;
    use crate::parser::{parse, ParseFlags};
    use std::collections::HashMap;

    const FIRSTS: [usize; 4] = [0, 1, 32, 255];
    const DEFAULTS: [f32; 2] = [0.0, 1000.0];

    fn entry(i: usize) -> f32 { 100.0 + 7.0 * i as f32 }
    fn expect(map: &HashMap<usize, f32>, default: f32, code: usize) -> f32 { *map.get(&code).unwrap_or(&default) }
    fn check_all(w: &Widths, map: &HashMap<usize, f32>, default: f32, what: &str) {
        for code in 0usize..=300 {
            assert_eq!(w.get(code), expect(map, default, code), "{}: width of code {}", what, code);
        }
        for code in [65535usize, usize::MAX] {
            assert_eq!(w.get(code), expect(map, default, code), "{}: width of code {}", what, code);
        }
    }
    fn permutations(items: &[usize]) -> Vec<Vec<usize>> {
        if items.len() <= 1 { return vec![items.to_vec()]; }
        let mut out = Vec::new();
        for i in 0..items.len() {
            let mut rest = items.to_vec();
            let x = rest.remove(i);
            for mut p in permutations(&rest) { p.insert(0, x); out.push(p); }
        }
        out
    }

    #[test]
    fn tables_laid_out_directly() {
        for &first_char in &FIRSTS { for len in 0usize..=4 { for &default in &DEFAULTS {
            let values: Vec<f32> = (0..len).map(entry).collect();
            let map: HashMap<usize, f32> = (0..len).map(|i| (first_char + i, entry(i))).collect();
            let w = Widths { values, default, first_char };
            check_all(&w, &map, default, &format!("table first_char={} len={} default={}", first_char, len, default));
        }}}
    }

    #[test]
    fn tables_built_by_set_in_every_order() {
        for &first_char in &FIRSTS { for len in 0usize..=4 { for &default in &DEFAULTS { for gap in [false, true] {
            let mut codes: Vec<usize> = (0..len).map(|i| first_char + i).collect();
            if gap { codes.push(first_char + len + 2); }
            if codes.len() > 4 { continue; }
            for order in permutations(&codes) {
                let mut w = Widths::new(default);
                let mut map = HashMap::new();
                for (k, &code) in order.iter().enumerate() {
                    let width = entry(code % 50) + k as f32 / 4.0;
                    w.set(code, width);
                    map.insert(code, width);
                    check_all(&w, &map, default, &format!("after set of {:?} (of order {:?}) default={}", &order[..=k], order, default));
                }
            }
        }}}}
    }

    fn font(src: &str) -> Font {
        let p = parse(src.as_bytes(), &NoResolve, ParseFlags::DICT).expect("dictionary parses");
        Font::from_primitive(p, &NoResolve).expect("font dictionary is accepted")
    }

    #[test]
    fn simple_fonts_first_char_and_widths() {
        for &first_char in &FIRSTS { for len in 0usize..=4 {
            let list: Vec<String> = (0..len).map(|i| format!("{}", entry(i))).collect();
            let src = format!("<< /Type /Font /Subtype /TrueType /BaseFont /Demo /FirstChar {} /LastChar {} /Widths [{}] >>",
                              first_char, first_char + len.saturating_sub(1), list.join(" "));
            let f = font(&src);
            let w = f.widths(&NoResolve).expect("widths ok").expect("a simple font with /FirstChar has a width table");
            let map: HashMap<usize, f32> = (0..len).map(|i| (first_char + i, entry(i))).collect();
            // ISO 32000-1 9.6.2.1: codes outside FirstChar..LastChar have no entry; the table reports 0 for them
            check_all(&w, &map, 0.0, &src);
        }}
    }

    const DESC: &str = "/FontDescriptor << /Type /FontDescriptor /FontName /Demo /Flags 4 /FontBBox [0 0 1000 1000] /ItalicAngle 0 >>";

    #[test]
    fn composite_fonts_w_array() {
        // (W array text, the map it denotes per ISO 32000-1 9.7.4.3)
        let cases: Vec<(&str, Vec<(usize, f32)>)> = vec![
            ("120 [600 610] 20 22 333 50 [400]", vec![(20, 333.), (21, 333.), (22, 333.), (50, 400.), (120, 600.), (121, 610.)]),
            ("20 [500]", vec![(20, 500.)]),
            ("20 20 444", vec![(20, 444.)]),
            ("25 [510 520] 20 [500]", vec![(20, 500.), (25, 510.), (26, 520.)]),
            ("1 [501 502 503]", vec![(1, 501.), (2, 502.), (3, 503.)]),
            ("0 [500 510] 4 5 520", vec![(0, 500.), (1, 510.), (4, 520.), (5, 520.)]),
            ("255 [700] 300 300 800", vec![(255, 700.), (300, 800.)]),
            ("", vec![]),
        ];
        for (w_text, pairs) in &cases { for (dw_text, default) in [("", 1000.0f32), ("/DW 750", 750.0)] {
            let src = format!("<< /Type /Font /Subtype /CIDFontType2 /BaseFont /Demo /CIDSystemInfo << /Registry (Adobe) /Ordering (Identity) /Supplement 0 >> {} {} /W [{}] >>",
                              DESC, dw_text, w_text);
            let f = font(&src);
            let w = f.widths(&NoResolve).expect("widths ok").expect("a CID font has a width table");
            let map: HashMap<usize, f32> = pairs.iter().cloned().collect();
            check_all(&w, &map, default, &format!("/W [{}] {}", w_text, dw_text));
        }}
    }
}
