// Bounded second opinion on the real Widths (K<=3 insertions, codes < 6): counterexample source for C19.
#[kani::proof]
#[kani::unwind(10)]
fn widths_set_get_bounded() {
    let d: u8 = kani::any();
    let mut w = Widths::new(d as f32);
    let mut model: [u8; 8] = [d; 8];
    let n: usize = kani::any();
    kani::assume(n <= 3);
    let mut k = 0;
    while k < n {
        let c: usize = kani::any();
        kani::assume(c < 6);
        let v: u8 = kani::any();
        w._set(c, v as f32);
        model[c] = v;
        k += 1;
    }
    kani::cover!(n == 3);
    let q: usize = kani::any();
    kani::assume(q < 8);
    assert!(w.get(q) == model[q] as f32);
    std::mem::forget(w);
}
