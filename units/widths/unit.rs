// Unit `widths` (C19, C14): Widths::{get, new, ensure_cid, set, _set} of pdf/src/font.rs
// against an abstract total map  code -> width.
use vstd::prelude::*;
verus! {
global size_of usize == 8;

//@@ struct Widths

// ---- L0 helpers (R7): std iterator adaptors Verus cannot read; bodies are the hoisted source text ----
#[verifier::external_body]
fn hoist_splice_front(values: &mut Vec<f32>, d: f32, n: usize)
    ensures final(values)@ == Seq::new(n as nat, |i: int| d) + old(values)@
{
    values.splice(0 .. 0, std::iter::repeat(d).take(n));
}
#[verifier::external_body]
fn hoist_extend_repeat(values: &mut Vec<f32>, d: f32, n: usize)
    ensures final(values)@ == old(values)@ + Seq::new(n as nat, |i: int| d)
{
    values.extend(std::iter::repeat(d).take(n));
}
#[verifier::external_body]
fn hoist_reserve_to(values: &mut Vec<f32>, offset: usize)
    ensures final(values)@ == old(values)@
{
    values.reserve(offset.saturating_sub(values.capacity()));
}

impl Widths {
    // abstract view: the width assigned to every code (spec written from the property statement:
    // "the entry at code minus first-character inside the table and the default outside")
    pub open spec fn view_at(&self, cid: int) -> f32 {
        if cid < self.first_char || cid >= self.first_char + self.values@.len() { self.default } else { self.values@[cid - self.first_char] }
    }
    pub open spec fn wf(&self) -> bool { self.first_char + self.values@.len() <= usize::MAX }

//@@ Widths::index_helper1
//@@ Widths::index_helper2
//@@ Widths::get
//@@ Widths::new
//@@ Widths::ensure_cid
//@@ Widths::_set
//@@ Widths::set
}
}
fn main(){}
