F = 'pdf/src/font.rs'
IMPL = r'^impl Widths$'
UNIT = {
 'name': 'widths',
 'doc': 'Width table of a font against an abstract total map code -> width',
 'items': {
  'struct Widths': {'kind': 'decl', 'file': F, 'header': r'^pub struct Widths$',
     'rewrites': [{'rule': 'R2', 'find': 'values:', 'replace': 'pub values:'},
                  {'rule': 'R2', 'find': 'default:', 'replace': 'pub default:'},
                  {'rule': 'R2', 'find': 'first_char:', 'replace': 'pub first_char:'}]},
  'Widths::get': {'kind': 'fn', 'file': F, 'container': IMPL, 'name': 'get', 'props': ['C19'],
     'ensures': [('get_is_view', 'r == self.view_at(cid as int)')]},
  'Widths::new': {'kind': 'fn', 'file': F, 'container': IMPL, 'name': 'new', 'props': ['C19'],
     'ensures': [('new_wf', 'r.wf()'),
                 ('new_all_default', 'forall|c: int| r.view_at(c) == default')]},
  'Widths::ensure_cid': {'kind': 'fn', 'file': F, 'container': IMPL, 'name': 'ensure_cid', 'props': ['C19', 'C14'],
     'ensures': [('ensure_cid_frame', 'final(self).values@ == old(self).values@ && final(self).default == old(self).default && final(self).first_char == old(self).first_char')],
     'rewrites': [{'rule': 'R7', 'regex': r'self\.values\.reserve\((.*?)\.saturating_sub\(self\.values\.capacity\(\)\)\);',
                   'replace': r'let __o = \1; hoist_reserve_to(&mut self.values, __o);'}]},
  'Widths::_set': {'kind': 'fn', 'file': F, 'container': IMPL, 'name': '_set', 'props': ['C19', 'C14'],
     'requires': ['old(self).wf()', 'cid < usize::MAX'],
     'ensures': [('set_wf', 'final(self).wf()'),
                 ('set_default_kept', 'final(self).default == old(self).default'),
                 ('set_view', 'forall|c: int| final(self).view_at(c) == if c == cid { width } else { old(self).view_at(c) }')],
     'rewrites': [
        {'rule': 'R2', 'find': 'use std::iter::repeat;', 'replace': ''},
        # R7: only the call shape `v.splice(0 .. 0, repeat(D).take(N))` / `v.extend(repeat(D).take(N))` is hoisted;
        # the argument expressions D and N stay verbatim and are checked (overflow, value) by Verus
        {'rule': 'R7', 'regex': r'self\.values\.splice\(\s*0\s*\.\.\s*0\s*,\s*repeat\((.*?)\)\.take\((.*?)\)\);',
         'replace': r'let __d = \1; let __n = \2; hoist_splice_front(&mut self.values, __d, __n);'},
        {'rule': 'R7', 'regex': r'self\.values\.extend\(\s*repeat\((.*?)\)\.take\((.*?)\)\);',
         'replace': r'let __d = \1; let __n = \2; hoist_extend_repeat(&mut self.values, __d, __n);'},
     ]},
  'Widths::set': {'kind': 'fn', 'file': F, 'container': IMPL, 'name': 'set', 'props': ['C19'],
     'requires': ['old(self).wf()', 'cid < usize::MAX'],
     'ensures': [('set_wf', 'final(self).wf()'),
                 ('set_default_kept', 'final(self).default == old(self).default'),
                 ('set_view', 'forall|c: int| final(self).view_at(c) == if c == cid { width } else { old(self).view_at(c) }')],
     'rewrites': [{'rule': 'R4', 'find': 'debug_assert_eq!(self.get(cid), width);', 'replace': ''}]},
 },
 # (a Kani second opinion on the real _set was tried and dropped: Vec splice/extend under CBMC did not finish in 25 min)
}
