import os
import re
from vlib import assemble as _asm

F = 'pdf/src/font.rs'
IMPL = r'^impl Widths$'

# ---------------------------------------------------------------------------------------------------------------------------
# Index helpers (hardening round 3). A private one-expression method of `impl Widths` of the SHAPE
#     fn NAME(&self, ARG: usize) -> usize { EXPR }          (not one of get/new/ensure_cid/set/_set)
# that a refactoring introduces has no contract of its own, so the callers' contracts could not be checked against it. Up to
# two such helpers are found here BY SHAPE (whatever their name) in the tree under verification and put under the MECHANICAL
# STRONGEST POSTCONDITION of their body: `r == [[EXPR]]`, where [[.]] reads the integer expression in spec mode
#     A.saturating_sub(B)            -> (if A >= B { A - B } else { 0 })
#     A.checked_sub(B).unwrap_or(C)  -> (if A >= B { A - B } else { C })
#     if/else, comparisons, + - *, literals, ARG, self.first_char, self.values.len()   as written
# (the exec body itself stays verbatim: Verus reads usize::saturating_sub / checked_sub natively and checks every `+`/`-`).
# A body outside this grammar is NOT given a guessed contract: the item is left out and the unit ends undecided on such a tree.
# A bare `A - B` at the top of the expression additionally gets `requires A >= B` (the weakest precondition of the subtraction):
# the helper is private and the precondition is then CHECKED at every call site, all of which are in `impl Widths` / Font::widths
# (= the functions of units widths / fontwidths); if a call is found in font.rs outside these the item is left out as well.
_KNOWN = ('get', 'new', 'ensure_cid', 'set', '_set')
_ATOM = r'(?:[A-Za-z_]\w*(?:\.[A-Za-z_]\w*)*(?:\(\))?|\d+|\((?:[^()]|\([^()]*\))*\))'


def _impl_widths_text():
    try:
        src = open(os.path.join(_asm.REPO, F), encoding='utf-8').read()
    except OSError:
        return '', ''
    src = re.sub(r'//[^\n]*', '', src)
    m = re.search(r'^impl Widths \{\n(.*?)^\}', src, re.S | re.M)
    return (m.group(1) if m else ''), src


def _to_spec(expr):
    """[[EXPR]] or None"""
    e = ' '.join(expr.split())
    for _ in range(8):
        n = re.sub(r'(%s)\.checked_sub\(([^()]*(?:\(\))?[^()]*)\)\.unwrap_or\(([^()]*)\)' % _ATOM, r'(if \1 >= \2 { \1 - \2 } else { \3 })', e)
        n = re.sub(r'(%s)\.saturating_sub\(([^()]*(?:\(\))?[^()]*)\)' % _ATOM, r'(if \1 >= \2 { \1 - \2 } else { 0 })', n)
        if n == e:
            break
        e = n
    left = re.sub(r'self\.first_char|self\.values\.len\(\)|\bif\b|\belse\b', ' ', e)
    return e, left


def _index_helpers():
    body, src = _impl_widths_text()
    out = []
    for m in re.finditer(r'\bfn\s+(\w+)\s*\(\s*&self\s*,\s*(\w+)\s*:\s*usize\s*\)\s*->\s*usize\s*\{([^{}]*(?:\{[^{}]*\}[^{}]*)*)\}', body):
        name, arg, expr = m.group(1), m.group(2), m.group(3).strip()
        if name in _KNOWN or ';' in expr:
            continue
        spec, left = _to_spec(expr)
        left = re.sub(r'\b%s\b' % re.escape(arg), ' ', left)
        if re.search(r'[A-Za-z_]', left) or re.search(r'[^\s\d+\-*<>=!&|(){}]', left):
            continue                      # outside the grammar: no guessed contract
        req = []
        mt = re.fullmatch(r'(%s)\s*-\s*(%s)' % (_ATOM, _ATOM), ' '.join(expr.split()))
        if mt:
            req = ['%s >= %s' % (mt.group(1), mt.group(2))]
            # every call must lie in impl Widths or in Font::widths
            calls = len(re.findall(r'\.%s\(' % re.escape(name), src))
            fw = re.search(r'\bpub fn widths\b.*?\n    \}\n', src, re.S)
            inside = len(re.findall(r'\.%s\(' % re.escape(name), body)) + (len(re.findall(r'\.%s\(' % re.escape(name), fw.group(0))) if fw else 0)
            if calls != inside:
                continue
        out.append({'name': name, 'arg': arg, 'spec': spec, 'requires': req})
    return out[:2]


def _helper_item(i, hs):
    if i < len(hs):
        h = hs[i]
        return {'kind': 'fn', 'file': F, 'container': IMPL, 'name': h['name'], 'verus_name': 'Widths::' + h['name'], 'props': ['C19'],
                'optional': True, 'requires': h['requires'],
                'ensures': [('helper_strongest_post', 'r == %s' % h['spec'])]}
    return {'kind': 'fn', 'file': F, 'container': IMPL, 'name': '__no_index_helper_%d' % (i + 1), 'optional': True, 'props': ['C19'], 'ensures': []}


_HS = _index_helpers()
UNIT = {
 'name': 'widths',
 'doc': 'Width table of a font against an abstract total map code -> width',
 'native': {'tests': [
    {'name': 'widths_tables_and_fonts_small', 'code': 'widths_bounded.rs', 'place': 'pdf/src/font.rs', 'filter': 'verif_widths_bounded',
     'fn': 'Widths::get', 'props': ['C19'], 'tier': 'quick', 'timeout': 900,
     'bound': 'tables first_char in {0,1,32,255} x length 0..=4 x default in {0,1000}, laid out directly and built with new+set in every insertion '
              'order (<= 24) with and without a gap (all five growth cases of _set); simple fonts /FirstChar in {0,1,32,255} with 0..=4 /Widths; '
              '8 composite /W arrays (lowest code 20, 0, 1, 255; both group forms; groups out of order; empty) x /DW absent (1000) / 750; every table '
              'queried for EVERY code 0..=300 and for 65535, usize::MAX',
     'contract': 'get(code) == the entry at code - first_char inside the table, the default below AND above it (C19 statement); simple fonts: '
                 '/Widths[code - FirstChar] inside FirstChar..LastChar, 0 outside; composite fonts: the /W group containing the code, /DW elsewhere'},
 ]},
 'items': {
  'struct Widths': {'kind': 'decl', 'file': F, 'header': r'^pub struct Widths$',
     'rewrites': [{'rule': 'R2', 'find': 'values:', 'replace': 'pub values:'},
                  {'rule': 'R2', 'find': 'default:', 'replace': 'pub default:'},
                  {'rule': 'R2', 'find': 'first_char:', 'replace': 'pub first_char:'}]},
  'Widths::index_helper1': _helper_item(0, _HS),
  'Widths::index_helper2': _helper_item(1, _HS),
  'Widths::get': {'kind': 'fn', 'file': F, 'container': IMPL, 'name': 'get', 'props': ['C19'],
     'ensures': [('get_is_view', 'r == self.view_at(cid as int)')]},
  'Widths::new': {'kind': 'fn', 'file': F, 'container': IMPL, 'name': 'new', 'props': ['C19'],
     'ensures': [('new_wf', 'r.wf()'),
                 ('new_all_default', 'forall|c: int| r.view_at(c) == default')]},
  'Widths::ensure_cid': {'kind': 'fn', 'file': F, 'container': IMPL, 'name': 'ensure_cid', 'props': ['C19', 'C14'],
     'ensures': [('ensure_cid_frame', 'final(self).values@ == old(self).values@ && final(self).default == old(self).default && final(self).first_char == old(self).first_char')],
     'rewrites': [{'rule': 'R7', 'regex': r'self\.values\.reserve\((.*?)\.saturating_sub\(self\.values\.capacity\(\)\)\);',
                   'replace': r'let __o = \1; hoist_reserve_to(&mut self.values, __o);'}]},
  'Widths::_set': {'kind': 'fn', 'file': F, 'container': IMPL, 'name': '_set', 'props': ['C19', 'C14'],
     'requires': ['old(self).wf()', 'cid < usize::MAX'],
     'ensures': [('set_wf', 'final(self).wf()'),
                 ('set_default_kept', 'final(self).default == old(self).default'),
                 ('set_view', 'forall|c: int| final(self).view_at(c) == if c == cid { width } else { old(self).view_at(c) }')],
     'rewrites': [
        {'rule': 'R2', 'find': 'use std::iter::repeat;', 'replace': ''},
        # R7: only the call shape `v.splice(0 .. 0, repeat(D).take(N))` / `v.extend(repeat(D).take(N))` is hoisted;
        # the argument expressions D and N stay verbatim and are checked (overflow, value) by Verus
        {'rule': 'R7', 'regex': r'self\.values\.splice\(\s*0\s*\.\.\s*0\s*,\s*repeat\((.*?)\)\.take\((.*?)\)\);',
         'replace': r'let __d = \1; let __n = \2; hoist_splice_front(&mut self.values, __d, __n);'},
        {'rule': 'R7', 'regex': r'self\.values\.extend\(\s*repeat\((.*?)\)\.take\((.*?)\)\);',
         'replace': r'let __d = \1; let __n = \2; hoist_extend_repeat(&mut self.values, __d, __n);'},
     ]},
  'Widths::set': {'kind': 'fn', 'file': F, 'container': IMPL, 'name': 'set', 'props': ['C19'],
     'requires': ['old(self).wf()', 'cid < usize::MAX'],
     'ensures': [('set_wf', 'final(self).wf()'),
                 ('set_default_kept', 'final(self).default == old(self).default'),
                 ('set_view', 'forall|c: int| final(self).view_at(c) == if c == cid { width } else { old(self).view_at(c) }')],
     'rewrites': [{'rule': 'R4', 'find': 'debug_assert_eq!(self.get(cid), width);', 'replace': ''}]},
 },
 # (a Kani second opinion on the real _set was tried and dropped: Vec splice/extend under CBMC did not finish in 25 min)
}
