import re

ENC = 'pdf/src/enc.rs'
STM = 'pdf/src/object/stream.rs'
FILE = 'pdf/src/file.rs'
O = 'pdf/src/object/mod.rs'
PRIM = 'pdf/src/primitive.rs'
PROPS = ['C05', 'C01']
IMPL_STORAGE = r'^impl<B, OC, SC, L> Storage<B, OC, SC, L> where'
IMPL_RES = r"^impl<'a, B, OC, SC, L> Resolve for StorageResolver<'a, B, OC, SC, L> where"


def lits(*keys):
    """R1 ghost block: facts that make the string literals pairwise distinct (length, or first differing character).
    `reveal_strlit` is local to the proof block, the asserted facts are not. (same helper as in unit expansions)"""
    out = []
    facts = set()
    for k in keys:
        out.append('reveal_strlit("%s");' % k)
        facts.add('"%s"@.len() == %d' % (k, len(k)))
    for a in keys:
        for b in keys:
            if a < b and len(a) == len(b):
                i = [j for j in range(len(a)) if a[j] != b[j]][0]
                facts.add('"%s"@[%d] == \'%s\'' % (a, i, a[i]))
                facts.add('"%s"@[%d] == \'%s\'' % (b, i, b[i]))
    for f in sorted(facts):
        out.append('assert(%s);' % f)
    return 'proof { ' + ' '.join(out) + ' }'


def body_start(text):
    return {'rule': 'R1', 'regex': r'\A\s*\{', 'replace': '{ ' + text}


FILTER_NAMES = ['ASCIIHexDecode', 'ASCII85Decode', 'LZWDecode', 'FlateDecode', 'JPXDecode', 'DCTDecode', 'CCITTFaxDecode',
                'JBIG2Decode', 'Crypt', 'RunLengthDecode']
KEYS = ['Length', 'Filter', 'DecodeParms', 'F', 'FFilter', 'FDecodeParms']

ST = 'resolve.store()'


def conj(*parts):
    """a && (b && (c ...)): `matches` bindings stay in scope to the right"""
    out = parts[-1]
    for p in reversed(parts[:-1]):
        out = '%s && (%s)' % (p, out)
    return out


def impl(*parts):
    """a ==> (b ==> (c ...))"""
    out = parts[-1]
    for p in reversed(parts[:-1]):
        out = '%s ==> (%s)' % (p, out)
    return out


D = 'dict_reads(p, %s) matches Ok(d)' % ST
NAMES = 'names_of(d, %s) matches Ok(names)' % ST
PARMS = 'parms_of(d, %s) matches Ok(parms)' % ST
FNAMES = 'fnames_of(d, %s) matches Ok(fnames)' % ST
FPARMS = 'fparms_of(d, %s) matches Ok(fparms)' % ST

# R6: `for (i, x) in xs.iter().enumerate() {` -> index loop (the element is the same reference `&xs[i]`)
def enum_loop(var, coll):
    return {'rule': 'R6', 'find': 'for (i, %s) in %s.iter().enumerate() {' % (var, coll),
            'replace': 'for i in 0..%s.len() { let %s = &%s[i];' % (coll, var, coll)}

# R6 for the loops over the filter list of a stream: index loop over the collected iterator. The second shape is not in
# the source; it is read with its true meaning (reverse order) so that such an edit reaches the verifier.
FILTER_LOOP = [
    {'rule': 'R6', 'count': '*', 'regex': r'for filter in filters \{',
     'replace': 'let __it = hoist_iter(filters); for __k in 0..__it.len() { let filter = __it[__k];'},
    {'rule': 'R6', 'count': '*', 'regex': r'for filter in filters\.iter\(\)\.rev\(\) \{',
     'replace': 'let __it = hoist_iter_rev(filters); for __k in 0..__it.len() { let filter = __it[__k];'},
]
CHAIN_INV = [
    '__it@.len() == filters@.len()',
    # what is left of the chain, applied to the data so far, is the whole chain applied to the stored bytes
    ('rest_of_chain_in_order', 'chain_decode(filters@.subrange(__k as int, filters@.len() as int), data@) == chain_decode(filters@, plain)'),
]
STEP = 'proof { if __k < filters@.len() { lemma_chain_step(filters@, __k as int, data@); } } '


# ---- Stream::data, in-memory arm, read by SHAPE (hardening round 3) ---------------------------------------------------------------
# The arm is "an accumulator that starts as the stream's bytes and is replaced by decode(<bytes>, filter) once per filter". ONE
# invariant template (`rest_of_chain_in_order`: what is left of the chain applied to the ACCUMULATOR is the whole chain applied to
# the stored bytes) describes every such loop; what differs between spellings is read off the tree under verification:
#   * the accumulator's name (the variable assigned `t!(decode(..))` in the loop) and representation: a `Cow<[u8]>` (pinned text;
#     modelled by the Vec of its bytes, `.into()` on the stage result dropped) or an `Arc<[u8]>` started with `<bytes>.clone()`
#     (stage result `.into()` -> R7 `hoist_into_arc`, `decode(<&Arc>, ..)` deref coercion -> R7 `hoist_arc_slice`)
#   * the list expression of the loop head (`filters` after `let filters = &self.info.filters;`, `&self.info.filters`, `.iter()`)
#   * the loop variable's name
# WHAT each stage decodes is NOT part of the shape: the first argument of `decode` stays verbatim under proof, so a stage that reads
# the wrong buffer fails `rest_of_chain_in_order`.
def _data_shape():
    from vlib import assemble
    try:
        _raw, _sig, body = assemble.locate({'kind': 'fn', 'file': STM, 'container': r'^impl<I: Object> Stream<I>$', 'name': 'data'})
        body = re.sub(r'\s+', ' ', assemble.strip_comments(body))
    except Exception:
        return None                                    # anchor lost: reported by the framework when it extracts the item itself
    acc = re.search(r'\b(\w+) = t!\(decode\(', body)
    head = re.search(r'for (\w+) in (filters|&self\.info\.filters|self\.info\.filters\.iter\(\)|filters\.iter\(\)) \{', body)
    if not acc or not head:
        return None
    acc = acc.group(1)
    return {'acc': acc, 'var': head.group(1),
            'cow': bool(re.search(r'let mut %s ?: ?Cow<\[u8\]>' % acc, body)),
            'arc': bool(re.search(r'let mut %s(?: ?: ?Arc<\[u8\]>)? = (?:\w+\.clone\(\)|Arc::clone\(&?\w+\));' % acc, body)),
            'fs': 'filters@' if re.search(r'let filters = &self\.info\.filters;', body) else 'self.info.filters@'}


DSH = _data_shape()
if DSH and DSH['cow'] and DSH['acc'] == 'data' and DSH['var'] == 'filter' and DSH['fs'] == 'filters@':
    # the pinned spelling: text kept byte-identical to what has verified since round 1
    DATA_LOOPS = {1: {'invariant': CHAIN_INV}}
    DATA_RW = [
        {'rule': 'R2', 'find': 'use std::borrow::Cow;', 'replace': ''},
        # R7: the Cow<[u8]> (borrowed from the Arc at first, owned after the first stage) is modelled by the Vec of its bytes
        {'rule': 'R7', 'find': 'let mut data: Cow<[u8]> = (&**data).into();', 'replace': 'let mut data: Vec<u8> = hoist_arc_to_vec(data);'},
        {'rule': 'R7', 'find': 'data = t!(decode(&data, filter), filter).into();', 'replace': 'data = t!(decode(&data, filter), filter);'},
        {'rule': 'R7', 'find': 'Ok(data.into())', 'replace': 'Ok(hoist_into_arc(data))'},
    ] + FILTER_LOOP + [
        {'rule': 'R1', 'find': 'let __it =', 'replace': 'let ghost plain = data@; proof { lemma_chain_whole(filters@); } let __it ='},
        {'rule': 'R1', 'find': 'let filter = __it[__k];', 'replace': 'let filter = __it[__k]; ' + STEP},
    ]
elif DSH and (DSH['cow'] or DSH['arc']):
    _a, _v, _fs = DSH['acc'], DSH['var'], DSH['fs']
    _view = ('%s@' if DSH['cow'] else '(*%s)@') % _a
    DATA_LOOPS = {1: {'invariant': [
        '__it@.len() == %s.len()' % _fs,
        ('rest_of_chain_in_order', 'chain_decode(%s.subrange(__k as int, %s.len() as int), %s) == chain_decode(%s, plain)' % (_fs, _fs, _view, _fs))]}}
    _step = 'proof { if __k < %s.len() { lemma_chain_step(%s, __k as int, %s); } } ' % (_fs, _fs, _view)
    DATA_RW = [{'rule': 'R2', 'regex': r'use std::borrow::Cow;', 'replace': '', 'count': '*'}]
    if DSH['cow']:
        DATA_RW += [
            {'rule': 'R7', 'regex': r'let mut %s\s*:\s*Cow<\[u8\]>\s*=\s*\(&\*\*(\w+)\)\.into\(\);' % _a, 'replace': r'let mut %s: Vec<u8> = hoist_arc_to_vec(\1);' % _a},
            {'rule': 'R7', 'regex': r'\b%s = (t!\(decode\(.*?\), %s\))\.into\(\);' % (_a, _v), 'replace': r'%s = \1;' % _a},
            {'rule': 'R7', 'regex': r'Ok\(%s\.into\(\)\)' % _a, 'replace': 'Ok(hoist_into_arc(%s))' % _a},
        ]
    else:
        DATA_RW += [
            # R7: Vec<u8> -> Arc<[u8]> on the stage result; `&Arc<[u8]> -> &[u8]` deref coercion of decode's first argument spelled out
            # (the ARGUMENT itself stays verbatim: which buffer a stage reads is under proof)
            {'rule': 'R7', 'regex': r'\b%s = (t!\(decode\(.*?\), %s\))\.into\(\);' % (_a, _v), 'replace': r'%s = hoist_into_arc(\1);' % _a},
            {'rule': 'R7', 'regex': r'\bdecode\(\s*(&?\s*\w+)\s*,', 'replace': r'decode(hoist_arc_slice(\1),', 'count': '*'},
        ]
    DATA_RW += [
        # R6: index loop over the collected iterator, any of the four spellings of "the stream's filters, front to back"
        {'rule': 'R6', 'regex': r'for %s in (?:filters|filters\.iter\(\)) \{' % _v, 'count': '*',
         'replace': 'let __it = hoist_iter(filters); for __k in 0..__it.len() { let %s = __it[__k];' % _v},
        {'rule': 'R6', 'regex': r'for %s in (?:&self\.info\.filters|self\.info\.filters\.iter\(\)) \{' % _v, 'count': '*',
         'replace': 'let __it = hoist_iter(&self.info.filters); for __k in 0..__it.len() { let %s = __it[__k];' % _v},
        {'rule': 'R1', 'find': 'let __it =', 'replace': 'let ghost plain = %s; proof { lemma_chain_whole(%s); } let __it =' % (_view, _fs)},
        {'rule': 'R1', 'find': 'let %s = __it[__k];' % _v, 'replace': 'let %s = __it[__k]; ' % _v + _step},
    ]
else:
    # no accumulator loop recognised: nothing is annotated; the verifier reads the body as it is (normally UNDECIDED, never an alarm)
    DATA_LOOPS = {}
    DATA_RW = [{'rule': 'R2', 'regex': r'use std::borrow::Cow;', 'replace': '', 'count': '*'}]

UNIT = {
 'name': 'filterchain',
 'doc': 'stream filter chains: /Filter paired with /DecodeParms position by position; filters applied in array order to the decrypted bytes at file_range; filter -> decoder dispatch',
 'items': {
  'struct PlainRef': {'kind': 'decl', 'file': O, 'header': r'^pub struct PlainRef$', 'attrs': ['#[derive(Clone, Copy)]']},
  'enum Primitive': {'kind': 'decl', 'file': PRIM, 'header': r'^pub enum Primitive$'},
  'enum StreamFilter': {'kind': 'decl', 'file': ENC, 'header': r'^pub enum StreamFilter$'},
  'struct StreamInfo': {'kind': 'decl', 'file': STM, 'header': r'^pub struct StreamInfo<I>$'},
  'enum StreamData': {'kind': 'decl', 'file': STM, 'header': r'^pub \(crate\) enum StreamData$',
     'rewrites': [{'rule': 'R2', 'find': 'pub (crate) enum', 'replace': 'pub enum'}]},
  'struct Stream': {'kind': 'decl', 'file': STM, 'header': r'^pub struct Stream<I>$',
     'rewrites': [{'rule': 'R2', 'find': 'pub (crate) inner_data', 'replace': 'pub inner_data'}]},
  'struct Storage': {'kind': 'decl', 'file': FILE, 'header': r'^pub struct Storage<B, OC, SC, L>$',
     'rewrites': [{'rule': 'R2', 'find': f, 'replace': 'pub ' + f} for f in
                  ('cache:', 'stream_cache:', 'changes:', 'refs:', 'decoder:', 'options:', 'backend:', 'start_offset:', 'log:')]},

  # ---- ISO 32000-1 Table 6: filter name -> filter, parameters read from the dictionary given for this filter
  'StreamFilter::from_kind_and_params': {'kind': 'fn', 'file': ENC, 'container': r'^impl StreamFilter$', 'name': 'from_kind_and_params',
     'props': PROPS, 'ret': 'res',
     'ensures': [('filter_name_table', 'match filter_of(kind@, params, r.store()) { Some(f) => res == Ok::<StreamFilter, PdfError>(f), None => res is Err }')],
     'rewrites': [
        body_start(lits(*FILTER_NAMES)),
        # R9: `match kind { "lit" => e, ..., ty => bail!(..) }` -> if-chain over str_eq; arm expressions stay verbatim
        {'rule': 'R9', 'regex': r'match kind \{\s*"(\w+)" =>', 'replace': r'if str_eq(kind, "\1") {'},
        {'rule': 'R9', 'regex': r',\s*"(\w+)" =>', 'replace': r' } else if str_eq(kind, "\1") {', 'count': 9},
        {'rule': 'R9', 'regex': r',\s*ty => (bail!\("Unrecognized filter type \{:\?\}", ty\)),\s*\}', 'replace': r' } else { \1 }'},
     ]},

  # ---- ISO 32000-1 Table 5: Filter / DecodeParms (and FFilter / FDecodeParms) pairing
  'StreamInfo::from_primitive': {'kind': 'fn', 'file': STM, 'container': r'^impl<T: Object> Object for StreamInfo<T>$', 'name': 'from_primitive',
     'props': PROPS,
     'attrs': ['#[verifier::loop_isolation(false)]'],
     'ensures': [
        ('not_a_dictionary_is_error', 'dict_reads(p, %s) is Err ==> r is Err' % ST),
        # Table 5: Length "(Required)"
        ('length_required', impl(D, '!d@.dom().contains("Length"@)', 'r matches Err(PdfError::MissingEntry { .. })')),
        # filter i gets parameters i; a null / missing entry i means defaults for filter i only
        ('filter_i_gets_parms_i', 'r matches Ok(info) ==> (' + conj(D, NAMES, PARMS, 'info.filters@.len() == names@.len()',
            'forall|i: int| 0 <= i < names@.len() ==> filter_of(names@[i]@, parms_for(parms@, i), %s) == Some(#[trigger] info.filters@[i])' % ST) + ')'),
        ('file_filter_i_gets_fparms_i', 'r matches Ok(info) ==> (' + conj(D, FNAMES, FPARMS, 'info.file_filters@.len() == fnames@.len()',
            'forall|i: int| 0 <= i < fnames@.len() ==> filter_of(fnames@[i]@, fparms_for(fparms@, i), %s) == Some(#[trigger] info.file_filters@[i])' % ST) + ')'),
        ('unreadable_filter_is_error', impl(D, NAMES, PARMS, '!filters_ok(names@, parms@, %s)' % ST, 'r is Err')),
        ('unreadable_file_filter_is_error', impl(D, FNAMES, FPARMS, '!ffilters_ok(fnames@, fparms@, %s)' % ST, 'r is Err')),
        ('file_spec_read', 'r matches Ok(info) ==> (' + conj(D, 'opt_reads::<FileSpec>(d.entry("F"), %s) == Ok::<Option<FileSpec>, PdfError>(info.file)' % ST) + ')'),
        # every other entry of the stream dictionary reaches the specialised reader `T`
        ('remaining_entries_to_info', 'r matches Ok(info) ==> (' + conj(D, 'exists|rest: Dictionary| #[trigger] rest@ == d@.remove_keys(general_keys())'
            ' && T::reads(Primitive::Dictionary(rest), %s) == Ok::<T, PdfError>(info.info)' % ST) + ')'),
        # a conforming stream dictionary is read
        ('well_formed_is_ok', impl(D, 'd@.dom().contains("Length"@) && usize_reads(d@["Length"@], %s) is Ok' % ST,
            NAMES, PARMS, 'filters_ok(names@, parms@, %s)' % ST, FNAMES, FPARMS, 'ffilters_ok(fnames@, fparms@, %s)' % ST,
            'opt_reads::<FileSpec>(d.entry("F"), %s) is Ok' % ST,
            '(forall|rest: Dictionary| #[trigger] rest@ == d@.remove_keys(general_keys()) ==> T::reads(Primitive::Dictionary(rest), %s) is Ok)' % ST,
            'r is Ok')),
     ],
     'loops': {
        1: {'invariant': [
              # stated over the /DecodeParms list AS THE DICTIONARY HAS IT (parms_of(d0)), not over whatever local the program keeps
              # the parameters in: any representation of the list (Vec<Option<Dictionary>>, a filtered copy, ..) assembles
              ('pairing_so_far', 'parms_of(d0, %s) matches Ok(pp__) && new_filters@.len() == i && forall|j: int| #![trigger new_filters@[j]] #![trigger parms_for(pp__@, j)] 0 <= j < i ==> filter_of(filters@[j]@, parms_for(pp__@, j), %s) == Some(new_filters@[j])' % (ST, ST))]},
        2: {'invariant': [
              ('file_pairing_so_far', 'fparms_of(d0, %s) matches Ok(fp__) && new_file_filters@.len() == i && forall|j: int| #![trigger new_file_filters@[j]] #![trigger fparms_for(fp__@, j)] 0 <= j < i ==> filter_of(file_filters@[j]@, fparms_for(fp__@, j), %s) == Some(new_file_filters@[j])' % (ST, ST))]},
     },
     'rewrites': [
        {'where': 'sig', 'rule': 'R2', 'regex': r'\Afn ', 'replace': 'pub fn '},
        body_start(lits(*KEYS)),
        # R1 ghost: the dictionary as read, before entries are taken out of it
        {'rule': 'R1', 'find': 'let mut dict = Dictionary::from_primitive(p, resolve)?;',
         'replace': 'let mut dict = Dictionary::from_primitive(p, resolve)?; let ghost d0 = dict;'},
        # R1: map extensionality for "the dictionary without the general keys" (lemma without requires: the hypothesis is the verifier's to prove)
        {'rule': 'R1', 'find': 'Ok(StreamInfo {', 'replace': 'proof { lemma_without_keys(d0@, dict@, general_keys()); } Ok(StreamInfo {'},
        # R3: String payload of MissingEntry dropped
        {'rule': 'R3', 'find': 'PdfError::MissingEntry{ typ: "StreamInfo", field: "Length".into() }', 'replace': 'PdfError::MissingEntry{ typ: "StreamInfo" }'},
        enum_loop('filter', 'filters'),
        enum_loop('filter', 'file_filters'),
        # R2: the deref coercion `&Name -> &str` (impl Deref for Name, primitive.rs:326, same body as Name::as_str) made explicit
        {'rule': 'R2', 'find': 'StreamFilter::from_kind_and_params(filter, params, resolve)', 'replace': 'StreamFilter::from_kind_and_params(filter.as_str(), params, resolve)', 'count': 2},
        # R6 (not in the source; env model SeqIter / FlattenExt in the template): a flattened parameter list is read with its true
        # meaning, on ANY receiver expression and with or without `.map(Some)`; `.collect()` stays verbatim (SeqIter::collect)
        {'rule': 'R6', 'count': '*', 'regex': r'\.\s*into_iter\(\)\s*\.\s*flatten\(\)', 'replace': r'.into_iter_flatten__()'},
        {'rule': 'R6', 'count': '*', 'regex': r'\.\s*map\(Some\)', 'replace': r'.map_some__()'},
     ]},

  # ---- filter -> decoder
  'decode': {'kind': 'fn', 'file': ENC, 'container': None, 'name': 'decode', 'props': PROPS,
     'ensures': [('dispatch_table', 'match decode_spec(*filter, data@) { Some(v) => r matches Ok(o) && o@ == v, None => r is Err }')]},

  # ---- the decoding loop on file data (C06: "every stream read through the interface equals the original plaintext" -- the
  # bytes at `range` go through the document's decoder, under the stream's own id, BEFORE any filter)
  'Storage::decode': {'kind': 'fn', 'file': FILE, 'container': IMPL_STORAGE, 'name': 'decode', 'props': PROPS + ['C06'],
     'attrs': ['#[verifier::loop_isolation(false)]'],
     'ensures': [
        # C05 "for every chain of such filters ... decoding ... returns the original bytes": the chain is applied in array
        # order, each stage to the previous output, starting from the decrypted bytes at `range`
        ('chain_in_array_order', 'match self.stored_plain(id, range) { None => r is Err,'
            ' Some(plain) => match chain_decode(filters@, plain) { Some(out) => r matches Ok(o) && (*o)@ == out, None => r is Err } }'),
     ],
     'loops': {1: {'invariant': CHAIN_INV}},
     'rewrites': [
        # R7: std conversions (Vec::from(&[u8]), Vec<u8> -> Arc<[u8]>)
        {'rule': 'R7', 'find': 'Vec::from(data)', 'replace': 'hoist_vec_from(data)'},
        {'rule': 'R7', 'find': 'Vec::from(t!(decoder.decrypt(id, &mut data)))', 'replace': 'hoist_vec_from(t!(decoder.decrypt(id, &mut data)))'},
        {'rule': 'R7', 'find': 'Ok(data.into())', 'replace': 'Ok(hoist_into_arc(data))'},
     ] + FILTER_LOOP + [
        {'rule': 'R1', 'find': 'let __it =', 'replace': 'let ghost plain = data@; proof { lemma_chain_whole(filters@); } let __it ='},
        {'rule': 'R1', 'find': 'let filter = __it[__k];', 'replace': 'let filter = __it[__k]; ' + STEP},
     ]},

  # ---- the raw-data path (PdfStream::raw_data, DeepClone / Importer): Resolve::stream_data of the document's resolver.
  # "Raw" = no FILTER applied; the bytes are still the stream's stored plaintext, i.e. decrypted (C06, 7.6.1)
  'struct StorageResolver': {'kind': 'decl', 'file': FILE, 'header': r"^struct StorageResolver<'a, B, OC, SC, L>$",
     'rewrites': [{'rule': 'R2', 'find': 'struct StorageResolver', 'replace': 'pub struct StorageResolver'},
                  {'rule': 'R2', 'find': 'storage:', 'replace': 'pub storage:'},
                  # R2: the recursion-guard chain (units/guard) is not mentioned by stream_data
                  {'rule': 'R2', 'find': 'chain: Mutex<Vec<PlainRef>>,', 'replace': ''}]},
  'StorageResolver::stream_data': {'kind': 'fn', 'file': FILE, 'container': IMPL_RES, 'name': 'stream_data', 'props': ['C06', 'C05', 'C01'],
     'ensures': [
        ('raw_data_is_decrypted_stored_bytes', 'match self.storage.stored_plain(id, range) { None => r is Err,'
            ' Some(plain) => r matches Ok(o) && (*o)@ == plain }'),
     ],
     'rewrites': [
        # R2: a parameter spelled `_id` is still the parameter `id` of the trait method
        {'where': 'sig', 'rule': 'R2', 'regex': r'\b_(id|range): ', 'replace': r'\1: ', 'count': '*'},
        # R7: std conversions `<&[u8]>::into() -> Arc<[u8]>` on a `?`-unwrapped read, `&[]` (empty filter list)
        {'rule': 'R7', 'regex': r'(\w[\w.]*\([^()]*\)\?)\.into\(\)', 'replace': r'hoist_slice_into_arc(\1)', 'count': '*'},
        {'rule': 'R7', 'regex': r'Ok\((\w+)\.into\(\)\)', 'replace': r'Ok(hoist_slice_into_arc(\1))', 'count': '*'},
        {'rule': 'R7', 'regex': r'&\[\]', 'replace': 'hoist_no_filters()', 'count': '*'},
     ]},

  # ---- Stream::data: the public entry point
  'Stream::data': {'kind': 'fn', 'file': STM, 'container': r'^impl<I: Object> Stream<I>$', 'name': 'data', 'props': PROPS,
     'attrs': ['#[verifier::loop_isolation(false)]'],
     'ensures': [
        # data kept in the file: ALL filters of the stream dictionary, the stream's own byte range and object id go to the
        # decoding loop (Resolve::get_data_or_decode == Storage::decode behind the stream cache)
        ('in_file_data_all_filters_own_range', 'self.inner_data matches StreamData::Original(range, id) ==> (match resolve.decoded(id, range, self.info.filters@)'
            ' { Some(out) => r matches Ok(o) && (*o)@ == out, None => r is Err })'),
        # data made in memory (Stream::from_compressed): the same chain, in the same order
        ('generated_data_chain_in_order', 'self.inner_data matches StreamData::Generated(d) ==> (match chain_decode(self.info.filters@, (*d)@)'
            ' { Some(out) => r matches Ok(o) && (*o)@ == out, None => r is Err })'),
     ],
     'loops': DATA_LOOPS,
     'rewrites': DATA_RW + [
        # R7: Range<usize>::clone has no vstd specification
        {'rule': 'R7', 'find': 'file_range.clone()', 'replace': 'hoist_range_clone(file_range)'},
     ]},
 },
}
