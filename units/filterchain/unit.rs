// Unit `filterchain` (C05, C01): stream filter chains.
//   StreamFilter::from_kind_and_params (enc.rs)      filter name -> filter (ISO 32000-1 Table 6), parameters read from THAT dictionary
//   StreamInfo::from_primitive (object/stream.rs)    /Filter paired position by position with /DecodeParms (Table 5); same for /FFilter, /FDecodeParms
//   decode (enc.rs)                                  filter -> decoder dispatch
//   Storage::decode (file.rs)                        raw bytes at `file_range`, decrypted, then every filter in array order
//   Stream::data (object/stream.rs)                  in-file data: all of `info.filters`, the stream's own range and id
// Abstract (env): the individual decoders (uninterpreted; under contract in units hexcodec, enc_leaf, rld, flate),
// Decoder::decrypt (unit decrypt), the field readers `T::from_primitive` (units expansions, option), Dictionary.
use vstd::prelude::*;
use core::ops::Range;
use std::collections::HashMap;
use std::sync::Arc;
//@@ INCLUDE _common/error_macros.rs
verus! {
global size_of usize == 8;

//@@ PDFERROR
pub type ObjNr = u64;
pub type GenNr = u64;

//@@ struct PlainRef

// ---- environment: primitives -----------------------------------------------------------------------------------------
#[verifier::external_body] pub struct PdfString { _p: () }
#[verifier::external_body] pub struct PdfStream { _p: () }
#[verifier::external_body] pub struct SmallString { _p: () }
#[verifier::external_body] pub struct FileSpec { _p: () }
#[verifier::external_body] pub struct ParseOptions { _p: () }
#[verifier::external_body] pub struct XRefTable { _p: () }
// primitive.rs:114 -- an IndexMap<Name, Primitive>; modelled by the map of its entries (order of entries not modelled)
#[verifier::external_body] pub struct Dictionary { _p: () }

//@@ enum Primitive

pub type DMap = Map<Seq<char>, Primitive>;
pub uninterp spec fn entries(d: Dictionary) -> DMap;
impl Dictionary {
    pub open spec fn view(&self) -> DMap { entries(*self) }
    // the value of an entry, absent == the null object (ISO 32000-1 7.3.7 "a dictionary entry whose value is null ...
    // shall be treated the same as if the entry does not exist")
    pub open spec fn entry(&self, key: &str) -> Primitive { if self@.dom().contains(key@) { self@[key@] } else { Primitive::Null } }
    // IndexMap::swap_remove semantics on the map of entries (primitive.rs:165)
    #[verifier::external_body]
    pub fn remove(&mut self, key: &str) -> (r: Option<Primitive>)
        ensures final(self)@ == old(self)@.remove(key@),
            r == (if old(self)@.dom().contains(key@) { Some(old(self)@[key@]) } else { None::<Primitive> })
    { unimplemented!() }
}
// the dictionary without entries: what "all parameters have their default values" means for readers that take the
// default for every absent key (the derived `FromDict` readers, unit expansions)
pub uninterp spec fn empty_dict() -> Dictionary;
impl Default for Dictionary {
    #[verifier::external_body]
    fn default() -> (r: Dictionary) ensures r == empty_dict() { unimplemented!() }
}
impl Clone for Dictionary {
    #[verifier::external_body]
    fn clone(&self) -> (r: Dictionary) ensures r == *self { unimplemented!() }
}

// primitive.rs:319
#[verifier::external_body] pub struct Name { _p: () }
pub uninterp spec fn name_chars(n: Name) -> Seq<char>;
impl Name {
    pub open spec fn view(&self) -> Seq<char> { name_chars(*self) }
    #[verifier::external_body]
    pub fn as_str(&self) -> (r: &str) ensures r@ == self@ { unimplemented!() }
}

// ---- environment: readers --------------------------------------------------------------------------------------------
// what a `Resolve` can see: the objects behind references and the parse options
#[verifier::external_body] pub struct Store { _p: () }
pub trait Resolve {
    spec fn store(&self) -> Store;
    // file.rs:357 (StorageResolver; the stream cache is not modelled): Storage::decode of the same arguments
    spec fn decoded(&self, id: PlainRef, range: Range<usize>, filters: Seq<StreamFilter>) -> Option<Seq<u8>>;
    fn get_data_or_decode(&self, id: PlainRef, range: Range<usize>, filters: &[StreamFilter]) -> (r: Result<Arc<[u8]>>)
        ensures match self.decoded(id, range, filters@) { Some(out) => r matches Ok(o) && (*o)@ == out, None => r is Err };
}
// a reader is a function of the primitive and the store (object/mod.rs:96 `trait Object`)
pub trait Object: Sized {
    spec fn reads(p: Primitive, st: Store) -> Result<Self>;
    fn from_primitive<R: Resolve>(p: Primitive, resolve: &R) -> (r: Result<Self>)
        ensures r == Self::reads(p, resolve.store());
}
pub uninterp spec fn usize_reads(p: Primitive, st: Store) -> Result<usize>;
impl Object for usize {
    open spec fn reads(p: Primitive, st: Store) -> Result<usize> { usize_reads(p, st) }
    #[verifier::external_body] fn from_primitive<R: Resolve>(p: Primitive, resolve: &R) -> Result<Self> { unimplemented!() }
}
pub uninterp spec fn unit_reads(p: Primitive, st: Store) -> Result<()>;
impl Object for () {
    open spec fn reads(p: Primitive, st: Store) -> Result<()> { unit_reads(p, st) }
    #[verifier::external_body] fn from_primitive<R: Resolve>(p: Primitive, resolve: &R) -> Result<Self> { unimplemented!() }
}
pub uninterp spec fn name_reads(p: Primitive, st: Store) -> Result<Name>;
impl Object for Name {
    open spec fn reads(p: Primitive, st: Store) -> Result<Name> { name_reads(p, st) }
    #[verifier::external_body] fn from_primitive<R: Resolve>(p: Primitive, resolve: &R) -> Result<Self> { unimplemented!() }
}
pub uninterp spec fn dict_reads(p: Primitive, st: Store) -> Result<Dictionary>;
impl Object for Dictionary {
    open spec fn reads(p: Primitive, st: Store) -> Result<Dictionary> { dict_reads(p, st) }
    #[verifier::external_body] fn from_primitive<R: Resolve>(p: Primitive, resolve: &R) -> Result<Self> { unimplemented!() }
}
pub uninterp spec fn filespec_reads(p: Primitive, st: Store) -> Result<FileSpec>;
impl Object for FileSpec {
    open spec fn reads(p: Primitive, st: Store) -> Result<FileSpec> { filespec_reads(p, st) }
    #[verifier::external_body] fn from_primitive<R: Resolve>(p: Primitive, resolve: &R) -> Result<Self> { unimplemented!() }
}
// object/mod.rs:609 `impl Object for Vec<T>`: "name or array" / "dictionary or array" -- the list a value denotes
// (null: no element, array: its elements in order, anything else: that one element)
pub uninterp spec fn list_reads<T>(p: Primitive, st: Store) -> Result<Vec<T>>;
impl<T: Object> Object for Vec<T> {
    open spec fn reads(p: Primitive, st: Store) -> Result<Vec<T>> { list_reads::<T>(p, st) }
    #[verifier::external_body] fn from_primitive<R: Resolve>(p: Primitive, resolve: &R) -> Result<Self> { unimplemented!() }
}
// object/mod.rs:743 `impl Object for Option<T>` (under contract in unit option): null reads as None
pub uninterp spec fn opt_reads<T>(p: Primitive, st: Store) -> Result<Option<T>>;
impl<T: Object> Object for Option<T> {
    open spec fn reads(p: Primitive, st: Store) -> Result<Option<T>> { opt_reads::<T>(p, st) }
    #[verifier::external_body] fn from_primitive<R: Resolve>(p: Primitive, resolve: &R) -> Result<Self> { unimplemented!() }
}

// ---- environment: filter parameters (derived readers: unit expansions) -----------------------------------------------
#[verifier::external_body] pub struct LZWFlateParams { _p: () }
#[verifier::external_body] pub struct DCTDecodeParams { _p: () }
#[verifier::external_body] pub struct CCITTFaxDecodeParams { _p: () }
#[verifier::external_body] pub struct JBIG2DecodeParams { _p: () }
pub uninterp spec fn lzwflate_reads(p: Primitive, st: Store) -> Result<LZWFlateParams>;
impl Object for LZWFlateParams {
    open spec fn reads(p: Primitive, st: Store) -> Result<LZWFlateParams> { lzwflate_reads(p, st) }
    #[verifier::external_body] fn from_primitive<R: Resolve>(p: Primitive, resolve: &R) -> Result<Self> { unimplemented!() }
}
pub uninterp spec fn dct_reads(p: Primitive, st: Store) -> Result<DCTDecodeParams>;
impl Object for DCTDecodeParams {
    open spec fn reads(p: Primitive, st: Store) -> Result<DCTDecodeParams> { dct_reads(p, st) }
    #[verifier::external_body] fn from_primitive<R: Resolve>(p: Primitive, resolve: &R) -> Result<Self> { unimplemented!() }
}
pub uninterp spec fn ccitt_reads(p: Primitive, st: Store) -> Result<CCITTFaxDecodeParams>;
impl Object for CCITTFaxDecodeParams {
    open spec fn reads(p: Primitive, st: Store) -> Result<CCITTFaxDecodeParams> { ccitt_reads(p, st) }
    #[verifier::external_body] fn from_primitive<R: Resolve>(p: Primitive, resolve: &R) -> Result<Self> { unimplemented!() }
}
pub uninterp spec fn jbig2_reads(p: Primitive, st: Store) -> Result<JBIG2DecodeParams>;
impl Object for JBIG2DecodeParams {
    open spec fn reads(p: Primitive, st: Store) -> Result<JBIG2DecodeParams> { jbig2_reads(p, st) }
    #[verifier::external_body] fn from_primitive<R: Resolve>(p: Primitive, resolve: &R) -> Result<Self> { unimplemented!() }
}

//@@ enum StreamFilter

// =====================================================================================================================
// Spec, written from ISO 32000-1:2008 7.3.8.2 (Table 5, entries of a stream dictionary) and 7.4.1 (Table 6, standard
// filters). Nothing below is derived from the code.
// =====================================================================================================================
pub open spec fn ok_or_none<T>(r: Result<T>) -> Option<T> { match r { Ok(v) => Some(v), Err(_) => None } }

// Table 6: the standard filter names; "Parameters: yes" for LZWDecode, FlateDecode, CCITTFaxDecode, JBIG2Decode, DCTDecode
// (and Crypt, whose parameters this library does not read). The parameters come from the dictionary given for THIS filter.
// None: not a standard filter name, or unreadable parameters -- an error.
pub open spec fn filter_of(kind: Seq<char>, params: Dictionary, st: Store) -> Option<StreamFilter> {
    let pd = Primitive::Dictionary(params);
    if kind == "ASCIIHexDecode"@ { Some(StreamFilter::ASCIIHexDecode) }
    else if kind == "ASCII85Decode"@ { Some(StreamFilter::ASCII85Decode) }
    else if kind == "LZWDecode"@ { match lzwflate_reads(pd, st) { Ok(p) => Some(StreamFilter::LZWDecode(p)), Err(_) => None } }
    else if kind == "FlateDecode"@ { match lzwflate_reads(pd, st) { Ok(p) => Some(StreamFilter::FlateDecode(p)), Err(_) => None } }
    else if kind == "RunLengthDecode"@ { Some(StreamFilter::RunLengthDecode) }
    else if kind == "CCITTFaxDecode"@ { match ccitt_reads(pd, st) { Ok(p) => Some(StreamFilter::CCITTFaxDecode(p)), Err(_) => None } }
    else if kind == "JBIG2Decode"@ { match jbig2_reads(pd, st) { Ok(p) => Some(StreamFilter::JBIG2Decode(p)), Err(_) => None } }
    else if kind == "DCTDecode"@ { match dct_reads(pd, st) { Ok(p) => Some(StreamFilter::DCTDecode(p)), Err(_) => None } }
    else if kind == "JPXDecode"@ { Some(StreamFilter::JPXDecode) }
    else if kind == "Crypt"@ { Some(StreamFilter::Crypt) }
    else { None }
}

// Table 5, DecodeParms: "an array with one entry for each filter: either the parameter dictionary for that filter, or the
// null object if that filter has no parameters (or if all of its parameters have their default values). ... the
// DecodeParms entry may be omitted": the parameters of filter i are entry i; null or no entry i = defaults for THAT filter.
pub open spec fn parms_for(parms: Seq<Option<Dictionary>>, i: int) -> Dictionary {
    if 0 <= i < parms.len() && parms[i] is Some { parms[i].unwrap() } else { empty_dict() }
}
// Table 5, FDecodeParms: "A parameter dictionary, or an array of such dictionaries, used by the filters specified by FFilter"
pub open spec fn fparms_for(parms: Seq<Dictionary>, i: int) -> Dictionary {
    if 0 <= i < parms.len() { parms[i] } else { empty_dict() }
}
// Table 5, Filter: "The name of a filter ... or an array of zero, one or several names. Multiple filters shall be specified in
// the order in which they are to be applied." The filters a pair of entries denotes, in that order; None: some filter is not readable.
pub open spec fn filters_ok(names: Seq<Name>, parms: Seq<Option<Dictionary>>, st: Store) -> bool {
    forall|i: int| #![trigger names[i]] #![trigger parms_for(parms, i)] 0 <= i < names.len() ==> filter_of(names[i]@, parms_for(parms, i), st) is Some
}
pub open spec fn ffilters_ok(names: Seq<Name>, parms: Seq<Dictionary>, st: Store) -> bool {
    forall|i: int| #![trigger names[i]] #![trigger fparms_for(parms, i)] 0 <= i < names.len() ==> filter_of(names[i]@, fparms_for(parms, i), st) is Some
}

// the entries of Table 5 read as lists ("name or array", "dictionary or array"; element readers: Name, dictionary-or-null, dictionary)
pub open spec fn names_of(d: Dictionary, st: Store) -> Result<Vec<Name>> { list_reads::<Name>(d.entry("Filter"), st) }
pub open spec fn parms_of(d: Dictionary, st: Store) -> Result<Vec<Option<Dictionary>>> { list_reads::<Option<Dictionary>>(d.entry("DecodeParms"), st) }
pub open spec fn fnames_of(d: Dictionary, st: Store) -> Result<Vec<Name>> { list_reads::<Name>(d.entry("FFilter"), st) }
pub open spec fn fparms_of(d: Dictionary, st: Store) -> Result<Vec<Dictionary>> { list_reads::<Dictionary>(d.entry("FDecodeParms"), st) }
// the general entries of Table 5 that the stream-info reader consumes itself
pub open spec fn general_keys() -> Set<Seq<char>> {
    Set::<Seq<char>>::empty().insert("Length"@).insert("Filter"@).insert("DecodeParms"@).insert("F"@).insert("FFilter"@).insert("FDecodeParms"@)
}
// map extensionality, as an implication (no precondition): a map that has lost exactly `keys` is `remove_keys(keys)`
pub open spec fn is_without_keys(m0: DMap, m: DMap, keys: Set<Seq<char>>) -> bool {
    (forall|k: Seq<char>| #[trigger] m.dom().contains(k) <==> (m0.dom().contains(k) && !keys.contains(k)))
    && (forall|k: Seq<char>| m.dom().contains(k) ==> #[trigger] m[k] == m0[k])
}
pub proof fn lemma_without_keys(m0: DMap, m: DMap, keys: Set<Seq<char>>)
    ensures is_without_keys(m0, m, keys) ==> m == m0.remove_keys(keys)
{
    if is_without_keys(m0, m, keys) { assert(m =~= m0.remove_keys(keys)); }
}

// ---- the decoders: uninterpreted here. None = the decoder reports an error. ----
pub uninterp spec fn hex_decoded(data: Seq<u8>) -> Option<Seq<u8>>;                          // 7.4.2  (units hexcodec, enc_leaf)
pub uninterp spec fn a85_decoded(data: Seq<u8>) -> Option<Seq<u8>>;                          // 7.4.3  (unit enc_leaf: word_85)
pub uninterp spec fn lzw_decoded(p: LZWFlateParams, data: Seq<u8>) -> Option<Seq<u8>>;       // 7.4.4  (unit flate: lzw_decode)
pub uninterp spec fn flate_decoded(p: LZWFlateParams, data: Seq<u8>) -> Option<Seq<u8>>;     // 7.4.4  (unit flate: flate_decode)
pub uninterp spec fn rl_decoded(data: Seq<u8>) -> Option<Seq<u8>>;                           // 7.4.5  (unit rld)
pub uninterp spec fn dct_decoded(p: DCTDecodeParams, data: Seq<u8>) -> Option<Seq<u8>>;      // 7.4.8  (jpeg_decoder crate)
// Table 6: which algorithm a filter name stands for. The image codecs CCITTFaxDecode / JBIG2Decode / JPXDecode and the Crypt
// filter are not among "every decode filter the library implements" of C05 as far as byte data goes: decoding through
// them is an error here (image data: ImageXObject::image_data decodes a trailing one of them itself).
pub open spec fn decode_spec(f: StreamFilter, data: Seq<u8>) -> Option<Seq<u8>> {
    match f {
        StreamFilter::ASCIIHexDecode => hex_decoded(data),
        StreamFilter::ASCII85Decode => a85_decoded(data),
        StreamFilter::LZWDecode(p) => lzw_decoded(p, data),
        StreamFilter::FlateDecode(p) => flate_decoded(p, data),
        StreamFilter::RunLengthDecode => rl_decoded(data),
        StreamFilter::DCTDecode(p) => dct_decoded(p, data),
        StreamFilter::JPXDecode => None,
        StreamFilter::CCITTFaxDecode(_) => None,
        StreamFilter::JBIG2Decode(_) => None,
        StreamFilter::Crypt => None,
    }
}
// 7.4.1 / Table 5: "Multiple filters shall be specified in the order in which they are to be applied" [to decode]; example
// in 7.4.1: data "encoded using LZW and then ASCII base-85" carries /Filter [/ASCII85Decode /LZWDecode]. So decoding
// applies filter 0 to the stored bytes, filter 1 to that result, ...; one failing stage fails the whole.
pub open spec fn chain_decode(filters: Seq<StreamFilter>, data: Seq<u8>) -> Option<Seq<u8>>
    decreases filters.len()
{
    if filters.len() == 0 { Some(data) }
    else {
        match decode_spec(filters[0], data) {
            Some(d) => chain_decode(filters.subrange(1, filters.len() as int), d),
            None => None,
        }
    }
}

// ---- lemmas (proved) ----
// the rest of the chain, one stage further
pub proof fn lemma_chain_step(filters: Seq<StreamFilter>, k: int, data: Seq<u8>)
    requires 0 <= k < filters.len()
    ensures chain_decode(filters.subrange(k, filters.len() as int), data) ==
        match decode_spec(filters[k], data) { Some(d) => chain_decode(filters.subrange(k + 1, filters.len() as int), d), None => None }
{
    let rest = filters.subrange(k, filters.len() as int);
    assert(rest[0] == filters[k]);
    assert(rest.subrange(1, rest.len() as int) =~= filters.subrange(k + 1, filters.len() as int));
}
pub proof fn lemma_chain_whole(filters: Seq<StreamFilter>)
    ensures filters.subrange(0, filters.len() as int) == filters
{
    assert(filters.subrange(0, filters.len() as int) =~= filters);
}

// ---- environment: decoders (abstract callees) and std helpers ----
#[verifier::external_body]
pub fn decode_hex(data: &[u8]) -> (r: Result<Vec<u8>>)
    ensures match hex_decoded(data@) { Some(v) => r matches Ok(o) && o@ == v, None => r is Err } { unimplemented!() }
#[verifier::external_body]
pub fn decode_85(data: &[u8]) -> (r: Result<Vec<u8>>)
    ensures match a85_decoded(data@) { Some(v) => r matches Ok(o) && o@ == v, None => r is Err } { unimplemented!() }
#[verifier::external_body]
pub fn lzw_decode(data: &[u8], params: &LZWFlateParams) -> (r: Result<Vec<u8>>)
    ensures match lzw_decoded(*params, data@) { Some(v) => r matches Ok(o) && o@ == v, None => r is Err } { unimplemented!() }
#[verifier::external_body]
pub fn flate_decode(data: &[u8], params: &LZWFlateParams) -> (r: Result<Vec<u8>>)
    ensures match flate_decoded(*params, data@) { Some(v) => r matches Ok(o) && o@ == v, None => r is Err } { unimplemented!() }
#[verifier::external_body]
pub fn run_length_decode(data: &[u8]) -> (r: Result<Vec<u8>>)
    ensures match rl_decoded(data@) { Some(v) => r matches Ok(o) && o@ == v, None => r is Err } { unimplemented!() }
#[verifier::external_body]
pub fn dct_decode(data: &[u8], params: &DCTDecodeParams) -> (r: Result<Vec<u8>>)
    ensures match dct_decoded(*params, data@) { Some(v) => r matches Ok(o) && o@ == v, None => r is Err } { unimplemented!() }

// R9: `match` on string literals -> if-chain over this comparison
#[verifier::external_body]
fn str_eq(a: &str, b: &str) -> (r: bool) ensures r == (a@ == b@) { a == b }

// R6: the loops over the filter list become index loops over the collected iterator; L0 contracts of `iter()` / `iter().rev()`
#[verifier::external_body]
fn hoist_iter<'a>(v: &'a [StreamFilter]) -> (r: Vec<&'a StreamFilter>)
    ensures r@.len() == v@.len(), forall|k: int| 0 <= k < v@.len() ==> *#[trigger] r@[k] == v@[k]
{ v.iter().collect() }
#[verifier::external_body]
fn hoist_iter_rev<'a>(v: &'a [StreamFilter]) -> (r: Vec<&'a StreamFilter>)
    ensures r@.len() == v@.len(), forall|k: int| 0 <= k < v@.len() ==> *#[trigger] r@[k] == v@[v@.len() - 1 - k]
{ v.iter().rev().collect() }
// R6: `EXPR.into_iter().flatten()[.map(Some)].collect()` on a list of optional entries (not in the source; a shape the pairing
// must not take): env model with the std meaning -- the present entries in order, i.e. the list with its null placeholders dropped
pub open spec fn somes<T>(v: Seq<Option<T>>) -> Seq<T> { v.filter(|x: Option<T>| x is Some).map_values(|x: Option<T>| x.unwrap()) }
pub struct SeqIter<A> { pub items: Vec<A> }
impl<A> SeqIter<A> {
    #[verifier::external_body]
    pub fn collect(self) -> (r: Vec<A>) ensures r@ == self.items@ { self.items.into_iter().collect() }
    #[verifier::external_body]
    pub fn map_some__(self) -> (r: SeqIter<Option<A>>) ensures r.items@ == self.items@.map_values(|x: A| Some(x))
    { SeqIter { items: self.items.into_iter().map(Some).collect() } }
}
pub trait FlattenExt<T>: Sized {
    spec fn opt_items(&self) -> Seq<Option<T>>;
    fn into_iter_flatten__(self) -> (r: SeqIter<T>) ensures r.items@ == somes(self.opt_items());
}
impl<T> FlattenExt<T> for Vec<Option<T>> {
    open spec fn opt_items(&self) -> Seq<Option<T>> { self@ }
    #[verifier::external_body]
    fn into_iter_flatten__(self) -> (r: SeqIter<T>) { SeqIter { items: self.into_iter().flatten().collect() } }
}

// R7: std conversions without a vstd specification
#[verifier::external_body]
fn hoist_vec_from(s: &[u8]) -> (r: Vec<u8>) ensures r@ == s@ { Vec::from(s) }
#[verifier::external_body]
fn hoist_range_clone(x: &Range<usize>) -> (r: Range<usize>) ensures r == *x { x.clone() }
#[verifier::external_body]
fn hoist_arc_to_vec(a: &Arc<[u8]>) -> (r: Vec<u8>) ensures r@ == (**a)@ { (&**a).into() }
#[verifier::external_body]
fn hoist_into_arc(v: Vec<u8>) -> (r: Arc<[u8]>) ensures (*r)@ == v@ { v.into() }
// R7: the deref coercion `&Arc<[u8]> -> &[u8]` at a call `decode(<&Arc<[u8]>>, ..)` (not in the pinned text; hardening round 3)
#[verifier::external_body]
fn hoist_arc_slice<'a>(a: &'a Arc<[u8]>) -> (r: &'a [u8]) ensures r@ == (**a)@ { &**a }

// crypt.rs:547 (abstract callee; Algorithm 1 / 1.A: unit decrypt). The real parameter is `&'buf mut [u8]` and the result
// borrows from it; the call site passes `&mut data` with `data: Vec<u8>`.
#[verifier::external_body] pub struct Decoder { _p: () }
pub uninterp spec fn decrypted(d: Decoder, id: PlainRef, data: Seq<u8>) -> Option<Seq<u8>>;
impl Decoder {
    #[verifier::external_body]
    pub fn decrypt<'buf>(&self, id: PlainRef, data: &'buf mut Vec<u8>) -> (r: Result<&'buf [u8]>)
        ensures match decrypted(*self, id, old(data)@) { Some(v) => r matches Ok(o) && o@ == v, None => r is Err }
    { unimplemented!() }
}
pub open spec fn plain_of(d: Option<Decoder>, id: PlainRef, raw: Seq<u8>) -> Option<Seq<u8>> {
    match d { Some(dec) => decrypted(dec, id, raw), None => Some(raw) }
}

// IndexRange / Backend::read: contract as in unit xrefchain (to_range and the range impls are under proof there)
pub trait IndexRange {
    spec fn lo(&self) -> Option<usize>;
    spec fn hi(&self) -> Option<usize>;
}
impl IndexRange for Range<usize> {
    open spec fn lo(&self) -> Option<usize> { Some(self.start) }
    open spec fn hi(&self) -> Option<usize> { Some(self.end) }
}
pub trait Backend: Sized {
    spec fn bytes(&self) -> Seq<u8>;
    fn read<T: IndexRange>(&self, range: T) -> (r: Result<&[u8]>)
        ensures match (range.lo(), range.hi()) {
            (Some(a), Some(b)) => if a <= b && b <= self.bytes().len() { r matches Ok(s) && s@ == self.bytes().subrange(a as int, b as int) } else { r is Err },
            _ => true };
}

//@@ struct StreamInfo
//@@ enum StreamData
//@@ struct Stream
//@@ struct Storage

impl StreamFilter {
//@@ StreamFilter::from_kind_and_params
}

// R2: the trait method `<StreamInfo<T> as Object>::from_primitive` emitted as an inherent fn
impl<T: Object> StreamInfo<T> {
//@@ StreamInfo::from_primitive
}

//@@ decode

impl<B: Backend, OC, SC, L> Storage<B, OC, SC, L> {
    // the stored bytes of a stream: the file content at its `file_range` (absolute positions, see units lexer / resolve / scan),
    // decrypted with the document's decoder under the stream's object id (7.6.1: "filters shall be applied ... after decryption")
    pub open spec fn stored_plain(&self, id: PlainRef, range: Range<usize>) -> Option<Seq<u8>> {
        if range.start <= range.end && range.end <= self.backend.bytes().len() {
            plain_of(self.decoder, id, self.backend.bytes().subrange(range.start as int, range.end as int))
        } else { None }
    }
//@@ Storage::decode
}
//@@ struct StorageResolver
#[verifier::external_body]
fn hoist_slice_into_arc(s: &[u8]) -> (r: Arc<[u8]>) ensures (*r)@ == s@ { s.into() }
#[verifier::external_body]
fn hoist_no_filters() -> (r: &'static [StreamFilter]) ensures r@.len() == 0 { &[] }
impl<'a, B: Backend, OC, SC, L> StorageResolver<'a, B, OC, SC, L> {
//@@ StorageResolver::stream_data
}


impl<I: Object> Stream<I> {
//@@ Stream::data
}

}
fn main(){}
