#!/usr/bin/env python3
"""Regenerates mutants/*.diff and benign/*.diff.  Each = /repo + findings/*_fix.diff (those that still apply) + ONE edit,
written as a diff against /repo.  Run: python3 units/<unit>/gen_mutants.py"""
import os, subprocess, tempfile, shutil, glob
HERE = os.path.dirname(os.path.abspath(__file__))
C = 'pdf/src/object/function.rs'

MUTANTS = {
 'index_sum_unchecked': ('SampledFunction::apply/panic_free', C, 'let idx = i0.saturating_add(s0.saturating_mul(i1)).saturating_mul(n_out);', 'let idx = (i0 + s0.saturating_mul(i1)).saturating_mul(n_out);'),
 'size_product_unchecked': ('SampledFunction::apply/panic_free', C, 'i1.saturating_add(s1.saturating_mul(i2))', 'i1.saturating_add(s1 * i2)'),
 'tail_slice_unchecked': ('SampledFunction::apply/panic_free', C, 'zip(self.data.get(idx..).unwrap_or(&[]))', 'zip(&self.data[idx..])'),
 'arity_check_weakened': ('SampledFunction::apply/', C, '        if x.len() != self.input.len() {', '        if x.len() > self.input.len() {'),
 'apply_indexes_x0': ('Function::apply/panic_free', C, 'let x0 = *try_opt!(x.first());', 'let x0 = x[0];'),
 'domain_check_off_by_one': ('Function::from_dict/panic_free', C, 'if raw.domain.len() < 2 {', 'if raw.domain.len() < 1 {'),
 'range_unwrapped': ('Function::from_primitive/panic_free', C, 'range: try_opt!(info.range) })', 'range: info.range.unwrap() })'),
 'size_minus_one': ('Function::from_primitive/panic_free', C, 'n.saturating_sub(1) as f32', '(n-1) as f32'),
 'reference_not_resolved': ('Function::from_primitive/terminates', C, 'Self::from_primitive(resolve.resolve(r)?, resolve)', 'Self::from_primitive(Primitive::Reference(r), resolve)'),
 'clamp_restored': ('SampledFunctionInput::map/panic_free', C, 'x.max(self.domain.0).min(self.domain.1)', 'x.clamp(self.domain.0, self.domain.1)'),
 'input_dim_panics': ('Function::input_dim/panic_free', C, '            Function::Interpolated(_) => 1,\n', ''),
}
BENIGN = {
 'product_commuted': (C, 'if out.len() * 2 != self.range.len() {', 'if 2 * out.len() != self.range.len() {'),
 'size_range_reordered': (C, None, None),
}


def main():
    tmp = tempfile.mkdtemp(prefix='mut_')
    try:
        files = sorted({m[1] for m in MUTANTS.values()} | {b[0] for b in BENIGN.values()})
        for side in 'ab':
            for f in files:
                os.makedirs(os.path.join(tmp, side, os.path.dirname(f)), exist_ok=True)
                shutil.copy(os.path.join('/repo', f), os.path.join(tmp, side, f))
        for fx in sorted(glob.glob(os.path.join(HERE, 'findings', '*_fix.diff'))):
            subprocess.run(['patch', '-p1', '-s', '-N', '-r', '-', '-i', fx], cwd=os.path.join(tmp, 'b'))
        fixed = {f: open(os.path.join(tmp, 'b', f)).read() for f in files}
        BENIGN['size_range_reordered'] = (C, '                        let size = try_opt!(info.size);\n                        let range = try_opt!(info.range);\n',
                                          '                        let range = try_opt!(info.range);\n                        let size = try_opt!(info.size);\n')
        for kind, table in (('mutants', MUTANTS), ('benign', BENIGN)):
            os.makedirs(os.path.join(HERE, kind), exist_ok=True)
            for name, spec in table.items():
                expect, f, old, new = spec if kind == 'mutants' else (None,) + spec
                assert fixed[f].count(old) == 1, (name, fixed[f].count(old))
                open(os.path.join(tmp, 'b', f), 'w').write(fixed[f].replace(old, new))
                d = ''
                for g in files:
                    d += subprocess.run(['diff', '-u', '--label', 'a/' + g, '--label', 'b/' + g, 'a/' + g, 'b/' + g],
                                        cwd=tmp, capture_output=True, text=True).stdout
                open(os.path.join(tmp, 'b', f), 'w').write(fixed[f])
                head = ('# expect: %s\n# (contains the hunks of findings/*_fix.diff, see gen_mutants.py)\n' % expect) if expect else \
                       '# benign edit: must NOT be reported as failed (includes the fix hunks)\n'
                open(os.path.join(HERE, kind, name + '.diff'), 'w').write(head + d)
    finally:
        shutil.rmtree(tmp)


if __name__ == '__main__':
    main()
