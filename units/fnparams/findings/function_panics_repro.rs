// Hostile numeric parameters in function dictionaries and hostile inputs to Function::apply (pdf/src/object/function.rs).
// Drop into a scratch copy of /repo as pdf/tests/function_panics_repro.rs and run
//   CARGO_TARGET_DIR=/tmp/fnparams_target cargo test --offline -p pdf --test function_panics_repro -- --test-threads 1
use pdf::file::FileOptions;
use pdf::object::*;
use pdf::primitive::Primitive;

fn build_pdf(objs: &[&str]) -> Vec<u8> {
    let mut out = b"%PDF-1.7\n".to_vec();
    let mut offs = vec![];
    for (i, body) in objs.iter().enumerate() {
        offs.push(out.len());
        out.extend_from_slice(format!("{} 0 obj\n{}\nendobj\n", i + 1, body).as_bytes());
    }
    let xref = out.len();
    out.extend_from_slice(format!("xref\n0 {}\n0000000000 65535 f \n", objs.len() + 1).as_bytes());
    for o in &offs { out.extend_from_slice(format!("{:010} 00000 n \n", o).as_bytes()); }
    out.extend_from_slice(format!("trailer\n<< /Size {} /Root 1 0 R >>\nstartxref\n{}\n%%EOF\n", objs.len() + 1, xref).as_bytes());
    out
}
/// load object 3 as a Function and apply it; a panic anywhere fails the test, Ok/Err are both fine
fn run(body: &str, x: &[f32], n_out: usize) {
    let data = build_pdf(&["<< /Type /Catalog /Pages 2 0 R >>", "<< /Type /Pages /Kids [] /Count 0 >>", body]);
    let file = FileOptions::cached().load(data).expect("document loads");
    let resolver = file.resolver();
    let r = std::panic::catch_unwind(std::panic::AssertUnwindSafe(|| {
        let f = Function::from_primitive(Primitive::Reference(PlainRef { id: 3, gen: 0 }), &resolver);
        match f {
            Ok(f) => { let mut out = vec![0.0f32; n_out]; format!("loaded, apply -> {:?} {:?}", f.apply(x, &mut out).map_err(|e| e.to_string()), out) }
            Err(e) => format!("load -> Err({})", e),
        }
    }));
    match r {
        Ok(s) => println!("{} x={:?}: {}", body.lines().next().unwrap(), x, s),
        Err(_) => panic!("PANICKED on {} x={:?}", body, x),
    }
}
fn sampled(dict: &str, data: &str) -> String { format!("<< /FunctionType 0 {} /BitsPerSample 8 /Length {} >>\nstream\n{}\nendstream", dict, data.len(), data) }

#[test] fn type2_empty_domain() { run("<< /FunctionType 2 /Domain [] /C0 [0] /N 1 >>", &[0.5], 1); }
#[test] fn type4_without_range() { run("<< /FunctionType 4 /Domain [0 1] /Length 9 >>\nstream\n{ 1 add }\nendstream", &[0.5], 1); }
#[test] fn type0_size_zero() { run(&sampled("/Domain [0 1] /Range [0 1] /Size [0]", "0"), &[0.5], 1); }
#[test] fn type2_apply_no_input() { run("<< /FunctionType 2 /Domain [0 1] /C0 [0] /C1 [1] /N 1 >>", &[], 1); }
/// /Domain [1 0]: f32::clamp asserts min <= max
#[test] fn type0_reversed_domain() { run(&sampled("/Domain [1 0] /Range [0 1] /Size [2]", "AB"), &[0.5], 1); }
/// one input, sample data shorter than /Size promises (or /Encode beyond it): &self.data[idx..]
#[test] fn type0_1d_short_data() { run(&sampled("/Domain [0 1] /Range [0 1] /Size [2] /Encode [0 1000]", "AB"), &[1.0], 1); }
/// one input, huge /Encode: i * n_out
#[test] fn type0_1d_huge_encode() { run(&sampled("/Domain [0 1] /Range [0 1 0 1] /Size [2] /Encode [0 1000000000000000000000000000000.0]", "ABCD"), &[1.0], 2); }
/// two inputs, huge /Encode: i0 + 1 on a saturated index
#[test] fn type0_2d_huge_encode() { run(&sampled("/Domain [0 1 0 1] /Range [0 1] /Size [2 2] /Encode [0 1000000000000000000000000000000.0 0 1000000000000000000000000000000.0]", "ABCD"), &[1.0, 1.0], 1); }
/// three inputs, /Size product beyond usize: s0 * (i1 + s1 * i2)
#[test] fn type0_3d_size_product() { run(&sampled("/Domain [0 1 0 1 0 1] /Range [0 1] /Size [2147483647 2147483647 2147483647] /Encode [0 2147483647.0 0 2147483647.0 0 2147483647.0]", "ABCD"), &[1.0, 1.0, 1.0], 1); }
/// controls
#[test] fn type0_control() { run(&sampled("/Domain [0 1] /Range [0 1] /Size [2]", "\x00\u{7f}"), &[1.0], 1); }
#[test] fn type2_control() { run("<< /FunctionType 2 /Domain [0 1] /C0 [0] /C1 [1] /N 1 >>", &[0.5], 1); }
/// the public accessors on an exponential function: `_ => panic!()`
#[test] fn type2_dims() {
    let data = build_pdf(&["<< /Type /Catalog /Pages 2 0 R >>", "<< /Type /Pages /Kids [] /Count 0 >>", "<< /FunctionType 2 /Domain [0 1] /C0 [0 0] /C1 [1 1] /N 1 >>"]);
    let file = FileOptions::cached().load(data).expect("document loads");
    let resolver = file.resolver();
    let f = Function::from_primitive(Primitive::Reference(PlainRef { id: 3, gen: 0 }), &resolver).expect("loads");
    let r = std::panic::catch_unwind(std::panic::AssertUnwindSafe(|| (f.input_dim(), f.output_dim())));
    println!("type 2 function: (input_dim, output_dim) = {:?}", r.as_ref().ok());
    assert!(r.is_ok(), "Function::input_dim / output_dim PANICKED on an exponential function");
}
