"""Unit `fnparams` (C14 "function objects", C01): pdf/src/object/function.rs loaders (types 0, 2, 4) and evaluation.
All obligations are safety obligations (panic-free, overflow-free, terminating) plus which inputs must be errors."""
F = 'pdf/src/object/function.rs'
P = 'pdf/src/primitive.rs'
PROPS = ['C14', 'C01']


def pubf(*fields):
    return [{'rule': 'R2', 'regex': r'(?<![\w.])(?<!pub )%s:' % f, 'replace': 'pub %s:' % f} for f in fields]


def decl(header, fields=(), file=F, attrs=None):
    vis = [] if header.startswith('^pub') else [{'rule': 'R2', 'regex': r'\A(struct|enum) ', 'replace': r'pub \1 '}]
    return {'kind': 'decl', 'file': file, 'header': header, 'attrs': attrs or [], 'rewrites': vis + pubf(*fields)}


# R4: `panic!()` -> a helper with `requires false` (same meaning; the macro expansion's span is not attributable to the item)
PANIC = {'rule': 'R4', 'find': 'panic!()', 'replace': 'explicit_panic()'}
UNIMPL = {'rule': 'R4', 'regex': r'unimplemented!\(\)', 'count': '*', 'replace': 'bail!("Unimplemented")'}   # the crate's own macro (error.rs:322)

# ---- f32 operations of SampledFunction::apply (R7: opaque helpers, operands verbatim) ----
FLOAT = [
    {'rule': 'R7', 'regex': r'\b([ab]) as f32', 'count': '*', 'replace': r'u8_as_f32(\1)'},
    {'rule': 'R7', 'regex': r'1\. - (\w+)', 'count': '*', 'replace': r'f32_sub(1., \1)'},
    {'rule': 'R7', 'regex': r'\b([fg]\d) \* ([fg]\d) \* ([fg]\d)', 'count': '*', 'replace': r'f32_mul(f32_mul(\1, \2), \3)'},
    {'rule': 'R7', 'regex': r'\b([fg]\d) \* ([fg]\d)', 'count': '*', 'replace': r'f32_mul(\1, \2)'},
    {'rule': 'R7', 'regex': r'u8_as_f32\(a\) \* \(f32_sub\(1\., s\)\)', 'count': '*', 'replace': 'f32_mul(u8_as_f32(a), f32_sub(1., s))'},
    {'rule': 'R7', 'regex': r'u8_as_f32\(b\) \* s\b', 'count': '*', 'replace': 'f32_mul(u8_as_f32(b), s)'},
    {'rule': 'R7', 'regex': r'\bf \* u8_as_f32\(b\)', 'count': '*', 'replace': 'f32_mul(f, u8_as_f32(b))'},
    {'rule': 'R7', 'regex': r'\*o \+= ([^;]*);', 'count': '*', 'replace': r'*o = f32_add(*o, \1);'},
    {'rule': 'R7', 'regex': r'out\.fill\(0\.0\);', 'count': '*', 'replace': 'fill_zero(out);'},
]
# R8: the capturing FnMut closure `add` is inlined at its calls: body and argument expressions verbatim
T2 = r'(?:: usize)?'
TF = r'(?:: f32)?'
ADD2 = {'rule': 'R8', 'regex': r'let mut add = \|i0%s, i1%s, f%s\| \{(.*?)\};\s*' % (T2, T2, TF) + r'\s*'.join([r'add\(([^;]*?)\);'] * 4),
        'replace': ' '.join(r'{ let (i0, i1, f) = (\%d); \1 }' % k for k in range(2, 6))}
ADD3 = {'rule': 'R8', 'regex': r'let mut add = \|i0%s, i1%s, i2%s, f%s\| \{(.*?)\};\s*' % (T2, T2, T2, TF) + r'\s*'.join([r'add\(([^;]*?)\);'] * 8),
        'replace': ' '.join(r'{ let (i0, i1, i2, f) = (\%d); \1 }' % k for k in range(2, 10))}

APPLY_S = [
    UNIMPL, ADD2, ADD3,
    # R5: ref patterns in for loops
    {'rule': 'R5', 'regex': r'for \(o, &(\w)\) in ([^{]*)\{', 'count': '*', 'replace': r'for (o, \1_) in \2{ let \1 = *\1_;'},
    # R7: slices of the sample data (either shape: pinned / with findings/function_panics_fix.diff)
    {'rule': 'R7', 'regex': r'&self\.data\[([^\]]*?)\.\.\]', 'count': '*', 'replace': r'data_tail(&self.data, \1)'},
    {'rule': 'R7', 'regex': r'self\.data\.get\(([^()]*(?:\([^()]*\))?[^()]*?)\.\.\)\.unwrap_or\(&\[\]\)', 'count': '*', 'replace': r'data_tail_or_empty(&self.data, \1)'},
    {'rule': 'R7', 'regex': r'self\.data\.get\((\w+) \.\. ([^;{]*?)\) \{', 'count': '*', 'replace': r'data_get_range(&self.data, \1, \2) {'},
    # the final loop: `*y = o.map(*y)`
] + FLOAT

UNIT = {
 'name': 'fnparams',
 'doc': 'function objects (types 0, 2, 4): parameter validation on load and index arithmetic on evaluation never panic',
 'rlimit': 40, 'timeout': 1200,
 'items': {
  'enum Primitive': decl(r'^pub enum Primitive$', file=P),
  'struct Name': decl(r'^pub struct Name\b', file=P),
  'struct RawFunction': decl(r'^struct RawFunction$', ['function_type', 'domain', 'range', 'size', '_bits_per_sample', 'order', 'encode', 'decode', 'other']),
  'struct Function2': decl(r'^struct Function2$', ['c0', 'c1', 'exponent']),
  'enum Function': decl(r'^pub enum Function$'),
  'struct SampledFunctionInput': decl(r'^struct SampledFunctionInput$', ['domain', 'encode_offset', 'encode_scale', 'size']),
  'struct SampledFunctionOutput': decl(r'^struct SampledFunctionOutput$', ['offset', 'scale']),
  'enum Interpolation': decl(r'^enum Interpolation$'),
  'struct SampledFunction': decl(r'^pub struct SampledFunction$', ['input', 'output', 'data', 'order', 'range']),
  'struct InterpolatedFunctionDim': decl(r'^pub struct InterpolatedFunctionDim$'),

  'SampledFunctionInput::map': {'kind': 'fn', 'file': F, 'container': r'^impl SampledFunctionInput$', 'name': 'map', 'props': PROPS,
     'ensures': [('size_is_passed_on', 'r.1 == self.size')],
     'rewrites': [
        {'rule': 'R7', 'regex': r'x\.clamp\(([^,]*), ([^)]*)\)', 'count': '*', 'replace': r'f32_clamp(x, \1, \2)'},
        {'rule': 'R7', 'regex': r'x\.max\(([^)]*)\)\.min\(([^)]*)\)', 'count': '*', 'replace': r'f32_min(f32_max(x, \1), \2)'},
        {'rule': 'R7', 'find': 'x.mul_add(self.encode_scale, self.encode_offset)', 'replace': 'f32_mul_add(x, self.encode_scale, self.encode_offset)'},
        {'rule': 'R7', 'find': 'y.floor() as usize', 'replace': 'f32_floor_as_usize(y)'},
        {'rule': 'R7', 'find': 'y.fract()', 'replace': 'f32_fract(y)'}]},
  'SampledFunctionOutput::map': {'kind': 'fn', 'file': F, 'container': r'^impl SampledFunctionOutput$', 'name': 'map', 'props': PROPS,
     'rewrites': [{'rule': 'R7', 'find': 'x.mul_add(self.scale, self.offset)', 'replace': 'f32_mul_add(x, self.scale, self.offset)'}]},
  'InterpolatedFunctionDim::apply': {'kind': 'fn', 'file': F, 'container': r'^impl InterpolatedFunctionDim$', 'name': 'apply', 'props': PROPS,
     'rewrites': [{'rule': 'R7', 'find': 'self.c0 + x.powf(self.exponent) * (self.c1 - self.c0)',
                   'replace': 'f32_add(self.c0, f32_mul(f32_powf(x, self.exponent), f32_sub(self.c1, self.c0)))'},
                  {'rule': 'R7', 'find': 'y.min(y1).max(y0)', 'replace': 'f32_max(f32_min(y, y1), y0)'}]},

  'SampledFunction::apply': {'kind': 'fn', 'file': F, 'container': r'^impl SampledFunction$', 'name': 'apply', 'props': PROPS,
     # [A: Rust] a slice has at most isize::MAX elements (needed for `out.len() * 2`)
     'requires': ['old(out)@.len() <= isize::MAX'],
     'ensures': [('arity_mismatch_is_err', '(x@.len() != self.input@.len() || old(out)@.len() * 2 != self.range@.len()) ==> r is Err'),
                 ('unsupported_dimension_is_err', '(x@.len() == 0 || x@.len() > 3 || self.order is Cubic) ==> r is Err'),
                 ('out_len_kept', 'final(out)@.len() == old(out)@.len()')],
     'rewrites': APPLY_S},

  'Function::apply': {'kind': 'fn', 'file': F, 'container': r'^impl Function$', 'name': 'apply', 'props': PROPS,
     'requires': ['old(out)@.len() <= isize::MAX'],
     'ensures': [('exponential_arity_is_err', '(self matches Function::Interpolated(parts) && (parts@.len() != old(out)@.len() || (x@.len() == 0 && parts@.len() > 0))) ==> r is Err'),
                 ('unimplemented_kinds_are_err', '(self is Stiching || self is Calculator) ==> r is Err'),
                 ('out_len_kept', 'final(out)@.len() == old(out)@.len()')],
     'rewrites': [
        # R6: `for (f, y) in parts.iter().zip(out)` -> index loop (out is a `&mut [f32]` parameter; same pairs in the same order)
        {'rule': 'R6', 'regex': r'for \(f, y\) in parts\.iter\(\)\.zip\(out\) \{\s*\*y = (.*?);\s*\}',
         'replace': r'let mut k: usize = 0; while k < parts.len() && k < out.len() invariant out@.len() == old(out)@.len(), parts@.len() == old(out)@.len() decreases parts@.len() - k { let f = &parts[k]; out[k] = \1; k += 1; }'}]},
  'Function::input_dim': {'kind': 'fn', 'file': F, 'container': r'^impl Function$', 'name': 'input_dim', 'props': PROPS,
     # no call site inside the crate (public API); Stiching / Calculator are never constructed by the loaders (constructed_variants)
     'requires': ['!(self is Stiching || self is Calculator)'], 'rewrites': [PANIC]},
  'Function::output_dim': {'kind': 'fn', 'file': F, 'container': r'^impl Function$', 'name': 'output_dim', 'props': PROPS,
     'requires': ['!(self is Stiching || self is Calculator)'], 'rewrites': [PANIC]},

  'Function::from_dict': {'kind': 'fn', 'file': F, 'container': r'^impl FromDict for Function$', 'name': 'from_dict', 'props': PROPS,
     'ensures': [('constructed_variants', 'r matches Ok(f) ==> f is Interpolated')],
     'loops': {1: {'for_ghost': 'it', 'invariant': ['n_dim <= 0x1fff_ffff_ffff_ffff', 'raw.domain@.len() >= 2']}},
     'rewrites': [
        {'rule': 'R2', 'find': 'use std::f32::INFINITY;', 'replace': ''},
        {'rule': 'R4', 'find': 'dbg!(raw);', 'replace': ''},
        {'rule': 'R2', 'find': 'Ok(Function::Interpolated(parts))', 'replace': 'Ok(Function::Interpolated(parts))'},
        # R7: o.as_ref().and_then(|v| v.get(I).cloned()).unwrap_or(D): index expression I verbatim (checked for overflow)
        {'rule': 'R7', 'regex': r'(raw\.range|f2\.c0|f2\.c1)\.as_ref\(\)\.and_then\(\|(\w+)\| \2\.get\(([^)]*)\)\.cloned\(\)\)\.unwrap_or\(([^)]*)\)', 'count': 4,
         'replace': r'opt_vec_get_or(&\1, \3, \4)'},
        {'rule': 'R7', 'find': '-INFINITY', 'replace': 'f32_neg_inf()'},
        {'rule': 'R7', 'regex': r'(?<![_\w])INFINITY\)', 'replace': 'f32_inf())'},
     ]},
  'Function::from_primitive': {'kind': 'fn', 'file': F, 'container': r'^impl Object for Function$', 'name': 'from_primitive', 'props': PROPS,
     'ensures': [('constructed_variants', 'r matches Ok(f) ==> (f is Interpolated || f is Sampled || f is PostScript)')],
     'decreases': '(if p is Reference { 1nat } else { 0nat })',
     'rewrites': [
        {'rule': 'R2', 'find': 'Stream::<RawFunction>::from_stream(s, resolve)?', 'replace': 'Stream::<RawFunction>::from_stream(s, resolve)?'},
        # R2: Deref of StreamInfo<I> to I made explicit
        {'rule': 'R2', 'find': 'match stream.info.function_type {', 'replace': 'match stream.info.info.function_type {'},
        # R3: `?` with an error conversion (Utf8Error -> PdfError)
        {'rule': 'R3', 'find': 'std::str::from_utf8(&data)?', 'replace': 'utf8_of(&data)?'},
        # R8: unwrap_or_else(|| e) == match { Some(v) => v, None => e }
        {'rule': 'R8', 'regex': r'info\.encode\.unwrap_or_else\(\|\| (.*?)\);\s*let decode', 'replace': r'match info.encode { Some(v) => v, None => \1 }; let decode'},
        {'rule': 'R8', 'find': 'info.decode.unwrap_or_else(|| range.clone())', 'replace': 'match info.decode { Some(v) => v, None => vec_f32_clone(&range) }'},
        # R7: size.iter().flat_map(CLOSURE).collect(): the closure body stays under proof (its `n-1`)
        {'rule': 'R7', 'regex': r'size\.iter\(\)\.flat_map\(\|&n\| \[0\.0, (.*?) as f32\]\)\.collect\(\)',
         'replace': r'flat_map_pairs(&size, |n_: &u32| -> (pair: [f32; 2]) { let n = *n_; [0.0, u32_as_f32(\1)] })'},
        # R7: the two izip!/chunks_exact(2)/map/collect chains
        {'rule': 'R7', 'regex': r'input: izip!\(info\.domain\.chunks_exact\(2\), encode\.chunks_exact\(2\), size\.iter\(\)\)\.map\(.*?\)\.collect\(\),\s*output:', 'replace': 'input: build_inputs(&info.domain, &encode, &size), output:'},
        {'rule': 'R7', 'regex': r'output: decode\.chunks_exact\(2\)\.map\(.*?\)\.collect\(\),\s*data,', 'replace': 'output: build_outputs(&decode), data,'},
        {'rule': 'R2', 'find': 'ref p => bail!', 'replace': '_ => bail!'},
     ]},
 },
}
