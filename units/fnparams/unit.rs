// Unit `fnparams` (C14 "function objects", C01): pdf/src/object/function.rs -- loading of function dictionaries
// (types 0, 2, 4) and evaluation (Function::apply, SampledFunction::apply, interpolation index arithmetic):
// panic-free and terminating for ALL numeric parameters and input lengths.  f32 values are opaque.
use vstd::prelude::*;
use std::sync::Arc;
//@@ INCLUDE _common/error_macros.rs
verus! {
global size_of usize == 8;

//@@ PDFERROR

// ---- env: opaque types ----
#[verifier::external_body] pub struct SmallString { p: core::marker::PhantomData<()> }
#[verifier::external_body] pub struct PdfString { p: core::marker::PhantomData<()> }
#[verifier::external_body] pub struct PdfStream { p: core::marker::PhantomData<()> }
#[verifier::external_body] pub struct Dictionary { p: core::marker::PhantomData<()> }
#[verifier::external_body] pub struct PlainRef { p: core::marker::PhantomData<()> }
#[verifier::external_body] pub struct PsFunc { p: core::marker::PhantomData<()> }
//@@ enum Primitive
//@@ struct Name

//@@ struct RawFunction
//@@ struct Function2
//@@ enum Function
//@@ struct SampledFunctionInput
//@@ struct SampledFunctionOutput
//@@ enum Interpolation
//@@ struct SampledFunction
//@@ struct InterpolatedFunctionDim

// [A: Rust] a Vec<f32>/Vec<u32> occupies at most isize::MAX bytes
pub open spec fn vlen_ok<T>(v: Vec<T>) -> bool { v@.len() <= 0x1fff_ffff_ffff_ffff }
pub open spec fn olen_ok<T>(v: Option<Vec<T>>) -> bool { v matches Some(w) ==> vlen_ok(w) }

pub trait Resolve {
    // pdf/src/object/mod.rs Resolve::resolve (= resolve_flags(r, ANY, 16)); `never_a_reference` is proved for the crate's
    // resolver in units/guard (StorageResolver::resolve_flags follows reference chains within its depth budget)
    fn resolve(&self, r: PlainRef) -> (res: Result<Primitive>)
        ensures !(res matches Ok(Primitive::Reference(_)));
}
// derive(Object)-generated readers (units/expansions): abstract; only the language invariant on the vectors they return
impl RawFunction {
    #[verifier::external_body]
    pub fn from_dict(dict: Dictionary, resolve: &impl Resolve) -> (r: Result<RawFunction>)
        ensures r matches Ok(f) ==> vlen_ok(f.domain) && olen_ok(f.range) && olen_ok(f.size) && olen_ok(f.encode) && olen_ok(f.decode)
    { unimplemented!() }
}
impl Function2 {
    #[verifier::external_body]
    pub fn from_dict(dict: Dictionary, resolve: &impl Resolve) -> (r: Result<Function2>)
        ensures r matches Ok(f) ==> olen_ok(f.c0) && olen_ok(f.c1)
    { unimplemented!() }
}
// env twin of object/stream.rs Stream<I> / StreamInfo<I> (only the typed dictionary is looked at)
pub struct StreamInfo<I> { pub info: I }
pub struct Stream<I> { pub info: StreamInfo<I> }
impl Stream<RawFunction> {
    #[verifier::external_body]
    pub fn from_stream(s: PdfStream, resolve: &impl Resolve) -> (r: Result<Stream<RawFunction>>)
        ensures r matches Ok(st) ==> vlen_ok(st.info.info.domain) && olen_ok(st.info.info.range) && olen_ok(st.info.info.size)
            && olen_ok(st.info.info.encode) && olen_ok(st.info.info.decode)
    { unimplemented!() }
    #[verifier::external_body]
    pub fn data(&self, resolve: &impl Resolve) -> (r: Result<Arc<[u8]>>) { unimplemented!() }
}
impl PsFunc {
    // units/psfunc: PsFunc::exec has no precondition (exec_ok / exec_err_* / panic_free)
    #[verifier::external_body]
    pub fn exec(&self, input: &[f32], output: &mut [f32]) -> (r: Result<()>)
        ensures final(output)@.len() == old(output)@.len() { unimplemented!() }
    #[verifier::external_body]
    pub fn parse(s: &str) -> (r: Result<PsFunc>) { unimplemented!() }
}

// ---- f32: opaque.  Every operation is a helper without precondition, except `clamp` (std: assert!(min <= max)) ----
pub uninterp spec fn f32_le(a: f32, b: f32) -> bool;     // a <= b as IEEE comparison (false if either is NaN)
#[verifier::external_body] fn f32_add(a: f32, b: f32) -> f32 { a + b }
#[verifier::external_body] fn f32_sub(a: f32, b: f32) -> f32 { a - b }
#[verifier::external_body] fn f32_mul(a: f32, b: f32) -> f32 { a * b }
#[verifier::external_body] fn f32_div(a: f32, b: f32) -> f32 { a / b }
#[verifier::external_body] fn f32_neg_inf() -> f32 { -f32::INFINITY }
#[verifier::external_body] fn f32_inf() -> f32 { f32::INFINITY }
#[verifier::external_body] fn u8_as_f32(a: u8) -> f32 { a as f32 }
#[verifier::external_body] fn u32_as_f32(a: u32) -> f32 { a as f32 }
// std f32::clamp: "Panics if min > max, min is NaN, or max is NaN"
#[verifier::external_body] fn f32_clamp(x: f32, lo: f32, hi: f32) -> f32 requires f32_le(lo, hi) { x.clamp(lo, hi) }
#[verifier::external_body] fn f32_max(a: f32, b: f32) -> f32 { a.max(b) }
#[verifier::external_body] fn f32_min(a: f32, b: f32) -> f32 { a.min(b) }
#[verifier::external_body] fn f32_mul_add(x: f32, a: f32, b: f32) -> f32 { x.mul_add(a, b) }
#[verifier::external_body] fn f32_powf(x: f32, e: f32) -> f32 { x.powf(e) }
#[verifier::external_body] fn f32_fract(x: f32) -> f32 { x.fract() }
// `y.floor() as usize`: saturating cast, any usize can come out (NaN -> 0, +inf -> usize::MAX)
#[verifier::external_body] fn f32_floor_as_usize(y: f32) -> usize { y.floor() as usize }
#[verifier::external_body] fn fill_zero(out: &mut [f32]) ensures final(out)@.len() == old(out)@.len() { out.fill(0.0) }

// R4: `panic!()`
#[verifier::external_body] fn explicit_panic() -> ! requires false { panic!() }

// ---- slices of the sample data (Arc<[u8]>) ----
// &data[from..]  (std: panics unless from <= len)
#[verifier::external_body]
fn data_tail(data: &Arc<[u8]>, from: usize) -> (r: &[u8]) requires from <= data@.len() { &data[from..] }
// data.get(from..).unwrap_or(&[])
#[verifier::external_body]
fn data_tail_or_empty(data: &Arc<[u8]>, from: usize) -> (r: &[u8]) { data.get(from..).unwrap_or(&[]) }
// data.get(a .. b)
#[verifier::external_body]
fn data_get_range(data: &Arc<[u8]>, a: usize, b: usize) -> (r: Option<&[u8]>) { data.get(a .. b) }

// o.as_ref().and_then(|v| v.get(i).cloned()).unwrap_or(d)
#[verifier::external_body]
fn opt_vec_get_or(o: &Option<Vec<f32>>, i: usize, d: f32) -> f32 { o.as_ref().and_then(|v| v.get(i).cloned()).unwrap_or(d) }
// std::str::from_utf8(&data) with the error converted (R3)
#[verifier::external_body]
fn utf8_of(data: &Arc<[u8]>) -> (r: Result<&str>) { unimplemented!() }
// size.iter().flat_map(f).collect(): f is applied to every element (so it must accept every element)
#[verifier::external_body]
fn flat_map_pairs<F: Fn(&u32) -> [f32; 2]>(size: &Vec<u32>, f: F) -> (r: Vec<f32>)
    requires forall|n: u32| f.requires((&n,))
{ size.iter().flat_map(f).collect() }
// izip!(domain.chunks_exact(2), encode.chunks_exact(2), size.iter()).map(|(c, e, &s)| SampledFunctionInput { domain: (c[0], c[1]),
//   encode_offset: e[0], encode_scale: e[1], size: s as usize }).collect()   -- chunks_exact(2) yields slices of length 2
#[verifier::external_body]
fn build_inputs(domain: &Vec<f32>, encode: &Vec<f32>, size: &Vec<u32>) -> (r: Vec<SampledFunctionInput>) { unimplemented!() }
// decode.chunks_exact(2).map(|c| SampledFunctionOutput { offset: c[0], scale: (c[1] - c[0]) / 255. }).collect()
#[verifier::external_body]
fn build_outputs(decode: &Vec<f32>) -> (r: Vec<SampledFunctionOutput>) { unimplemented!() }
#[verifier::external_body]
fn vec_f32_clone(v: &Vec<f32>) -> (r: Vec<f32>) ensures r@ == v@ { v.clone() }

impl SampledFunctionInput {
//@@ SampledFunctionInput::map
}
impl SampledFunctionOutput {
//@@ SampledFunctionOutput::map
}
impl InterpolatedFunctionDim {
//@@ InterpolatedFunctionDim::apply
}
impl SampledFunction {
//@@ SampledFunction::apply
}
impl Function {
//@@ Function::apply
//@@ Function::input_dim
//@@ Function::output_dim
//@@ Function::from_dict
//@@ Function::from_primitive
}
}
fn main(){}
