// Unit `primser` (C04; object framing also C09): the container / scalar half of the serialiser in pdf/src/primitive.rs --
// Primitive::serialize (every arm), serialize_list, Dictionary::serialize, PdfStream::serialize -- and the indirect-object
// framing written by Storage::save (pdf/src/file.rs).  Contract: the bytes appended to the sink are `spell(v)`, a spelling
// written from ISO 32000-1:2008 7.3 as a sequence of tokens with the white-space the token rules of 7.2.2 require.
// Leaves (strings, names) are units/serial_leaf's; every write!/writeln! is hoisted (R7) as "appends exactly these bytes".
use vstd::prelude::*;
use vstd::utf8::*;
use std::sync::Arc;
use std::ops::Range;
use std::marker::PhantomData;
use std::collections::HashMap;
//@@ INCLUDE _common/error_macros.rs
verus! {
global size_of usize == 8;
broadcast use vstd::std_specs::hash::group_hash_axioms;

//@@ PDFERROR
//@@ DEVIATIONS

//@@ INCLUDE primser/spec/w0_env_types.rs

// `impl io::Write`: the abstract sink of units/serial_leaf. view = the bytes accepted so far; `infallible` = write_all never
// returns Err (true of Vec<u8>, the sink `Storage::save` and `serialize_ops` use).
#[verifier::external_body]
pub struct Sink { w: Vec<u8> }
impl Sink {
    pub uninterp spec fn view(&self) -> Seq<u8>;
    pub uninterp spec fn infallible(&self) -> bool;
    // Vec::len of the backend (`self.backend.len()` in Storage::save)
    #[verifier::external_body]
    pub fn len(&self) -> (r: usize) ensures r == self@.len() { self.w.len() }
}
// what one hoisted write promises: on Ok exactly `bytes` were appended; an infallible sink answers Ok
pub open spec fn wrote(o: &Sink, n: &Sink, r: Result<()>, bytes: Seq<u8>) -> bool {
    &&& r is Ok ==> n@ == o@ + bytes
    &&& o.infallible() ==> r is Ok
    &&& n.infallible() == o.infallible()
}
//@@ INCLUDE primser/spec/w1_lit_hexdig.rs

//@@ INCLUDE primser/spec/w2_spell.rs

// =====================================================================================================
// L0 helpers (R7): formatting machinery Verus cannot read.  Bodies are the hoisted source expressions
// (io::Error -> PdfError::Io is the `?` conversion of the original statement).  TRUSTED.
// =====================================================================================================
#[verifier::external_body]
fn hoist_write_lit(out: &mut Sink, s: &str) -> (r: Result<()>)
    // write!(out, "<literal without {}>") hands exactly the literal's bytes to write_all
    ensures wrote(old(out), final(out), r, lit_bytes(s@))
{ use std::io::Write; match write!(out.w, "{}", s) { Ok(()) => Ok(()), Err(_) => Err(PdfError::Io) } }

#[verifier::external_body]
fn hoist_writeln_lit(out: &mut Sink, s: &str) -> (r: Result<()>)
    // writeln!(out, "<literal>") = the literal's bytes and one LINE FEED
    ensures wrote(old(out), final(out), r, lit_bytes(s@) + seq![10u8])
{ use std::io::Write; match writeln!(out.w, "{}", s) { Ok(()) => Ok(()), Err(_) => Err(PdfError::Io) } }

#[verifier::external_body]
fn hoist_writeln(out: &mut Sink) -> (r: Result<()>)
    // writeln!(out) = one LINE FEED
    ensures wrote(old(out), final(out), r, seq![10u8])
{ use std::io::Write; match writeln!(out.w) { Ok(()) => Ok(()), Err(_) => Err(PdfError::Io) } }

#[verifier::external_body]
fn hoist_write_i32(out: &mut Sink, i: &i32) -> (r: Result<()>)
    // `{}` of an i32: optional '-' and the decimal digits, no leading zeros, no '+'
    ensures wrote(old(out), final(out), r, dec_int(*i as int))
{ use std::io::Write; match write!(out.w, "{}", i) { Ok(()) => Ok(()), Err(_) => Err(PdfError::Io) } }

#[verifier::external_body]
fn hoist_write_f32_display(out: &mut Sink, n: &f32) -> (r: Result<()>)
    ensures wrote(old(out), final(out), r, f32_display(*n))
{ use std::io::Write; match write!(out.w, "{}", n) { Ok(()) => Ok(()), Err(_) => Err(PdfError::Io) } }

#[verifier::external_body]
fn hoist_write_f32_display_dot0(out: &mut Sink, n: &f32) -> (r: Result<()>)
    // "{}.0"
    ensures wrote(old(out), final(out), r, f32_display(*n) + seq![46u8, 48u8])
{ use std::io::Write; match write!(out.w, "{}.0", n) { Ok(()) => Ok(()), Err(_) => Err(PdfError::Io) } }

#[verifier::external_body]
fn hoist_write_f32_debug(out: &mut Sink, n: &f32) -> (r: Result<()>)
    // `{:?}` of an f32 is a different text (exponent form below 1e-5 and from 1e16): nothing is known about it here
    ensures wrote(old(out), final(out), r, f32_debug(*n))
{ use std::io::Write; match write!(out.w, "{:?}", n) { Ok(()) => Ok(()), Err(_) => Err(PdfError::Io) } }

// float-to-integer casts (only in an optional helper `serialize_real`, not in the pinned text): NO contract -- nothing is known
// about the integer (Rust: truncation toward zero, saturating at the bounds, NaN -> 0)
#[verifier::external_body]
fn hoist_f32_as_i64(n: f32) -> (r: i64) { n as i64 }
#[verifier::external_body]
fn hoist_f32_as_i32(n: f32) -> (r: i32) { n as i32 }
#[verifier::external_body]
fn hoist_f32_as_u64(n: f32) -> (r: u64) { n as u64 }
#[verifier::external_body]
fn hoist_f32_as_u32(n: f32) -> (r: u32) { n as u32 }
// Any other one-argument format (fallback of the R7 hoists in `serialize_real`): what `write!(out, FMT, a)` prints is a function
// of the format string and of the argument's value, and nothing more is known about it (`fmt_spec` is uninterpreted). The format
// string of `write!` must be a literal, so the hoisted expression cannot be written generically: pure env stub.
pub uninterp spec fn fmt_spec<T>(fmt: Seq<char>, a: T) -> Seq<u8>;
#[verifier::external_body]
fn hoist_write_fmt<T>(out: &mut Sink, fmt: &str, a: T) -> (r: Result<()>)
    // trusted: formatting a number never fails by itself; the bytes handed to write_all depend on (fmt, a) only
    ensures wrote(old(out), final(out), r, fmt_spec(fmt@, a))
{ unimplemented!() /* write!(out.w, <fmt>, a) */ }

#[verifier::external_body]
fn hoist_f32_fract_is_zero(n: &f32) -> (r: bool)
    // `n.fract() == 0.0`: true exactly for the finite values without fractional part, and `{}` prints a PERIOD exactly
    // for the finite values WITH a fractional part (sampled natively, findings/real_without_period.md)
    ensures r ==> f32_finite(*n) && !has_period(f32_display(*n)),
            !r && f32_finite(*n) ==> has_period(f32_display(*n)),
{ n.fract() == 0.0 }

#[verifier::external_body]
fn hoist_write_bool(out: &mut Sink, b: &bool) -> (r: Result<()>)
    // `{}` of a bool prints `true` / `false`
    ensures wrote(old(out), final(out), r, if *b { KW_TRUE() } else { KW_FALSE() })
{ use std::io::Write; match write!(out.w, "{}", b) { Ok(()) => Ok(()), Err(_) => Err(PdfError::Io) } }

#[verifier::external_body]
fn hoist_write_ref(out: &mut Sink, a: u64, b: u64) -> (r: Result<()>)
    // "{} {} R" of two u64: decimal digits, one SPACE, decimal digits, one SPACE, `R`
    ensures wrote(old(out), final(out), r, dec_int(a as int) + seq![32u8] + dec_int(b as int) + seq![32u8, 82u8])
{ use std::io::Write; match write!(out.w, "{} {} R", a, b) { Ok(()) => Ok(()), Err(_) => Err(PdfError::Io) } }

#[verifier::external_body]
fn hoist_write_name_display_sp(out: &mut Sink, key: &Name) -> (r: Result<()>)
    // "{} " of a Name: `Display for Name` is `write!(f, "/{}", self.0)`: SOLIDUS, the str as it is, then one SPACE
    ensures wrote(old(out), final(out), r, seq![47u8] + encode_utf8(key.0@) + seq![32u8])
{ use std::io::Write; match write!(out.w, "/{} ", key.0.s) { Ok(()) => Ok(()), Err(_) => Err(PdfError::Io) } }

#[verifier::external_body]
fn hoist_write_name_display(out: &mut Sink, key: &Name) -> (r: Result<()>)
    // "{}" of a Name (not in the pinned text; lets a mutant that drops the SPACE be judged)
    ensures wrote(old(out), final(out), r, seq![47u8] + encode_utf8(key.0@))
{ use std::io::Write; match write!(out.w, "/{}", key.0.s) { Ok(()) => Ok(()), Err(_) => Err(PdfError::Io) } }

#[verifier::external_body]
fn hoist_write_all(out: &mut Sink, buf: &Arc<[u8]>) -> (r: Result<()>)
    // io::Write::write_all appends the whole slice or returns Err
    ensures wrote(old(out), final(out), r, buf@)
{ use std::io::Write; match out.w.write_all(buf) { Ok(()) => Ok(()), Err(_) => Err(PdfError::Io) } }

#[verifier::external_body]
fn hoist_writeln_obj_header(out: &mut Sink, id: ObjNr, gen: GenNr) -> (r: Result<()>)
    // writeln!(out, "{} {} obj", id, gen)
    ensures wrote(old(out), final(out), r, dec_int(id as int) + seq![32u8] + dec_int(gen as int) + seq![32u8, 111u8, 98u8, 106u8, 10u8])
{ use std::io::Write; match writeln!(out.w, "{} {} obj", id, gen) { Ok(()) => Ok(()), Err(_) => Err(PdfError::Io) } }

pub uninterp spec fn startxref_bytes(pos: usize) -> Seq<u8>;   // "\nstartxref\n{pos}\n%%EOF" (units/updater, units/xrefread)
#[verifier::external_body]
fn hoist_write_startxref(out: &mut Sink, xref_pos: usize)
    requires old(out).infallible()     // `.unwrap()` of the original: io::Write for Vec<u8> never fails
    ensures final(out)@ == old(out)@ + startxref_bytes(xref_pos), final(out).infallible()
{ use std::io::Write; write!(out.w, "\nstartxref\n{}\n%%EOF", xref_pos).unwrap(); }

proof fn lemma_lits()
    ensures
        lit_bytes("null"@) == KW_NULL(), lit_bytes("true"@) == KW_TRUE(), lit_bytes("false"@) == KW_FALSE(),
        lit_bytes("["@) == ARRAY_OPEN(), lit_bytes("]"@) == ARRAY_CLOSE(), lit_bytes(" "@) == seq![32u8],
        lit_bytes("<<"@) == DICT_OPEN(), lit_bytes(">>"@) == DICT_CLOSE(),
        lit_bytes("stream"@) == KW_STREAM(), lit_bytes("\nendstream"@) == seq![10u8] + KW_ENDSTREAM(),
        lit_bytes("endobj"@) == KW_ENDOBJ(), lit_bytes("\nendobj"@) == seq![10u8] + KW_ENDOBJ(),
{
    reveal_strlit("null"); reveal_strlit("true"); reveal_strlit("false"); reveal_strlit("["); reveal_strlit("]"); reveal_strlit(" ");
    reveal_strlit("<<"); reveal_strlit(">>"); reveal_strlit("stream"); reveal_strlit("\nendstream");
    reveal_strlit("endobj"); reveal_strlit("\nendobj");
    assert(lit_bytes("null"@) =~= KW_NULL()); assert(lit_bytes("true"@) =~= KW_TRUE()); assert(lit_bytes("false"@) =~= KW_FALSE());
    assert(lit_bytes("["@) =~= ARRAY_OPEN()); assert(lit_bytes("]"@) =~= ARRAY_CLOSE()); assert(lit_bytes(" "@) =~= seq![32u8]);
    assert(lit_bytes("<<"@) =~= DICT_OPEN()); assert(lit_bytes(">>"@) =~= DICT_CLOSE());
    assert(lit_bytes("stream"@) =~= KW_STREAM()); assert(lit_bytes("\nendstream"@) =~= seq![10u8] + KW_ENDSTREAM());
    assert(lit_bytes("endobj"@) =~= KW_ENDOBJ()); assert(lit_bytes("\nendobj"@) =~= seq![10u8] + KW_ENDOBJ());
}

// =====================================================================================================
// env: callees proved elsewhere, restated
// =====================================================================================================
//@@ struct PdfString
impl PdfString {
    // proved in units/serial_leaf: PdfString::serialize/string_spelling, string_ok_on_infallible_sink, string_sink_kind_kept
    // (there: `spell_hex(d) || spell_lit(d)`; here additionally: the choice is a function of the content -- the function is
    // deterministic and reads nothing but `self.data`)
    #[verifier::external_body]
    pub fn serialize(&self, out: &mut Sink) -> (r: Result<()>)
        ensures wrote(old(out), final(out), r, spell_string(self.data@))
    { unimplemented!() }
}
// proved in units/serial_leaf: serialize_name/name_spelling, name_ok_on_infallible_sink, name_sink_kind_kept
#[verifier::external_body]
pub fn serialize_name(s: &str, out: &mut Sink) -> (r: Result<()>)
    ensures wrote(old(out), final(out), r, spell_name(s@))
{ unimplemented!() }

// the slice iterator of serialize_list (`arr.iter()`, `.next()`, `for p in parts`), R6: a verified model, not trusted
pub struct PartsIter<'a> { pub s: &'a [Primitive], pub i: usize }
impl<'a> PartsIter<'a> {
    pub fn new(s: &'a [Primitive]) -> (r: Self) ensures r.s@ == s@, r.i == 0 { PartsIter { s, i: 0 } }
    pub fn next(&mut self) -> (r: Option<&'a Primitive>)
        requires old(self).i <= old(self).s@.len()
        ensures final(self).s@ == old(self).s@,
            old(self).i < old(self).s@.len() ==> r == Some(&old(self).s@[old(self).i as int]) && final(self).i == old(self).i + 1,
            old(self).i >= old(self).s@.len() ==> r is None && final(self).i == old(self).i,
    { if self.i < self.s.len() { let r = &self.s[self.i]; self.i = self.i + 1; Some(r) } else { None } }
}

// =====================================================================================================
// the functions under contract (text extracted from /repo)
// =====================================================================================================
//@@ struct PlainRef
//@@ struct Name
impl Name {
    // `Deref<Target = str> for Name` / Name::as_str: `&self.0`
    pub fn as_str(&self) -> (r: &str) ensures r@ == self.0@ { self.0.as_str() }
}
//@@ struct Dictionary
//@@ enum StreamInner
//@@ struct PdfStream
//@@ enum Primitive

// one more element / entry appends its spelling (no `requires`: hypotheses are in the `ensures`)
proof fn lemma_elems_step(a: Seq<Primitive>, i: nat)
    ensures 1 <= i < a.len() ==> spell_elems(a, i + 1) == spell_elems(a, i) + SEP_ELEM() + spell(a[i as int])
{}
proof fn lemma_elems_first(a: Seq<Primitive>)
    ensures spell_elems(a, 0) == Seq::<u8>::empty(), a.len() >= 1 ==> spell_elems(a, 1) == spell(a[0])
{}
proof fn lemma_list_serializable_all(a: Seq<Primitive>)
    ensures list_serializable(a, a.len()) ==> forall|i: int| 0 <= i < a.len() ==> serializable(#[trigger] a[i])
{
    if list_serializable(a, a.len()) {
        assert forall|i: int| 0 <= i < a.len() implies serializable(#[trigger] a[i]) by { lemma_list_serializable(a, a.len(), i); }
    }
}
proof fn lemma_entries_step(e: Seq<(Name, Primitive)>, i: nat)
    ensures i < e.len() ==> spell_entries(e, i + 1) == spell_entries(e, i) + spell_key(e[i as int].0) + SEP_KEY() + spell(e[i as int].1) + SEP_ENTRY()
{}
proof fn lemma_list_serializable(a: Seq<Primitive>, n: nat, i: int)
    ensures list_serializable(a, n) && 0 <= i < n <= a.len() ==> serializable(a[i])
    decreases n
{ if list_serializable(a, n) && 0 <= i < n <= a.len() && i < n - 1 { lemma_list_serializable(a, (n - 1) as nat, i); } }
proof fn lemma_entries_serializable(e: Seq<(Name, Primitive)>, n: nat, i: int)
    ensures entries_serializable(e, n) && 0 <= i < n <= e.len() ==> serializable(e[i].1)
    decreases n
{ if entries_serializable(e, n) && 0 <= i < n <= e.len() && i < n - 1 { lemma_entries_serializable(e, (n - 1) as nat, i); } }

//@@ serialize_real
impl Primitive {
//@@ Primitive::serialize
}
//@@ serialize_list
impl Dictionary {
//@@ Dictionary::serialize
}
impl PdfStream {
//@@ PdfStream::serialize
}

// =====================================================================================================
// Storage::save (pdf/src/file.rs): the indirect-object framing (C04, C09).  Everything except the bytes appended to the
// backend is abstract here: ids, offsets and the xref table are units/updater (Storage::save/save_ok, save_wf, panic_free)
// and units/xrefstm.  The backend `Vec<u8>` is the `Sink` (infallible).
// =====================================================================================================
pub struct CacheStub { pub tok: Ghost<int> }
impl CacheStub { #[verifier::external_body] pub fn clear(&self) { unimplemented!() } }
pub struct NoUpdate;
pub struct XRefInfo { pub tok: Ghost<int> }
pub struct Stream<I> { pub info: I, pub tok: Ghost<int> }
pub struct Resolver { pub tok: Ghost<int> }
pub struct Trailer { pub size: i32, pub tok: Ghost<int> }
//@@ enum XRef
// abstract cross-reference table (contracts of the real accessors: units/updater)
pub struct XRefTable { pub tok: Ghost<int> }
impl XRefTable {
    pub uninterp spec fn len_spec(&self) -> nat;
    #[verifier::external_body]
    pub fn len(&self) -> (r: usize) ensures r == self.len_spec() { unimplemented!() }
    // units/updater: XRefTable::set requires `id < len`; that Storage::save establishes it is updater's Storage::save/panic_free
    #[verifier::external_body]
    pub fn set(&mut self, id: ObjNr, r: XRef) ensures final(self).len_spec() == old(self).len_spec() { unimplemented!() }
    #[verifier::external_body]
    pub fn write_stream(&self, size: usize) -> (r: Result<Stream<XRefInfo>>) { unimplemented!() }
}
//@@ struct PromisedRef
impl<T> PromisedRef<T> {
//@@ PromisedRef::get_inner
}
//@@ struct Storage

// `b` differs from `a` at most in bookkeeping: the bytes written so far and the header position are untouched
pub open spec fn same_bytes(a: Storage, b: Storage) -> bool {
    b.backend@ == a.backend@ && b.backend.infallible() == a.backend.infallible() && b.start_offset == a.start_offset
}
impl Trailer {
    // derived ToDict; may create the info dictionary through the updater (units/updater: at most one id)
    #[verifier::external_body]
    pub fn to_dict(&self, update: &mut Storage) -> (r: Result<Dictionary>)
        ensures same_bytes(*old(update), *final(update)), final(update).refs.len_spec() <= old(update).refs.len_spec() + 1,
    { unimplemented!() }
    #[verifier::external_body]
    pub fn from_dict(dict: Dictionary, resolve: &Resolver) -> (r: Result<Trailer>) { unimplemented!() }
}
impl<I> Stream<I> {
    #[verifier::external_body]
    pub fn to_pdf_stream(&self, update: &mut NoUpdate) -> (r: Result<PdfStream>) { unimplemented!() }
}
impl Storage {
    // proved in units/updater: Storage::promise/promise_id (the id is the old table length, generation 0), promise_frame
    // (changes, backend, start_offset untouched); the new id has no pending change (updater: wf -- every pending id < table length)
    #[verifier::external_body]
    pub fn promise<T>(&mut self) -> (r: PromisedRef<T>)
        ensures same_bytes(*old(self), *final(self)), final(self).changes@ == old(self).changes@,
            r.inner.id == old(self).refs.len_spec(), final(self).refs.len_spec() == old(self).refs.len_spec() + 1,
            !final(self).changes@.dom().contains(r.inner.id),
    { unimplemented!() }
    // proved in units/updater: Storage::fulfill/fulfill_same_ref, fulfill_frame (only the pending change of the promised id changes)
    #[verifier::external_body]
    pub fn fulfill<T>(&mut self, promise: PromisedRef<T>, obj: T) -> (r: Result<()>)
        ensures same_bytes(*old(self), *final(self)),
            r is Ok ==> final(self).changes@.dom() == old(self).changes@.dom().insert(promise.inner.id),
            forall|k: ObjNr| k != promise.inner.id && old(self).changes@.dom().contains(k) ==> #[trigger] final(self).changes@[k] == old(self).changes@[k],
    { unimplemented!() }
    #[verifier::external_body]
    pub fn resolver(&self) -> (r: Resolver) { unimplemented!() }
}
// the pending changes in ascending id order: `self.changes.iter().collect()` + `sort_unstable_by_key(|&(id, _)| id)`
// (same helper and trusted contract as units/updater)
#[verifier::external_body]
fn hoist_sorted_changes<'a>(m: &'a HashMap<ObjNr, (Primitive, GenNr)>) -> (v: Vec<(&'a ObjNr, &'a (Primitive, GenNr))>)
    ensures sorted_entries_of(v@, m@),
{
    let mut changes: Vec<_> = m.iter().collect();
    changes.sort_unstable_by_key(|&(id, _)| id);
    changes
}
#[verifier::external_body]
fn hoist_copy_trailer_entries(xref_and_trailer: &mut PdfStream, trailer_dict: &Dictionary)
{
    unimplemented!() // for (k, v) in trailer_dict.iter() { xref_and_trailer.info.insert(k.clone(), v.clone()); }
}

// ---- spec of the appended bytes (7.3.10, 7.5.5, 7.5.8)
pub open spec fn sorted_entries_of(c: Seq<(&ObjNr, &(Primitive, GenNr))>, m: Map<ObjNr, (Primitive, GenNr)>) -> bool {
    &&& forall|j: int| 0 <= j < c.len() ==> m.dom().contains(*(#[trigger] c[j]).0) && *c[j].1 == m[*c[j].0]
    &&& forall|a: int, b: int| 0 <= a < b < c.len() ==> *(#[trigger] c[a]).0 < *(#[trigger] c[b]).0
    &&& forall|k: ObjNr| m.dom().contains(k) ==> exists|j: int| 0 <= j < c.len() && *(#[trigger] c[j]).0 == k
}
// one framed object per pending change, in the order given
pub open spec fn frame_changes(c: Seq<(&ObjNr, &(Primitive, GenNr))>, n: nat) -> Seq<u8> decreases n {
    if n == 0 || n > c.len() { Seq::empty() }
    else { frame_changes(c, (n - 1) as nat) + spell_indirect(*c[n - 1].0, c[n - 1].1.1, c[n - 1].1.0) }
}
// the cross-reference stream object: a stream's spelling already ends in white-space (SEP_ENDSTREAM)
pub open spec fn spell_indirect_stream(id: ObjNr, gen: GenNr, s: PdfStream) -> Seq<u8> {
    obj_header(id, gen) + spell_stream(s) + KW_ENDOBJ() + SEP_ENDOBJ()
}
// what a successful save has appended: every pending change (all but the xref stream's own, which is recorded afterwards)
// framed exactly once in ascending id order, then the framed xref stream, then the startxref trailer naming its offset
pub open spec fn save_bytes(pre: Storage, post: Storage, c: Seq<(&ObjNr, &(Primitive, GenNr))>, xid: ObjNr, xs: PdfStream, pos: usize) -> bool {
    &&& post.backend@ == pre.backend@ + frame_changes(c, c.len()) + spell_indirect_stream(xid, 0, xs) + startxref_bytes(pos)
    &&& pos + pre.start_offset == pre.backend@.len() + frame_changes(c, c.len()).len()
    &&& post.changes@.dom().contains(xid)
    &&& forall|j: int| 0 <= j < c.len() ==> *(#[trigger] c[j]).0 != xid && post.changes@.dom().contains(*c[j].0) && *c[j].1 == post.changes@[*c[j].0]
    &&& forall|a: int, b: int| 0 <= a < b < c.len() ==> *(#[trigger] c[a]).0 < *(#[trigger] c[b]).0
    &&& forall|k: ObjNr| k != xid && post.changes@.dom().contains(k) ==> exists|j: int| 0 <= j < c.len() && *(#[trigger] c[j]).0 == k
}
// the bytes of one framed object, as the three writes produce them, are its spelling (pure sequence algebra)
proof fn lemma_frame_obj(b0: Seq<u8>, id: ObjNr, gen: GenNr, v: Primitive)
    ensures
        b0 + (dec_int(id as int) + seq![32u8] + dec_int(gen as int) + seq![32u8, 111u8, 98u8, 106u8, 10u8]) + spell(v)
            + ((if DEV_NO_SEPARATOR_BEFORE_ENDOBJ() { KW_ENDOBJ() } else { seq![10u8] + KW_ENDOBJ() }) + seq![10u8])
        == b0 + spell_indirect(id, gen, v)
{
    let h = dec_int(id as int) + seq![32u8] + dec_int(gen as int) + seq![32u8, 111u8, 98u8, 106u8, 10u8];
    assert(h =~= obj_header(id, gen));
    let t = (if DEV_NO_SEPARATOR_BEFORE_ENDOBJ() { KW_ENDOBJ() } else { seq![10u8] + KW_ENDOBJ() }) + seq![10u8];
    assert(t =~= obj_trailer());
    assert(b0 + h + spell(v) + t =~= b0 + (h + spell(v) + t));
}
proof fn lemma_frame_stream(b0: Seq<u8>, id: ObjNr, xs: PdfStream, sx: Seq<u8>)
    ensures
        b0 + (dec_int(id as int) + seq![32u8] + dec_int(0int) + seq![32u8, 111u8, 98u8, 106u8, 10u8]) + spell_stream(xs)
            + (KW_ENDOBJ() + seq![10u8]) + sx
        == b0 + spell_indirect_stream(id, 0, xs) + sx
{
    let h = dec_int(id as int) + seq![32u8] + dec_int(0int) + seq![32u8, 111u8, 98u8, 106u8, 10u8];
    assert(h =~= obj_header(id, 0));
    assert(b0 + h + spell_stream(xs) + (KW_ENDOBJ() + seq![10u8]) =~= b0 + (h + spell_stream(xs) + KW_ENDOBJ() + seq![10u8]));
}
proof fn lemma_cat_assoc(a: Seq<u8>, b: Seq<u8>, c: Seq<u8>) ensures a + b + c == a + (b + c) { assert(a + b + c =~= a + (b + c)); }
proof fn lemma_frame_step(c: Seq<(&ObjNr, &(Primitive, GenNr))>, i: nat)
    ensures i < c.len() ==> frame_changes(c, i + 1) == frame_changes(c, i) + spell_indirect(*c[i as int].0, c[i as int].1.1, c[i as int].1.0)
{}

impl Storage {
//@@ Storage::save
}
//@@ INCLUDE primser/readback.rs
}
fn main(){}
