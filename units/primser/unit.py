F = 'pdf/src/primitive.rs'
OBJ = 'pdf/src/object/mod.rs'
FILE = 'pdf/src/file.rs'

SIG = [{'where': 'sig', 'rule': 'R2', 'find': 'out: &mut impl io::Write', 'replace': 'out: &mut Sink'}]

# R7 hoists: only the un-readable call shape (write!/writeln! with a format string) is replaced, every argument stays
# verbatim.  count '*': one unit.py reads the pinned text and the repaired text (findings/*_fix.diff).  A write that no
# regex matches stays a `write!`, which Verus refuses: undecided, never an alarm.
W = r'write!\(\s*out\s*,\s*'
HOISTS = [
    # a literal without `{}`
    {'rule': 'R7', 'regex': r'(?<!\w)' + W + r'(r?"[^"{}]*")\s*\)', 'replace': r'hoist_write_lit(out, \1)', 'count': '*'},
    {'rule': 'R7', 'regex': r'writeln!\(\s*out\s*,\s*(r?"[^"{}]*")\s*\)', 'replace': r'hoist_writeln_lit(out, \1)', 'count': '*'},
    {'rule': 'R7', 'regex': r'writeln!\(\s*out\s*\)', 'replace': r'hoist_writeln(out)', 'count': '*'},
    {'rule': 'R7', 'regex': r'out\.write_all\((.*?)\)\?', 'replace': r'hoist_write_all(out, \1)?', 'count': '*'},
]
# `{}` of an i32 / f32 / bool has the same call shape: told apart by the match arm it stands in (the arm pattern is
# context only, it is put back unchanged)
GUARD = r'(?:\s*if\s+hoist_f32_fract_is_zero\(\w+\))?'
ARMS = [
    {'rule': 'R7', 'regex': r'(\w+)\.fract\(\)\s*==\s*0\.0', 'replace': r'hoist_f32_fract_is_zero(\1)', 'count': '*'},
    {'rule': 'R7', 'regex': r'(Primitive::Integer\(\w+\)\s*=>\s*)' + W + r'"\{\}"\s*,\s*(.*?)\)\?', 'replace': r'\1hoist_write_i32(out, \2)?', 'count': '*'},
    {'rule': 'R7', 'regex': r'(Primitive::Number\(\w+\)' + GUARD + r'\s*=>\s*)' + W + r'"\{\}"\s*,\s*(.*?)\)\?', 'replace': r'\1hoist_write_f32_display(out, \2)?', 'count': '*'},
    {'rule': 'R7', 'regex': r'(Primitive::Number\(\w+\)' + GUARD + r'\s*=>\s*)' + W + r'"\{\}\.0"\s*,\s*(.*?)\)\?', 'replace': r'\1hoist_write_f32_display_dot0(out, \2)?', 'count': '*'},
    {'rule': 'R7', 'regex': r'(Primitive::Number\(\w+\)' + GUARD + r'\s*=>\s*)' + W + r'"\{:\?\}"\s*,\s*(.*?)\)\?', 'replace': r'\1hoist_write_f32_debug(out, \2)?', 'count': '*'},
    {'rule': 'R7', 'regex': r'(Primitive::Boolean\(\w+\)\s*=>\s*)' + W + r'"\{\}"\s*,\s*(.*?)\)\?', 'replace': r'\1hoist_write_bool(out, \2)?', 'count': '*'},
    {'rule': 'R7', 'regex': W + r'"\{\} \{\} R"\s*,\s*(.*?)\s*,\s*(.*?)\)\?', 'replace': r'hoist_write_ref(out, \1, \2)?', 'count': '*'},
    # R2: the deref coercion `&SmallString -> &str` / `&Name -> &str` at the call made explicit
    {'rule': 'R2', 'regex': r'serialize_name\((\w+),\s*out\)', 'replace': r'serialize_name(\1.as_str(), out)', 'count': '*'},
]
LITS = [{'rule': 'R1', 'regex': r'\A\s*\{', 'replace': '{ proof { lemma_lits(); }'}]

# ---- a helper `fn serialize_real(n: f32, out)` (optional item: not in the pinned text; a restructuring may extract the two
# `Primitive::Number` arms into it).  Whatever its body, it must write `spell_real(n)`.  Every `{}` argument in it is the f32
# (checked by Verus' type checker: the helpers take `&f32`); a float-to-integer cast has no Verus semantics and is hoisted
# into a helper WITHOUT contract (nothing is known about the result); any other format goes to the uninterpreted fallback.
REAL = [
    {'rule': 'R7', 'regex': r'(\w+)\.fract\(\)\s*==\s*0\.0', 'replace': r'hoist_f32_fract_is_zero(&\1)', 'count': '*'},
    {'rule': 'R7', 'regex': r'\b(\w+)\s+as\s+(i32|i64|u32|u64)\b', 'replace': r'hoist_f32_as_\2(\1)', 'count': '*'},
    {'rule': 'R7', 'regex': W + r'"\{\}\.0"\s*,\s*(\w+)\s*\)\?', 'replace': r'hoist_write_f32_display_dot0(out, &\1)?', 'count': '*'},
    {'rule': 'R7', 'regex': W + r'"\{\}"\s*,\s*(\w+)\s*\)\?', 'replace': r'hoist_write_f32_display(out, &\1)?', 'count': '*'},
    {'rule': 'R7', 'regex': W + r'"\{:\?\}"\s*,\s*(\w+)\s*\)\?', 'replace': r'hoist_write_f32_debug(out, &\1)?', 'count': '*'},
    # fallback: any OTHER one-argument format / argument expression appends `fmt_spec(<format string>, <argument>)`,
    # an uninterpreted function: it can never prove a spelling (reported at real_spelling), never stops the verifier
    {'rule': 'R7', 'regex': W + r'(r?"[^"]*")\s*,\s*([^;]*?)\)\?', 'replace': r'hoist_write_fmt(out, \1, \2)?', 'count': '*'},
]

SINK = 'final(out).infallible() == old(out).infallible()'

# serialize_list: text put in place of the loop header (R6) -- ghost entry value of the element counter, then `loop {`
LIST_LOOP_HEAD = 'let ghost g0__: int = it__.i as int; proof { lemma_elems_first(arr@); } loop { '
# .. and right after the element has been taken: the spelling of one more element (requires-free lemmas)
LIST_LOOP_STEP = 'proof { lemma_elems_step(arr@, (it__.i - 1) as nat); lemma_elems_first(arr@); lemma_list_serializable_all(arr@); } '
# R8: a non-capturing predicate closure whose body is one `matches!(..)`: Verus knows a closure only through its `ensures`, which is
# generated from the same text by back-reference (the body stays verbatim)
PRED_CLOSURES = [
    {'rule': 'R8', 'regex': r'let\s+(\w+)\s*=\s*\|\s*(\w+)\s*:\s*([^|]+?)\s*\|\s*(matches!\((?:[^()]|\((?:[^()]|\([^()]*\))*\))*\))\s*;', 'count': '*',
     'replace': r'let \1 = |\2: \3| -> (r__: bool) ensures r__ == \4 { \4 };'},
]



def pub(*fields):
    return [{'rule': 'R2', 'find': f + ':', 'replace': 'pub ' + f + ':'} for f in fields]


UNIT = {
 'name': 'primser',
 'doc': 'Primitive::serialize / serialize_list / Dictionary::serialize / PdfStream::serialize / object framing of Storage::save '
        'emit the ISO 32000-1 7.3 spelling of the value, tokens separated as 7.2.2 requires',
 'timeout': 1500, 'rlimit': 120,   # headroom: two template theorems were seen to cross 40 in some runs (same text, other work dir)
 'deviations': {
   'DEV_DICT_KEY_RAW': 'Dictionary::serialize writes a key through `Display for Name`: SOLIDUS and the raw bytes, no #xx '
                       'escaping; a key containing white-space, a delimiter or `#` does not read back (findings/dict_key_raw.md)',
   'DEV_REAL_WITHOUT_PERIOD': 'Primitive::Number is written with `{}` of f32, which prints no PERIOD for integral values: the token '
                              'is an integer object; from 2^24 on the shortest decimal is not the value, from 2^31 on it does '
                              'not fit the reader\'s i32 (findings/real_without_period.md)',
   'DEV_NO_SEPARATOR_BEFORE_ENDOBJ': 'Storage::save writes `endobj` directly behind the object: `5endobj`, `/Nameendobj`, '
                                     '`3 0 Rendobj` are one token (findings/no_separator_before_endobj.md)',
 },
 'tolerances': {
   'TOL_NONFINITE_REAL': 'C04 quantifies over finite reals; what is written for inf / NaN (`inf`, `NaN`: no PDF spelling exists) is left open',
 },
 'allowed_assumes': [],
 # BOUNDED native stand-in (a test on the real public API, never counted as proved): decides restructurings of the serialisers that
 # the Verus units of C04 (serial_leaf, primser) cannot read; a failure is a violation with the concrete failing input.
 'native': {'tests': [
    {'name': 'roundtrip_small_values', 'code': 'native_roundtrip.rs', 'place': 'pdf/tests/verif_primser_roundtrip.rs',
     'fn': 'Primitive::serialize', 'props': ['C04', 'C09', 'C10'], 'tier': 'quick', 'timeout': 900,
     'bound': 'strings: all 65 793 byte strings of length <= 2 (+ all 65 536 two-byte strings inside a..z, every byte at start/middle/end of a '
              'literal-form and of a hexadecimal-form string, 16 picked); names: all 18 433 names of <= 2 UTF-8 bytes (non-UTF-8 byte strings '
              'cannot be held by Name/SmallString: skipped), every ASCII byte and 6 non-ASCII scalar values inside A?B, as value, array element '
              'and dictionary key; 26 boundary integers; 62 finite boundary reals (+-0 .. 2^24, 2^31, 2^63, 1e19, 1e38, f32::MAX, MIN_POSITIVE, '
              'smallest subnormal); 35 references (id, gen up to u64::MAX); 216 triples of adjacent numbers; [x], [x y], <</K1 x/K2 y>>, '
              '[<</A x>> y], <</A<</B x>>/C y>>, [[x] y] for every ordered pair of 27 kinds; each value plain, framed `7 0 obj .. endobj`, as array '
              'element and as dictionary value; 4479 of them also through Storage::create + Storage::save + FileOptions::load + resolve. '
              'Streams and content streams not covered.',
     'contract': 'parse(serialize(v)) == v (pdf::parser::parse_with_lexer / parse_indirect_object / Storage::save + load), nothing but white-space '
                 'left behind the value, dictionary entry order kept, serialize neither fails nor panics'},
 ]},
 'items': {
  'struct PdfString': {'kind': 'decl', 'file': F, 'header': r'^pub struct PdfString$'},
  'struct PlainRef': {'kind': 'decl', 'file': OBJ, 'header': r'^pub struct PlainRef$', 'attrs': ['#[derive(Clone, Copy)]']},
  'struct Name': {'kind': 'decl', 'file': F, 'header': r'^pub struct Name\('},
  'struct Dictionary': {'kind': 'decl', 'file': F, 'header': r'^pub struct Dictionary$', 'rewrites': pub('dict')},
  'enum StreamInner': {'kind': 'decl', 'file': F, 'header': r'^pub enum StreamInner$'},
  'struct PdfStream': {'kind': 'decl', 'file': F, 'header': r'^pub struct PdfStream$',
        'rewrites': [{'rule': 'R2', 'find': 'pub (crate) inner:', 'replace': 'pub inner:'}]},
  'enum Primitive': {'kind': 'decl', 'file': F, 'header': r'^pub enum Primitive$'},

  'serialize_real': {'kind': 'fn', 'file': F, 'container': None, 'name': 'serialize_real', 'props': ['C04'], 'optional': True,
     'ensures': [
        ('real_spelling', 'r is Ok ==> final(out)@ == old(out)@ + spell_real(n)'),
        ('real_ok_on_infallible_sink', 'old(out).infallible() ==> r is Ok'),
        ('real_sink_kind_kept', SINK),
     ],
     'rewrites': SIG + REAL + HOISTS + LITS},

  'Primitive::serialize': {'kind': 'fn', 'file': F, 'container': r'^impl Primitive$', 'name': 'serialize', 'props': ['C04'],
     'decreases': '*self, 0nat',
     'ensures': [
        ('prim_spelling', 'r is Ok ==> final(out)@ == old(out)@ + spell(*self)'),
        ('prim_ok_on_infallible_sink', 'old(out).infallible() && serializable(*self) ==> r is Ok'),
        ('prim_sink_kind_kept', SINK),
     ],
     'rewrites': SIG + HOISTS + ARMS + LITS},

  'serialize_list': {'kind': 'fn', 'file': F, 'container': None, 'name': 'serialize_list', 'props': ['C04'],
     'attrs': ['#[verifier::loop_isolation(false)]'],
     'decreases': 'arr@, arr@.len() + 1',
     'ensures': [
        ('list_spelling', 'r is Ok ==> final(out)@ == old(out)@ + spell_array(arr@)'),
        ('list_ok_on_infallible_sink', 'old(out).infallible() && list_serializable(arr@, arr@.len()) ==> r is Ok'),
        ('list_sink_kind_kept', SINK),
     ],
     # the element loop, whatever its source spelling (see LIST_LOOP_* below), is `loop { .. it__.next() .. }` over the verified
     # slice-iterator model; `it__.i` = number of elements taken, `g0__` (ghost) = its value at loop entry
     'loops': {1: {
        'invariant': [
           'it__.s@ == arr@', 'g0__ <= it__.i <= arr@.len()',
           'out.infallible() == old(out).infallible()',
           ('list_spelling', 'out@ == old(out)@ + ARRAY_OPEN() + spell_elems(arr@, it__.i as nat)'),
        ],
        'decreases': 'arr@.len() - it__.i'}},
     'rewrites': SIG + HOISTS + [
        # R6, by shape (names and the iterated expression captured; every statement of the loop body stays verbatim):
        # (A) `let mut IT = X.iter(); .. IT.next() .. for P in IT {`  (B) `for (I, P) in X.iter().enumerate() {`
        # (C) `for P in X.iter() {` / `for P in X {`.  A loop in none of these shapes: loop #1 not found / compile error => UNDECIDED.
        {'rule': 'R6', 'regex': r'let\s+mut\s+(\w+)\s*=\s*(\w+)\s*\.\s*iter\(\)\s*;(.*?)for\s+(\w+)\s+in\s+\1\s*\{', 'count': '*',
         'replace': r'let mut \1 = PartsIter::new(\2);\3let mut it__ = \1; ' + LIST_LOOP_HEAD + r'let \4 = match it__.next() { Some(p__) => p__, None => { break; } }; ' + LIST_LOOP_STEP},
        {'rule': 'R6', 'regex': r'for\s+\(\s*(\w+)\s*,\s*(\w+)\s*\)\s+in\s+(\w+)\s*\.\s*iter\(\)\s*\.\s*enumerate\(\)\s*\{', 'count': '*',
         'replace': r'let mut it__ = PartsIter::new(\3); ' + LIST_LOOP_HEAD + r'let \1: usize = it__.i; let \2 = match it__.next() { Some(p__) => p__, None => { break; } }; ' + LIST_LOOP_STEP},
        {'rule': 'R6', 'regex': r'for\s+(\w+)\s+in\s+(\w+)\s*(?:\.\s*iter\(\)\s*)?\{', 'count': '*',
         'replace': r'let mut it__ = PartsIter::new(\2); ' + LIST_LOOP_HEAD + r'let \1 = match it__.next() { Some(p__) => p__, None => { break; } }; ' + LIST_LOOP_STEP},
        # guard (no text changed): a loop-carried local other than the iterator (`let mut first = true; ..`) would need an invariant
        # this unit cannot phrase by shape: expected 0 occurrences => "anchor lost" => UNDECIDED, never an alarm
        {'rule': 'R6', 'regex': r'let\s+mut\s+(?!it__\b)\w+\s*(?::[^=;]*)?=(?!\s*PartsIter::new\()', 'count': 0, 'replace': r'\g<0>'},
        # R1: every recursive call is preceded by the (requires-free) fact that elements of a writable list are writable
        {'rule': 'R1', 'regex': r'(\w+\.serialize\(out\)\?;)', 'count': '*', 'replace': r'proof { lemma_list_serializable_all(arr@); } \1'},
     ] + PRED_CLOSURES + LITS},

  'Dictionary::serialize': {'kind': 'fn', 'file': F, 'container': r'^impl Dictionary$', 'name': 'serialize', 'props': ['C04'],
     'attrs': ['#[verifier::loop_isolation(false)]'],
     'decreases': '*self, 0nat',
     'ensures': [
        ('dict_spelling', 'r is Ok ==> final(out)@ == old(out)@ + spell_dict(*self)'),
        ('dict_ok_on_infallible_sink', 'old(out).infallible() && dict_serializable(*self) ==> r is Ok'),
        ('dict_sink_kind_kept', SINK),
     ],
     'loops': {1: {
        'invariant': [
           'i_ <= self.dict.entries@.len()',
           'out.infallible() == old(out).infallible()',
           ('dict_spelling', 'out@ == old(out)@ + DICT_OPEN() + SEP_DICT_OPEN() + spell_entries(self.dict.entries@, i_ as nat)'),
        ],
        'decreases': 'self.dict.entries@.len() - i_'}},
     'rewrites': SIG + [
        # "{} " of a Name (pinned text): Display for Name
        {'rule': 'R7', 'regex': W + r'"\{\} "\s*,\s*(\w+)\)\?', 'replace': r'hoist_write_name_display_sp(out, \1)?', 'count': '*'},
        {'rule': 'R7', 'regex': W + r'"\{\}"\s*,\s*(\w+)\)\?', 'replace': r'hoist_write_name_display(out, \1)?', 'count': '*'},
     ] + HOISTS + ARMS + [
        # R6: IndexMap iteration -> index loop over the entries in iteration order
        # (shape: binder names captured; `self.iter()` / `self.dict.iter()` / `&self.dict` are the same IndexMap iteration)
        {'rule': 'R6', 'regex': r'for\s+\(\s*(\w+)\s*,\s*(\w+)\s*\)\s+in\s+(?:self\s*\.\s*iter\(\)|self\s*\.\s*dict\s*\.\s*iter\(\)|&\s*self\s*\.\s*dict)\s*\{',
         'replace': r'let mut i_: usize = 0; while i_ < self.dict.entries.len() { let \1 = &self.dict.entries[i_].0; '
                    r'let \2 = &self.dict.entries[i_].1; i_ = i_ + 1; '
                    'proof { lemma_entries_step(self.dict.entries@, (i_ - 1) as nat); '
                    'lemma_entries_serializable(self.dict.entries@, self.dict.entries@.len(), i_ - 1); }'},
     ] + LITS},

  'PdfStream::serialize': {'kind': 'fn', 'file': F, 'container': r'^impl PdfStream$', 'name': 'serialize', 'props': ['C04'],
     'decreases': '*self, 1nat',
     'ensures': [
        ('stream_spelling', 'r is Ok ==> final(out)@ == old(out)@ + spell_stream(*self)'),
        ('stream_ok_on_infallible_sink', 'old(out).infallible() && stream_serializable(*self) ==> r is Ok'),
        ('stream_in_file_is_err', 'self.inner is InFile ==> r is Err'),
        ('stream_sink_kind_kept', SINK),
     ],
     'rewrites': SIG + HOISTS + [
        # R4: the crate's own `unimplemented!()` (error.rs) is `bail!("Unimplemented @ ..")`, not a panic
        {'rule': 'R4', 'find': 'unimplemented!()', 'replace': 'bail!("Unimplemented")', 'count': '*'},
     ] + LITS},

  # ---- Storage::save: object framing (C04, C09).  Storage reduced (R2) as in units/updater; the backend is the Sink.
  'enum XRef': {'kind': 'decl', 'file': 'pdf/src/xref.rs', 'header': r'^pub enum XRef$', 'attrs': ['#[derive(Clone, Copy)]']},
  'struct PromisedRef': {'kind': 'decl', 'file': FILE, 'header': r'^pub struct PromisedRef<T>$', 'rewrites': pub('inner', '_marker')},
  'PromisedRef::get_inner': {'kind': 'fn', 'file': FILE, 'container': r'^impl<T> PromisedRef<T>$', 'name': 'get_inner', 'props': ['C09'],
     'ensures': [('get_inner_is_inner', 'r == self.inner')]},
  'struct Storage': {'kind': 'decl', 'file': FILE, 'header': r'^pub struct Storage<B, OC, SC, L>$',
     'rewrites': [
        {'rule': 'R2', 'find': 'pub struct Storage<B, OC, SC, L>', 'replace': 'pub struct Storage'},
        {'rule': 'R2', 'find': 'cache: OC,', 'replace': 'pub cache: CacheStub,'},
        {'rule': 'R2', 'find': 'stream_cache: SC,', 'replace': ''},
        {'rule': 'R2', 'find': 'changes:', 'replace': 'pub changes:'},
        {'rule': 'R2', 'find': 'refs:', 'replace': 'pub refs:'},
        {'rule': 'R2', 'find': 'decoder: Option<Decoder>,', 'replace': ''},
        {'rule': 'R2', 'find': 'options: ParseOptions,', 'replace': ''},
        {'rule': 'R2', 'find': 'backend: B,', 'replace': 'pub backend: Sink,'},
        {'rule': 'R2', 'find': 'start_offset:', 'replace': 'pub start_offset:'},
        {'rule': 'R2', 'find': 'log: L', 'replace': ''},
     ]},
  'Storage::save': {'kind': 'fn', 'file': FILE, 'container': r'^impl<OC, SC, L> Storage<Vec<u8>, OC, SC, L> where .*L: Log$',
     'name': 'save', 'props': ['C04', 'C09'],
     'requires': [
        # the backend of this impl block is Vec<u8>: io::Write for Vec<u8> never fails
        'old(self).backend.infallible()',
        # as in units/updater: with_cache: start_offset = locate_start_offset() (inside the buffer); empty(): 0
        'old(self).start_offset <= old(self).backend@.len()',
        # language fact: a Vec<XRef> (24-byte elements) cannot hold more than isize::MAX / 24 elements
        'old(self).refs.len_spec() < 0x0555_5555_5555_5555',
     ],
     'ensures': [
        ('save_framing', 'r is Ok ==> exists|c: Seq<(&ObjNr, &(Primitive, GenNr))>, xid: ObjNr, xs: PdfStream, pos: usize| '
                         'save_bytes(*old(self), *final(self), c, xid, xs, pos)'),
     ],
     'loops': {1: {
        'invariant': [
           'i_ <= changes@.len()', 'self.backend.infallible()', 'self.start_offset == old(self).start_offset',
           'self.start_offset <= self.backend@.len()', 'self.changes@ == at_loop.changes@',
           'sorted_entries_of(changes@, self.changes@)',
           ('save_framing', 'self.backend@ == old(self).backend@ + frame_changes(changes@, i_ as nat)'),
        ],
        'decreases': 'changes@.len() - i_'}},
     'rewrites': [
        {'where': 'sig', 'rule': 'R2', 'find': 'Result<&[u8]>', 'replace': 'Result<&Sink>'},
        {'rule': 'R1', 'find': 'let xref_promise = self.promise::<Stream<XRefInfo>>();',
         'replace': 'proof { lemma_lits(); } let xref_promise = self.promise::<Stream<XRefInfo>>(); let ghost xid = xref_promise.inner.id; let ghost at_loop = *self;'},
        {'rule': 'R7', 'find': 'let mut changes: Vec<_> = self.changes.iter().collect(); changes.sort_unstable_by_key(|&(id, _)| id);',
         'replace': 'let changes = hoist_sorted_changes(&self.changes);'},
        # R5/R10: nested reference patterns in a `for` head -> index loop with deref lets (as units/updater)
        {'rule': 'R5', 'find': 'for &(&id, &(ref primitive, gen)) in changes.iter() {',
         'replace': 'let mut i_: usize = 0; while i_ < changes.len() { let id = *changes[i_].0; let gen = changes[i_].1.1; '
                    'let primitive = &changes[i_].1.0; i_ = i_ + 1; let ghost b0 = self.backend@; '
                    'proof { lemma_lits(); lemma_frame_step(changes@, (i_ - 1) as nat); lemma_frame_obj(b0, id, gen, *primitive); '
                    'lemma_cat_assoc(old(self).backend@, frame_changes(changes@, (i_ - 1) as nat), spell_indirect(id, gen, *primitive)); }'},
        {'rule': 'R7', 'regex': r'writeln!\(self\.backend,\s*"\{\} \{\} obj",\s*(.*?),\s*(.*?)\)\?;',
         'replace': r'hoist_writeln_obj_header(&mut self.backend, \1, \2)?;', 'count': 2},
        {'rule': 'R7', 'regex': r'writeln!\(self\.backend,\s*("[^"{}]*")\)', 'replace': r'hoist_writeln_lit(&mut self.backend, \1)', 'count': '*'},
        {'rule': 'R7', 'regex': r'(?<!\w)write!\(self\.backend,\s*("[^"{}]*")\)', 'replace': r'hoist_write_lit(&mut self.backend, \1)', 'count': '*'},
        {'rule': 'R7', 'regex': r'writeln!\(self\.backend\)', 'replace': r'hoist_writeln(&mut self.backend)', 'count': '*'},
        {'rule': 'R7', 'find': 'for (k, v) in trailer_dict.iter() { xref_and_trailer.info.insert(k.clone(), v.clone()); }',
         'replace': 'hoist_copy_trailer_entries(&mut xref_and_trailer, &trailer_dict);'},
        {'rule': 'R1', 'find': 'let xref_pos = self.backend.len', 'replace': 'let ghost at_end = *self; let xref_pos = self.backend.len'},
        {'rule': 'R7', 'regex': r'write!\(self\.backend,\s*"\\nstartxref\\n\{\}\\n%%EOF",\s*(.*?)\)\.unwrap\(\);',
         'replace': r'hoist_write_startxref(&mut self.backend, \1);'},
        {'rule': 'R1', 'find': 'Ok(&self.backend)',
         'replace': 'proof { lemma_frame_stream(at_end.backend@, xid, xref_and_trailer, startxref_bytes(xref_pos)); '
                    'assert(save_bytes(*old(self), *self, changes@, xid, xref_and_trailer, xref_pos)); } Ok(&self.backend)'},
     ]},
 },
}
