// BOUNDED native stand-in for C04 on the REAL public API (placed at pdf/tests/verif_primser_roundtrip.rs by vlib/native.py).
// It is a test, not a proof: it decides seeded restructurings of the serialisers that the Verus units cannot read (UNDECIDED there).
//
// Statement checked for every value v of the universe below:
//   (P) plain:   parse(serialize(v)) == v  and nothing but white-space is left behind the value      (pdf::parser::{Lexer, parse_with_lexer})
//   (F) framed:  parse_indirect_object("7 0 obj\n" serialize(v) "\nendobj\n") == ((7, 0), v)          (the framing Storage::save writes)
//   (A) element: parse(serialize([1, v, /N])) == [1, v, /N]        (D) entry: parse(serialize(<</First v /Second 2>>)) == the same dictionary
//   (S) saved:   a document built with Storage::create + Storage::save, loaded again with FileOptions::load, resolves every created
//                object to the value that was created (sub-universe, see `saved_objects_reload`)
//
// Universe (the BOUND):
//   strings   every byte string of length <= 2 over all 256 byte values (65 793): P F A D;  every 2-byte string between `a` and `z` (P);
//             every single byte at the start / in the middle / at the end of an ASCII string (literal form) and of a string holding a
//             byte >= 0x80 (hexadecimal form): P F A D;  16 hand-picked strings (nested / unbalanced parentheses, CR LF mixes, backslashes)
//   names     every name whose UTF-8 encoding is <= 2 bytes (1 + 128 + 128*128 + 1920 = 18 433: all pairs of ASCII bytes NUL included, all
//             two-byte scalar values U+0080..U+07FF); byte strings that are not UTF-8 cannot be held by `Name`/`SmallString` (a `str`) and
//             are skipped;  every ASCII byte and 6 non-ASCII scalar values (2, 3, 4 byte encodings) inside `A?B`;  as value (P F A), as
//             dictionary key followed by every kind of value, name directly followed by a name
//   integers  26 boundary values (0, +-1, powers of ten, 2^15, 2^16, 2^24, 2^31-1, -2^31, ..)
//   reals     62 finite boundary values: +-0, +-0.5, 1e-7, 123456.79, 2^23, 2^24 (+-1 ulp), 2^31, 2^32, 2^63, 2^64, 1e19, 1e20, 1e38,
//             f32::MAX, f32::MIN_POSITIVE, the smallest subnormal, whole-valued and not, both signs (equality is f32 `==`, so -0.0 == 0.0)
//   refs      every id in {0, 1, 7, 2^31-1, 2^31, 2^32, u64::MAX} x gen in {0, 1, 65535, 65536, u64::MAX}
//   nesting   K = 27 values of every kind (scalars, strings in both forms, empty / delimiter-holding names, references, empty and non-empty
//             arrays and dictionaries, `[[]]`, `<</A<</B<<>>>>>>`): [x] , [x y], <</K1 x /K2 y>>, [<</A x>> y], <</A <</B x>> /C y>>, [[x] y] for
//             every ordered pair (x, y) in K x K; every triple over 6 number-like values (adjacent numbers, `1 2 3 0 R`); all P and F
//   streams are NOT covered (PdfStream::serialize needs /Length bookkeeping of Stream::to_pdf_stream), nor content streams (units serops).
use pdf::file::{FileOptions, NoCache, NoLog, Storage, Trailer};
use pdf::object::*;
use pdf::parser::{parse_indirect_object, parse_with_lexer, Lexer, ParseFlags};
use pdf::primitive::{Dictionary, PdfString, Primitive};

struct Fails { n: usize, shown: Vec<String> }
impl Fails {
    fn new() -> Fails { Fails { n: 0, shown: Vec::new() } }
    fn push(&mut self, s: String) {
        self.n += 1;
        if self.shown.len() < 5 {
            let mut t: String = s.replace('\n', " ");
            if t.len() > 360 { let mut cut = 360; while !t.is_char_boundary(cut) { cut -= 1; } t.truncate(cut); t.push_str(" ..."); }
            self.shown.push(t);
        }
    }
    fn finish(self, what: &str, checked: usize) {
        // (nothing is printed before a panic: vlib/native.py takes the failing input from the first paragraph of the test's output)
        if self.n > 0 {
            panic!("C04 bounded round trip `{}`: {} of {} values do not come back; first ones:\n  {}", what, self.n, checked, self.shown.join("\n  "));
        }
        println!("{}: {} values checked", what, checked);
    }
}

fn ser(p: &Primitive) -> Result<Vec<u8>, String> {
    let mut out = Vec::new();
    match std::panic::catch_unwind(std::panic::AssertUnwindSafe(|| p.serialize(&mut out))) {
        Ok(Ok(())) => Ok(out),
        Ok(Err(e)) => Err(format!("serialize is Err({:?})", e)),
        Err(_) => Err("serialize PANICKED".to_string()),
    }
}
fn show(b: &[u8]) -> String { b.iter().map(|&c| std::ascii::escape_default(c).to_string()).collect() }

// dictionaries compare equal whatever the order of their entries (IndexMap): the order is part of the value written, compare it too
fn same(a: &Primitive, b: &Primitive) -> bool {
    if a != b { return false; }
    match (a, b) {
        (Primitive::Dictionary(x), Primitive::Dictionary(y)) =>
            x.iter().zip(y.iter()).all(|((k1, v1), (k2, v2))| k1 == k2 && same(v1, v2)),
        (Primitive::Array(x), Primitive::Array(y)) => x.iter().zip(y.iter()).all(|(p, q)| same(p, q)),
        _ => true,
    }
}

fn plain(v: &Primitive) -> Result<(), String> {
    let bytes = ser(v).map_err(|e| format!("value {:?}: {}", v, e))?;
    let mut lexer = Lexer::new(&bytes);
    match parse_with_lexer(&mut lexer, &NoResolve, ParseFlags::ANY) {
        Ok(back) if same(&back, v) => {
            let rest = lexer.get_remaining_slice();
            if rest.iter().all(|c| matches!(c, 0 | 9 | 10 | 12 | 13 | 32)) { Ok(()) }
            else { Err(format!("value {:?} written as \"{}\": read back, but \"{}\" is left over", v, show(&bytes), show(rest))) }
        }
        Ok(back) => Err(format!("value {:?} written as \"{}\" reads back as {:?}", v, show(&bytes), back)),
        Err(e) => Err(format!("value {:?} written as \"{}\" does not parse: {}", v, show(&bytes), e)),
    }
}
fn framed(v: &Primitive) -> Result<(), String> {
    let body = ser(v).map_err(|e| format!("value {:?}: {}", v, e))?;
    let mut bytes = b"7 0 obj\n".to_vec();
    bytes.extend_from_slice(&body);
    bytes.extend_from_slice(b"\nendobj\n");
    let mut lexer = Lexer::new(&bytes);
    match parse_indirect_object(&mut lexer, &NoResolve, None, ParseFlags::ANY) {
        Ok((r, back)) if r.id == 7 && r.gen == 0 && same(&back, v) => Ok(()),
        Ok((r, back)) => Err(format!("object body {:?} written as \"{}\" reads back as {:?} {:?}", v, show(&bytes), r, back)),
        Err(e) => Err(format!("object body {:?} written as \"{}\" does not parse: {}", v, show(&bytes), e)),
    }
}
fn name(s: &str) -> Primitive { Primitive::Name(s.into()) }
fn string(b: &[u8]) -> Primitive { Primitive::String(PdfString::new(b.into())) }
fn dict(entries: Vec<(&str, Primitive)>) -> Primitive {
    let mut d = Dictionary::new();
    for (k, v) in entries { d.insert(k, v); }
    Primitive::Dictionary(d)
}
fn reference(id: u64, gen: u64) -> Primitive { Primitive::Reference(PlainRef { id, gen }) }
fn element(v: &Primitive) -> Primitive { Primitive::Array(vec![Primitive::Integer(1), v.clone(), name("N")]) }
fn entry(v: &Primitive) -> Primitive { dict(vec![("First", v.clone()), ("Second", Primitive::Integer(2))]) }

/// P F A D
fn all_placements(v: &Primitive, fails: &mut Fails) {
    if let Err(e) = plain(v) { fails.push(e); }
    if let Err(e) = framed(v) { fails.push(e); }
    if let Err(e) = plain(&element(v)) { fails.push(format!("as array element: {}", e)); }
    if let Err(e) = plain(&entry(v)) { fails.push(format!("as dictionary value: {}", e)); }
}

const PICKED_STRINGS: &[&[u8]] = &[
    b"", b"()", b"(())", b")(", b"((", b"))", b"\\", b"\\\\", b"\\)", b"a\\", b"line one\rline two", b"line one\r\nline two", b"\n\r",
    b"(\r)\\\r", b"trailing\r", b"\\r\\n\\t\\b\\f\\(\\)\\101\\\n",
];

#[test]
fn c04_bounded_strings_up_to_two_bytes() {
    let mut fails = Fails::new();
    let mut n = 0usize;
    all_placements(&string(b""), &mut fails); n += 1;
    for a in 0u8..=255 {
        all_placements(&string(&[a]), &mut fails); n += 1;
        for b in 0u8..=255 {
            all_placements(&string(&[a, b]), &mut fails);
            if let Err(e) = plain(&string(&[b'a', a, b, b'z'])) { fails.push(e); }
            n += 2;
        }
    }
    assert_eq!(n, 1 + 256 + 2 * 65536);
    fails.finish("strings of length <= 2 over all bytes", n);
}

#[test]
fn c04_bounded_strings_every_byte_embedded() {
    let mut fails = Fails::new();
    let mut n = 0usize;
    for b in 0u8..=255 {
        for s in [
            // literal form unless b >= 0x80
            vec![b, b'a', b'b', b'c'], vec![b'a', b'b', b, b'c', b'd'], vec![b'a', b'b', b'c', b],
            // hexadecimal form (holds a byte >= 0x80)
            vec![b, b'a', 0xe9], vec![b'a', b, 0xe9], vec![0xe9, b'a', b], vec![0xff, b, 0x80],
        ] {
            all_placements(&string(&s), &mut fails); n += 1;
        }
    }
    for s in PICKED_STRINGS { all_placements(&string(s), &mut fails); n += 1; }
    fails.finish("every byte embedded in a literal-form and in a hexadecimal-form string", n);
}

#[test]
fn c04_bounded_names_up_to_two_bytes() {
    let mut fails = Fails::new();
    let mut names: Vec<String> = vec![String::new()];
    let mut skipped = 0usize;
    for a in 0u8..=255 {
        match std::str::from_utf8(&[a]) { Ok(s) => names.push(s.to_string()), Err(_) => skipped += 1 }
        for b in 0u8..=255 {
            match std::str::from_utf8(&[a, b]) { Ok(s) => names.push(s.to_string()), Err(_) => skipped += 1 }
        }
    }
    assert_eq!(names.len(), 1 + 128 + 128 * 128 + 1920, "names that `SmallString` can hold");
    assert_eq!(names.len() + skipped, 1 + 256 + 65536);
    for a in 0u8..128 { names.push(format!("A{}B", a as char)); }
    for c in ['\u{80}', '\u{e9}', '\u{7ff}', '\u{800}', '\u{20ac}', '\u{1d11e}'] { names.push(format!("A{}B", c)); names.push(c.to_string()); }
    for s in ["Lime Green", "Lime#20Green", "A#42", "C#", "##", "#", "paired()parentheses", "The_Key_of_F#_Minor", "A;Name_With-Various***Characters?", "1.2", "$$", "@pattern", ".notdef"] {
        names.push(s.to_string());
    }
    let n = names.len();
    for s in &names {
        let v = name(s);
        // value: plain, framed, array element directly followed by a name
        if let Err(e) = plain(&v) { fails.push(e); }
        if let Err(e) = framed(&v) { fails.push(e); }
        if let Err(e) = plain(&element(&v)) { fails.push(format!("as array element: {}", e)); }
        // dictionary key, followed by a number / a name / a string / a dictionary
        let d = dict(vec![(s.as_str(), Primitive::Integer(1)), ("Z", name(s)), (&format!("{}x", s), string(b"s")), (&format!("{}y", s), dict(vec![(s.as_str(), Primitive::Null)]))]);
        if let Err(e) = plain(&d) { fails.push(format!("as dictionary key: {}", e)); }
    }
    fails.finish("names of <= 2 bytes (UTF-8), every ASCII byte inside A?B", n);
}

fn integers() -> Vec<i32> {
    vec![0, 1, -1, 9, 10, -9, -10, 99, 100, 255, 256, 32767, 32768, -32768, 65535, 65536, 999_999_999, 1_000_000_000, 16_777_216, 16_777_217,
         i32::MAX, i32::MAX - 1, i32::MIN, i32::MIN + 1, -2_147_483_647, 2_000_000_000]
}
fn reals() -> Vec<f32> {
    let two63 = 9_223_372_036_854_775_808.0f32;
    let pos = vec![0.0f32, 0.5, 1.0, 1.5, 0.1, 0.25, 3.0, 1e-7, 1e-10, 123456.79, 8_388_607.5, 8_388_608.0, 16_777_216.0, 16_777_218.0, 16_777_215.0,
        2_147_483_520.0, 2_147_483_648.0, 4_294_967_296.0, 123_456_792.0, two63, f32::from_bits(two63.to_bits() + 1), f32::from_bits(two63.to_bits() - 1),
        18_446_744_073_709_551_616.0, 1e19, 1e20, 1e38, 3.4e38, f32::MAX, f32::MIN_POSITIVE, f32::from_bits(1), 1e10];
    let mut v = Vec::new();
    for p in pos { v.push(p); v.push(-p); }
    v.retain(|x| x.is_finite());
    v
}
fn references() -> Vec<Primitive> {
    let mut v = Vec::new();
    for id in [0u64, 1, 7, (1 << 31) - 1, 1 << 31, 1 << 32, u64::MAX] {
        for gen in [0u64, 1, 65535, 65536, u64::MAX] { v.push(reference(id, gen)); }
    }
    v
}

#[test]
fn c04_bounded_scalars() {
    let mut fails = Fails::new();
    let mut n = 0usize;
    for v in [Primitive::Null, Primitive::Boolean(true), Primitive::Boolean(false)] { all_placements(&v, &mut fails); n += 1; }
    for i in integers() { all_placements(&Primitive::Integer(i), &mut fails); n += 1; }
    for r in reals() { all_placements(&Primitive::Number(r), &mut fails); n += 1; }
    for r in references() { all_placements(&r, &mut fails); n += 1; }
    // adjacent numbers: every triple over number-like values
    let numberish = [Primitive::Integer(1), Primitive::Integer(0), Primitive::Integer(-3), Primitive::Number(2.0), Primitive::Number(0.5), reference(3, 0)];
    for a in &numberish { for b in &numberish { for c in &numberish {
        let v = Primitive::Array(vec![a.clone(), b.clone(), c.clone()]);
        if let Err(e) = plain(&v) { fails.push(e); }
        if let Err(e) = framed(&v) { fails.push(e); }
        n += 1;
    } } }
    fails.finish("null, booleans, boundary integers, boundary reals, references, number triples", n);
}

fn kinds() -> Vec<Primitive> {
    vec![
        Primitive::Null, Primitive::Boolean(true), Primitive::Boolean(false), Primitive::Integer(5), Primitive::Integer(-7),
        Primitive::Number(0.5), Primitive::Number(3.0), Primitive::Number(-2.5),
        string(b"ab"), string(b""), string(b"\xe9\x00"), string(b"(\\)\r"),
        name("N"), name(""), name("A#B"), name("a b>>"), name("R"), name("endobj"),
        reference(3, 0), reference(12, 65535),
        Primitive::Array(vec![]), Primitive::Array(vec![Primitive::Integer(1), Primitive::Integer(2)]), Primitive::Array(vec![Primitive::Array(vec![])]),
        dict(vec![]), dict(vec![("A", Primitive::Integer(1))]), dict(vec![("A", dict(vec![("B", dict(vec![]))]))]), dict(vec![("K", name("V")), ("", name(""))]),
    ]
}

fn nestings() -> Vec<Primitive> {
    let k = kinds();
    let mut v = Vec::new();
    for x in &k {
        v.push(x.clone());
        v.push(Primitive::Array(vec![x.clone()]));
        v.push(dict(vec![("A", x.clone())]));
        for y in &k {
            v.push(Primitive::Array(vec![x.clone(), y.clone()]));
            v.push(dict(vec![("K1", x.clone()), ("K2", y.clone())]));
            v.push(Primitive::Array(vec![dict(vec![("A", x.clone())]), y.clone()]));
            v.push(dict(vec![("A", dict(vec![("B", x.clone())])), ("C", y.clone())]));
            v.push(Primitive::Array(vec![Primitive::Array(vec![x.clone()]), y.clone()]));
        }
    }
    v
}

#[test]
fn c04_bounded_nesting_every_pair_of_kinds() {
    let mut fails = Fails::new();
    let all = nestings();
    assert_eq!(all.len(), 27 * 3 + 27 * 27 * 5);
    for v in &all {
        if let Err(e) = plain(v) { fails.push(e); }
        if let Err(e) = framed(v) { fails.push(e); }
    }
    fails.finish("arrays / dictionaries nesting every ordered pair of 27 kinds", all.len());
}

type St = Storage<Vec<u8>, NoCache, NoCache, NoLog>;

/// (S) the real save path: Storage::create for every value, ONE Storage::save, FileOptions::load, resolve every created reference.
/// Sub-universe: every string of length <= 1, the 256 arrays `[ (a 0x00) .. (a 0xff) ]`, every name of one byte and the picked names,
/// all integers / reals / references-as-array-elements of `c04_bounded_scalars`, every value of `nestings()`.
/// (A reference as the object body itself is resolved through by `resolve`, so references are only saved inside containers.)
#[test]
fn c04_bounded_saved_objects_reload() {
    let mut values: Vec<Primitive> = vec![string(b"")];
    for a in 0u8..=255 {
        values.push(string(&[a]));
        values.push(Primitive::Array((0u8..=255).map(|b| string(&[a, b])).collect()));
    }
    for a in 0u8..128 { values.push(name(&(a as char).to_string())); }
    for s in ["", "A#42", "C#", "Lime Green", "\u{e9}", "\u{20ac}", "a/b", "a(b", "a%b"] { values.push(name(s)); }
    for i in integers() { values.push(Primitive::Integer(i)); }
    for r in reals() { values.push(Primitive::Number(r)); }
    values.push(Primitive::Array(references()));
    for v in nestings() { if !matches!(v, Primitive::Reference(_)) { values.push(v); } }
    for s in PICKED_STRINGS { values.push(string(s)); }

    let mut st: St = FileOptions::uncached().storage();
    let pages = PagesRc::create(PageTree { parent: None, kids: vec![], count: 0, resources: None, media_box: None, crop_box: None }, &mut st).expect("page tree root");
    let catalog = Catalog { version: Some("1.7".into()), pages, names: None, dests: None, metadata: None, outlines: None,
        struct_tree_root: None, forms: None, page_labels: None };
    let mut refs = Vec::new();
    for v in &values {
        let r: PlainRef = st.create(v.clone()).expect("create").get_ref().get_inner();
        refs.push(r);
    }
    let mut trailer = Trailer { root: st.create(catalog).expect("catalog"), encrypt_dict: None, size: 0,
        id: vec![PdfString::from("foo"), PdfString::from("bar")], info_dict: None, prev_trailer_pos: None };
    let saved = std::panic::catch_unwind(std::panic::AssertUnwindSafe(|| st.save(&mut trailer).map(|_| ())));
    match saved { Ok(Ok(())) => {}, Ok(Err(e)) => panic!("C04 bounded round trip `saved objects`: Storage::save is Err({:?})", e), Err(_) => panic!("C04 bounded round trip `saved objects`: Storage::save PANICKED") }
    let data = st.into_inner();
    let file = FileOptions::uncached().load(data.clone()).unwrap_or_else(|e| panic!("C04 bounded round trip `saved objects`: the saved document does not load: {:?}", e));
    let resolver = file.resolver();
    let mut fails = Fails::new();
    for (r, v) in refs.iter().zip(&values) {
        match resolver.resolve(*r) {
            Ok(back) if same(&back, v) => {}
            Ok(back) => fails.push(format!("object {} created as {:?} (written \"{}\") reloads as {:?}", r.id, v, show(&ser(v).unwrap_or_default()), back)),
            Err(e) => fails.push(format!("object {} created as {:?} (written \"{}\") does not reload: {}", r.id, v, show(&ser(v).unwrap_or_default()), e)),
        }
    }
    fails.finish("objects created, saved with Storage::save and reloaded", values.len());
}
