// =====================================================================================================
// read-back, token level (included into unit.rs inside `verus!`).
//
// The ISO token function below is the specification of units/lexer (unit.rs there: ws_end, reg_end, eol_after,
// token_start, token_end -- the contracts of Lexer::next_word / Lexer::next: `next_is_iso_token`), copied with every
// deviation switch off, i.e. plain ISO 32000-1 7.2.2 / 7.2.3.
//
// theorem_tokens_read_back: ANY byte string that is a concatenation  sep0 w0 sep1 w1 ... sepN-1 wN-1  of token-shaped
// words (numbers / keywords, names, `[` `]` `<<` `>>`) and white-space, where white-space is present wherever a token that
// would absorb a following regular character is followed by one, is re-tokenised into exactly w0 .. wN-1, whatever
// precedes it and whatever follows it (the first following byte obeying the same rule).  The corollaries instantiate it
// for the spellings of this unit; they use nothing of the SEP_* constants but `seps_ok()`.
// =====================================================================================================
pub open spec fn ws_end(buf: Seq<u8>, p: int) -> int decreases buf.len() - p {
    if 0 <= p < buf.len() && is_ws(buf[p]) { ws_end(buf, p + 1) } else { p }
}
pub open spec fn reg_end(buf: Seq<u8>, p: int) -> int decreases buf.len() - p {
    if 0 <= p < buf.len() && is_regular(buf[p]) { reg_end(buf, p + 1) } else { p }
}
pub open spec fn is_eol(b: u8) -> bool { b == 10 || b == 13 }
pub open spec fn eol_after(buf: Seq<u8>, p: int) -> Option<int> decreases buf.len() - p {
    if p < 0 || p >= buf.len() { None } else if is_eol(buf[p]) { Some(p + 1) } else { eol_after(buf, p + 1) }
}
pub open spec fn token_start(buf: Seq<u8>, p: int) -> Option<int> decreases buf.len() - p {
    let q = ws_end(buf, p);
    if p < 0 || q < p || q >= buf.len() { None }
    else if buf[q] == 37 {
        match eol_after(buf, q + 1) {
            Some(e) => if p < e <= buf.len() { token_start(buf, e) } else { None },
            None => None,
        }
    } else { Some(q) }
}
pub open spec fn token_end(buf: Seq<u8>, s: int) -> int {
    if is_delim(buf[s]) {
        if buf[s] == 47 { reg_end(buf, s + 1) }
        else if s + 1 < buf.len() && ((buf[s] == 60 && buf[s+1] == 60) || (buf[s] == 62 && buf[s+1] == 62)) { s + 2 }
        else { s + 1 }
    } else { reg_end(buf, s) }
}

// ---- token shapes the serialiser writes outside strings and stream data
pub open spec fn all_regular(w: Seq<u8>, from: int) -> bool { forall|i: int| from <= i < w.len() ==> is_regular(#[trigger] w[i]) }
pub open spec fn is_word(w: Seq<u8>) -> bool { w.len() > 0 && all_regular(w, 0) }                 // number, keyword
pub open spec fn is_name_tok(w: Seq<u8>) -> bool { w.len() > 0 && w[0] == 47 && all_regular(w, 1) }   // `/` + regular characters
pub open spec fn is_bracket(w: Seq<u8>) -> bool { w == ARRAY_OPEN() || w == ARRAY_CLOSE() || w == DICT_OPEN() || w == DICT_CLOSE() }
pub open spec fn tok_shape(w: Seq<u8>) -> bool { is_word(w) || is_name_tok(w) || is_bracket(w) }
// a regular character written directly behind `w` would become part of it (7.2.2: a token ends at a delimiter or white-space)
pub open spec fn absorbs(w: Seq<u8>) -> bool { is_word(w) || is_name_tok(w) }
// `next` may follow `w` without changing where `w` ends
pub open spec fn may_follow(w: Seq<u8>, next: Seq<u8>) -> bool { next.len() == 0 || !(absorbs(w) && is_regular(next[0])) }

pub open spec fn cat(seps: Seq<Seq<u8>>, ws: Seq<Seq<u8>>) -> Seq<u8> decreases ws.len() {
    if ws.len() == 0 || seps.len() != ws.len() { Seq::empty() } else { seps[0] + ws[0] + cat(seps.drop_first(), ws.drop_first()) }
}
pub open spec fn separated(seps: Seq<Seq<u8>>, ws: Seq<Seq<u8>>, rest: Seq<u8>) -> bool {
    &&& seps.len() == ws.len()
    &&& forall|i: int| 0 <= i < ws.len() ==> all_ws(#[trigger] seps[i])
    &&& forall|i: int| 0 <= i < ws.len() ==> tok_shape(#[trigger] ws[i])
    &&& forall|i: int| 1 <= i < ws.len() ==> (#[trigger] seps[i]).len() > 0 || may_follow(ws[i - 1], ws[i])
    &&& ws.len() > 0 ==> may_follow(ws[ws.len() - 1], rest)
}
// the tokens read from position p on are exactly ws[0], ws[1], ...; result = position after the last one
pub open spec fn lex_seq(buf: Seq<u8>, p: int, ws: Seq<Seq<u8>>) -> Option<int> decreases ws.len() {
    if ws.len() == 0 { Some(p) } else {
        match token_start(buf, p) {
            None => None,
            Some(s) => {
                let e = token_end(buf, s);
                if 0 <= s <= e <= buf.len() && buf.subrange(s, e) == ws[0] { lex_seq(buf, e, ws.drop_first()) } else { None }
            }
        }
    }
}

proof fn lemma_ws_end_run(buf: Seq<u8>, p: int, k: int)
    requires 0 <= p, 0 <= k, p + k <= buf.len(), forall|i: int| p <= i < p + k ==> is_ws(#[trigger] buf[i]),
        p + k == buf.len() || !is_ws(buf[p + k]),
    ensures ws_end(buf, p) == p + k
    decreases k
{ if k > 0 { lemma_ws_end_run(buf, p + 1, k - 1); } }
proof fn lemma_reg_end_run(buf: Seq<u8>, p: int, k: int)
    requires 0 <= p, 0 <= k, p + k <= buf.len(), forall|i: int| p <= i < p + k ==> is_regular(#[trigger] buf[i]),
        p + k == buf.len() || !is_regular(buf[p + k]),
    ensures reg_end(buf, p) == p + k
    decreases k
{ if k > 0 { lemma_reg_end_run(buf, p + 1, k - 1); } }

// one token: after any prefix and any white-space, a token-shaped word is the next token, provided what follows may follow
pub proof fn lemma_token_reads_back(pre: Seq<u8>, sep: Seq<u8>, w: Seq<u8>, next: Seq<u8>)
    requires all_ws(sep), tok_shape(w), may_follow(w, next),
    ensures ({
        let buf = pre + sep + w + next; let s: int = (pre.len() + sep.len()) as int;
        token_start(buf, pre.len() as int) == Some(s) && token_end(buf, s) == s + w.len()
            && buf.subrange(s, s + w.len()) == w
    })
{
    let buf = pre + sep + w + next; let p = pre.len() as int; let s = p + sep.len(); let e = s + w.len();
    assert(w.len() > 0);
    assert forall|i: int| p <= i < s implies is_ws(#[trigger] buf[i]) by { assert(buf[i] == sep[i - p]); }
    assert forall|i: int| s <= i < e implies #[trigger] buf[i] == w[i - s] by {}
    assert(buf[s] == w[0]);
    assert(!is_ws(w[0]) && w[0] != 37) by { if is_word(w) { assert(is_regular(w[0])); } }
    lemma_ws_end_run(buf, p, sep.len() as int);
    assert(buf.subrange(s, e) =~= w);
    if next.len() > 0 { assert(buf[e] == next[0]); }
    if is_word(w) {
        assert forall|i: int| s <= i < e implies is_regular(#[trigger] buf[i]) by { assert(buf[i] == w[i - s]); }
        lemma_reg_end_run(buf, s, w.len() as int);
        assert(!is_delim(buf[s]));
    } else if is_name_tok(w) {
        assert forall|i: int| s + 1 <= i < e implies is_regular(#[trigger] buf[i]) by { assert(buf[i] == w[i - s]); }
        lemma_reg_end_run(buf, s + 1, w.len() - 1);
    } else {
        if w == DICT_OPEN() || w == DICT_CLOSE() { assert(buf[s + 1] == w[1]); }
    }
}

proof fn lemma_cat_first(seps: Seq<Seq<u8>>, ws: Seq<Seq<u8>>, rest: Seq<u8>)
    requires separated(seps, ws, rest), ws.len() > 0,
    ensures may_follow(ws[0], cat(seps.drop_first(), ws.drop_first()) + rest) || seps.len() > 1 && seps[1].len() > 0,
            separated(seps.drop_first(), ws.drop_first(), rest),
{
    let s1 = seps.drop_first(); let w1 = ws.drop_first();
    assert forall|i: int| 0 <= i < w1.len() implies all_ws(#[trigger] s1[i]) by { assert(s1[i] == seps[i + 1]); }
    assert forall|i: int| 0 <= i < w1.len() implies tok_shape(#[trigger] w1[i]) by { assert(w1[i] == ws[i + 1]); }
    assert forall|i: int| 1 <= i < w1.len() implies (#[trigger] s1[i]).len() > 0 || may_follow(w1[i - 1], w1[i]) by {
        assert(s1[i] == seps[i + 1]); assert(w1[i - 1] == ws[i]); assert(w1[i] == ws[i + 1]);
        assert(seps[i + 1].len() > 0 || may_follow(ws[i + 1 - 1], ws[i + 1]));
    }
    if w1.len() > 0 {
        assert(w1[w1.len() - 1] == ws[ws.len() - 1]);
        let c = cat(s1, w1);
        assert(c == s1[0] + w1[0] + cat(s1.drop_first(), w1.drop_first()));
        assert(s1[0] == seps[1]); assert(w1[0] == ws[1]);
        if seps[1].len() == 0 {
            assert(w1[0].len() > 0);
            assert((c + rest)[0] == ws[1][0]);
            assert(seps[1].len() > 0 || may_follow(ws[0], ws[1]));
        }
    } else {
        assert(cat(s1, w1) + rest =~= rest);
    }
    assert(s1.len() == w1.len());
    assert(forall|i: int| 1 <= i < w1.len() ==> (#[trigger] s1[i]).len() > 0 || may_follow(w1[i - 1], w1[i]));
    assert(w1.len() > 0 ==> may_follow(w1[w1.len() - 1], rest));
}

// own resource limit: near the unit's limit under some seeds (an rlimit is 'undecided', never an alarm, but a proof should not be flaky)
#[verifier::rlimit(150)]
pub proof fn theorem_tokens_read_back(pre: Seq<u8>, seps: Seq<Seq<u8>>, ws: Seq<Seq<u8>>, rest: Seq<u8>)
    requires separated(seps, ws, rest),
    ensures lex_seq(pre + cat(seps, ws) + rest, pre.len() as int, ws) == Some((pre.len() + cat(seps, ws).len()) as int),
    decreases ws.len()
{
    if ws.len() > 0 {
        let s1 = seps.drop_first(); let w1 = ws.drop_first();
        let tail = cat(s1, w1);
        let buf = pre + cat(seps, ws) + rest;
        lemma_cat_first(seps, ws, rest);
        assert(cat(seps, ws) == seps[0] + ws[0] + tail);
        assert(buf =~= pre + seps[0] + ws[0] + (tail + rest));
        // what follows ws[0]: white-space (seps[1] non-empty) or a byte that may follow
        if !may_follow(ws[0], tail + rest) {
            assert(tail == s1[0] + w1[0] + cat(s1.drop_first(), w1.drop_first()));
            assert(s1[0] == seps[1]);
            assert((tail + rest)[0] == seps[1][0]);
            assert(is_ws(seps[1][0]));
        }
        lemma_token_reads_back(pre, seps[0], ws[0], tail + rest);
        let pre2 = pre + seps[0] + ws[0];
        theorem_tokens_read_back(pre2, s1, w1, rest);
        assert(buf =~= pre2 + tail + rest);
    } else {
        assert(cat(seps, ws) =~= Seq::<u8>::empty());
    }
}

// ---- the scalar spellings are token-shaped
proof fn lemma_dec_digits_word(n: nat)
    ensures dec_digits(n).len() > 0, all_regular(dec_digits(n), 0), forall|i: int| 0 <= i < dec_digits(n).len() ==> is_digit(#[trigger] dec_digits(n)[i])
    decreases n
{ if n >= 10 { lemma_dec_digits_word(n / 10); } }
pub proof fn lemma_dec_int_word(i: int)
    ensures is_word(dec_int(i))
{ if i < 0 { lemma_dec_digits_word((-i) as nat); } else { lemma_dec_digits_word(i as nat); } }
proof fn lemma_name_body_regular(d: Seq<u8>)
    ensures all_regular(name_body(d), 0)
    decreases d.len()
{
    if d.len() > 0 {
        lemma_name_body_regular(d.drop_last());
        let b = d.last();
        assert(all_regular(name_byte(b), 0)) by {
            if !name_plain(b) { assert(is_regular(35u8)); assert(forall|n: int| 0 <= n < 16 ==> is_regular(#[trigger] hexdig(n))); assert(0 <= b as int / 16 < 16 && 0 <= b as int % 16 < 16); }
        }
    }
}
pub proof fn lemma_name_is_token(s: Seq<char>)
    ensures is_name_tok(spell_name(s))
{ lemma_name_body_regular(encode_utf8(s)); }
// a finite real, given what is required of `Display for f32`
pub proof fn lemma_real_is_word(n: f32)
    requires display_req(), f32_finite(n), !DEV_REAL_WITHOUT_PERIOD(),
    ensures is_word(spell_real(n)), has_period(spell_real(n)),
{
    let t = f32_display(n);
    assert(is_plain_decimal(t));
    assert(is_regular(45u8) && is_regular(46u8) && is_regular(48u8));
    assert forall|i: int| 0 <= i < t.len() implies is_regular(#[trigger] t[i]) by {
        let k: int = if t.len() > 0 && t[0] == 45 { 1 } else { 0 };
        if i >= k { assert(is_digit(t[i]) || t[i] == 46); }
    }
    if !has_period(t) { let u = t + seq![46u8, 48u8]; assert(u[t.len() as int] == 46); }
}
pub proof fn lemma_keywords_are_words()
    ensures is_word(KW_NULL()), is_word(KW_TRUE()), is_word(KW_FALSE()), is_word(KW_R()), is_word(KW_OBJ()), is_word(KW_ENDOBJ()),
        is_word(KW_STREAM()), is_word(KW_ENDSTREAM()),
{}

// the values whose spelling is ONE token
pub open spec fn is_one_token_value(v: Primitive) -> bool {
    v is Null || v is Integer || v is Boolean || v is Name || (v matches Primitive::Number(n) && f32_finite(n))
}
pub proof fn lemma_one_token_value(v: Primitive)
    requires is_one_token_value(v), display_req(), !DEV_REAL_WITHOUT_PERIOD(),
    ensures tok_shape(spell(v)), absorbs(spell(v)),
{
    lemma_keywords_are_words();
    match v {
        Primitive::Integer(i) => { lemma_dec_int_word(i as int); }
        Primitive::Number(n) => { lemma_real_is_word(n); }
        Primitive::Name(s) => { lemma_name_is_token(s@); }
        _ => {}
    }
}

// ---- corollaries for the spellings of this unit
// 7.3.10 `id gen R`, wherever it stands (array element, dictionary value, object body): three tokens
pub proof fn theorem_reference_reads_back(pre: Seq<u8>, id: ObjNr, gen: GenNr, rest: Seq<u8>)
    requires seps_ok(), rest.len() == 0 || !is_regular(rest[0]),
    ensures lex_seq(pre + spell_ref(id, gen) + rest, pre.len() as int, seq![dec_int(id as int), dec_int(gen as int), KW_R()])
        == Some((pre.len() + spell_ref(id, gen).len()) as int),
{
    lemma_dec_int_word(id as int); lemma_dec_int_word(gen as int); lemma_keywords_are_words();
    let seps = seq![Seq::<u8>::empty(), SEP_REF(), SEP_REF()];
    let ws = seq![dec_int(id as int), dec_int(gen as int), KW_R()];
    assert(all_ws(Seq::<u8>::empty()));
    assert(cat(seps, ws) =~= spell_ref(id, gen)) by {
        let s1 = seps.drop_first(); let w1 = ws.drop_first(); let s2 = s1.drop_first(); let w2 = w1.drop_first();
        assert(cat(s2.drop_first(), w2.drop_first()) =~= Seq::<u8>::empty());
        assert(cat(s2, w2) =~= SEP_REF() + KW_R());
        assert(cat(s1, w1) =~= SEP_REF() + dec_int(gen as int) + (SEP_REF() + KW_R()));
    }
    theorem_tokens_read_back(pre, seps, ws, rest);
}
// 7.3.10 an indirect object whose body is a one-token value (the case of finding no_separator_before_endobj): with the
// separator the five tokens are  id gen obj <body> endobj
pub proof fn theorem_framed_scalar_reads_back(pre: Seq<u8>, id: ObjNr, gen: GenNr, v: Primitive, rest: Seq<u8>)
    requires seps_ok(), display_req(), is_one_token_value(v), !DEV_REAL_WITHOUT_PERIOD(), !DEV_NO_SEPARATOR_BEFORE_ENDOBJ(),
    ensures lex_seq(pre + spell_indirect(id, gen, v) + rest, pre.len() as int,
                    seq![dec_int(id as int), dec_int(gen as int), KW_OBJ(), spell(v), KW_ENDOBJ()])
        == Some((pre.len() + spell_indirect(id, gen, v).len() - SEP_ENDOBJ().len()) as int),
{
    lemma_dec_int_word(id as int); lemma_dec_int_word(gen as int); lemma_keywords_are_words(); lemma_one_token_value(v);
    let e = Seq::<u8>::empty();
    let seps = seq![e, SEP_REF(), SEP_REF(), SEP_OBJ(), SEP_BODY()];
    let ws = seq![dec_int(id as int), dec_int(gen as int), KW_OBJ(), spell(v), KW_ENDOBJ()];
    let tail = SEP_ENDOBJ() + rest;
    assert(all_ws(e));
    assert(tail.len() == 0 || !is_regular(tail[0])) by { if SEP_ENDOBJ().len() > 0 { assert(tail[0] == SEP_ENDOBJ()[0]); } }
    let c = cat(seps, ws);
    assert(c =~= dec_int(id as int) + SEP_REF() + dec_int(gen as int) + SEP_REF() + KW_OBJ() + SEP_OBJ() + spell(v) + SEP_BODY() + KW_ENDOBJ()) by {
        let s1 = seps.drop_first(); let w1 = ws.drop_first(); let s2 = s1.drop_first(); let w2 = w1.drop_first();
        let s3 = s2.drop_first(); let w3 = w2.drop_first(); let s4 = s3.drop_first(); let w4 = w3.drop_first();
        assert(cat(s4.drop_first(), w4.drop_first()) =~= e);
        assert(cat(s4, w4) =~= SEP_BODY() + KW_ENDOBJ());
        assert(cat(s3, w3) =~= SEP_OBJ() + spell(v) + (SEP_BODY() + KW_ENDOBJ()));
        assert(cat(s2, w2) =~= SEP_REF() + KW_OBJ() + cat(s3, w3));
        assert(cat(s1, w1) =~= SEP_REF() + dec_int(gen as int) + cat(s2, w2));
    }
    assert(pre + spell_indirect(id, gen, v) + rest =~= pre + c + tail);
    assert(spell_indirect(id, gen, v).len() == c.len() + SEP_ENDOBJ().len());
    theorem_tokens_read_back(pre, seps, ws, tail);
}
// ... and without it (DEV_NO_SEPARATOR_BEFORE_ENDOBJ: the pinned writer) the token after `obj` is NOT the body: it runs on
// through the keyword (`5endobj`, `/Nameendobj`)
pub proof fn theorem_fused_without_separator(pre: Seq<u8>, v: Primitive, rest: Seq<u8>)
    requires display_req(), is_one_token_value(v), !DEV_REAL_WITHOUT_PERIOD(),
    ensures ({
        let buf = pre + spell(v) + KW_ENDOBJ() + rest;
        token_start(buf, pre.len() as int) == Some(pre.len() as int) && token_end(buf, pre.len() as int) >= pre.len() + spell(v).len() + KW_ENDOBJ().len()
    })
{
    lemma_one_token_value(v); lemma_keywords_are_words();
    let w = spell(v) + KW_ENDOBJ();
    assert(absorbs(spell(v)));
    assert(tok_shape(w)) by {
        if is_word(spell(v)) { assert forall|i: int| 0 <= i < w.len() implies is_regular(#[trigger] w[i]) by { if i < spell(v).len() { assert(w[i] == spell(v)[i]); } else { assert(w[i] == KW_ENDOBJ()[i - spell(v).len()]); } } }
        else { assert(w[0] == spell(v)[0]); assert forall|i: int| 1 <= i < w.len() implies is_regular(#[trigger] w[i]) by { if i < spell(v).len() { assert(w[i] == spell(v)[i]); } else { assert(w[i] == KW_ENDOBJ()[i - spell(v).len()]); } } }
    }
    // the token is the maximal run: at least w (longer if `rest` goes on with regular characters)
    let buf = pre + spell(v) + KW_ENDOBJ() + rest;
    let p = pre.len() as int;
    assert(buf =~= pre + Seq::<u8>::empty() + w + rest);
    assert forall|i: int| p <= i < p + w.len() implies #[trigger] buf[i] == w[i - p] by {}
    assert(buf[p] == w[0]);
    assert(!is_ws(w[0]) && w[0] != 37) by { if is_word(w) { assert(is_regular(w[0])); } }
    lemma_ws_end_run(buf, p, 0);
    if is_word(w) { lemma_reg_end_ge(buf, p, w.len() as int); } else { lemma_reg_end_ge(buf, p + 1, w.len() - 1); }
}
proof fn lemma_reg_end_ge(buf: Seq<u8>, p: int, k: int)
    requires 0 <= p, 0 <= k, p + k <= buf.len(), forall|i: int| p <= i < p + k ==> is_regular(#[trigger] buf[i]),
    ensures reg_end(buf, p) >= p + k
    decreases k
{ if k > 0 { lemma_reg_end_ge(buf, p + 1, k - 1); } else { lemma_reg_end_ge0(buf, p); } }
proof fn lemma_reg_end_ge0(buf: Seq<u8>, p: int)
    ensures reg_end(buf, p) >= p
    decreases buf.len() - p
{ if 0 <= p < buf.len() && is_regular(buf[p]) { lemma_reg_end_ge0(buf, p + 1); } }
