// read-back lemmas (token level)
