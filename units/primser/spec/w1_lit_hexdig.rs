// bytes of an ASCII string literal
pub open spec fn lit_bytes(s: Seq<char>) -> Seq<u8> { Seq::new(s.len(), |i: int| s[i] as u8) }
pub open spec fn hexdig(n: int) -> u8 { if n < 10 { (48 + n) as u8 } else { (87 + n) as u8 } }