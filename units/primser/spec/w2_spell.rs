// =====================================================================================================
// spec: spellings, written from ISO 32000-1:2008 7.2.2, 7.3 (not from the code)
// =====================================================================================================

// ---- 7.2.2 character classes (Tables 1, 2)
pub open spec fn is_ws(b: u8) -> bool { b == 0 || b == 9 || b == 10 || b == 12 || b == 13 || b == 32 }
pub open spec fn is_delim(b: u8) -> bool {
    b == 40 || b == 41 || b == 60 || b == 62 || b == 91 || b == 93 || b == 123 || b == 125 || b == 47 || b == 37
}
pub open spec fn is_regular(b: u8) -> bool { !is_ws(b) && !is_delim(b) }
pub open spec fn all_ws(s: Seq<u8>) -> bool { forall|i: int| 0 <= i < s.len() ==> is_ws(#[trigger] s[i]) }

// ---- white-space between tokens.  7.2.2: "White-space characters separate syntactic constructs such as names and numbers
// from each other"; two adjacent tokens need it exactly when the first ends and the second starts with a regular
// character.  WHICH white-space is written is not forced by ISO: these constants fix one choice (the writer's); the
// read-back lemmas below use nothing but `seps_ok()`.
pub open spec fn SEP_ELEM() -> Seq<u8> { seq![32u8] }        // between array elements
pub open spec fn SEP_DICT_OPEN() -> Seq<u8> { seq![10u8] }   // after `<<`
pub open spec fn SEP_KEY() -> Seq<u8> { seq![32u8] }         // between a key and its value
pub open spec fn SEP_ENTRY() -> Seq<u8> { seq![10u8] }       // after a value, before the next key or `>>`
pub open spec fn SEP_DICT_CLOSE() -> Seq<u8> { seq![10u8] }  // after `>>`
pub open spec fn SEP_REF() -> Seq<u8> { seq![32u8] }         // inside `id gen R`, `id gen obj`
// 7.3.8.1: the keyword `stream` "shall be followed by an end-of-line marker consisting of either a CARRIAGE RETURN and a
// LINE FEED or just a LINE FEED"; "There should be an end-of-line marker after the data and before endstream"
pub open spec fn STREAM_EOL() -> Seq<u8> { seq![10u8] }
pub open spec fn DATA_EOL() -> Seq<u8> { seq![10u8] }
pub open spec fn SEP_ENDSTREAM() -> Seq<u8> { seq![10u8] }   // after `endstream`
// 7.3.10 indirect object: `objnum gen obj` <object> `endobj`
pub open spec fn SEP_OBJ() -> Seq<u8> { seq![10u8] }         // after `obj`
pub open spec fn SEP_BODY() -> Seq<u8> { seq![10u8] }        // after the object, before `endobj` (the object may end in a regular character)
pub open spec fn SEP_ENDOBJ() -> Seq<u8> { seq![10u8] }      // after `endobj`
pub open spec fn seps_ok() -> bool {
    &&& all_ws(SEP_ELEM()) && SEP_ELEM().len() > 0
    &&& all_ws(SEP_DICT_OPEN())
    &&& all_ws(SEP_KEY()) && SEP_KEY().len() > 0
    &&& all_ws(SEP_ENTRY())
    &&& all_ws(SEP_DICT_CLOSE())
    &&& all_ws(SEP_REF()) && SEP_REF().len() > 0
    &&& (STREAM_EOL() == seq![10u8] || STREAM_EOL() == seq![13u8, 10u8])
    &&& (DATA_EOL().len() == 0 || DATA_EOL() == seq![10u8] || DATA_EOL() == seq![13u8] || DATA_EOL() == seq![13u8, 10u8])
    &&& all_ws(SEP_ENDSTREAM())
    &&& all_ws(SEP_OBJ()) && SEP_OBJ().len() > 0
    &&& all_ws(SEP_BODY()) && SEP_BODY().len() > 0
    &&& all_ws(SEP_ENDOBJ())
}

// ---- keywords and delimiters (7.3.2, 7.3.6, 7.3.7, 7.3.8, 7.3.9, 7.3.10)
pub open spec fn KW_NULL() -> Seq<u8> { seq![110u8, 117, 108, 108] }
pub open spec fn KW_TRUE() -> Seq<u8> { seq![116u8, 114, 117, 101] }
pub open spec fn KW_FALSE() -> Seq<u8> { seq![102u8, 97, 108, 115, 101] }
pub open spec fn KW_R() -> Seq<u8> { seq![82u8] }
pub open spec fn KW_OBJ() -> Seq<u8> { seq![111u8, 98, 106] }
pub open spec fn KW_ENDOBJ() -> Seq<u8> { seq![101u8, 110, 100, 111, 98, 106] }
pub open spec fn KW_STREAM() -> Seq<u8> { seq![115u8, 116, 114, 101, 97, 109] }
pub open spec fn KW_ENDSTREAM() -> Seq<u8> { seq![101u8, 110, 100, 115, 116, 114, 101, 97, 109] }
pub open spec fn ARRAY_OPEN() -> Seq<u8> { seq![91u8] }
pub open spec fn ARRAY_CLOSE() -> Seq<u8> { seq![93u8] }
pub open spec fn DICT_OPEN() -> Seq<u8> { seq![60u8, 60] }
pub open spec fn DICT_CLOSE() -> Seq<u8> { seq![62u8, 62] }

// ---- 7.3.3 integer: "one or more decimal digits optionally preceded by a sign"; the value is read in base 10
pub open spec fn dec_digits(n: nat) -> Seq<u8> decreases n {
    if n < 10 { seq![(48 + n) as u8] } else { dec_digits(n / 10) + seq![(48 + n % 10) as u8] }
}
pub open spec fn dec_int(i: int) -> Seq<u8> { if i < 0 { seq![45u8] + dec_digits((-i) as nat) } else { dec_digits(i as nat) } }

// ---- 7.3.3 real: "one or more decimal digits with an optional sign and a leading, trailing, or embedded PERIOD".
// No exponent form exists in PDF.  The decimal digits of an f32 come from core::fmt (`Display for f32`), which is out of
// reach: `f32_display` is uninterpreted and `display_req()` states what the read-back needs of it (trusted, sampled
// natively: findings/real_without_period.md).  A real SHALL contain a PERIOD: a token without one is an integer object.
pub uninterp spec fn f32_display(n: f32) -> Seq<u8>;     // what `{}` prints
pub uninterp spec fn f32_debug(n: f32) -> Seq<u8>;       // what `{:?}` prints (may use an exponent: 1e16, 1e-7)
pub uninterp spec fn f32_finite(n: f32) -> bool;
pub uninterp spec fn f32_of_decimal(t: Seq<u8>) -> f32;  // the f32 nearest to the decimal numeral t (what the reader computes)
pub open spec fn has_period(t: Seq<u8>) -> bool { exists|i: int| 0 <= i < t.len() && #[trigger] t[i] == 46 }
pub open spec fn is_digit(b: u8) -> bool { 48 <= b <= 57 }
// [-] d+ [ . d+ ]
pub open spec fn is_plain_decimal(t: Seq<u8>) -> bool {
    let k: int = if t.len() > 0 && t[0] == 45 { 1 } else { 0 };
    &&& t.len() > k && is_digit(t[k]) && is_digit(t[t.len() - 1])
    &&& forall|i: int| k <= i < t.len() ==> is_digit(#[trigger] t[i]) || t[i] == 46
    &&& forall|i: int, j: int| k <= i < j < t.len() ==> !(#[trigger] t[i] == 46 && #[trigger] t[j] == 46)
}
// REQUIREMENT on `Display for f32` (trusted): for finite values no exponent form, no `inf`/`NaN`, and the text denotes
// the value (core::fmt prints the shortest decimal that rounds to it).
pub open spec fn display_req() -> bool {
    forall|n: f32| f32_finite(n) ==> is_plain_decimal(#[trigger] f32_display(n)) && f32_of_decimal(f32_display(n)) == n
}
pub open spec fn with_period(t: Seq<u8>) -> Seq<u8> { if has_period(t) { t } else { t + seq![46u8, 48u8] } }
// C04 quantifies over finite reals only; for inf / NaN the spec takes whatever Display prints (TOL_NONFINITE_REAL)
pub open spec fn spell_real(n: f32) -> Seq<u8> {
    if TOL_NONFINITE_REAL() && !f32_finite(n) { f32_display(n) }
    else if DEV_REAL_WITHOUT_PERIOD() { f32_display(n) }
    else { with_period(f32_display(n)) }
}

// ---- 7.3.4 strings, 7.3.5 names: spellings of units/serial_leaf (same text)
pub open spec fn hex_byte(b: u8) -> Seq<u8> { seq![hexdig(b as int / 16), hexdig(b as int % 16)] }
pub open spec fn hex_body(d: Seq<u8>) -> Seq<u8> decreases d.len() {
    if d.len() == 0 { Seq::empty() } else { hex_body(d.drop_last()) + hex_byte(d.last()) }
}
pub open spec fn spell_hex(d: Seq<u8>) -> Seq<u8> { seq![60u8] + hex_body(d) + seq![62u8] }
pub open spec fn lit_byte(b: u8) -> Seq<u8> {
    if b == 92 || b == 40 || b == 41 { seq![92u8, b] } else if b == 13 { seq![92u8, 114u8] } else { seq![b] }
}
pub open spec fn lit_body(d: Seq<u8>) -> Seq<u8> decreases d.len() {
    if d.len() == 0 { Seq::empty() } else { lit_body(d.drop_last()) + lit_byte(d.last()) }
}
pub open spec fn spell_lit(d: Seq<u8>) -> Seq<u8> { seq![40u8] + lit_body(d) + seq![41u8] }
// both forms are conformant for every content; which one the writer takes is a function of the content only
pub uninterp spec fn string_form_is_hex(d: Seq<u8>) -> bool;
pub open spec fn spell_string(d: Seq<u8>) -> Seq<u8> { if string_form_is_hex(d) { spell_hex(d) } else { spell_lit(d) } }
pub open spec fn name_plain(b: u8) -> bool { is_regular(b) && b != 35 && 33 <= b <= 126 }
pub open spec fn name_byte(b: u8) -> Seq<u8> {
    if name_plain(b) { seq![b] } else { seq![35u8, hexdig(b as int / 16), hexdig(b as int % 16)] }
}
pub open spec fn name_body(d: Seq<u8>) -> Seq<u8> decreases d.len() {
    if d.len() == 0 { Seq::empty() } else { name_body(d.drop_last()) + name_byte(d.last()) }
}
pub open spec fn spell_name(s: Seq<char>) -> Seq<u8> { seq![47u8] + name_body(encode_utf8(s)) }

// ---- 7.3.10 indirect reference: "the object number, the generation number, and the keyword R"
pub open spec fn spell_ref(id: ObjNr, gen: GenNr) -> Seq<u8> {
    dec_int(id as int) + SEP_REF() + dec_int(gen as int) + SEP_REF() + KW_R()
}

// ---- the object model (7.3.2 - 7.3.9): one spelling per value
pub open spec fn spell(v: Primitive) -> Seq<u8> decreases v, 0nat {
    match v {
        Primitive::Null => KW_NULL(),
        Primitive::Integer(i) => dec_int(i as int),
        Primitive::Number(n) => spell_real(n),
        Primitive::Boolean(b) => if b { KW_TRUE() } else { KW_FALSE() },
        Primitive::String(s) => spell_string(s.data@),
        Primitive::Stream(s) => spell_stream(s),
        Primitive::Dictionary(d) => spell_dict(d),
        Primitive::Array(a) => spell_array(a@),
        Primitive::Reference(r) => spell_ref(r.id, r.gen),
        Primitive::Name(s) => spell_name(s@),
    }
}
// 7.3.6: "a sequence of objects enclosed in SQUARE BRACKETS"
pub open spec fn spell_elems(a: Seq<Primitive>, n: nat) -> Seq<u8> decreases a, n {
    if n == 0 || n > a.len() { Seq::empty() }
    else if n == 1 { spell(a[0]) }
    else { spell_elems(a, (n - 1) as nat) + SEP_ELEM() + spell(a[n - 1]) }
}
pub open spec fn spell_array(a: Seq<Primitive>) -> Seq<u8> decreases a, a.len() + 1 {
    ARRAY_OPEN() + spell_elems(a, a.len()) + ARRAY_CLOSE()
}
// 7.3.7: "a sequence of key-value pairs enclosed in double angle brackets"; "The key shall be a name" -- written as any
// other name object (7.3.5), DEV_DICT_KEY_RAW: as its raw bytes after a SOLIDUS
pub open spec fn spell_key(k: Name) -> Seq<u8> {
    if DEV_DICT_KEY_RAW() { seq![47u8] + encode_utf8(k.0@) } else { spell_name(k.0@) }
}
pub open spec fn spell_entries(e: Seq<(Name, Primitive)>, n: nat) -> Seq<u8> decreases e, n {
    if n == 0 || n > e.len() { Seq::empty() }
    else { spell_entries(e, (n - 1) as nat) + spell_key(e[n - 1].0) + SEP_KEY() + spell(e[n - 1].1) + SEP_ENTRY() }
}
pub open spec fn spell_dict(d: Dictionary) -> Seq<u8> decreases d, 0nat {
    DICT_OPEN() + SEP_DICT_OPEN() + spell_entries(d.dict.entries@, d.dict.entries@.len()) + DICT_CLOSE() + SEP_DICT_CLOSE()
}
// 7.3.8.1: dictionary, `stream`, EOL, the bytes, [EOL], `endstream`
pub open spec fn stream_data(s: PdfStream) -> Seq<u8> {
    match s.inner { StreamInner::Pending { data } => data@, StreamInner::InFile { id, file_range } => Seq::empty() }
}
pub open spec fn spell_stream(s: PdfStream) -> Seq<u8> decreases s, 1nat {
    spell_dict(s.info) + KW_STREAM() + STREAM_EOL() + stream_data(s) + DATA_EOL() + KW_ENDSTREAM() + SEP_ENDSTREAM()
}
// 7.3.10: "the object number and generation number, separated by white space, then the keyword obj ... endobj"
pub open spec fn obj_header(id: ObjNr, gen: GenNr) -> Seq<u8> {
    dec_int(id as int) + SEP_REF() + dec_int(gen as int) + SEP_REF() + KW_OBJ() + SEP_OBJ()
}
pub open spec fn obj_trailer() -> Seq<u8> {
    (if DEV_NO_SEPARATOR_BEFORE_ENDOBJ() { Seq::<u8>::empty() } else { SEP_BODY() }) + KW_ENDOBJ() + SEP_ENDOBJ()
}
pub open spec fn spell_indirect(id: ObjNr, gen: GenNr, v: Primitive) -> Seq<u8> { obj_header(id, gen) + spell(v) + obj_trailer() }

// a value the serialiser can write: stream data held in memory (an `InFile` stream has no bytes at hand: `Err`)
pub open spec fn serializable(v: Primitive) -> bool decreases v, 0nat {
    match v {
        Primitive::Stream(s) => stream_serializable(s),
        Primitive::Dictionary(d) => dict_serializable(d),
        Primitive::Array(a) => list_serializable(a@, a@.len()),
        _ => true,
    }
}
pub open spec fn list_serializable(a: Seq<Primitive>, n: nat) -> bool decreases a, n {
    if n == 0 || n > a.len() { true } else { list_serializable(a, (n - 1) as nat) && serializable(a[n - 1]) }
}
pub open spec fn entries_serializable(e: Seq<(Name, Primitive)>, n: nat) -> bool decreases e, n {
    if n == 0 || n > e.len() { true } else { entries_serializable(e, (n - 1) as nat) && serializable(e[n - 1].1) }
}
pub open spec fn dict_serializable(d: Dictionary) -> bool decreases d, 0nat {
    entries_serializable(d.dict.entries@, d.dict.entries@.len())
}
pub open spec fn stream_serializable(s: PdfStream) -> bool decreases s, 1nat {
    s.inner is Pending && dict_serializable(s.info)
}