pub type ObjNr = u64;
pub type GenNr = u64;

// =====================================================================================================
// env: foreign types (models, not extracted: other crates)
// =====================================================================================================

// istring::IBytes -- an owned byte buffer (as in units/serial_leaf)
pub struct IBytes { pub v: Vec<u8> }
impl View for IBytes { type V = Seq<u8>; open spec fn view(&self) -> Seq<u8> { self.v@ } }

// istring::SmallString -- an owned str; `Deref<Target = str>` is made explicit as `as_str()` (R2)
pub struct SmallString { pub s: String }
impl View for SmallString { type V = Seq<char>; open spec fn view(&self) -> Seq<char> { self.s@ } }
impl SmallString {
    pub fn as_str(&self) -> (r: &str) ensures r@ == self@ { self.s.as_str() }
}

// indexmap::IndexMap -- insertion-ordered map; the serialiser only iterates it: model = the entries in iteration order
pub struct IndexMap<K, V> { pub entries: Vec<(K, V)> }