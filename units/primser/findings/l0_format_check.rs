// Native cross-check of the TRUSTED L0 contracts of unit primser (not a finding): what `write!` prints for the argument types
// the serialiser uses, against an executable twin of the unit's spec functions dec_digits / dec_int.
// Drop into a scratch copy of /repo as pdf/tests/primser_l0.rs;  cargo test --offline -p pdf --test primser_l0
use std::io::Write;

fn dec_digits(n: u128) -> Vec<u8> { if n < 10 { vec![48 + n as u8] } else { let mut v = dec_digits(n / 10); v.push(48 + (n % 10) as u8); v } }
fn dec_int(i: i128) -> Vec<u8> { if i < 0 { let mut v = vec![45u8]; v.extend(dec_digits((-i) as u128)); v } else { dec_digits(i as u128) } }

#[test]
fn format_of_integers_bools_and_framing_is_the_spec_text() {
    let mut samples: Vec<i64> = vec![0, 1, -1, 9, 10, -10, 99, 100, i32::MAX as i64, i32::MIN as i64, i32::MAX as i64 - 1, i32::MIN as i64 + 1];
    let mut x: i64 = i32::MIN as i64;
    while x <= i32::MAX as i64 { samples.push(x); x += 65521; }
    for &i in &samples {
        let mut v = Vec::new(); write!(v, "{}", i as i32).unwrap();
        assert_eq!(v, dec_int(i as i128), "i32 {}", i);
    }
    for &(a, b) in &[(0u64, 0u64), (1, 0), (12, 65535), (u64::MAX, u64::MAX), (4294967296, 7)] {
        let mut v = Vec::new(); write!(v, "{} {} R", a, b).unwrap();
        let mut e = dec_int(a as i128); e.push(32); e.extend(dec_int(b as i128)); e.extend(b" R");
        assert_eq!(v, e);
        let mut v = Vec::new(); writeln!(v, "{} {} obj", a, b).unwrap();
        let mut e = dec_int(a as i128); e.push(32); e.extend(dec_int(b as i128)); e.extend(b" obj\n");
        assert_eq!(v, e);
    }
    let mut v = Vec::new(); write!(v, "{}", true).unwrap(); write!(v, "{}", false).unwrap(); assert_eq!(v, b"truefalse");
    let mut v = Vec::new(); writeln!(v, "<<").unwrap(); writeln!(v).unwrap(); writeln!(v, "\nendstream").unwrap(); assert_eq!(v, b"<<\n\n\nendstream\n");
    let name = pdf::primitive::Name::from("A B#é");
    let mut v = Vec::new(); write!(v, "{} ", name).unwrap(); assert_eq!(v, "/A B#é ".as_bytes());
}
