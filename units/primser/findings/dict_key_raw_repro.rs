// Repro for finding `dict_key_raw` (C04; obligation primser/Dictionary::serialize/dict_spelling).
// Drop into a scratch copy of /repo as pdf/tests/primser_dict_key.rs and run
//   CARGO_TARGET_DIR=/tmp/primser_target cargo test --offline -p pdf --test primser_dict_key -- --nocapture --test-threads 1
//
// Dictionary::serialize writes a key with `write!(out, "{} ", key)`, i.e. through `Display for Name` = SOLIDUS + the raw
// string.  ISO 32000-1 7.3.7: "The key shall be a name"; 7.3.5: white-space, delimiters and NUMBER SIGN inside a name shall
// be written #xx.  A name VALUE goes through serialize_name and is escaped; a KEY is not.
use pdf::object::*;
use pdf::primitive::*;
use pdf::parser::{parse, ParseFlags};

// independent reader of the first key of `<< /key value >>`, straight from 7.2.2 / 7.3.5
fn iso_first_key(b: &[u8]) -> Option<Vec<u8>> {
    let ws = |c: u8| matches!(c, 0 | 9 | 10 | 12 | 13 | 32);
    let delim = |c: u8| b"()<>[]{}/%".contains(&c);
    let mut i = 0;
    while i < b.len() && ws(b[i]) { i += 1; }
    if !b[i..].starts_with(b"<<") { return None; }
    i += 2;
    while i < b.len() && ws(b[i]) { i += 1; }
    if b.get(i) != Some(&b'/') { return None; }
    i += 1;
    let mut out = Vec::new();
    while i < b.len() && !ws(b[i]) && !delim(b[i]) {
        if b[i] == b'#' {
            let h = std::str::from_utf8(b.get(i + 1..i + 3)?).ok()?;
            out.push(u8::from_str_radix(h, 16).ok()?);
            i += 3;
        } else { out.push(b[i]); i += 1; }
    }
    Some(out)
}

#[test]
fn dictionary_key_is_written_as_a_name() {
    let mut bad = Vec::new();
    for key in &["A", "A B", "A#", "A#41", "A/B", "A(B", "A)B", "A%B", "A<B", "A>B", "A[B", "A]B", "A{B", "A}B", "A\nB", "A\tB", "é"] {
        let mut d = Dictionary::new();
        d.insert(*key, Primitive::Integer(1));
        let p = Primitive::Dictionary(d);
        let mut b = Vec::new();
        p.serialize(&mut b).unwrap();
        let iso = iso_first_key(&b);
        let crate_back = parse(&b, &NoResolve, ParseFlags::ANY);
        let iso_ok = iso.as_deref() == Some(key.as_bytes());
        let crate_ok = matches!(&crate_back, Ok(q) if *q == p);
        println!("key {:<8} written {:<20} ISO reader: {:<10} this crate's parser: {}", format!("{:?}", key), format!("{:?}", String::from_utf8_lossy(&b)),
            if iso_ok { "ok" } else { "MISMATCH" }, if crate_ok { "ok".to_string() } else { format!("MISMATCH {}", crate_back.map(|q| format!("{:?}", q).replace('\n', " ")).unwrap_or_else(|e| e.to_string().lines().last().unwrap_or("").to_string())) });
        if !iso_ok { bad.push(*key); }
    }
    assert!(bad.is_empty(), "keys whose written form does not denote the key: {:?}", bad);
}
