// Repro for finding `real_without_period` (C04; obligation primser/Primitive::serialize/prim_spelling), and native check
// of the REQUIREMENT the unit places on `Display for f32` (display_req, hoist_f32_fract_is_zero).
// Drop into a scratch copy of /repo as pdf/tests/primser_real.rs and run
//   CARGO_TARGET_DIR=/tmp/primser_target cargo test --offline -p pdf --test primser_real -- --nocapture --test-threads 1
//
// Primitive::Number(n) is written with `{}` of f32.  For a value without fractional part that prints digits only: the token
// is an INTEGER object (7.3.3).  Up to 2^24 that is harmless (same numeric value).  From 2^24 on `{}` prints the SHORTEST
// decimal that rounds to the f32, not its value (123456792f32 -> "123456790"): the reader gets a different number.  From
// 2^31 on the digits do not fit the reader's i32 at all: the object cannot be read.
use pdf::object::*;
use pdf::primitive::*;
use pdf::parser::{parse, ParseFlags};

fn num_eq(a: &Primitive, b: &Primitive) -> bool {
    match (a, b) {
        (Primitive::Integer(i), Primitive::Number(n)) | (Primitive::Number(n), Primitive::Integer(i)) => (*i as f64) == (*n as f64),
        (Primitive::Array(x), Primitive::Array(y)) => x.len() == y.len() && x.iter().zip(y).all(|(a, b)| num_eq(a, b)),
        _ => a == b,
    }
}

#[test]
fn finite_reals_read_back_with_equal_value() {
    let mut bad = Vec::new();
    for &f in &[0.5f32, -0.0, 1.0, -7.0, 16777216.0, 16777218.0, 123456792.0, 2147483520.0, 2147483648.0, 3e9, 1e10, -2147483648.0, -2147483904.0,
                f32::MAX, f32::MIN, 1e-10, f32::MIN_POSITIVE, f32::from_bits(1)] {
        // as an array element: a bare number at the very end of the data is a different matter (the parser looks ahead for `R`)
        let p = Primitive::Array(vec![Primitive::Number(f)]);
        let mut b = Vec::new();
        p.serialize(&mut b).unwrap();
        let back = parse(&b, &NoResolve, ParseFlags::ANY);
        let ok = matches!(&back, Ok(q) if num_eq(&p, q));
        println!("Number({:e}) = {:<42} written {:<52} read {}", f, format!("{:.1}", f), String::from_utf8_lossy(&b),
            match &back { Ok(q) => format!("{:?} {}", q, if ok { "ok" } else { "MISMATCH" }), Err(e) => format!("MISMATCH Err({})", e.to_string().lines().last().unwrap_or("")) });
        if !ok { bad.push(f); }
    }
    assert!(bad.is_empty(), "reals that do not read back with equal value: {:?}", bad);
}

// What the unit TRUSTS about core::fmt (unit.rs: display_req, hoist_f32_fract_is_zero), sampled over the f32 bit patterns
// (every 4099th pattern plus the 8 patterns around every exponent boundary; ~1.05 million finite values):
//   * `{}` of a finite f32 is  [-] d+ [ . d+ ]  -- no exponent, no inf / NaN
//   * it contains a PERIOD exactly when the value has a fractional part (fract() != 0)
//   * parsed back with f32::from_str (what the reader does) it gives the same f32
// and that `{:?}` (mutant number_debug_format) does print exponents.
#[test]
fn display_of_f32_meets_the_requirement() {
    let mut n = 0u64; let mut longest = 0usize;
    let mut bits: u32 = 0;
    loop {
        let f = f32::from_bits(bits);
        if f.is_finite() {
            n += 1;
            let s = format!("{}", f);
            longest = longest.max(s.len());
            let t = s.strip_prefix('-').unwrap_or(&s);
            let mut parts = t.split('.');
            let int = parts.next().unwrap(); let frac = parts.next(); assert!(parts.next().is_none(), "{}", s);
            assert!(!int.is_empty() && int.bytes().all(|b| b.is_ascii_digit()), "not a plain decimal: {:?}", s);
            if let Some(fr) = frac { assert!(!fr.is_empty() && fr.bytes().all(|b| b.is_ascii_digit()), "not a plain decimal: {:?}", s); }
            assert_eq!(frac.is_some(), f.fract() != 0.0, "PERIOD <=> fractional part fails for {:?}", s);
            let back: f32 = s.parse().unwrap();
            assert!(back.to_bits() == f.to_bits() || (back == 0.0 && f == 0.0), "{:?} -> {:?}", s, back);
        } else {
            assert!(!(f.fract() == 0.0));    // inf / NaN never take the "{}.0" arm of the fix
        }
        let step = if (bits & 0x007f_ffff) < 4 || (bits & 0x007f_ffff) > 0x007f_fffb { 1 } else { 4099 };
        match bits.checked_add(step) { Some(b) => bits = b, None => break }
    }
    println!("{} finite f32 checked, longest text {} bytes; inf -> {:?}, NaN -> {:?}; {{:?}}: 1e16 -> {:?}, 1e-7 -> {:?}", n, longest,
        format!("{}", f32::INFINITY), format!("{}", f32::NAN), format!("{:?}", 1e16f32), format!("{:?}", 1e-7f32));
    assert!(format!("{:?}", 1e16f32).contains('e') && format!("{:?}", 1e-7f32).contains('e'));
}
