// Repro for finding `no_separator_before_endobj` (C04 / C09; obligation primser/Storage::save/save_framing).
// Drop into a scratch copy of /repo as pdf/tests/primser_endobj.rs and run
//   CARGO_TARGET_DIR=/tmp/primser_target cargo test --offline -p pdf --test primser_endobj -- --nocapture --test-threads 1
//
// Storage::save writes   writeln!("{} {} obj"); primitive.serialize(); writeln!("endobj")   -- nothing between the object
// and the keyword.  An object whose spelling ends in a regular character (integer, real, true/false/null, name, reference)
// fuses with the keyword into one token: `5endobj`, `/Nameendobj`, `3 0 Rendobj`.
use std::path::{Path, PathBuf};
use pdf::file::FileOptions;
use pdf::object::*;
use pdf::primitive::*;
use pdf::parser::{parse_indirect_object, Lexer, ParseFlags};

fn files() -> PathBuf { Path::new(env!("CARGO_MANIFEST_DIR")).parent().unwrap().join("files") }

fn bodies() -> Vec<Primitive> {
    vec![
        Primitive::Integer(5), Primitive::Integer(-2147483648), Primitive::Number(0.5), Primitive::Boolean(true), Primitive::Boolean(false),
        Primitive::Null, Primitive::Name("Name".into()), Primitive::Reference(PlainRef { id: 3, gen: 0 }),
        // delimited bodies: never affected
        Primitive::String(PdfString::new(b"ab"[..].into())), Primitive::Array(vec![Primitive::Integer(1), Primitive::Integer(2)]),
        Primitive::Dictionary({ let mut d = Dictionary::new(); d.insert("A", Primitive::Integer(1)); d }),
    ]
}

// through the real writer and the real loader
#[test]
fn created_objects_survive_save_and_reload() {
    let data = std::fs::read(files().join("example.pdf")).unwrap();
    let mut bad = Vec::new();
    for body in bodies() {
        let mut file = FileOptions::uncached().load(data.clone()).unwrap();
        let r: PlainRef = file.create(body.clone()).unwrap().get_ref().get_inner();
        let out = std::env::temp_dir().join("primser_repro_endobj_out.pdf");
        file.save_to(&out).unwrap();
        let saved = std::fs::read(&out).unwrap();
        let _ = std::fs::remove_file(&out);
        let tail = String::from_utf8_lossy(&saved[data.len()..]).into_owned();
        let written = tail.lines().skip_while(|l| !l.ends_with(" obj")).take(3).collect::<Vec<_>>().join("\\n");
        let file2 = FileOptions::uncached().load(saved).unwrap();
        let back = file2.resolver().resolve(r);
        // since /repo e0f1f98 resolve() follows a reference-valued object (within its depth budget)
        let expected = if let Primitive::Reference(t) = &body { file2.resolver().resolve(*t).unwrap() } else { body.clone() };
        let ok = matches!(&back, Ok(q) if *q == expected);
        println!("{:<40} written as {:<34} reload: {}", format!("{:?}", body).replace('\n', " "), format!("{:?}", written), if ok { "ok".to_string() } else { format!("MISMATCH {:?}", back.map_err(|e| e.to_string())) });
        if !ok { bad.push(format!("{:?}", body)); }
    }
    assert!(bad.is_empty(), "objects that do not come back after save + reload: {:?}", bad);
}

// the framing alone, fed to parse_indirect_object
#[test]
fn framed_object_parses_back() {
    use std::io::Write;
    let mut bad = Vec::new();
    for body in bodies() {
        // what a conforming writer may produce: white-space before the keyword (this is what the fix writes)
        let mut v = Vec::new();
        writeln!(v, "7 0 obj").unwrap(); body.serialize(&mut v).unwrap(); writeln!(v, "\nendobj").unwrap();
        let mut lexer = Lexer::new(&v);
        let back = parse_indirect_object(&mut lexer, &NoResolve, None, ParseFlags::ANY);
        if !matches!(&back, Ok((r, q)) if r.id == 7 && *q == body) { bad.push(format!("{:?} -> {:?}", String::from_utf8_lossy(&v), back.map_err(|e| e.to_string()))); }
    }
    assert!(bad.is_empty(), "{:#?}", bad);
}
