// std predicates on u8 that a refactor of the byte-level code naturally uses (trusted: core::num, documented tables)
pub open spec fn spec_is_ascii_digit(c: &u8) -> bool { 48 <= *c <= 57 }
#[verifier::when_used_as_spec(spec_is_ascii_digit)]
pub assume_specification[ u8::is_ascii_digit ](c: &u8) -> (r: bool) ensures r == spec_is_ascii_digit(c);
pub open spec fn spec_is_ascii_hexdigit(c: &u8) -> bool { (48 <= *c <= 57) || (65 <= *c <= 70) || (97 <= *c <= 102) }
#[verifier::when_used_as_spec(spec_is_ascii_hexdigit)]
pub assume_specification[ u8::is_ascii_hexdigit ](c: &u8) -> (r: bool) ensures r == spec_is_ascii_hexdigit(c);
pub open spec fn spec_is_ascii_whitespace(c: &u8) -> bool { *c == 9 || *c == 10 || *c == 12 || *c == 13 || *c == 32 }
#[verifier::when_used_as_spec(spec_is_ascii_whitespace)]
pub assume_specification[ u8::is_ascii_whitespace ](c: &u8) -> (r: bool) ensures r == spec_is_ascii_whitespace(c);
