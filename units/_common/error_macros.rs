// R4: the crate's error macros (pdf/src/error.rs) with identical control flow; context strings,
// file!/line! payloads and format! arguments dropped (R3). `Try.source` keeps the wrapped error.
macro_rules! try_opt {
    ($e:expr $(,$c:expr)*) => ( match $e { Some(v) => v, None => { return Err(PdfError::NoneError); } } );
}
macro_rules! t {
    ($e:expr $(,$c:expr)*) => { match $e { Ok(v) => v, Err(e) => { return Err(PdfError::Try { source: Box::new(e) }) } } };
}
macro_rules! err { ($e: expr) => ({ return Err($e); }) }
macro_rules! bail { ($($t:tt)*) => { err!(PdfError::Other) } }
macro_rules! other { ($($t:tt)*) => (PdfError::Other) }
macro_rules! warn { ($($t:tt)*) => { () } }
macro_rules! info { ($($t:tt)*) => { () } }
macro_rules! debug { ($($t:tt)*) => { () } }
macro_rules! trace { ($($t:tt)*) => { () } }
