"""Unit `loadfile` (C06 mechanism "decoder installed from trailer /Encrypt and /ID", C02, C17): Storage::with_cache,
Storage::load_storage_and_trailer(_password), File::load_data (pdf/src/file.rs)."""
FILE = 'pdf/src/file.rs'
P = 'pdf/src/primitive.rs'
O = 'pdf/src/object/mod.rs'
K = 'pdf/src/crypt.rs'
IMPL = r'^impl<B, OC, SC, L> Storage<B, OC, SC, L> where'
IMPLF = r'^impl<B, OC, SC, L> File<B, OC, SC, L> where'


IMPLO = r"^impl<'a, OC, SC, L> FileOptions<'a, OC, SC, L> where"


def opt_kept(*fields):
    """frame condition of a FileOptions builder method: every field not named by the setter is handed on unchanged"""
    eq = {'oc': 'r.oc == self.oc', 'sc': 'r.sc == self.sc', 'log': 'r.log == self.log',
          'password': 'r.password@ == self.password@', 'parse_options': 'r.parse_options == self.parse_options'}
    return ' && '.join(eq[f] for f in fields)


def open_ens(backend, password, options, oc, sc, log):
    """what opening `backend` with these settings must answer (File::load_data and FileOptions::load: the same statement)"""
    return [
        ('opens_as_specified', '''match header_spec(%(b)s.bytes()) {
            Err(_) => r is Err,
            Ok(i) => match xref_spec(%(b)s.bytes(), i as int) {
                Err(_) => r is Err,
                Ok((refs, t)) => match decoder_spec(SView { refs: refs, decoder: None, bytes: %(b)s.bytes(), start_offset: i as int }, t, %(pw)s@) {
                    Err(_) => r is Err,
                    Ok(dec) => match trailer_typed_spec(Primitive::Dictionary(t), SView { refs: refs, decoder: dec, bytes: %(b)s.bytes(), start_offset: i as int }) {
                        Err(_) => r is Err,
                        Ok(tt) => r matches Ok(f) && f.trailer == tt && f.storage.backend == %(b)s && f.storage.start_offset == i
                                  && f.storage.refs == refs && f.storage.decoder == dec,
                    } } } }''' % {'b': backend, 'pw': password}),
        ('no_encrypt_no_decoder', '(r matches Ok(f) && header_spec(%(b)s.bytes()) matches Ok(i) && xref_spec(%(b)s.bytes(), i as int) matches Ok(x) && !has_key(x.1, "Encrypt"@)) ==> r->Ok_0.storage.decoder is None' % {'b': backend}),
        # C12: the document works with exactly the parse options, caches and log it was opened with (cached and uncached
        # documents of the same file differ in the caches ONLY)
        ('settings_handed_over', 'r matches Ok(f) ==> f.storage.options == %s && f.storage.cache == %s && f.storage.stream_cache == %s && f.storage.log == %s'
         % (options, oc, sc, log)),
    ]


def pub(*fields):
    return [{'rule': 'R2', 'regex': r'(?<![\w.(])(?:pub\(crate\) )?%s:' % f, 'replace': 'pub %s:' % f} for f in fields]


UNIT = {
 'name': 'loadfile',
 'doc': 'opening a document: header position -> xref chain -> newest trailer -> decoder from /Encrypt + /ID[0] + password, installed before any other object is read',
 'rlimit': 40, 'timeout': 900,
 'items': {
  'struct PlainRef': {'kind': 'decl', 'file': O, 'header': r'^pub struct PlainRef$', 'attrs': ['#[derive(Clone, Copy)]']},
  'enum Primitive': {'kind': 'decl', 'file': P, 'header': r'^pub enum Primitive$'},
  'struct Name': {'kind': 'decl', 'file': P, 'header': r'^pub struct Name\b'},
  'enum CryptMethod': {'kind': 'decl', 'file': K, 'header': r'^pub enum CryptMethod$', 'attrs': ['#[derive(Clone, Copy)]']},
  'struct Decoder': {'kind': 'decl', 'file': K, 'header': r'^pub struct Decoder$',
     'rewrites': pub('key_size', 'key', 'method', 'encrypt_indirect_object', 'metadata_indirect_object', 'encrypt_metadata')},
  'struct Storage': {'kind': 'decl', 'file': FILE, 'header': r'^pub struct Storage<B, OC, SC, L>$',
     'rewrites': [{'rule': 'R2', 'find': f, 'replace': 'pub ' + f} for f in
                  ('cache:', 'stream_cache:', 'changes:', 'refs:', 'decoder:', 'options:', 'backend:', 'start_offset:', 'log:')]},
  'struct File': {'kind': 'decl', 'file': FILE, 'header': r'^pub struct File<B, OC, SC, L>$',
     'rewrites': [{'rule': 'R2', 'find': 'storage:', 'replace': 'pub storage:'}]},

  'Storage::with_cache': {'kind': 'fn', 'file': FILE, 'container': IMPL, 'name': 'with_cache', 'props': ['C17', 'C06', 'C01'],
     'ensures': [
        # C17: the position every offset counts from is the located header; nothing is known about objects yet, nothing is decrypted
        ('header_located', 'match header_spec(backend.bytes()) { Ok(i) => r matches Ok(s) && s.start_offset == i && s.backend == backend, Err(e) => r == Err::<Self, PdfError>(e) }'),
        ('starts_without_decoder_and_table', 'r matches Ok(s) ==> s.decoder is None && s.refs == xref_new_spec(0) && s.cache == object_cache && s.stream_cache == stream_cache && s.options == options && s.log == log'),
     ],
     'rewrites': [{'rule': 'R7', 'find': 'changes: HashMap::new(),', 'replace': 'changes: new_changes(),'}]},
  'Storage::load_storage_and_trailer': {'kind': 'fn', 'file': FILE, 'container': IMPL, 'name': 'load_storage_and_trailer', 'props': ['C06', 'C02', 'C17', 'C01'],
     'ensures': [('empty_password', 'load_post(*old(self), Seq::<u8>::empty(), r, *final(self))'),
                 ('frame', 'frame(*old(self), *final(self))')],
     'rewrites': [{'rule': 'R7', 'find': 'self.load_storage_and_trailer_password(b"")', 'replace': 'self.load_storage_and_trailer_password(empty_password())'}]},
  'Storage::load_storage_and_trailer_password': {'kind': 'fn', 'file': FILE, 'container': IMPL, 'name': 'load_storage_and_trailer_password',
     'props': ['C06', 'C02', 'C17', 'C01'],
     'ensures': [
        # C02 newest trailer + merged table, C17 relative to the header, C06 decoder (see spec.rs: decoder_spec)
        ('trailer_table_decoder', 'load_post(*old(self), password@, r, *final(self))'),
        ('frame', 'frame(*old(self), *final(self))'),
     ],
     'rewrites': [
        # R3: String payload of MissingEntry
        {'rule': 'R3', 'regex': r'field: "[^"]*"\.into\(\),?', 'count': 2, 'replace': ''},
     ]},
  'File::load_data': {'kind': 'fn', 'file': FILE, 'container': IMPLF, 'name': 'load_data', 'props': ['C06', 'C02', 'C17', 'C01', 'C12'],
     # the typed trailer (and with it the catalog) is read through the storage that already carries the decoder
     'ensures': open_ens('backend', 'password', 'options', 'object_cache', 'stream_cache', 'log')},

  # ---- FileOptions: the builder every document is opened through (C12: "a document opened with object and stream caches"
  # vs "the same file opened without caches" -- the two differ in the caches only; C06: the password reaches the handler).
  # Each setter changes exactly its field and hands the others on (frame condition).
  'struct FileOptions': {'kind': 'decl', 'file': FILE, 'header': r"^pub struct FileOptions<'a, OC, SC, L>$",
     'rewrites': pub('oc', 'sc', 'log', 'password', 'parse_options')},
  'FileOptions::uncached': {'kind': 'fn', 'file': FILE, 'container': r"^impl FileOptions<'static, NoCache, NoCache, NoLog>$", 'name': 'uncached', 'props': ['C12'],
     'ensures': [('defaults', 'r.password@ == Seq::<u8>::empty() && r.parse_options == strict_options()')],
     'rewrites': [{'rule': 'R7', 'regex': r'b""', 'replace': 'empty_password()', 'count': '*'}]},
  'FileOptions::cached': {'kind': 'fn', 'file': FILE, 'container': r"^impl FileOptions<'static, ObjectCache, StreamCache, NoLog>$", 'name': 'cached', 'props': ['C12'],
     # same defaults as `uncached()`; and the caches start EMPTY (units/cachetransp (a): empty caches are coherent)
     'ensures': [('defaults', 'r.password@ == Seq::<u8>::empty() && r.parse_options == strict_options()'),
                 ('caches_start_empty', 'r.oc.holds_nothing() && r.sc.holds_nothing()')],
     'rewrites': [{'rule': 'R7', 'regex': r'b""', 'replace': 'empty_password()', 'count': '*'}]},
  'FileOptions::password': {'kind': 'fn', 'file': FILE, 'container': IMPLO, 'name': 'password', 'props': ['C12', 'C06'],
     'ensures': [('sets_password', 'r.password@ == password@'), ('others_kept', opt_kept('oc', 'sc', 'log', 'parse_options'))]},
  'FileOptions::cache': {'kind': 'fn', 'file': FILE, 'container': IMPLO, 'name': 'cache', 'props': ['C12', 'C06'],
     'ensures': [('sets_caches', 'r.oc == oc && r.sc == sc'), ('others_kept', opt_kept('log', 'password', 'parse_options'))]},
  'FileOptions::log': {'kind': 'fn', 'file': FILE, 'container': IMPLO, 'name': 'log', 'props': ['C12', 'C06'],
     'ensures': [('sets_log', 'r.log == log'), ('others_kept', opt_kept('oc', 'sc', 'password', 'parse_options'))]},
  'FileOptions::parse_options': {'kind': 'fn', 'file': FILE, 'container': IMPLO, 'name': 'parse_options', 'props': ['C12', 'C06'],
     'ensures': [('sets_parse_options', 'r.parse_options == parse_options'), ('others_kept', opt_kept('oc', 'sc', 'log', 'password'))]},
  'FileOptions::load': {'kind': 'fn', 'file': FILE, 'container': IMPLO, 'name': 'load', 'props': ['C12', 'C06'],
     # every setting goes to File::load_data as it is
     'ensures': open_ens('backend', 'self.password', 'self.parse_options', 'self.oc', 'self.sc', 'self.log')},
 },
}
