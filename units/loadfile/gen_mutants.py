#!/usr/bin/env python3
"""Regenerates mutants/*.diff and benign/*.diff.  Each = /repo + findings/*_fix.diff (those that still apply) + ONE edit,
written as a diff against /repo.  Run: python3 units/<unit>/gen_mutants.py"""
import os, subprocess, tempfile, shutil, glob
HERE = os.path.dirname(os.path.abspath(__file__))
C = 'pdf/src/file.rs'

CAT = """            if let Some(Primitive::Reference(catalog_ref)) = trailer.get("Root") {
                let resolver = StorageResolver::new(self);
                let catalog = t!(t!(resolver.resolve(*catalog_ref)).resolve(&resolver)?.into_dictionary());
                if let Some(Primitive::Reference(metadata_ref)) = catalog.get("Metadata") {
                    self.decoder.as_mut().unwrap().metadata_indirect_object = Some(*metadata_ref);
                }
            }
"""
INSTALL = """            self.decoder = Some(t!(Decoder::from_password(&dict, key, password)));
            if let Primitive::Reference(reference) = crypt {
                self.decoder.as_mut().unwrap().encrypt_indirect_object = Some(*reference);
            }
"""
# the catalog is looked at first (storage still without decoder), the decoder is installed afterwards
CAT_FIRST = """            let mut metadata = None;
            if let Some(Primitive::Reference(catalog_ref)) = trailer.get("Root") {
                let resolver = StorageResolver::new(self);
                let catalog = t!(t!(resolver.resolve(*catalog_ref)).resolve(&resolver)?.into_dictionary());
                if let Some(Primitive::Reference(metadata_ref)) = catalog.get("Metadata") {
                    metadata = Some(*metadata_ref);
                }
            }
""" + INSTALL + """            if metadata.is_some() {
                self.decoder.as_mut().unwrap().metadata_indirect_object = metadata;
            }
"""
MUTANTS = {
 'second_id_element': ('load_storage_and_trailer_password/trailer_table_decoder', C, '                .get(0)\n', '                .get(1)\n'),
 'decoder_after_catalog': ('load_storage_and_trailer_password/trailer_table_decoder', C, INSTALL + CAT, CAT_FIRST),
 'encrypt_object_not_exempt': ('load_storage_and_trailer_password/trailer_table_decoder', C,
    '            if let Primitive::Reference(reference) = crypt {\n                self.decoder.as_mut().unwrap().encrypt_indirect_object = Some(*reference);\n            }\n', ''),
 'metadata_ref_is_catalog_ref': ('load_storage_and_trailer_password/trailer_table_decoder', C, 'metadata_indirect_object = Some(*metadata_ref);', 'metadata_indirect_object = Some(*catalog_ref);'),
 'header_position_ignored': ('load_storage_and_trailer_password/trailer_table_decoder', C, 'self.backend.read_xref_table_and_trailer(self.start_offset, &resolver)', 'self.backend.read_xref_table_and_trailer(0, &resolver)'),
 'table_not_installed': ('load_storage_and_trailer_password/trailer_table_decoder', C, '        self.refs = refs;\n', '        let _ = refs;\n'),
 'with_cache_forgets_header': ('Storage::with_cache/header_located', C, '        Ok(Storage {\n            start_offset,\n            backend,\n            refs: XRefTable::new(0),', '        Ok(Storage {\n            start_offset: 0,\n            backend,\n            refs: XRefTable::new(0),'),
 'typed_trailer_before_decoder': ('File::load_data/opens_as_specified', C,
    '        let trailer = storage.load_storage_and_trailer_password(password)?;\n\n        let resolver = StorageResolver::new(&storage);\n        let trailer = t!(Trailer::from_primitive(\n            Primitive::Dictionary(trailer),\n            &resolver,\n        ));',
    '        let trailer = storage.load_storage_and_trailer_password(password)?;\n        let decoder = storage.decoder.take();\n        let resolver = StorageResolver::new(&storage);\n        let trailer = t!(Trailer::from_primitive(\n            Primitive::Dictionary(trailer),\n            &resolver,\n        ));\n        storage.decoder = decoder;'),
}
BENIGN = {
 'with_cache_fields_reordered': (C, '            start_offset,\n            backend,\n            refs: XRefTable::new(0),', '            backend,\n            start_offset,\n            refs: XRefTable::new(0),'),
 'resolver_created_earlier': (C, None, None),
}


def main():
    tmp = tempfile.mkdtemp(prefix='mut_')
    try:
        files = sorted({m[1] for m in MUTANTS.values()} | {b[0] for b in BENIGN.values()})
        for side in 'ab':
            for f in files:
                os.makedirs(os.path.join(tmp, side, os.path.dirname(f)), exist_ok=True)
                shutil.copy(os.path.join('/repo', f), os.path.join(tmp, side, f))
        for fx in sorted(glob.glob(os.path.join(HERE, 'findings', '*_fix.diff'))):
            subprocess.run(['patch', '-p1', '-s', '-N', '-r', '-', '-i', fx], cwd=os.path.join(tmp, 'b'))
        fixed = {f: open(os.path.join(tmp, 'b', f)).read() for f in files}
        BENIGN['resolver_created_earlier'] = (C, '            let resolver = StorageResolver::new(self);\n            let dict = CryptDict::from_primitive(crypt.clone(), &resolver)?;\n\n' + INSTALL,
                                              '            let dict = { let resolver = StorageResolver::new(self); CryptDict::from_primitive(crypt.clone(), &resolver)? };\n\n' + INSTALL)
        for kind, table in (('mutants', MUTANTS), ('benign', BENIGN)):
            os.makedirs(os.path.join(HERE, kind), exist_ok=True)
            for name, spec in table.items():
                expect, f, old, new = spec if kind == 'mutants' else (None,) + spec
                assert fixed[f].count(old) == 1, (name, fixed[f].count(old))
                open(os.path.join(tmp, 'b', f), 'w').write(fixed[f].replace(old, new))
                d = ''
                for g in files:
                    d += subprocess.run(['diff', '-u', '--label', 'a/' + g, '--label', 'b/' + g, 'a/' + g, 'b/' + g],
                                        cwd=tmp, capture_output=True, text=True).stdout
                open(os.path.join(tmp, 'b', f), 'w').write(fixed[f])
                head = ('# expect: %s\n# (contains the hunks of findings/*_fix.diff, see gen_mutants.py)\n' % expect) if expect else \
                       '# benign edit: must NOT be reported as failed (includes the fix hunks)\n'
                open(os.path.join(HERE, kind, name + '.diff'), 'w').write(head + d)
    finally:
        shutil.rmtree(tmp)


if __name__ == '__main__':
    main()
