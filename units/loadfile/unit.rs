// Unit `loadfile` (C06 "decoder installed from trailer /Encrypt and /ID", C02 "the document trailer is that of the newest
// section", C17 header position handed to the xref reader): Storage::with_cache, Storage::load_storage_and_trailer(_password),
// File::load_data of pdf/src/file.rs.  Callees are abstract; their outcomes are named by uninterpreted functions whose
// meaning is fixed by the contracts of units/xrefchain (locate_start_offset, read_xref_table_and_trailer) and
// units/decrypt (Decoder::from_password).
use vstd::prelude::*;
use std::collections::HashMap;
use std::sync::Arc;
//@@ INCLUDE _common/error_macros.rs
verus! {
global size_of usize == 8;

//@@ PDFERROR
pub type ObjNr = u64;
pub type GenNr = u64;

// ---- env: opaque types ----
#[verifier::external_body] pub struct SmallString { p: core::marker::PhantomData<()> }
#[verifier::external_body] pub struct PdfString { p: core::marker::PhantomData<()> }
#[verifier::external_body] pub struct PdfStream { p: core::marker::PhantomData<()> }
#[verifier::external_body] pub struct XRefTable { p: core::marker::PhantomData<()> }
#[verifier::external_body] pub struct ParseOptions { p: core::marker::PhantomData<()> }
/// object/mod.rs ParseOptions::strict(): the options a document is opened with unless the caller says otherwise
pub uninterp spec fn strict_options() -> ParseOptions;
impl ParseOptions {
    #[verifier::external_body] pub const fn strict() -> (r: ParseOptions) ensures r == strict_options() { unimplemented!() }
}
// file.rs: the cache / log configurations the crate offers (their behaviour: units/cachetransp)
pub struct NoCache;
pub struct NoLog;
#[verifier::external_body] pub struct AnySync { p: core::marker::PhantomData<()> }
#[verifier::external_body]
#[verifier::reject_recursive_types(K)]
#[verifier::reject_recursive_types(V)]
pub struct SyncCache<K, V> { p: core::marker::PhantomData<(K, V)> }
impl<K, V> SyncCache<K, V> {
    pub uninterp spec fn holds_nothing(&self) -> bool;
    // globalcache::sync::SyncCache::new(): `Arc::new(SyncCache { global: .., items: HashMap::new().into() })`
    #[verifier::external_body] pub fn new() -> (r: Arc<Self>) ensures r.holds_nothing() { unimplemented!() }
}
pub type ObjectCache = Arc<SyncCache<PlainRef, core::result::Result<AnySync, Arc<PdfError>>>>;
pub type StreamCache = Arc<SyncCache<PlainRef, core::result::Result<Arc<[u8]>, Arc<PdfError>>>>;
#[verifier::external_body] pub struct CryptDict { p: core::marker::PhantomData<()> }
#[verifier::external_body] pub struct Trailer { p: core::marker::PhantomData<()> }
//@@ struct PlainRef
//@@ enum Primitive
//@@ struct Name
//@@ enum CryptMethod
//@@ struct Decoder

// Dictionary: map from key characters to values (insertion order not modelled)
#[verifier::external_body] pub struct Dictionary { p: core::marker::PhantomData<()> }
impl Dictionary {
    pub uninterp spec fn view(&self) -> Map<Seq<char>, Primitive>;
    #[verifier::external_body]
    pub fn get(&self, key: &str) -> (r: Option<&Primitive>)
        ensures self@.dom().contains(key@) ==> (r matches Some(p) && *p == self@[key@]), !self@.dom().contains(key@) ==> r is None
    { unimplemented!() }
}

//@@ struct Storage
//@@ struct File

// what a resolver over a storage can see of it (object cache / stream cache / pending changes are not part of it: the caches
// only memoise, and nothing has been changed while a document is being opened)
pub struct SView { pub refs: XRefTable, pub decoder: Option<Decoder>, pub bytes: Seq<u8>, pub start_offset: int }
impl<B: Backend, OC, SC, L> Storage<B, OC, SC, L> {
    pub open spec fn sv(&self) -> SView {
        SView { refs: self.refs, decoder: self.decoder, bytes: self.backend.bytes(), start_offset: self.start_offset as int }
    }
}
pub trait Resolve { spec fn sview(&self) -> SView; }
pub struct StorageResolver<'a, B, OC, SC, L> { pub storage: &'a Storage<B, OC, SC, L> }
impl<'a, B: Backend, OC, SC, L> Resolve for StorageResolver<'a, B, OC, SC, L> {
    open spec fn sview(&self) -> SView { self.storage.sv() }
}

// ---- outcomes of the abstract callees ----
/// units/xrefchain locate_start_offset: header_first_in_window / header_missing_is_error / header_found_is_ok
pub uninterp spec fn header_spec(bytes: Seq<u8>) -> Result<usize>;
/// units/xrefchain read_xref_table_and_trailer: newest_trailer, newest_size, first_inside_file, chain_merged_newest_first
/// (trailer = the one of the section `startxref` points to, offsets relative to `start_offset`; table = sections merged newest first)
pub uninterp spec fn xref_spec(bytes: Seq<u8>, start_offset: int) -> Result<(XRefTable, Dictionary)>;
/// the value of an indirect object as seen through a storage (units/resolve: Storage::resolve_ref; units/guard: resolve_flags)
pub uninterp spec fn resolve_spec(s: SView, r: PlainRef) -> Result<Primitive>;
pub uninterp spec fn prim_resolve_spec(p: Primitive, s: SView) -> Result<Primitive>;
pub uninterp spec fn into_dict_spec(p: Primitive) -> Result<Dictionary>;
/// derive(Object) reader of the encryption dictionary (units/expansions)
pub uninterp spec fn cryptdict_spec(p: Primitive, s: SView) -> Result<CryptDict>;
/// units/decrypt Decoder::from_password: selection_rejects, revision_rejects, key_size_selection, decoder_wf, rc4_login, aes_login
pub uninterp spec fn from_password_spec(d: CryptDict, id: Seq<u8>, pass: Seq<u8>) -> Result<Decoder>;
pub uninterp spec fn trailer_typed_spec(p: Primitive, s: SView) -> Result<Trailer>;
pub uninterp spec fn xref_new_spec(n: ObjNr) -> XRefTable;
pub uninterp spec fn string_bytes(s: PdfString) -> Seq<u8>;

pub trait Backend: Sized {
    spec fn bytes(&self) -> Seq<u8>;
    fn locate_start_offset(&self) -> (r: Result<usize>) ensures r == header_spec(self.bytes());
    // the resolver handed in sees a storage with an empty table and no decoder (it serves indirect /Length of xref streams)
    fn read_xref_table_and_trailer<R: Resolve>(&self, start_offset: usize, resolve: &R) -> (r: Result<(XRefTable, Dictionary)>)
        ensures r == xref_spec(self.bytes(), start_offset as int);
}
impl<'a, B: Backend, OC, SC, L> StorageResolver<'a, B, OC, SC, L> {
    // body in /repo: StorageResolver { storage, chain: Mutex::new(vec![]) }
    #[verifier::external_body]
    pub fn new(storage: &'a Storage<B, OC, SC, L>) -> (r: Self) ensures r.storage == storage { unimplemented!() }
    // Resolve::resolve
    #[verifier::external_body]
    pub fn resolve(&self, r: PlainRef) -> (res: Result<Primitive>) ensures res == resolve_spec(self.storage.sv(), r) { unimplemented!() }
}
impl XRefTable {
    #[verifier::external_body] pub fn new(num_objects: ObjNr) -> (r: XRefTable) ensures r == xref_new_spec(num_objects) { unimplemented!() }
}
impl Primitive {
    #[verifier::external_body] pub fn clone(&self) -> (r: Primitive) ensures r == *self { unimplemented!() }
    /// units/ops: Primitive::as_array/array_only
    #[verifier::external_body]
    pub fn as_array(&self) -> (r: Result<&[Primitive]>)
        ensures match *self { Primitive::Array(v) => (r matches Ok(s) && s@ == v@), _ => r is Err } { unimplemented!() }
    // primitive.rs:566: Ok for the String variant only
    #[verifier::external_body]
    pub fn as_string(&self) -> (r: Result<&PdfString>)
        ensures match *self { Primitive::String(s) => (r matches Ok(t) && *t == s), _ => r is Err } { unimplemented!() }
    #[verifier::external_body]
    pub fn resolve<R: Resolve>(self, r: &R) -> (res: Result<Primitive>) ensures res == prim_resolve_spec(self, r.sview()) { unimplemented!() }
    #[verifier::external_body]
    pub fn into_dictionary(self) -> (r: Result<Dictionary>) ensures r == into_dict_spec(self) { unimplemented!() }
}
impl PdfString {
    #[verifier::external_body] pub fn as_bytes(&self) -> (r: &[u8]) ensures r@ == string_bytes(*self) { unimplemented!() }
}
impl CryptDict {
    #[verifier::external_body]
    pub fn from_primitive<R: Resolve>(p: Primitive, resolve: &R) -> (r: Result<CryptDict>) ensures r == cryptdict_spec(p, resolve.sview()) { unimplemented!() }
}
impl Decoder {
    #[verifier::external_body]
    pub fn from_password(dict: &CryptDict, id: &[u8], pass: &[u8]) -> (r: Result<Decoder>) ensures r == from_password_spec(*dict, id@, pass@) { unimplemented!() }
}
impl Trailer {
    #[verifier::external_body]
    pub fn from_primitive<R: Resolve>(p: Primitive, resolve: &R) -> (r: Result<Trailer>) ensures r == trailer_typed_spec(p, resolve.sview()) { unimplemented!() }
}
// R7: b"" (byte-string literals are opaque to Verus)
#[verifier::external_body]
fn empty_password() -> (r: &'static [u8]) ensures r@ == Seq::<u8>::empty() { b"" }
#[verifier::external_body]
fn new_changes() -> (r: HashMap<ObjNr, (Primitive, GenNr)>) { HashMap::new() }

//@@ INCLUDE loadfile/spec.rs

impl<B: Backend, OC, SC, L> Storage<B, OC, SC, L> {
//@@ Storage::with_cache
//@@ Storage::load_storage_and_trailer
//@@ Storage::load_storage_and_trailer_password
}
impl<B: Backend, OC, SC, L> File<B, OC, SC, L> {
//@@ File::load_data
}
//@@ struct FileOptions
impl FileOptions<'static, NoCache, NoCache, NoLog> {
//@@ FileOptions::uncached
}
impl FileOptions<'static, ObjectCache, StreamCache, NoLog> {
//@@ FileOptions::cached
}
impl<'a, OC, SC, L> FileOptions<'a, OC, SC, L> {
//@@ FileOptions::password
//@@ FileOptions::cache
//@@ FileOptions::log
//@@ FileOptions::parse_options
//@@ FileOptions::load
}
}
fn main(){}
