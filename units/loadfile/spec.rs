// ---------------------------------------------------------------------------------------------------------
// What opening a document must do (C17, C02, C06), written from the property statements and ISO 32000-1 7.5.5 / 7.6.1:
//  * the header position is where every offset counts from;
//  * the trailer is the one of the newest cross-reference section, the table the merge of the whole chain;
//  * /Encrypt in that trailer => the standard security handler is set up from the encryption dictionary, the FIRST element
//    of the file identifier /ID and the password; the encryption dictionary itself is read in the clear and, when it is an
//    indirect object, stays exempt; every other object -- the catalog first -- is read through the decoder;
//  * no /Encrypt => nothing is decrypted.
// ---------------------------------------------------------------------------------------------------------
pub open spec fn has_key(d: Dictionary, k: Seq<char>) -> bool { d@.dom().contains(k) }
/// 14.4: "/ID: an array of two byte-strings"; Algorithm 2 step (e): "the first element of the file's file identifier array"
pub open spec fn id0(t: Dictionary) -> Option<Seq<u8>> {
    if !has_key(t, "ID"@) { None } else { match t@["ID"@] {
        Primitive::Array(v) => if v@.len() == 0 { None } else { match v@[0] { Primitive::String(s) => Some(string_bytes(s)), _ => None } },
        _ => None } }
}
pub open spec fn with_encrypt_ref(d: Decoder, crypt: Primitive) -> Decoder {
    match crypt { Primitive::Reference(e) => Decoder { encrypt_indirect_object: Some(e), ..d }, _ => d }
}
/// the catalog, read through the storage `s` (7.7.2: /Root shall be an indirect reference)
pub open spec fn catalog_spec(s: SView, c: PlainRef) -> Result<Dictionary> {
    match resolve_spec(s, c) { Err(e) => Err(e), Ok(p) => match prim_resolve_spec(p, s) { Err(e) => Err(e), Ok(q) => into_dict_spec(q) } }
}
pub open spec fn with_metadata_ref(d: Decoder, cat: Dictionary) -> Decoder {
    if has_key(cat, "Metadata"@) { match cat@["Metadata"@] { Primitive::Reference(m) => Decoder { metadata_indirect_object: Some(m), ..d }, _ => d } } else { d }
}
pub open spec fn root_ref(t: Dictionary) -> Option<PlainRef> {
    if has_key(t, "Root"@) { match t@["Root"@] { Primitive::Reference(c) => Some(c), _ => None } } else { None }
}
/// the decoder a storage must carry after opening: Err = the document cannot be opened
pub open spec fn decoder_spec(s1: SView, t: Dictionary, pass: Seq<u8>) -> Result<Option<Decoder>> {
    if !has_key(t, "Encrypt"@) { Ok(s1.decoder) }
    else { match id0(t) {
        None => Err(PdfError::Other),
        Some(id) => match cryptdict_spec(t@["Encrypt"@], s1) {        // read BEFORE the decoder exists: in the clear
            Err(e) => Err(e),
            Ok(cd) => match from_password_spec(cd, id, pass) {
                Err(e) => Err(e),
                Ok(d) => {
                    let d1 = with_encrypt_ref(d, t@["Encrypt"@]);
                    match root_ref(t) {
                        None => Ok(Some(d1)),
                        // the catalog is read THROUGH the decoder (and with the encryption dictionary already exempt)
                        Some(c) => match catalog_spec(SView { decoder: Some(d1), ..s1 }, c) {
                            Err(e) => Err(e),
                            Ok(cat) => Ok(Some(with_metadata_ref(d1, cat))),
                        }
                    }
                }
            }
        }
    } }
}
pub open spec fn load_post<B: Backend, OC, SC, L>(s0: Storage<B, OC, SC, L>, pass: Seq<u8>, r: Result<Dictionary>, s: Storage<B, OC, SC, L>) -> bool {
    match xref_spec(s0.backend.bytes(), s0.start_offset as int) {
        Err(_) => r is Err,
        Ok((refs, t)) => match decoder_spec(SView { refs: refs, ..s0.sv() }, t, pass) {
            Err(_) => r is Err,
            Ok(dec) => r == Ok::<Dictionary, PdfError>(t) && s.refs == refs && s.decoder == dec,
        }
    }
}
pub open spec fn frame<B: Backend, OC, SC, L>(s0: Storage<B, OC, SC, L>, s: Storage<B, OC, SC, L>) -> bool {
    s.backend == s0.backend && s.start_offset == s0.start_offset && s.cache == s0.cache && s.stream_cache == s0.stream_cache
    && s.changes == s0.changes && s.options == s0.options && s.log == s0.log
}
