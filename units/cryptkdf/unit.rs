// Unit `cryptkdf` (C06): the key-derivation and password-check bodies of pdf/src/crypt.rs that unit `decrypt` trusts:
// the nested fns of Decoder::from_password (ISO 32000-1 7.6.3.3/7.6.3.4 Algorithms 2, 3 a-d, 4, 5, 6) and
// Decoder::revision_6_kdf (ISO 32000-2 7.6.4.3.4 Algorithm 2.B); Decoder::from_password itself is re-proved on top of
// the *proved* contracts (Algorithms 6, 7, 2.A).  MD5, SHA-2, AES-CBC are uninterpreted spec functions, RC4 is the
// spec function `rc4` of units/rc4 (shared include rc4/rc4_spec.rs; the real Rc4::encrypt is proved against it there); the
// md5::Context / sha2 feed is ghost state (the sequence of bytes consumed so far).
use vstd::prelude::*;
use std::collections::HashMap;
//@@ INCLUDE _common/error_macros.rs
verus! {
global size_of usize == 8;

//@@ PDFERROR
//@@ DEVIATIONS

// =====================================================================================================
// primitives: uninterpreted, except RC4 (defined: units/rc4)
// =====================================================================================================
pub uninterp spec fn md5_spec(input: Seq<u8>) -> Seq<u8>;
pub uninterp spec fn sha256_spec(input: Seq<u8>) -> Seq<u8>;
pub uninterp spec fn sha384_spec(input: Seq<u8>) -> Seq<u8>;
pub uninterp spec fn sha512_spec(input: Seq<u8>) -> Seq<u8>;
// RC4 is NOT uninterpreted: `rc4(key, data)` (KSA + PRGA, Schneier 17.1 / RFC 6229; encryption == decryption) is the spec function of
// units/rc4, shared through this include together with its proved lemmas (`lemma_rc4_commutes`, `lemma_rc4_involution`, ..).
// It is `#[verifier::opaque]`: the obligations below use it as a fixed function of (key, data) only.
//@@ INCLUDE rc4/rc4_spec.rs
/// AES-128, CBC mode, no padding, encryption
pub uninterp spec fn aes128_cbc_enc(key: Seq<u8>, iv: Seq<u8>, data: Seq<u8>) -> Seq<u8>;
/// AES-256, CBC, no padding, decryption; None iff the data is not a whole number of blocks
pub uninterp spec fn aes256_cbc_nopad(key: Seq<u8>, iv: Seq<u8>, ct: Seq<u8>) -> Option<Seq<u8>>;

// =====================================================================================================
// ISO 32000-1 7.6.3.3 "Encryption key algorithm", 7.6.3.4 "Password algorithms" -- written from the standard
// =====================================================================================================
/// Algorithm 2 a): "the following padding string:
/// < 28 BF 4E 5E 4E 75 8A 41 64 00 4E 56 FF FA 01 08 2E 2E 00 B6 D0 68 3E 80 2F 0C A9 FE 64 53 69 7A >"
pub open spec fn iso_padding() -> Seq<u8> {
    seq![0x28u8, 0xBFu8, 0x4Eu8, 0x5Eu8, 0x4Eu8, 0x75u8, 0x8Au8, 0x41u8, 0x64u8, 0x00u8, 0x4Eu8, 0x56u8, 0xFFu8, 0xFAu8, 0x01u8, 0x08u8,
         0x2Eu8, 0x2Eu8, 0x00u8, 0xB6u8, 0xD0u8, 0x68u8, 0x3Eu8, 0x80u8, 0x2Fu8, 0x0Cu8, 0xA9u8, 0xFEu8, 0x64u8, 0x53u8, 0x69u8, 0x7Au8]
}
/// Algorithm 2 a): "Pad or truncate the password string to exactly 32 bytes. If the password string is more than 32
/// bytes long, use only its first 32 bytes; if it is less than 32 bytes long, pad it by appending the required number
/// of additional bytes from the beginning of the padding string [...] if the password string is n bytes long, append
/// the first 32 - n bytes of the padding string to the end of the password string."
pub open spec fn pad32(pass: Seq<u8>) -> Seq<u8> {
    if pass.len() >= 32 { pass.subrange(0, 32) } else { pass + iso_padding().subrange(0, 32 - pass.len()) }
}
pub open spec fn pow256(i: int) -> int decreases i { if i <= 0 { 1 } else { 256 * pow256(i - 1) } }
/// byte i (0 = low-order) of the unsigned number x
pub open spec fn le_byte(x: int, i: int) -> u8 { ((x / pow256(i)) % 256) as u8 }
pub open spec fn le_bytes(x: int, k: int) -> Seq<u8> { Seq::new(k as nat, |i: int| le_byte(x, i)) }
/// Algorithm 2 d): "Convert the integer value of the P entry to a 32-bit unsigned binary number"
pub open spec fn p_unsigned(p: i32) -> int { if p >= 0 { p as int } else { p as int + 0x1_0000_0000 } }
/// Algorithm 2 f): "pass 4 bytes with the value 0xFFFFFFFF"
pub open spec fn ff4() -> Seq<u8> { seq![0xFFu8, 0xFFu8, 0xFFu8, 0xFFu8] }
/// Algorithm 2 b)-f): what is passed to the MD5 hash function, in this order: the padded password, the O entry,
/// P "low-order byte first", "the first element of the file's file identifier array", and "(Security handlers of
/// revision 4 or greater) if document metadata is not being encrypted, 4 bytes with the value 0xFFFFFFFF"
pub open spec fn alg2_input(rev: u32, o: Seq<u8>, p: i32, id: Seq<u8>, encrypt_metadata: bool, pass: Seq<u8>) -> Seq<u8> {
    pad32(pass) + o + le_bytes(p_unsigned(p), 4) + id + (if rev >= 4 && !encrypt_metadata { ff4() } else { Seq::<u8>::empty() })
}
/// Algorithm 2 h): "Do the following 50 times: Take the output from the previous MD5 hash and pass the first n bytes
/// of the output as input into a new MD5 hash" -- c repetitions
pub open spec fn md5_iter_n(h: Seq<u8>, n: int, c: int) -> Seq<u8> decreases c {
    if c <= 0 { h } else { md5_spec(md5_iter_n(h, n, c - 1).subrange(0, n)) }
}
/// Algorithm 2 steps a)-h): the final MD5 output, from which "the first n bytes" are the encryption key (step i);
/// n = key length in bytes (<= 16 in ISO; the whole 16-byte output is "the first n bytes" for a larger n)
pub open spec fn alg2_hash(rev: u32, n: usize, o: Seq<u8>, p: i32, id: Seq<u8>, encrypt_metadata: bool, pass: Seq<u8>) -> Seq<u8> {
    let h = md5_spec(alg2_input(rev, o, p, id, encrypt_metadata, pass));
    if rev >= 3 { md5_iter_n(h, if n < 16 { n as int } else { 16 }, 50) } else { h }
}
/// Algorithm 3 c): "(Security handlers of revision 3 or greater) Do the following 50 times: Take the output from the
/// previous MD5 hash and pass it as input into a new MD5 hash."
pub open spec fn md5_iter(h: Seq<u8>, c: int) -> Seq<u8> decreases c {
    if c <= 0 { h } else { md5_spec(md5_iter(h, c - 1)) }
}
/// Algorithm 3 a)-d) (= Algorithm 7 a): "Create an RC4 encryption key using the first n bytes of the output from the
/// final MD5 hash"
pub open spec fn alg3_owner_key(rev: u32, n: usize, pass: Seq<u8>) -> Seq<u8> {
    let h = md5_spec(pad32(pass));
    (if rev >= 3 { md5_iter(h, 50) } else { h }).subrange(0, n as int)
}
pub open spec fn xor_key(k: Seq<u8>, c: u8) -> Seq<u8> { Seq::new(k.len(), |i: int| k[i] ^ c) }
/// Algorithm 4 b): "Encrypt the 32-byte padding string [...] using an RC4 encryption function with the encryption key"
pub open spec fn alg4_u(key: Seq<u8>) -> Seq<u8> { rc4(key, iso_padding()) }
/// Algorithm 5 e): "Do the following 19 times: Take the output from the previous invocation of the RC4 function and
/// pass it as input to a new invocation of the function; use an encryption key generated by taking each byte of the
/// original encryption key obtained in step (a) and performing an XOR operation between that byte and the single-byte
/// value of the iteration counter (from 1 to 19)."  alg5_up(key, d, c) applies the counters 1, 2, ..., c in that order.
pub open spec fn alg5_up(key: Seq<u8>, d: Seq<u8>, c: int) -> Seq<u8> decreases c {
    if c <= 0 { d } else { rc4(xor_key(key, c as u8), alg5_up(key, d, c - 1)) }
}
/// Algorithm 5 b)-e): MD5 over "the 32-byte padding string" and "the first element of the file's file identifier
/// array"; "Encrypt the 16-byte result of the hash, using an RC4 encryption function with the encryption key"; e)
pub open spec fn alg5_u16(id: Seq<u8>, key: Seq<u8>) -> Seq<u8> {
    alg5_up(key, rc4(key, md5_spec(iso_padding() + id)), 19)
}
/// Algorithm 6 b): "If the result of step (a) is equal to the value of the encryption dictionary's U entry (comparing
/// on the first 16 bytes in the case of security handlers of revision 3 or greater), the password supplied is the
/// correct user password."
pub open spec fn alg6_u_matches(rev: u32, u: Seq<u8>, id: Seq<u8>, key: Seq<u8>) -> bool {
    if rev == 2 { u == alg4_u(key) } else { u.len() >= 16 && u.subrange(0, 16) == alg5_u16(id, key) }
}

// =====================================================================================================
// environment
// =====================================================================================================
//@@ const PADDING
/// what a hash function accepts (`impl AsRef<[u8]>`): byte slices and byte arrays, by reference or by value
pub trait AsBytes { spec fn bytes(&self) -> Seq<u8>; }
impl<'a> AsBytes for &'a [u8] { open spec fn bytes(&self) -> Seq<u8> { (**self)@ } }
impl<const N: usize> AsBytes for [u8; N] { open spec fn bytes(&self) -> Seq<u8> { self@ } }
impl<'a, const N: usize> AsBytes for &'a [u8; N] { open spec fn bytes(&self) -> Seq<u8> { (**self)@ } }

/// the md5 crate: `Context` with its feed as ghost state, one-shot `compute`. `Digest` derefs to `[u8; 16]`.
pub mod md5 {
    use super::*;
    #[verifier::external_body]
    pub struct Context {}
    impl Context {
        /// the bytes consumed so far, in order
        pub uninterp spec fn fed(&self) -> Seq<u8>;
        #[verifier::external_body]
        pub fn new() -> (r: Context) ensures r.fed() == Seq::<u8>::empty() { unimplemented!() }
        #[verifier::external_body]
        pub fn consume<T: AsBytes>(&mut self, data: T) ensures final(self).fed() == old(self).fed() + data.bytes() { unimplemented!() }
        #[verifier::external_body]
        pub fn compute(self) -> (r: &'static [u8; 16]) ensures r@ == md5_spec(self.fed()) { unimplemented!() }
    }
    #[verifier::external_body]
    pub fn compute<T: AsBytes>(data: T) -> (r: &'static [u8; 16]) ensures r@ == md5_spec(data.bytes()) { unimplemented!() }
}
/// trusted std: `std::mem::replace`
pub assume_specification<T> [std::mem::replace] (dest: &mut T, src: T) -> (r: T)
    ensures *final(dest) == src, r == *old(dest);

/// callee Rc4::encrypt (pdf/src/crypt.rs), body not repeated here.
/// proved in units/rc4: Rc4::encrypt/is_rc4_in_place (+ panic_free, terminates) -- same `requires`
/// (`Rc4::new` asserts `!key.is_empty() && key.len() <= 256`) and the same `ensures`, text for text, over the same
/// spec function `rc4` (rc4/rc4_spec.rs).
pub struct Rc4 {}
impl Rc4 {
    #[verifier::external_body]
    pub fn encrypt(key: &[u8], data: &mut [u8])
        requires 1 <= key@.len() <= 256
        ensures final(data)@ == rc4(key@, old(data)@)
    { unimplemented!() }
}

/// pdf::primitive::PdfString / Name: opaque, only their byte / character content is observed
#[verifier::external_body]
pub struct PdfString {}
impl PdfString {
    pub uninterp spec fn view(&self) -> Seq<u8>;
    #[verifier::external_body]
    pub fn as_bytes(&self) -> (r: &[u8]) ensures r@ == self.view() { unimplemented!() }
}
#[verifier::external_body]
pub struct Name {}
impl Name {
    pub uninterp spec fn view(&self) -> Seq<char>;
    #[verifier::external_body]
    pub fn as_str(&self) -> (r: &str) ensures r@ == self.view() { unimplemented!() }
}
//@@ enum CryptMethod
//@@ enum AuthEvent
//@@ struct CryptFilter
//@@ struct CryptDict

// ---- L0 helpers (R7), std ----
#[verifier::external_body]
fn hoist_min(a: usize, b: usize) -> (r: usize)
    ensures r == if a < b { a } else { b }
{ std::cmp::min(a, b) }
#[verifier::external_body]
fn hoist_max(a: usize, b: usize) -> (r: usize)
    ensures r == if a > b { a } else { b }
{ a.max(b) }
#[verifier::external_body]
fn hoist_copy(dst: &mut [u8], src: &[u8])
    requires old(dst)@.len() == src@.len()      // copy_from_slice panics on a length mismatch
    ensures final(dst)@ == src@
{ dst.copy_from_slice(src) }
/// `v[..n].copy_from_slice(src)` on a Vec (Verus models `&mut arr[..n]` of arrays precisely, of a Vec not)
#[verifier::external_body]
fn hoist_copy_prefix(v: &mut Vec<u8>, n: usize, src: &[u8])
    requires n <= old(v)@.len(), n == src@.len()     // slice index / copy_from_slice panic otherwise
    ensures final(v)@ == src@ + old(v)@.subrange(n as int, old(v)@.len() as int)
{ v[..n].copy_from_slice(src) }
#[verifier::external_body]
fn hoist_to_vec(s: &[u8]) -> (r: Vec<u8>)
    ensures r@ == s@
{ s.to_vec() }
/// `for b in &mut key { *b ^= c; }` / `for byte in key.iter_mut() { *byte ^= c; }`
#[verifier::external_body]
fn hoist_xor_all(key: &mut Vec<u8>, c: u8)
    ensures final(key)@ == xor_key(old(key)@, c)
{ for byte in key.iter_mut() { *byte ^= c; } }
#[verifier::external_body]
fn hoist_bytes_eq(a: &[u8], b: &[u8]) -> (r: bool)
    ensures r == (a@ == b@)
{ a == b }
#[verifier::external_body]
fn hoist_starts_with(s: &[u8], needle: &[u8]) -> (r: bool)
    ensures r == (needle@.len() <= s@.len() && s@.subrange(0, needle@.len() as int) == needle@)
{ s.starts_with(needle) }
/// trusted std: i32::to_le_bytes = the two's-complement (unsigned 32-bit) value, low-order byte first
#[verifier::external_body]
fn hoist_i32_to_le_bytes(x: i32) -> (r: [u8; 4])
    ensures r@ == le_bytes(p_unsigned(x), 4)
{ x.to_le_bytes() }
/// (not in the source: read with its true meaning, high-order byte first, so that such an edit reaches the verifier)
#[verifier::external_body]
fn hoist_i32_to_be_bytes(x: i32) -> (r: [u8; 4])
    ensures r@ == Seq::new(4, |i: int| le_byte(p_unsigned(x), 3 - i))
{ x.to_be_bytes() }

// =====================================================================================================
// the nested fns of Decoder::from_password
// =====================================================================================================
proof fn lemma_padding_const()
    ensures PADDING@ =~= iso_padding()
{}

//@@ compute_u_rev_2
//@@ check_password_rev_2
//@@ compute_u_rev_3_4
//@@ check_password_rev_3_4
//@@ check_password_rc4
//@@ key_derivation_user_password_rc4
//@@ key_derivation_owner_password_rc4

// =====================================================================================================
// ISO 32000-2 7.6.4.3.4 "Algorithm 2.B: Computing a hash (revision 6 and later)" -- written from the standard
// =====================================================================================================
/// a): "64 repetitions of the sequence"
pub open spec fn repeat(s: Seq<u8>, n: int) -> Seq<u8> decreases n {
    if n <= 0 { Seq::<u8>::empty() } else { repeat(s, n - 1) + s }
}
/// c): the bytes "as an unsigned big-endian integer"
pub open spec fn be_value(s: Seq<u8>) -> int decreases s.len() {
    if s.len() == 0 { 0 } else { 256 * be_value(s.drop_last()) + s.last() as int }
}
/// a) "Make a new string, K1, consisting of 64 repetitions of the sequence: input password, K, the 48-byte user key.
/// The 48 byte user key is only used when checking the owner password or creating the owner key. If checking the user
/// password or creating the user key, K1 is the concatenation of the input password and K."  (udata = user key or empty)
/// b) "Encrypt K1 with the AES-128 (CBC, no padding) algorithm, using the first 16 bytes of K as the key and the
/// second 16 bytes of K as the initialization vector. The result of this encryption is E."
pub open spec fn alg2b_e(pw: Seq<u8>, k: Seq<u8>, udata: Seq<u8>) -> Seq<u8> {
    aes128_cbc_enc(k.subrange(0, 16), k.subrange(16, 32), repeat(pw + k + udata, 64))
}
/// c) "Taking the first 16 bytes of E as an unsigned big-endian integer, compute the remainder, modulo 3. If the
/// result is 0, the next hash used is SHA-256, if the result is 1, the next hash used is SHA-384, if the result is 2,
/// the next hash used is SHA-512."  d) "Using the hash algorithm determined in step c, take the hash of E. The result
/// is a new value of K, which will be 32, 48, or 64 bytes in length."
pub open spec fn alg2b_next_k(e: Seq<u8>) -> Seq<u8> {
    let m = be_value(e.subrange(0, 16)) % 3;
    if m == 0 { sha256_spec(e) } else if m == 1 { sha384_spec(e) } else { sha512_spec(e) }
}
/// "Perform the following steps (a)-(d) 64 times [...] Following 64 rounds (round number 0 to round number 63), do the
/// following, starting with round number 64: e) Look at the very last byte of E. If the value of that byte (taken as
/// an unsigned integer) is greater than the round number - 32, repeat steps (a-d) again. f) Repeat from steps (a-e)
/// until the value of the last byte is <= (round number) - 32."
/// `round` = the number of the round about to be performed = number of rounds done so far; `e_last` = last byte of the
/// E of the previous round.  Rounds 0..63 are unconditional; round `round` >= 64 is performed iff e_last > round - 32.
/// (A byte is <= 255 = 287 - 32, so the process always ends before round 288: the second branch is never taken.)
#[verifier::opaque]
pub open spec fn alg2b_from(pw: Seq<u8>, udata: Seq<u8>, k: Seq<u8>, e_last: u8, round: int) -> Seq<u8>
    decreases 288 - round
{
    if round >= 64 && e_last as int <= round - 32 { k }
    else if round >= 288 { k }
    else {
        let e = alg2b_e(pw, k, udata);
        alg2b_from(pw, udata, alg2b_next_k(e), e.last(), round + 1)
    }
}
/// "Take the SHA-256 hash of the original input to the algorithm and name the resulting 32 bytes, K." (input =
/// password, salt and -- for the owner -- the 48-byte user key, 7.6.4.3.3 Algorithm 2.A) ... "The first 32 bytes of
/// the final K are the output of the algorithm."
pub open spec fn alg2b_hash(pw: Seq<u8>, salt: Seq<u8>, udata: Seq<u8>) -> Seq<u8> {
    alg2b_from(pw, udata, sha256_spec(pw + salt + udata), 0u8, 0).subrange(0, 32)
}

// ---- code-side helpers ----
/// the two cases of alg2b_from as implications (the definition is opaque to keep the loop's SMT query small; no `requires`:
/// if the code performs a round the standard does not, or stops where it does not, the hypothesis is simply unavailable)
pub proof fn lemma_alg2b_step(pw: Seq<u8>, udata: Seq<u8>, k: Seq<u8>, e_last: u8, round: int)
    ensures (!(round >= 64 && e_last as int <= round - 32) && round < 288) ==>
                alg2b_from(pw, udata, k, e_last, round)
                == alg2b_from(pw, udata, alg2b_next_k(alg2b_e(pw, k, udata)), alg2b_e(pw, k, udata).last(), round + 1)
{
    reveal(alg2b_from);
}
pub proof fn lemma_alg2b_stop(pw: Seq<u8>, udata: Seq<u8>, k: Seq<u8>, e_last: u8, round: int)
    ensures (round >= 64 && e_last as int <= round - 32) ==> alg2b_from(pw, udata, k, e_last, round) == k
{
    reveal(alg2b_from);
}
pub open spec fn sum_bytes(s: Seq<u8>) -> int decreases s.len() {
    if s.len() == 0 { 0 } else { sum_bytes(s.drop_last()) + s.last() as int }
}
pub proof fn lemma_sum_bound(s: Seq<u8>)
    ensures 0 <= sum_bytes(s) <= 255 * s.len()
    decreases s.len()
{
    if s.len() > 0 { lemma_sum_bound(s.drop_last()); }
}
/// 256 = 1 (mod 3): a big-endian number and the sum of its base-256 digits have the same remainder modulo 3
pub proof fn lemma_be_mod3(s: Seq<u8>)
    ensures be_value(s) >= 0, be_value(s) % 3 == sum_bytes(s) % 3
    decreases s.len()
{
    if s.len() > 0 {
        lemma_be_mod3(s.drop_last());
        lemma_sum_bound(s.drop_last());
        let a = be_value(s.drop_last());
        let b = sum_bytes(s.drop_last());
        let c = s.last() as int;
        assert((256 * a + c) % 3 == (b + c) % 3) by {
            assert(256 * a + c == 3 * (85 * a) + (a + c));
            assert((3 * (85 * a) + (a + c)) % 3 == (a + c) % 3) by (nonlinear_arith);
            assert(a % 3 == b % 3);
            assert((a + c) % 3 == (b + c) % 3) by (nonlinear_arith) requires a % 3 == b % 3;
        }
    }
}
/// one more repetition
pub proof fn lemma_repeat_step(unit: Seq<u8>, before: Seq<u8>, after: Seq<u8>, j: int, l: int)
    ensures (1 <= j && l == unit.len() && j * l + l <= before.len() && before.len() == after.len()
             && before.subrange(0, j * l) == repeat(unit, j) && before.subrange(0, l) == unit
             && (forall|x: int| 0 <= x < j * l ==> after[x] == before[x])
             && (forall|x: int| 0 <= x < l ==> after[j * l + x] == before[x]))
            ==> (after.subrange(0, (j + 1) * l) == repeat(unit, j + 1) && after.subrange(0, l) == unit)
{
    if 1 <= j && l == unit.len() && j * l + l <= before.len() && before.len() == after.len()
       && before.subrange(0, j * l) == repeat(unit, j) && before.subrange(0, l) == unit
       && (forall|x: int| 0 <= x < j * l ==> after[x] == before[x])
       && (forall|x: int| 0 <= x < l ==> after[j * l + x] == before[x]) {
        assert((j + 1) * l == j * l + l) by (nonlinear_arith);
        assert(j * l >= l) by (nonlinear_arith) requires j >= 1, l >= 0;
        assert forall|x: int| 0 <= x < (j + 1) * l implies after.subrange(0, (j + 1) * l)[x] == (repeat(unit, j) + unit)[x] by {
            if x < j * l { assert(before.subrange(0, j * l)[x] == before[x]); }
            else { assert(after[j * l + (x - j * l)] == before[x - j * l]); assert(before.subrange(0, l)[x - j * l] == before[x - j * l]); }
        }
        assert(after.subrange(0, (j + 1) * l) =~= repeat(unit, j) + unit);
        assert(after.subrange(0, l) =~= before.subrange(0, l));
    }
}
pub proof fn lemma_repeat_one(unit: Seq<u8>)
    ensures repeat(unit, 1) =~= unit
{
    assert(repeat(unit, 0) =~= Seq::<u8>::empty());
}
pub proof fn lemma_mul_bound(j: int, l: int)
    ensures (1 <= j < 64 && 0 <= l <= 240) ==> (0 <= j * l && j * l + l <= 15360 && j * l + l == (j + 1) * l),
            64 * l == l * 64
{
    if 1 <= j < 64 && 0 <= l <= 240 {
        assert(0 <= j * l && j * l + l <= 15360 && j * l + l == (j + 1) * l) by (nonlinear_arith) requires 1 <= j < 64, 0 <= l <= 240;
    }
}
/// the first repetition as laid out by the three copies
pub proof fn lemma_unit_layout(data: Seq<u8>, pw: Seq<u8>, k: Seq<u8>, ud: Seq<u8>)
    ensures (pw.len() + k.len() + ud.len() <= data.len()
             && (forall|x: int| 0 <= x < pw.len() ==> data[x] == pw[x])
             && (forall|x: int| 0 <= x < k.len() ==> data[pw.len() + x] == k[x])
             && (forall|x: int| 0 <= x < ud.len() ==> data[pw.len() + k.len() + x] == ud[x]))
            ==> data.subrange(0, (pw.len() + k.len() + ud.len()) as int) == pw + k + ud
{
    let l = pw.len() + k.len() + ud.len();
    if l <= data.len()
       && (forall|x: int| 0 <= x < pw.len() ==> data[x] == pw[x])
       && (forall|x: int| 0 <= x < k.len() ==> data[pw.len() + x] == k[x])
       && (forall|x: int| 0 <= x < ud.len() ==> data[pw.len() + k.len() + x] == ud[x]) {
        assert forall|x: int| 0 <= x < l implies data.subrange(0, l as int)[x] == (pw + k + ud)[x] by {
            if x < pw.len() {}
            else if x < pw.len() + k.len() { assert(data[pw.len() + (x - pw.len())] == k[x - pw.len()]); }
            else { assert(data[pw.len() + k.len() + (x - pw.len() - k.len())] == ud[x - pw.len() - k.len()]); }
        }
        assert(data.subrange(0, l as int) =~= pw + k + ud);
    }
}

// ---- environment: generic_array / sha2 / aes / cbc crates ----
/// generic_array::GenericArray<u8, _> (digests, AES key, IV): an opaque byte string; `Copy` like the original
#[verifier::external_body]
#[derive(Clone, Copy)]
pub struct GenericArray {}
impl GenericArray {
    pub uninterp spec fn view(&self) -> Seq<u8>;
    #[verifier::external_body]
    pub fn as_slice(&self) -> (r: &[u8]) ensures r@ == self.view() { unimplemented!() }
    #[verifier::external_body]
    pub fn from_slice(s: &[u8]) -> (r: &GenericArray) ensures r.view() == s@ { unimplemented!() }
    /// generic_array::sequence::Split for GenericArray<u8, U32>: (first 16 bytes, second 16 bytes)
    #[verifier::external_body]
    pub fn split(self) -> (r: (GenericArray, GenericArray))
        requires self.view().len() == 32
        ensures r.0.view() == self.view().subrange(0, 16), r.1.view() == self.view().subrange(16, 32)
    { unimplemented!() }
    /// `<[u8]>::copy_from_slice` through DerefMut
    #[verifier::external_body]
    pub fn copy_from_slice(&mut self, src: &[u8])
        requires old(self).view().len() == src@.len()
        ensures final(self).view() == src@
    { unimplemented!() }
}
/// `&ga[..n]` (Deref to [u8])
#[verifier::external_body]
fn hoist_ga_prefix(ga: &GenericArray, n: usize) -> (r: &[u8])
    requires n <= ga.view().len()
    ensures r@ == ga.view().subrange(0, n as int)
{ unimplemented!() /* &ga[..n] */ }
/// `&ga` used as `&[u8]` (Deref coercion)
#[verifier::external_body]
fn hoist_ga_slice(ga: &GenericArray) -> (r: &[u8])
    ensures r@ == ga.view()
{ unimplemented!() /* &ga */ }

/// sha2::{Sha256, Sha384, Sha512} with the feed as ghost state. TRUSTED: the digest lengths 32 / 48 / 64.
#[verifier::external_body]
pub struct Sha256 {}
impl Sha256 {
    pub uninterp spec fn fed(&self) -> Seq<u8>;
    #[verifier::external_body]
    pub fn new() -> (r: Sha256) ensures r.fed() == Seq::<u8>::empty() { unimplemented!() }
    #[verifier::external_body]
    pub fn update<T: AsBytes>(&mut self, data: T) ensures final(self).fed() == old(self).fed() + data.bytes() { unimplemented!() }
    #[verifier::external_body]
    pub fn finalize(self) -> (r: GenericArray) ensures r.view() == sha256_spec(self.fed()), r.view().len() == 32 { unimplemented!() }
    #[verifier::external_body]
    pub fn finalize_reset(&mut self) -> (r: GenericArray)
        ensures r.view() == sha256_spec(old(self).fed()), r.view().len() == 32, final(self).fed() == Seq::<u8>::empty()
    { unimplemented!() }
}
#[verifier::external_body]
pub struct Sha384 {}
impl Sha384 {
    pub uninterp spec fn fed(&self) -> Seq<u8>;
    #[verifier::external_body]
    pub fn new() -> (r: Sha384) ensures r.fed() == Seq::<u8>::empty() { unimplemented!() }
    #[verifier::external_body]
    pub fn update<T: AsBytes>(&mut self, data: T) ensures final(self).fed() == old(self).fed() + data.bytes() { unimplemented!() }
    #[verifier::external_body]
    pub fn finalize_reset(&mut self) -> (r: GenericArray)
        ensures r.view() == sha384_spec(old(self).fed()), r.view().len() == 48, final(self).fed() == Seq::<u8>::empty()
    { unimplemented!() }
}
#[verifier::external_body]
pub struct Sha512 {}
impl Sha512 {
    pub uninterp spec fn fed(&self) -> Seq<u8>;
    #[verifier::external_body]
    pub fn new() -> (r: Sha512) ensures r.fed() == Seq::<u8>::empty() { unimplemented!() }
    #[verifier::external_body]
    pub fn update<T: AsBytes>(&mut self, data: T) ensures final(self).fed() == old(self).fed() + data.bytes() { unimplemented!() }
    #[verifier::external_body]
    pub fn finalize_reset(&mut self) -> (r: GenericArray)
        ensures r.view() == sha512_spec(old(self).fed()), r.view().len() == 64, final(self).fed() == Seq::<u8>::empty()
    { unimplemented!() }
}
/// cbc::Encryptor<aes::Aes128> with block_padding::NoPadding
pub struct NoPadding {}
#[derive(Debug)]
pub struct PadError {}
#[verifier::external_body]
pub struct Aes128CbcEnc {}
impl Aes128CbcEnc {
    pub uninterp spec fn key(&self) -> Seq<u8>;
    pub uninterp spec fn iv(&self) -> Seq<u8>;
    /// KeyIvInit::new
    #[verifier::external_body]
    pub fn new(key: &GenericArray, iv: &GenericArray) -> (r: Aes128CbcEnc)
        ensures r.key() == key.view(), r.iv() == iv.view()
    { unimplemented!() }
    /// BlockEncryptMut::encrypt_padded_mut::<NoPadding>(buf, msg_len): encrypts buf[..msg_len] in place; PadError iff
    /// msg_len > buf.len() or (NoPadding) msg_len is not a multiple of the block size. TRUSTED: output length == input length.
    #[verifier::external_body]
    pub fn encrypt_padded_mut<'a, P>(self, buf: &'a mut [u8], msg_len: usize) -> (r: core::result::Result<&'a [u8], PadError>)
        ensures (msg_len == old(buf)@.len() && msg_len % 16 == 0) ==> (r matches Ok(e)
                    && e@ == aes128_cbc_enc(self.key(), self.iv(), old(buf)@) && e@.len() == msg_len && final(buf)@ == e@),
                final(buf)@.len() == old(buf)@.len()
    { unimplemented!() }
}
/// `data.copy_within(..n, dest)`
#[verifier::external_body]
fn hoist_copy_within(data: &mut [u8], n: usize, dest: usize)
    requires n <= old(data)@.len(), dest <= old(data)@.len() - n      // copy_within panics otherwise
    ensures final(data)@.len() == old(data)@.len(),
            forall|x: int| 0 <= x < old(data)@.len() ==> final(data)@[x] == (if dest <= x < dest + n { old(data)@[x - dest] } else { old(data)@[x] })
{ data.copy_within(..n, dest) }
/// `s.iter().map(|byte| *byte as usize).sum()`
#[verifier::external_body]
fn hoist_sum_bytes(s: &[u8]) -> (r: usize)
    requires s@.len() <= 0x1000000                 // usize `Sum` panics on overflow
    ensures r == sum_bytes(s@)
{ s.iter().map(|byte| *byte as usize).sum() }


// =====================================================================================================
// Decoder::from_password on top of the proved algorithms: ISO 32000-1 7.6.3 / ISO 32000-2 7.6.4
// (specification and helpers as in unit `decrypt`; there alg2_hash, alg6_u_matches, alg3_owner_key, alg2b_hash are
// uninterpreted and the nested fns / revision_6_kdf are stubs -- here they are the spec functions defined above and the
// extracted, proved functions)
// =====================================================================================================
//@@ type ObjNr
//@@ type GenNr
//@@ struct PlainRef
//@@ struct Decoder
impl Decoder {
    /// the n-byte file encryption key (n = Length/8 <= 16): the first n bytes of the stored buffer
    pub open spec fn file_key(&self) -> Seq<u8> { self.key@.subrange(0, self.key_size as int) }
    /// object invariant that Decoder::key / Decoder::decrypt rely on (unit `decrypt`)
    pub open spec fn wf(&self) -> bool {
        (self.key@.len() >= 16 || self.key@.len() >= self.key_size) && !(self.method is None)
    }
}
/// content of the /CF dictionary: name -> crypt filter
pub uninterp spec fn cf_lookup(m: HashMap<Name, CryptFilter>, k: Seq<char>) -> Option<CryptFilter>;

pub uninterp spec fn utf8_spec(b: Seq<u8>) -> Option<Seq<char>>;
pub uninterp spec fn saslprep_spec(s: Seq<char>) -> Option<Seq<u8>>;
/// Algorithm 2.A step a): "generate the UTF-8 password from the Unicode input by processing it with SASLprep ...
/// truncate the UTF-8 representation to 127 bytes if it is longer"; None = not a UTF-8 string / prohibited output
pub open spec fn prep_utf8(pass: Seq<u8>) -> Option<Seq<u8>> {
    match utf8_spec(pass) {
        None => None,
        Some(cs) => match saslprep_spec(cs) {
            None => None,
            Some(b) => Some(if b.len() > 127 { b.subrange(0, 127) } else { b }),
        },
    }
}

/// Algorithm 7 step b) for R >= 3: "Do the following 20 times: Decrypt the value of the encryption dictionary's O
/// entry (first iteration) or the output from the previous iteration, using an RC4 encryption function with a
/// different encryption key at each iteration. The key shall be generated by taking the original key and performing
/// an XOR operation between each byte of the key and the single-byte value of the iteration counter (from 19 to 0)."
/// alg7_down(k, d, c) applies the counters c-1, c-2, ..., 0 in that order.
pub open spec fn alg7_down(k: Seq<u8>, d: Seq<u8>, c: int) -> Seq<u8> decreases c {
    if c <= 0 { d } else { alg7_down(k, rc4(xor_key(k, (c - 1) as u8), d), c - 1) }
}
/// Algorithm 7 step b): R2 "decrypt the value of the O entry using an RC4 encryption function with the key"
pub open spec fn alg7_user_password(rev: u32, k: Seq<u8>, o: Seq<u8>) -> Seq<u8> {
    if rev == 2 { rc4(k, o) } else { alg7_down(k, o, 20) }
}
/// the order the implementation uses: counters 0, 1, ..., c-1
pub open spec fn rounds_up(k: Seq<u8>, d: Seq<u8>, c: int) -> Seq<u8> decreases c {
    if c <= 0 { d } else { rc4(xor_key(k, (c - 1) as u8), rounds_up(k, d, c - 1)) }
}
// RC4 is a stream cipher (output = data XOR keystream(key)), hence two applications with different keys commute:
// `lemma_rc4_commutes(a, b, d)` of units/rc4 (rc4/rc4_spec.rs, PROVED there and re-checked in this file). Until units/rc4 existed
// this was a trusted statement about an uninterpreted function.
pub proof fn lemma_push(x: Seq<u8>, k: Seq<u8>, d: Seq<u8>, c: int)
    ensures rc4(x, alg7_down(k, d, c)) == alg7_down(k, rc4(x, d), c)
    decreases c
{
    if c > 0 {
        let y = xor_key(k, (c - 1) as u8);
        lemma_rc4_commutes(y, x, d);
        lemma_push(x, k, rc4(y, d), c - 1);
    }
}
pub proof fn lemma_up_is_down(k: Seq<u8>, d: Seq<u8>, c: int)
    ensures rounds_up(k, d, c) == alg7_down(k, d, c)
    decreases c
{
    if c > 0 {
        lemma_up_is_down(k, d, c - 1);
        lemma_push(xor_key(k, (c - 1) as u8), k, d, c - 1);
    }
}
pub proof fn lemma_xor_zero(k: Seq<u8>)
    ensures xor_key(k, 0u8) =~= k
{
    assert forall|i: int| 0 <= i < k.len() implies xor_key(k, 0u8)[i] == k[i] by {
        let b = k[i];
        assert(b ^ 0u8 == b) by (bit_vector);
    }
}

// ---- key-length and method selection, written from ISO 32000-1 Table 20 (V, Length, CF, StmF), Table 25 (CFM,
//      Length) and ISO 32000-2 7.6.5.1 ("the standard security handler expresses the Length entry in bytes") ----
pub open spec fn method_code(m: CryptMethod) -> int {
    match m { CryptMethod::None => 0, CryptMethod::V2 => 1, CryptMethod::AESV2 => 2, CryptMethod::AESV3 => 3 }
}
/// Some((key length in bits, method code)) for the encryption dictionaries the library accepts, else None
pub open spec fn iso_selection(dict: CryptDict) -> Option<(int, int)> {
    if dict.v == 1 { Some((40int, 1int)) }                           // "Algorithm 1 ... with an encryption key length of 40 bits"
    else if dict.v == 2 {                                           // "key lengths greater than 40 bits": /Length, a multiple of 8
        if dict.bits % 8 == 0 { Some((dict.bits as int, 1int)) } else { None }
    } else if 4 <= dict.v <= 6 {                                     // crypt filters: /StmF names an entry of /CF
        match dict.default_crypt_filter {
            None => None,
            Some(name) => match cf_lookup(dict.crypt_filters, name.view()) {
                None => None,
                Some(cf) => {
                    let bits = match cf.length { Some(n) => 8 * (n as int), None => dict.bits as int };
                    match cf.method {
                        CryptMethod::V2 => Some((bits, 1int)),
                        CryptMethod::AESV2 => Some((bits, 2int)),
                        CryptMethod::AESV3 => if dict.v == 5 { Some((bits, 3int)) } else { None },
                        CryptMethod::None => None,                  // Identity filter: not supported by the library
                    }
                }
            }
        }
    } else { None }
}

/// R2-R4: which file key (Algorithm-2 hash) opens the document with password `pass`, if any (Algorithms 6 and 7)
pub open spec fn rc4_login(dict: CryptDict, id: Seq<u8>, pass: Seq<u8>, n: usize) -> Option<Seq<u8>>
    recommends 1 <= n <= 16
{
    let rev = dict.r;
    let ku = alg2_hash(rev, n, dict.o.view(), dict.p, id, dict.encrypt_metadata, pass);
    if alg6_u_matches(rev, dict.u.view(), id, ku.subrange(0, n as int)) { Some(ku) }
    else {
        let user_pass = alg7_user_password(rev, alg3_owner_key(rev, n, pass), dict.o.view());
        let ko = alg2_hash(rev, n, dict.o.view(), dict.p, id, dict.encrypt_metadata, user_pass);
        if alg6_u_matches(rev, dict.u.view(), id, ko.subrange(0, n as int)) { Some(ko) } else { None }
    }
}
/// R5/R6 (Algorithm 2.A): the intermediate key and the wrapped file key chosen by the password, if any
pub open spec fn hash56(rev: u32, pass: Seq<u8>, salt: Seq<u8>, udata: Seq<u8>) -> Seq<u8> {
    if rev == 6 { alg2b_hash(pass, salt, udata) } else { sha256_spec(pass + salt + udata) }
}
pub open spec fn aes_login(dict: CryptDict, pw: Seq<u8>) -> Option<(Seq<u8>, Seq<u8>)>
    recommends dict.u.view().len() == 48 && dict.o.view().len() == 48 && dict.ue is Some && dict.oe is Some
{
    let rev = dict.r; let u = dict.u.view(); let o = dict.o.view(); let e = Seq::<u8>::empty();
    if hash56(rev, pw, u.subrange(32, 40), e) == u.subrange(0, 32) {
        Some((hash56(rev, pw, u.subrange(40, 48), e), dict.ue->0.view()))
    } else if hash56(rev, pw, o.subrange(32, 40), u) == o.subrange(0, 32) {
        Some((hash56(rev, pw, o.subrange(40, 48), u), dict.oe->0.view()))
    } else { None }
}
pub open spec fn is_invalid_password(e: PdfError) -> bool {
    e is InvalidPassword || (e matches PdfError::Try { source } && *source is InvalidPassword)
}
pub open spec fn zeros16() -> Seq<u8> { Seq::new(16, |i: int| 0u8) }
/// rounds_up in the implementation's order equals Algorithm 7 step b)
pub proof fn lemma_alg7(rev: u32, k: Seq<u8>, o: Seq<u8>, rounds: int)
    ensures rounds == (if rev == 2 { 1int } else { 20int }) ==> rounds_up(k, o, rounds) == alg7_user_password(rev, k, o)
{
    lemma_up_is_down(k, o, rounds);
    if rev == 2 && rounds == 1 {
        lemma_xor_zero(k);
        assert(alg7_down(k, rc4(xor_key(k, 0u8), o), 0) == rc4(xor_key(k, 0u8), o));
        assert(alg7_down(k, o, 1) == rc4(k, o));
    }
}
pub proof fn lemma_concat_empty(a: Seq<u8>)
    ensures Seq::<u8>::empty() + a =~= a, a + Seq::<u8>::empty() =~= a
{}
pub proof fn lemma_empty_literal()
    ensures ""@.len() == 0
{ reveal_strlit(""); }
pub open spec fn fresh_decoder(d: Decoder, dict: CryptDict) -> bool {
    d.encrypt_indirect_object is None && d.metadata_indirect_object is None && d.encrypt_metadata == dict.encrypt_metadata
}


// ---- the postconditions of from_password ----
pub open spec fn post_key_size_selection(dict: CryptDict, r: Result<Decoder>) -> bool {
    match r {
        Err(_) => true,
        Ok(d) => match iso_selection(dict) {
            None => false,
            Some(sel) => method_code(d.method) == sel.1
                && ((dict.r <= 4 && sel.0 <= u32::MAX) ==> d.key_size == sel.0 / 8)   // n = Length / 8
                && (dict.r >= 5 ==> d.key_size == 32),                                   // Algorithm 2.A: 32-byte file key
        },
    }
}
/// C06: "opening it with the correct user or owner password ...; a wrong password is rejected with an
/// invalid-password error" -- R2..R4, key length within the range of Table 20 (40..128 bits; 8..32 also covered)
pub open spec fn post_rc4_login(dict: CryptDict, id: Seq<u8>, pass: Seq<u8>, r: Result<Decoder>) -> bool {
    match iso_selection(dict) {
        None => true,
        Some(sel) => (2 <= dict.r <= 4 && 8 <= sel.0 <= 128) ==> {
            let n = (sel.0 / 8) as usize;
            match rc4_login(dict, id, pass, n) {
                Some(h) => r matches Ok(d) && d.key@.subrange(0, 16) == h && d.file_key() == h.subrange(0, n as int) && fresh_decoder(d, dict),
                None => r matches Err(e) && e is InvalidPassword,
            }
        },
    }
}
pub open spec fn aes_dict_ok(dict: CryptDict) -> bool {
    5 <= dict.r <= 6 && iso_selection(dict) is Some && dict.u.view().len() == 48 && dict.o.view().len() == 48
}
pub open spec fn post_aes_login(dict: CryptDict, pass: Seq<u8>, r: Result<Decoder>) -> bool {
    (aes_dict_ok(dict) && dict.ue is Some && dict.oe is Some) ==> match prep_utf8(pass) {
        None => r matches Err(e) && is_invalid_password(e),
        Some(pw) => match aes_login(dict, pw) {
            None => r matches Err(e) && is_invalid_password(e),
            Some(kw) => match aes256_cbc_nopad(kw.0, zeros16(), kw.1) {
                None => r matches Err(e) && is_invalid_password(e),
                // Table 21: "UE / OE: 32-byte string" -- anything else cannot hold a 32-byte file key
                Some(k) => if kw.1.len() == 32 { r matches Ok(d) && d.key@ == k && fresh_decoder(d, dict) } else { r is Err },
            },
        },
    }
}
// ---- L0 helpers (R7) of from_password (same as in unit `decrypt`) ----
/// `m.get(k).ok_or_else(|| other!(..))`
#[verifier::external_body]
fn hoist_cf_get<'a>(m: &'a HashMap<Name, CryptFilter>, k: &str) -> (r: Result<&'a CryptFilter>)
    ensures match cf_lookup(*m, k@) { Some(cf) => r matches Ok(x) && *x == cf, None => r is Err }
{ unimplemented!() }
#[verifier::external_body]
fn hoist_range_incl_contains(lo: u32, hi: u32, x: &u32) -> (r: bool)
    ensures r == (lo <= *x <= hi)
{ (lo..=hi).contains(x) }
/// b"..." byte-string literal, kept verbatim in the text as a str literal (Verus has no byte-string literals)
#[verifier::external_body]
fn hoist_bstr(s: &'static str) -> (r: &'static [u8])
    ensures r@.len() == s@.len(), forall|i: int| 0 <= i < s@.len() ==> r@[i] == s@[i] as u8,
            s@.len() == 0 ==> r@ == Seq::<u8>::empty()
{ s.as_bytes() }
/// `opt.ok_or_else(|| PdfError::MissingEntry { .. })`
#[verifier::external_body]
fn hoist_ok_or_missing<'a>(opt: Option<&'a PdfString>) -> (r: Result<&'a PdfString>)
    ensures match opt { Some(x) => r matches Ok(y) && *y == *x, None => r is Err }
{ unimplemented!() }
/// `String::from_utf8(pass.to_vec()).map_err(|_| PdfError::InvalidPassword)` then
/// `stringprep::saslprep(&s).map_err(|_| PdfError::InvalidPassword)`: the prepared password (a Cow<str>)
#[verifier::external_body]
pub struct Prepped {}
impl Prepped {
    pub uninterp spec fn view(&self) -> Seq<u8>;
    #[verifier::external_body]
    pub fn as_bytes(&self) -> (r: &[u8]) ensures r@ == self.view() { unimplemented!() }
}
#[verifier::external_body]
fn hoist_from_utf8(pass: &[u8]) -> (r: Result<String>)
    ensures match utf8_spec(pass@) { Some(cs) => r matches Ok(st) && st@ == cs, None => r matches Err(e) && e is InvalidPassword }
{ String::from_utf8(pass.to_vec()).map_err(|_| PdfError::InvalidPassword) }
#[verifier::external_body]
fn hoist_saslprep(s: &String) -> (r: Result<Prepped>)
    ensures match saslprep_spec(s@) { Some(b) => r matches Ok(p) && p.view() == b, None => r matches Err(e) && e is InvalidPassword }
{ unimplemented!() /* stringprep::saslprep(s).map_err(|_| PdfError::InvalidPassword) */ }
/// `<[u8; 32]>::into()` -> GenericArray
#[verifier::external_body]
fn hoist_ga_from_array(a: [u8; 32]) -> (r: GenericArray) ensures r.view() == a@ { unimplemented!() }
/// `Aes256CbcDec::new(key, iv).decrypt_padded_mut::<NoPadding>(buf).map_err(|_| PdfError::InvalidPassword)`
#[verifier::external_body]
fn hoist_aes256_nopad<'a>(key: &GenericArray, iv: &GenericArray, buf: &'a mut Vec<u8>) -> (r: Result<&'a [u8]>)
    ensures match aes256_cbc_nopad(key.view(), iv.view(), old(buf)@) {
        Some(p) => r matches Ok(d) && d@ == p && p.len() == old(buf)@.len(),
        None => r matches Err(e) && e is InvalidPassword }
{ unimplemented!() }
/// `<&[u8]>::into()` -> Vec<u8>
#[verifier::external_body]
fn hoist_vec_from_slice(s: &[u8]) -> (r: Vec<u8>) ensures r@ == s@ { s.into() }

impl Decoder {
//@@ Decoder::revision_6_kdf
//@@ Decoder::new
//@@ Decoder::from_password
//@@ Decoder::default
}

// =====================================================================================================
// Installation of the decoder: Storage::load_storage_and_trailer_password (pdf/src/file.rs)
// C06 anchor "decoder installed from trailer /Encrypt and /ID". ISO 32000-1 7.6.1: the Encrypt entry of the trailer;
// Algorithm 2 e): "the first element of the file's file identifier array (the value of the ID entry in the document's
// trailer dictionary)"; 7.6.1: "strings in the encryption dictionary" are not encrypted; Table 20 EncryptMetadata.
// =====================================================================================================
#[verifier::external_body] pub struct PdfStream { _p: () }
#[verifier::external_body] pub struct SmallString { _p: () }
#[verifier::external_body] pub struct XRefTable { _p: () }
#[verifier::external_body] pub struct ParseOptions { _p: () }
/// primitive.rs: an IndexMap<Name, Primitive>; modelled by the map of its entries
#[verifier::external_body] pub struct Dictionary { _p: () }
//@@ enum Primitive
pub type DMap = Map<Seq<char>, Primitive>;
pub uninterp spec fn entries(d: Dictionary) -> DMap;
impl Dictionary {
    pub open spec fn view(&self) -> DMap { entries(*self) }
    /// abstract callee Dictionary::get (primitive.rs:130, IndexMap::get)
    #[verifier::external_body]
    pub fn get(&self, key: &str) -> (r: Option<&Primitive>)
        ensures match r { Some(p) => self@.dom().contains(key@) && *p == self@[key@], None => !self@.dom().contains(key@) }
    { unimplemented!() }
}
/// what a resolver sees: the storage it was made from (cross-reference table, backend, decoder, caches)
#[verifier::external_body] pub struct Store { _p: () }
/// reading an object through a resolver (unit `guard`: StorageResolver::resolve)
pub uninterp spec fn lookup(st: Store, r: PlainRef) -> Result<Primitive>;
/// the derived reader `CryptDict::from_primitive` (pdf_derive; unit `expansions` covers derived readers)
pub uninterp spec fn cryptdict_reads(p: Primitive, st: Store) -> Result<CryptDict>;
#[verifier::external_body] pub struct StorageResolver { _p: () }
impl StorageResolver {
    pub uninterp spec fn store(&self) -> Store;
    #[verifier::external_body]
    pub fn new<B: Backend, OC, SC, L>(storage: &Storage<B, OC, SC, L>) -> (r: StorageResolver)
        ensures r.store() == storage.store()
    { unimplemented!() }
    #[verifier::external_body]
    pub fn resolve(&self, r: PlainRef) -> (res: Result<Primitive>)
        ensures res == lookup(self.store(), r)
    { unimplemented!() }
}
impl Primitive {
    /// abstract callees in primitive.rs (one `match` each): as_array, as_string, resolve, into_dictionary, clone
    #[verifier::external_body]
    pub fn as_array(&self) -> (r: Result<&[Primitive]>)
        ensures match *self { Primitive::Array(v) => r matches Ok(s) && s@ == v@, _ => r is Err }
    { unimplemented!() }
    #[verifier::external_body]
    pub fn as_string(&self) -> (r: Result<&PdfString>)
        ensures match *self { Primitive::String(st) => r matches Ok(x) && *x == st, _ => r is Err }
    { unimplemented!() }
    #[verifier::external_body]
    pub fn resolve(self, r: &StorageResolver) -> (res: Result<Primitive>)
        ensures res == (match self { Primitive::Reference(id) => lookup(r.store(), id), _ => Ok(self) })
    { unimplemented!() }
    #[verifier::external_body]
    pub fn into_dictionary(self) -> (r: Result<Dictionary>)
        ensures match self { Primitive::Dictionary(d) => r == Ok::<Dictionary, PdfError>(d), _ => r is Err }
    { unimplemented!() }
}
impl Clone for Primitive {
    #[verifier::external_body]
    fn clone(&self) -> (r: Primitive) ensures r == *self { unimplemented!() }
}
impl CryptDict {
    #[verifier::external_body]
    pub fn from_primitive(p: Primitive, resolve: &StorageResolver) -> (r: Result<CryptDict>)
        ensures r == cryptdict_reads(p, resolve.store())
    { unimplemented!() }
}
/// `slice.get(i)`
#[verifier::external_body]
fn hoist_get<T>(s: &[T], i: usize) -> (r: Option<&T>)
    ensures match r { Some(x) => i < s@.len() && *x == s@[i as int], None => s@.len() <= i }
{ s.get(i) }
pub trait Backend {
    /// backend.rs: the newest cross-reference table and the trailer dictionary (units xrefread / xrefchain)
    spec fn xref_and_trailer(&self, start_offset: usize, st: Store) -> Result<(XRefTable, Dictionary)>;
    fn read_xref_table_and_trailer(&self, start_offset: usize, resolve: &StorageResolver) -> (r: Result<(XRefTable, Dictionary)>)
        ensures r == self.xref_and_trailer(start_offset, resolve.store());
}
//@@ struct Storage
pub uninterp spec fn storage_store<B, OC, SC, L>(s: Storage<B, OC, SC, L>) -> Store;

/// "the first element of the file's file identifier array": /ID [ (string) ... ]
pub open spec fn first_id(trailer: Dictionary) -> Option<Seq<u8>> {
    if !trailer@.dom().contains("ID"@) { None }
    else { match trailer@["ID"@] {
        Primitive::Array(v) => if v@.len() == 0 { None } else { match v@[0] { Primitive::String(st) => Some(st.view()), _ => None } },
        _ => None } }
}
/// the reference behind an entry, if the entry is an indirect reference
pub open spec fn entry_ref(d: Dictionary, key: Seq<char>) -> Option<PlainRef> {
    if !d@.dom().contains(key) { None } else { match d@[key] { Primitive::Reference(r) => Some(r), _ => None } }
}
/// the catalog dictionary as the code reaches it: the object behind /Root, one more indirection followed
pub open spec fn catalog_of(st: Store, c: PlainRef) -> Option<Dictionary> {
    match lookup(st, c) {
        Ok(Primitive::Dictionary(d)) => Some(d),
        Ok(Primitive::Reference(c2)) => match lookup(st, c2) { Ok(Primitive::Dictionary(d)) => Some(d), _ => None },
        _ => None,
    }
}
/// the decoder as from_password returned it: without the two exemption references
pub open spec fn unexempt(d: Decoder) -> Decoder {
    Decoder { key_size: d.key_size, key: d.key, method: d.method, encrypt_indirect_object: None, metadata_indirect_object: None,
              encrypt_metadata: d.encrypt_metadata }
}
pub open spec fn with_refs<B, OC, SC, L>(s: Storage<B, OC, SC, L>, refs: XRefTable) -> Storage<B, OC, SC, L> {
    Storage { refs: refs, ..s }
}
pub open spec fn with_decoder<B, OC, SC, L>(s: Storage<B, OC, SC, L>, d: Decoder) -> Storage<B, OC, SC, L> {
    Storage { decoder: Some(d), ..s }
}
/// the decoder at the time the catalog is read: /Encrypt exemption installed, /Metadata exemption not yet
pub open spec fn before_metadata(d: Decoder) -> Decoder {
    Decoder { key_size: d.key_size, key: d.key, method: d.method, encrypt_indirect_object: d.encrypt_indirect_object,
              metadata_indirect_object: None, encrypt_metadata: d.encrypt_metadata }
}
impl<B: Backend, OC, SC, L> Storage<B, OC, SC, L> {
    pub open spec fn store(&self) -> Store { storage_store(*self) }
//@@ Storage::load_storage_and_trailer_password
}

}
fn main(){}
